import Artela.Model.Base
/-
  Specification side of C09 — Solidity's storage layout, written independently of the code's expressions.
-/
namespace Artela

/-- the bytes Solidity's packed layout assigns to `(offset, width)` inside a 32-byte storage word:
    the field occupies bits `[8·offset, 8·(offset+width))` counted from the low-order end, big-endian. -/
def solPacked (w : Word) (off width : Nat) : Bytes :=
  beBytes width ((w / 256 ^ off) % 256 ^ width)

/-- a `(offset, width)` pair denotes a valid packed field -/
def validPacked (off width : Nat) : Prop := off ≤ 31 ∧ width ≤ 32 ∧ off + width ≤ 32

instance (off width : Nat) : Decidable (validPacked off width) := by unfold validPacked; infer_instance

/-- the data slots of a long string: slot `keccak(pad32 slot) + i` (mod 2^256) for `i < n`, concatenated -/
def solDataArea (st : Word → Word) (k : Word) : Nat → Bytes
  | 0 => []
  | n + 1 => solDataArea st k n ++ beBytes 32 (st ((k + n) % W256) % W256)

/-- content of the `bytes`/`string` stored at `slot`, or `none` if the length word is not a valid encoding.
    Long form: lowest bit set, `len = (w-1)/2 ≥ 32`, data at `keccak(pad32 slot)…` (enough slots: `len/32+1`).
    Short form: lowest bit clear, `len = (w mod 256)/2 < 32`, data in the high-order bytes of the word itself. -/
def solString (st : Word → Word) (keccak : Bytes → Word) (slot : Word) : Option Bytes :=
  let w := st slot
  if w % 2 = 1 then
    let len := (w - 1) / 2
    if len ≥ 32 then some ((solDataArea st (keccak (beBytes 32 (slot % W256))) (len / 32 + 1)).take len) else none
  else
    let len := (w % 256) / 2
    if len < 32 then some ((beBytes 32 (w % W256)).take len) else none

end Artela
