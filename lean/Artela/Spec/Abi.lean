import Artela.Model.Base
/-  Specification side of C14 — the standard ABI encoding of a dynamic `bytes` argument, written without machine arithmetic. -/
namespace Artela

/-- the `bytes` value whose head word is slot `i` of `input`: head word `o`, length word `n` at `o`,
    value `input[o+32, o+32+n)`, everything inside the payload (sums are exact: no wrap-around) -/
def abiBytes (input : Bytes) (i : Nat) : Option Bytes :=
  if 32 * i + 32 ≤ input.length then
    let o := beNat (input.extract (32 * i) (32 * i + 32))
    if o + 32 ≤ input.length then
      let n := beNat (input.extract o (o + 32))
      if o + 32 + n ≤ input.length then some (input.extract (o + 32) (o + 32 + n)) else none
    else none
  else none

end Artela
