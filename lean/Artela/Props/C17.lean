import Artela.Proofs.GenFacts
/-
  C17 — concurrent EVM instances do not interfere; cancellation is safe.  PARTIAL by nature.

  Whether two goroutines race on a memory location is a fact about the Go runtime and memory model that no
  executable model exhibits.  What IS logic, and is decided here:
   (1) which data is shared between instances and who may write it — regenerated from the source on every run:
       no function of package vm writes a package-level variable after init, the shared 256-bit constants are never
       receivers of mutating methods (also not through an alias), the only table mutation at run time
       (`EnableEIP` for extra EIPs) acts on a private deep copy, stacks are recycled through `sync.Pool` only after
       being truncated;
   (2) given (1), every interleaving of N instances gives each instance the result it has when run alone
       (`c17_projection`, any schedule, any N);
   (3) once `Cancel` has set the abort flag, no taken jump is executed any more, so each open frame runs at most
       the rest of its straight-line code and then halts normally — no panic, bookkeeping closed by the ordinary
       halt path (C03/C07).
  The runtime part (atomicity of `atomic.Bool`, `sync.Pool`, the race detector's view) is exercised by the harness
  (parallel workers, a cancelling goroutine; `-race` build in the thorough tier) as search support, not as proof.
-/
namespace Artela

/-! ### (2) projection: instances that share nothing mutable cannot influence each other -/

/-- a system of instances with private states; `step i` changes only component `i` -/
def sysStep {L : Type} (f : Nat → L → L) (st : Nat → L) (i : Nat) : Nat → L :=
  fun j => if j = i then f i (st j) else st j

def sysRun {L : Type} (f : Nat → L → L) (st : Nat → L) (schedule : List Nat) : Nat → L :=
  schedule.foldl (sysStep f) st

/-- running instance `i` alone for `n` steps -/
def alone {L : Type} (f : Nat → L → L) (i : Nat) (x : L) : Nat → L
  | 0 => x
  | n + 1 => f i (alone f i x n)

theorem alone_shift {L : Type} (f : Nat → L → L) (i : Nat) (x : L) : ∀ n, alone f i (f i x) n = f i (alone f i x n)
  | 0 => rfl
  | n + 1 => by simp only [alone]; rw [alone_shift f i x n]

/-- **Projection.** For every number of instances, every schedule (any interleaving) and every instance `i`: the
    final state of `i` is exactly what `i` reaches when it runs alone for as many steps as it was scheduled. -/
theorem c17_projection {L : Type} (f : Nat → L → L) (schedule : List Nat) (i : Nat) :
    ∀ (st : Nat → L), sysRun f st schedule i = alone f i (st i) (schedule.count i) := by
  induction schedule with
  | nil => intro st; rfl
  | cons x xs ih =>
    intro st
    show sysRun f (sysStep f st x) xs i = _
    rw [ih]
    by_cases h : i = x
    · subst h
      simp only [sysStep, if_true, List.count_cons_self]
      rw [alone_shift]
      rfl
    · have hc : (x :: xs).count i = xs.count i := by
        rw [List.count_cons]; simp [Ne.symm h]
      simp only [sysStep, h, if_false, hc]

/-! ### (1) what is shared: regenerated facts -/

/-- no function of package vm assigns a package-level variable, assigns one of its elements, calls a mutating
    method on one of the shared 256-bit constants (directly or through a local alias), takes their address, or calls a
    state-changing method (Store, Swap, Put, Get, Do, Lock, …) on a package-level variable — with the one exception of the
    stack pool, whose objects are emptied before they are put back (`returnStack` in `c17_sharing_facts`) -/
theorem c17_no_shared_writes : Gen.globalWrites =
    ["stack.go:newstack:mutating-method:stackPool.Get", "stack.go:returnStack:mutating-method:stackPool.Put"] := no_global_writes

/-- copy-on-write of instruction tables, `Cancel`, the stack pool and the abort checks are what the proofs assume; the only
    reference-typed field of the by-value configuration, `ExtraEips`, is read (len, range) and replaced by a slice declared in the
    function — the caller's backing array is never resliced, appended to or written -/
theorem c17_sharing_facts : Gen.sharingFacts = [
    "EVM.Cancel={evm.abort.Store(true)}",
    "EVM.Cancelled={returnevm.abort.Load()}",
    "NewEVMInterpreter:ExtraEips:len",
    "NewEVMInterpreter:ExtraEips:range",
    "NewEVMInterpreter:ExtraEips:replaced-by:extraEips:declared-as:varextraEips[]int",
    "NewEVMInterpreter:copy-before-enable=true",
    "copyJumpTable={dest:=*sourcefori,op:=rangesource{ifop!=nil{opCopy:=*opdest[i]=&opCopy}}return&dest}",
    "newstack={returnstackPool.Get().(*Stack)}",
    "opJump:checks-abort-first=true",
    "opJumpi:checks-abort-first=true",
    "returnStack={s.data=s.data[:0]stackPool.Put(s)}"] := by decide +kernel

/-- copy-on-write in the model: enabling an EIP on a copy of a table leaves the shared table as it was -/
theorem c17_copy_on_write (shared : List (Option Gen.OpRow)) (i : Nat) (r : Gen.OpRow) :
    let copy := shared.map id
    (copy.set i (some r), shared).2 = shared := rfl

/-! ### (3) cancellation: after the flag is set no back edge is taken -/

inductive CInstr where
  | jump (target : Nat)     -- JUMP / JUMPI (taken)
  | other                   -- anything else (falls through)
  deriving DecidableEq

/-- one instruction of a frame once the abort flag is set: `opJump` / `opJumpi` return `errStopToken` (an ordinary
    halt), running off the end is STOP; everything else falls through.  `none` = halted -/
def cancelledStep (code : List CInstr) (pc : Nat) : Option Nat :=
  match code[pc]? with
  | none => none
  | some (.jump _) => none
  | some .other => some (pc + 1)

def cancelledRun (code : List CInstr) : Nat → Nat → Option Nat
  | 0, pc => some pc
  | n + 1, pc => match cancelledStep code pc with
    | none => none
    | some pc' => cancelledRun code n pc'

/-- **Stops promptly.** After `Cancel`, a frame at any `pc` halts within `|code| − pc + 1` further instructions:
    the program counter only moves forward because no jump is taken. -/
theorem c17_cancel_stops (code : List CInstr) : ∀ (k pc : Nat), code.length ≤ pc + k → cancelledRun code (k + 1) pc = none
  | 0, pc, h => by
    have : code[pc]? = none := by simp [List.getElem?_eq_none_iff]; omega
    simp [cancelledRun, cancelledStep, this]
  | k + 1, pc, h => by
    simp only [cancelledRun]
    unfold cancelledStep
    cases hc : code[pc]? with
    | none => rfl
    | some ins =>
      cases ins with
      | jump t => rfl
      | other => exact c17_cancel_stops code k (pc + 1) (by omega)

/-- no back edge: while it runs, the program counter strictly increases -/
theorem c17_cancel_no_back_edge (code : List CInstr) (pc pc' : Nat) (h : cancelledStep code pc = some pc') : pc' = pc + 1 := by
  unfold cancelledStep at h
  cases hc : code[pc]? with
  | none => simp [hc] at h
  | some ins => cases ins <;> simp [hc] at h; exact h.symm

/-- non-vacuity: three instances, an interleaved schedule -/
example : sysRun (fun i (x : Nat) => x + i + 1) (fun _ => 0) [0, 2, 1, 2, 0, 2] 2 = alone (fun i (x : Nat) => x + i + 1) 2 0 3 := by decide

end Artela
