import Artela.Proofs.FrameTree
/-
  C08 — the call tree records every call attempt with inputs as made and outcome as seen.
-/
namespace Artela
open Frame CallTree

/-- **Every attempt, refused or not, pushes exactly one node with the inputs as made.** Right after `EVM.Call` is
    invoked the tree holds, at the next free index, a node with this call's caller, target, value, supplied gas and
    calldata (the model stores the bytes themselves: that the implementation keeps a copy and not a view of the
    caller's memory is what the correspondence checks after the whole transaction). -/
theorem c08_attempt_recorded (t : CallTree) (hwf : WF t) (caller : Addr) (to : Option Addr) (input : Bytes) (value gas : Nat) :
    (t.add caller to input value gas).nodes[t.count]? = some (mkNode caller to input value gas t.count t.current) ∧
    (t.add caller to input value gas).count = t.count + 1 := by
  refine ⟨?_, rfl⟩
  rw [add_nodes, hwf.count_eq]; simp

/-- **Nothing later alters the recorded inputs, the index or the parent** — for every continuation of the
    execution (`Stable` is preserved by every tracer operation the frame layer performs). -/
theorem c08_inputs_immutable (t : CallTree) (ops : List Op) (i : Nat) (n : CallNode) (h : t.nodes[i]? = some n) :
    ∃ n', (t.run ops).nodes[i]? = some n' ∧ n'.frm = n.frm ∧ n'.to = n.to ∧ n'.data = n.data ∧ n'.value = n.value ∧
      n'.gas = n.gas ∧ n'.parent = n.parent ∧ n'.index = n.index := by
  obtain ⟨n', h1, hp, hi, hf, ht, hd, hv, hg⟩ := run_stable t ops i n h
  exact ⟨n', h1, hf, ht, hd, hv, hg, hp, hi⟩

/-- **Outcome as handed back.** When an invocation that pushed a node returns, the node receives exactly the triple
    (return data, error, leftover gas) that the caller receives. -/
theorem c08_outcome_as_handed_back (st : FState) (k : CallKind) (c t : Addr) (gs : Nat) (dbg top : Bool) (sg : Nat)
    (r : Option Bytes) (g : Nat) (e : Option String) (w en sn : List Effect) (ran : Bool) :
    (finish st k c t gs true dbg top sg r g e w en sn ran).tracer = st.tracer.exitCall g r e ∧
    (finish st k c t gs true dbg top sg r g e w en sn ran).results.getLast? =
      some { kind := k, caller := c, to := t, ret := r, gas := g, err := e, gasSupplied := gs, worldAtEntry := en,
             worldAtSnapshot := sn, worldAfter := w, ranCode := ran } := by
  constructor
  · rfl
  · simp [finish]

/-- the exit writes the triple on the node the cursor points at and on no other -/
theorem c08_exit_writes_current (t : CallTree) (c : Nat) (n : CallNode) (l : Nat) (r : Option Bytes) (e : Option String)
    (hc : t.current = some c) (hn : t.nodes[c]? = some n) :
    (t.exit l r e).nodes[c]? = some { n with remGas := l, ret := r, err := e } ∧
    ∀ j, j ≠ c → (t.exit l r e).nodes[j]? = t.nodes[j]? := by
  unfold exit
  simp only [hc, hn]
  constructor
  · simp [List.getElem?_modify, hn, setResult]
  · intro j hj
    rw [List.getElem?_modify]
    have : ¬ (c = j) := fun h => hj h.symm
    simp [this]

/-- program order under the issuing frame: the parent of the node pushed for an attempt is the node of the innermost
    CALL / CREATE frame in progress (or none at top level) -/
theorem c08_parent_is_issuing_frame (evs : List FEvent) (caller : Addr) (to : Option Addr) (input : Bytes) (value gas : Nat) :
    (((run {} evs).tracer.tree.add caller to input value gas).nodes[(run {} evs).tracer.tree.count]?).map (·.parent) =
      some (cursorOf (run {} evs).stack none) := by
  have hwf := (run_tree none {} evs fullInv_init).1.1
  have hc := (run_tree none {} evs fullInv_init).1.2.1
  rw [(c08_attempt_recorded _ hwf caller to input value gas).1]
  simp [mkNode, hc]

end Artela
