import Artela.Props.C07Frame
import Artela.Props.C10
/-
  C10 (frame part) — which account and which call a journal instruction files its entry under.

  Over the frame machine (every event sequence): a journal instruction executed by the running frame passes the
  frame's storage address — the callee for `Call`, `StaticCall` and `create`, the CALLER's own address for `CallCode`
  and `DelegateCall` (the borrowed code writes the borrower's storage, so the entry belongs to the borrower) — and
  the entry is filed under the call-tree node of the innermost CALL/CREATE frame in progress, whatever number of
  CallCode/DelegateCall/StaticCall frames (which push no node) sit on top of it.
-/
namespace Artela
open Frame CallTree

/-- storage context the EVM gives a frame of each kind -/
def storageContext (kind : CallKind) (caller to : Addr) : Addr :=
  match kind with
  | .callcode | .delegatecall => caller
  | _ => to

/-- the frame `EVM.Call` opens (if it opens one) runs in the callee's storage context -/
theorem c10_call_frame_account (st : FState) (caller to : Addr) (value : Nat) (input : Bytes) (gas : Nat) (f : EnterFacts) :
    ∀ fr ∈ (enterCall st caller to value input gas f).stack, fr ∈ st.stack ∨ (fr.storageAddr = to ∧ fr.treeNode = true) := by
  intro fr hfr
  unfold enterCall at hfr
  simp only at hfr
  split at hfr
  · exact Or.inl hfr
  · split at hfr
    · exact Or.inl hfr
    · split at hfr
      · exact Or.inl hfr
      · split at hfr
        · exact Or.inl hfr
        · split at hfr
          · exact Or.inl hfr
          · split at hfr
            · split at hfr
              · exact Or.inl hfr
              · simp only [List.mem_cons] at hfr
                rcases hfr with h | h
                · exact Or.inr (by subst h; exact ⟨rfl, rfl⟩)
                · exact Or.inl h
            · simp only [List.mem_cons] at hfr
              rcases hfr with h | h
              · exact Or.inr (by subst h; exact ⟨rfl, rfl⟩)
              · exact Or.inl h

/-- `CallCode` / `DelegateCall` frames run in the caller's storage context, `StaticCall` frames in the callee's; none
    of them pushes a call-tree node -/
theorem c10_other_frame_account (st : FState) (kind : CallKind) (caller to : Addr) (value : Nat) (input : Bytes) (gas : Nat) (f : EnterFacts)
    (hk : kind = .callcode ∨ kind = .delegatecall ∨ kind = .staticcall) :
    ∀ fr ∈ (enterOther st kind caller to value input gas f).stack,
      fr ∈ st.stack ∨ (fr.storageAddr = storageContext kind caller to ∧ fr.treeNode = false) := by
  intro fr hfr
  unfold enterOther at hfr
  simp only at hfr
  split at hfr
  · exact Or.inl hfr
  · split at hfr
    · exact Or.inl hfr
    · split at hfr
      · exact Or.inl hfr
      · split at hfr
        · exact Or.inl hfr
        · simp only [List.mem_cons] at hfr
          rcases hfr with h | h
          · refine Or.inr ?_
            subst h
            rcases hk with hk | hk | hk <;> subst hk <;> exact ⟨rfl, rfl⟩
          · exact Or.inl h

/-- the frame `create` opens runs in the new contract's storage context -/
theorem c10_create_frame_account (st : FState) (kind : CallKind) (caller to : Addr) (value : Nat) (input : Bytes) (gas : Nat) (f : EnterFacts) :
    ∀ fr ∈ (enterCreate st kind caller to value input gas f).stack, fr ∈ st.stack ∨ (fr.storageAddr = to ∧ fr.treeNode = true) := by
  intro fr hfr
  unfold enterCreate at hfr
  simp only at hfr
  split at hfr
  · exact Or.inl hfr
  · split at hfr
    · exact Or.inl hfr
    · split at hfr
      · exact Or.inl hfr
      · split at hfr
        · exact Or.inl hfr
        · simp only [List.mem_cons] at hfr
          rcases hfr with h | h
          · exact Or.inr (by subst h; exact ⟨rfl, rfl⟩)
          · exact Or.inl h

/-- a journal instruction of the running frame passes that frame's storage address to the tracer -/
theorem c10_journal_passes_frame_account (st : FState) (fr : OpenFrame) (rest : List OpenFrame) (slot : Word) (off : Option Word)
    (ty : Word) (v : Bytes) (hs : st.stack = fr :: rest) :
    (Frame.step st (.jchange slot off ty v)).tracer = (st.tracer.saveStateChange fr.storageAddr slot off ty v).1 := by
  simp only [Frame.step, hs]

/-- **attribution to the call in progress, every event sequence**: after any history of the frame machine, a change
    journaled now is filed under the node of the innermost CALL/CREATE frame in progress (0 when no such frame is open) -/
theorem c10_filed_under_innermost_node_frame (evs : List FEvent) (a : Addr) (slot : Word) (off : Option Word) (ty : Word) (v : Bytes) :
    ((run {} evs).tracer.saveStateChange a slot off ty v).1.states =
      ((run {} evs).tracer.states.saveChange a slot off ty ((cursorOf (run {} evs).stack none).getD 0) v).1 := by
  rw [(c10_index_is_cursor _ a slot off ty v).1]
  unfold CallTree.currentIndex
  rw [c07_cursor_is_innermost_node_frame evs]

/-- non-vacuity: a DELEGATECALL frame on top of a CALL frame journals under the CALL frame's node and the borrower's address -/
example :
    let evs : List FEvent := [ .enter .call 0xca 0xc0 0 [] 1000 {}, .enter .delegatecall 0xc0 0xd1 0 [] 500 {} ]
    (run {} evs).stack.map (fun fr => (fr.storageAddr, fr.treeNode)) = [(0xc0, false), (0xc0, true)] ∧
    cursorOf (run {} evs).stack none = some 0 := by decide +kernel

end Artela
