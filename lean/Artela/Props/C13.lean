import Artela.Proofs.ChangeMapKit
/-
  C13 — the balance journal brackets every value transfer with the true balances (tracer part).

  `Tracer.transferRecord` is `TransferWithRecord` given the four balances it reads from the StateDB (before/after
  the host's `Transfer`).  Here: the order and the index of the four records and the list law of an account's
  balance record.  That the four numbers ARE the state balances at those instants is by construction of the call
  (the correspondence feeds the model the balances a wrapping `Transfer` really observed), and that `Call`/`create`
  invoke it exactly once per frame that reaches the transfer belongs to the frame layer.
-/
namespace Artela
open StateChanges

/-- the record of one transfer: before-from, before-to, after-from, after-to, in that order, all under the call-tree
    index of the frame in progress — including `from = to` and a zero value -/
theorem c13_transfer_record (t : Tracer) (frm to : Addr) (bf bt af at_ : Nat) :
    (t.transferRecord frm to bf bt af at_).states =
      ((((t.states.saveBalance frm bf t.tree.currentIndex).saveBalance to bt t.tree.currentIndex).saveBalance frm af
        t.tree.currentIndex).saveBalance to at_ t.tree.currentIndex) ∧
    (t.transferRecord frm to bf bt af at_).tree = t.tree := ⟨rfl, rfl⟩

/-- one balance observation touches only the root node of that account: it journals the minimal big-endian bytes
    of the balance under the given index; the flat index is untouched and so is every non-root key -/
theorem c13_saveBalance_local (s : StateChanges) (a : Addr) (b i : Nat) :
    ∃ r, (alookup a (s.ensureRoot a).1.roots = some r ∨ r = s.keys.length) ∧
      (s.saveBalance a b i).keys = (s.ensureRoot a).1.keys.modify (s.ensureRoot a).2 (fun k => k.journal i (minimalBytes b)) ∧
      (s.saveBalance a b i).index = s.index ∧ (s.saveBalance a b i).raw = s.raw := by
  unfold saveBalance ensureRoot
  cases h : alookup a s.roots with
  | some r => exact ⟨r, Or.inl (by simp [h]), by simp [h], by simp [h], by simp [h]⟩
  | none => exact ⟨s.keys.length, Or.inr rfl, by simp [h], by simp [h], by simp [h]⟩

/-- the list law of a balance record: an observation equal to the last recorded value of that call is recorded once -/
theorem c13_balance_list_law (k : KeyNode) (i b : Nat) (hne : ∀ m, k.changes = some m → m.NonEmpty) :
    ((k.journal i (minimalBytes b)).changes.getD []).at i = appendDedup ((k.changes.getD []).at i) (minimalBytes b) ∧
    (∀ j, j ≠ i → ((k.journal i (minimalBytes b)).changes.getD []).at j = (k.changes.getD []).at j) := by
  unfold KeyNode.journal
  cases hc : k.changes with
  | none =>
    simp only [Option.getD_some, Option.getD_none]
    exact ⟨changeMap_append_at [] i _ (fun l h => by simp [alookup] at h), fun j hj => changeMap_append_other [] i j _ hj⟩
  | some m =>
    simp only [Option.getD_some]
    exact ⟨changeMap_append_at m i _ (fun l h => hne m hc i l h), fun j hj => changeMap_append_other m i j _ hj⟩

/-- a root node stays a root node when a balance is journaled on it (it never turns into a data node) -/
theorem c13_root_stays_root (k : KeyNode) (i : Nat) (v : Bytes) (h : k.nodeType = .root) : (k.journal i v).nodeType = .root := by
  unfold KeyNode.journal
  cases k.changes <;> simp [h]

/-- instances: a transfer of 3 from an account holding 10 to one holding 0 in a fresh tracer, then a self-transfer -/
example :
    let t := (Tracer.empty.transferRecord 0xa1 0xa2 10 0 7 3)
    t.states.balance 0xa1 = some (some [(0, [[10], [7]])]) ∧ t.states.balance 0xa2 = some (some [(0, [[], [3]])]) :=
  ⟨by decide +kernel, by decide +kernel⟩

example : (Tracer.empty.transferRecord 0xa1 0xa1 10 10 10 10).states.balance 0xa1 = some (some [(0, [[10]])]) := by decide +kernel

end Artela
