import Artela.Model.Interp
namespace Artela
namespace Interp
variable {World : Type}

/-- what an outcome says about the gas: a continuing state's gas, or the gas reported at a halt -/
def Out.gasLe (o : Out (IState World)) (g : Nat) : Prop :=
  match o with
  | .next s => s.gas ≤ g
  | .halt _ g' => g' ≤ g
  | .panic _ => True

theorem exec_gas (env : IEnv World) (i : Instr) (s : IState World) : (exec env i s).gasLe s.gas := by
  cases i <;> simp only [exec, IState.cont, stackPanic] <;> (repeat' split) <;> simp [Out.gasLe]

theorem Out.gasLe_mono {o : Out (IState World)} {a b : Nat} (h : o.gasLe a) (hab : a ≤ b) : o.gasLe b := by
  cases o with
  | next s => exact Nat.le_trans h hab
  | halt _ g => exact Nat.le_trans h hab
  | panic _ => trivial

theorem memPart_gas {op : Nat} {row : Row} {s : IState World} {h : Halt} {g : Nat}
    (hm : memPart op row s = .halt h g) : g = s.gas := by
  unfold memPart at hm
  (repeat' split at hm) <;> simp_all

theorem gasPart_gas (op : Nat) (row : Row) (s : IState World) (m : Nat) : (gasPart op row s m).gasLe s.gas := by
  unfold gasPart
  (repeat' split) <;> simp_all [Out.gasLe]

theorem dynPart_gas (op : Nat) (row : Row) (s : IState World) : (dynPart op row s).gasLe s.gas := by
  unfold dynPart
  split
  · simp [Out.gasLe]
  · split
    · rename_i h g hh; have := memPart_gas hh; simp only [Out.gasLe]; omega
    · trivial
    · exact gasPart_gas op row s _

/-- what the part before `execute` went through when it hands an instruction over -/
theorem pre_next_inv {env : IEnv World} {s s1 : IState World} {i : Instr} (h : pre env s = .next (i, s1)) :
    ∃ row, env.table (opAt env.code s.pc) = some row ∧ decode row.exec (opAt env.code s.pc) = some i ∧
      row.minStack ≤ s.stack.length ∧ s.stack.length ≤ row.maxStack ∧ row.cgas ≤ s.gas ∧
      dynPart (opAt env.code s.pc) row { s with gas := s.gas - row.cgas } = .next s1 := by
  unfold pre at h
  dsimp only at h
  cases hr : env.table (opAt env.code s.pc) with
  | none => rw [hr] at h; cases h
  | some row =>
    rw [hr] at h; dsimp only at h
    cases hd : decode row.exec (opAt env.code s.pc) with
    | none => rw [hd] at h; cases h
    | some i' =>
      rw [hd] at h; dsimp only at h
      by_cases h1 : s.stack.length < row.minStack
      · rw [if_pos h1] at h; cases h
      · by_cases h2 : s.stack.length > row.maxStack
        · rw [if_neg h1, if_pos h2] at h; cases h
        · by_cases h3 : s.gas < row.cgas
          · rw [if_neg h1, if_neg h2, if_pos h3] at h; cases h
          · rw [if_neg h1, if_neg h2, if_neg h3] at h
            cases hs1 : dynPart (opAt env.code s.pc) row { s with gas := s.gas - row.cgas } with
            | halt hh g => rw [hs1] at h; cases h
            | panic p => rw [hs1] at h; cases h
            | next s1' =>
              rw [hs1] at h; dsimp only at h
              cases h
              exact ⟨row, rfl, hd, by omega, by omega, by omega, hs1⟩

/-- a halt before `execute` reports the gas the iteration started with, or that minus the constant fee -/
theorem pre_halt_gas {env : IEnv World} {s : IState World} {h : Halt} {g : Nat} (hp : pre env s = .halt h g) : g ≤ s.gas := by
  unfold pre at hp
  dsimp only at hp
  cases hr : env.table (opAt env.code s.pc) with
  | none => rw [hr] at hp; cases hp; exact Nat.le_refl _
  | some row =>
    rw [hr] at hp; dsimp only at hp
    cases hd : decode row.exec (opAt env.code s.pc) with
    | none => rw [hd] at hp; cases hp; exact Nat.le_refl _
    | some i =>
      rw [hd] at hp; dsimp only at hp
      by_cases h1 : s.stack.length < row.minStack
      · rw [if_pos h1] at hp; cases hp; exact Nat.le_refl _
      · by_cases h2 : s.stack.length > row.maxStack
        · rw [if_neg h1, if_pos h2] at hp; cases hp; exact Nat.le_refl _
        · by_cases h3 : s.gas < row.cgas
          · rw [if_neg h1, if_neg h2, if_pos h3] at hp; cases hp; exact Nat.le_refl _
          · rw [if_neg h1, if_neg h2, if_neg h3] at hp
            have hdp := dynPart_gas (World := World) (opAt env.code s.pc) row { s with gas := s.gas - row.cgas }
            cases hs1 : dynPart (opAt env.code s.pc) row { s with gas := s.gas - row.cgas } with
            | halt hh gg =>
              rw [hs1] at hp hdp; cases hp
              simp only [Out.gasLe] at hdp; omega
            | panic p => rw [hs1] at hp; cases hp
            | next s1' => rw [hs1] at hp; cases hp

theorem stepWith_next {ex : IEnv World → Instr → IState World → Out (IState World)} {env : IEnv World} {s s' : IState World}
    (h : stepWith ex env s = .next s') : ∃ i s1, pre env s = .next (i, s1) ∧ ex env i s1 = .next s' := by
  unfold stepWith at h
  cases hp : pre env s with
  | next is1 => obtain ⟨i, s1⟩ := is1; rw [hp] at h; exact ⟨i, s1, rfl, h⟩
  | halt hh g => rw [hp] at h; cases h
  | panic p => rw [hp] at h; cases h

theorem stepWith_of_pre {ex : IEnv World → Instr → IState World → Out (IState World)} {env : IEnv World} {s s1 : IState World}
    {i : Instr} (hp : pre env s = .next (i, s1)) : stepWith ex env s = ex env i s1 := by
  unfold stepWith; rw [hp]

/-- what a continuing iteration went through -/
theorem step_next_inv {env : IEnv World} {s s' : IState World} (h : step env s = .next s') :
    ∃ row i s1, env.table (opAt env.code s.pc) = some row ∧ decode row.exec (opAt env.code s.pc) = some i ∧
      row.minStack ≤ s.stack.length ∧ s.stack.length ≤ row.maxStack ∧ row.cgas ≤ s.gas ∧
      dynPart (opAt env.code s.pc) row { s with gas := s.gas - row.cgas } = .next s1 ∧ exec env i s1 = .next s' := by
  obtain ⟨i, s1, hp, hex⟩ := stepWith_next h
  obtain ⟨row, a, b, c, d, e, f⟩ := pre_next_inv hp
  exact ⟨row, i, s1, a, b, c, d, e, f, hex⟩

theorem step_gas (env : IEnv World) (s : IState World) : (step env s).gasLe s.gas := by
  unfold step stepWith
  cases hp : pre env s with
  | next is1 =>
    obtain ⟨i, s1⟩ := is1
    dsimp only
    obtain ⟨row, _, _, _, _, _, hdp⟩ := pre_next_inv hp
    have hg := dynPart_gas (World := World) (opAt env.code s.pc) row { s with gas := s.gas - row.cgas }
    rw [hdp] at hg
    simp only [Out.gasLe] at hg
    exact Out.gasLe_mono (exec_gas env i s1) (by omega)
  | halt h g => exact pre_halt_gas hp
  | panic p => trivial

/-- C02 / C06 at the loop level: a frame of the modelled subset never ends or continues with more gas than it had -/
theorem run_gas (env : IEnv World) (n : Nat) (s : IState World) : (run env n s).gasLe s.gas := by
  induction n generalizing s with
  | zero => simp [run, Out.gasLe]
  | succ n ih =>
    unfold run
    have h := step_gas env s
    split
    · rename_i s' hs'
      rw [hs'] at h
      exact Out.gasLe_mono (ih s') h
    · rename_i o hne
      exact h

end Interp
end Artela
