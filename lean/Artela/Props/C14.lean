import Artela.Model.Precompile
import Artela.Spec.Abi
import Artela.Proofs.BytesKit
import Artela.Proofs.GenFacts
/-
  C14 — the Artela precompiles decode payloads exactly and attribute writes to the caller.
-/
namespace Artela

/-- `loadParamBytes` decodes exactly the ABI `bytes` value at head slot `i` — for every payload (any length a Go
    slice can have), every capacity, every head / length word including those ≥ 2^63, ≥ 2^64 and near 2^256 —
    and otherwise returns an error; it never panics. -/
theorem c14_load_exact (input : Bytes) (cap i : Nat) (hlen : input.length < 2 ^ 63) (hcap : input.length ≤ cap) :
    (∀ b, abiBytes input i = some b → loadParamBytes input cap i = .ok b) ∧
    (abiBytes input i = none → ∃ e, loadParamBytes input cap i = .err e) := by
  have hU := U64_eq
  unfold abiBytes loadParamBytes wordAt
  have e1 : i * 32 = 32 * i := Nat.mul_comm _ _
  simp only [e1]
  by_cases c0 : 32 * i + 32 ≤ input.length
  · have c0' : ¬ (input.length < 32 * i + 32) := by omega
    simp only [c0, c0', if_true, if_false]
    generalize beNat (input.extract (32 * i) (32 * i + 32)) = o
    by_cases c1 : o + 32 ≤ input.length
    · have c1a : ¬ (o ≥ U64) := by omega
      have c1b : ¬ (o > input.length ∨ input.length - o < 32) := by omega
      simp only [c1, c1a, c1b, if_true, if_false]
      generalize beNat (input.extract o (o + 32)) = n
      by_cases c2 : o + 32 + n ≤ input.length
      · have c2a : ¬ (n ≥ U64) := by omega
        have c2b : ¬ (n > input.length - (o + 32)) := by omega
        simp only [c2, c2a, c2b, if_true, if_false]
        constructor
        · intro b hb
          injection hb with hb
          subst hb
          unfold goSlice
          rw [if_pos ⟨by omega, by omega⟩]
          congr 1
          rw [List.extract_eq_take_drop, List.extract_eq_take_drop]
          rw [List.drop_append_of_le_length (by omega), List.take_append_of_le_length (by simp; omega)]
        · intro h; cases h
      · simp only [c2, if_false]
        constructor
        · intro b hb; cases hb
        · intro _
          by_cases c2a : n ≥ U64
          · simp only [c2a, if_true]; exact ⟨_, rfl⟩
          · have c2b : n > input.length - (o + 32) := by omega
            simp only [c2a, c2b, if_true, if_false]; exact ⟨_, rfl⟩
    · simp only [c1, if_false]
      constructor
      · intro b hb; cases hb
      · intro _
        by_cases c1a : o ≥ U64
        · simp only [c1a, if_true]; exact ⟨_, rfl⟩
        · have c1b : (o > input.length ∨ input.length - o < 32) := by omega
          simp only [c1a, c1b, if_true, if_false]; exact ⟨_, rfl⟩
  · have c0' : input.length < 32 * i + 32 := by omega
    simp only [c0, c0', if_true, if_false]
    exact ⟨fun b hb => (by cases hb), fun _ => ⟨_, rfl⟩⟩

/-- never a panic, for every payload -/
theorem c14_load_no_panic (input : Bytes) (cap i : Nat) (hlen : input.length < 2 ^ 63) (hcap : input.length ≤ cap) :
    (loadParamBytes input cap i).isPanic = false := by
  obtain ⟨h1, h2⟩ := c14_load_exact input cap i hlen hcap
  cases h : abiBytes input i with
  | none => obtain ⟨e, he⟩ := h2 h; rw [he]; rfl
  | some b => rw [h1 b h]; rfl

/-- 0x66: with an execution context, the host's `SetAspectContext` is called with exactly `(ctx.from, key, value)`
    decoded from the payload per the ABI — or the call is rejected and no host call is made. -/
theorem c14_write_args (frm : Addr) (input : Bytes) (cap : Nat) (hlen : input.length < 2 ^ 63) (hcap : input.length ≤ cap) :
    (∀ k v, abiBytes input 0 = some k → abiBytes input 1 = some v → run66 (some frm) input cap = .call (.set frm k v)) ∧
    ((abiBytes input 0 = none ∨ abiBytes input 1 = none) → ∃ e, run66 (some frm) input cap = .reject e) := by
  obtain ⟨a1, a2⟩ := c14_load_exact input cap 0 hlen hcap
  obtain ⟨b1, b2⟩ := c14_load_exact input cap 1 hlen hcap
  unfold run66
  simp only
  constructor
  · intro k v h0 h1
    rw [a1 k h0, b1 v h1]
  · intro h
    cases h0 : abiBytes input 0 with
    | none =>
      obtain ⟨e, he⟩ := a2 h0
      rw [he]; exact ⟨_, rfl⟩
    | some k =>
      rw [a1 k h0]
      have h1 : abiBytes input 1 = none := by
        rcases h with h | h
        · rw [h0] at h; cases h
        · exact h
      obtain ⟨e, he⟩ := b2 h1
      rw [he]; exact ⟨_, rfl⟩

/-- 0x66 never panics, for every payload and either kind of instance -/
theorem c14_write_no_panic (ctxFrom : Option Addr) (input : Bytes) (cap : Nat) (hlen : input.length < 2 ^ 63) (hcap : input.length ≤ cap) :
    ∀ p, run66 ctxFrom input cap ≠ .panic p := by
  intro p
  cases ctxFrom with
  | none => intro h; cases h
  | some frm =>
    obtain ⟨h1, h2⟩ := c14_write_args frm input cap hlen hcap
    cases h0 : abiBytes input 0 with
    | none => obtain ⟨e, he⟩ := h2 (Or.inl h0); rw [he]; intro h; cases h
    | some k =>
      cases h1' : abiBytes input 1 with
      | none => obtain ⟨e, he⟩ := h2 (Or.inr h1'); rw [he]; intro h; cases h
      | some v => rw [h1 k v h0 h1']; intro h; cases h

/-- 0x66 without execution context (CALLCODE / DELEGATECALL / STATICCALL): refused, no host call, no panic —
    for every payload. -/
theorem c14_write_without_context_refused (input : Bytes) (cap : Nat) :
    ∃ e, run66 none input cap = .reject e := ⟨_, rfl⟩

/-- attribution: whatever the payload says, a write is made under the execution context's `from` and under no
    other address. -/
theorem c14_attribution (ctxFrom : Option Addr) (input : Bytes) (cap : Nat) (a : Addr) (k v : Bytes)
    (h : run66 ctxFrom input cap = .call (.set a k v)) : ctxFrom = some a := by
  unfold run66 at h
  cases ctxFrom with
  | none => cases h
  | some f =>
    simp only at h
    split at h
    · cases h
    · cases h
    · split at h
      · cases h
      · cases h
      · injection h with h; injection h with h1; rw [h1]

/-- 0x64: the host gets exactly `(input[0:20] as address, input[20:])`; shorter payloads are rejected. -/
theorem c14_read_args (input : Bytes) :
    run64 input = if input.length < 20 then .reject "invalid input data length"
                  else .call (.get (beNat (input.take 20)) (input.drop 20)) := rfl

/-- 0x65: the host gets exactly the 32-byte payload as the hash; any other length is rejected. -/
theorem c14_sender_args (input : Bytes) :
    run65 input = if input.length ≠ 32 then .reject "invalid input data length" else .call (.jit input) := rfl

/-- the result is exactly the host's (error or value); the fee is the fixed 5000 charged before the run;
    with too little gas nothing runs. -/
theorem c14_fee_and_result (addr : Nat) (ctxFrom : Option Addr) (input : Bytes) (cap gas : Nat)
    (host : HostCall → Except String Bytes) :
    (gas < 5000 → runPrecompiled addr ctxFrom input cap gas host = (.err "out of gas", none)) ∧
    (∀ v g c, runPrecompiled addr ctxFrom input cap gas host = (.ok (v, g), c) → g + 5000 = gas) := by
  unfold runPrecompiled artelaPrecompileGas
  constructor
  · intro h; rw [if_pos h]
  · intro v g c h
    split at h
    · cases h
    · rename_i hg
      split at h
      · cases h
      · cases h
      · split at h
        · cases h
        · have h1 := congrArg Prod.fst h
          simp only [Res.ok.injEq, Prod.mk.injEq] at h1
          omega

/-- fork gate and fee, regenerated from the running code (Proofs/GenFacts.lean) -/
theorem c14_fork_gate_and_fee :
    (Gen.forkActiveBerlin.filter isArtelaAddr = ["64", "65", "66"]) ∧ (Gen.forkActiveIstanbul.filter isArtelaAddr = []) ∧
    Gen.forkPrecompilesBerlin.filter isArtelaPrecompile = ["64=aspcontext", "65=userOpSender", "66=contextWriter"] :=
  ⟨artela_active_from_berlin.1, artela_inactive_before_berlin.2.2.2.2.2.2.2, precompiles_berlin_delta.2⟩

/-! ### witnesses -/

/-- non-vacuity: a canonical encoding of `("k", 0xAABB)` decodes to exactly those values -/
example :
    let enc : Bytes := beBytes 32 0x40 ++ beBytes 32 0x80 ++ beBytes 32 1 ++ ([0x6b] ++ List.replicate 31 0) ++ beBytes 32 2 ++ ([0xaa, 0xbb] ++ List.replicate 30 0)
    abiBytes enc 0 = some [0x6b] ∧ abiBytes enc 1 = some [0xaa, 0xbb] := by decide +kernel

/-- negation witness for the code before the repair (D9): a head word of 2^64−32 wraps `dataOffset+32` to 0,
    passes the bound check and the slice expression `input[dataOffset:start]` panics. -/
theorem c14_witness_wraparound_panics :
    (loadParamBytesWrapping (beBytes 32 (2 ^ 64 - 32) ++ List.replicate 96 0) 128 0).isPanic = true := by decide +kernel

end Artela
