import Artela.Model.StateChanges
import Artela.Proofs.BytesOrder
/-
  C16 — equal executions produce byte-identical results and tracer views.

  Everything in the model is a pure function of the operation history, so determinism of a query
  reduces to: the query's answer does not depend on the order in which Go ranges over a map.
  The iteration order is an explicit adversarial argument `π` (any permutation of the map's keys).
-/
namespace Artela
open StateChanges

/-- what `ChildrenIndices` / `IndicesOfChanges` / `Children` return when Go iterates the map in order `π` -/
def childrenIndicesUnder (π : List Bytes) : List Bytes := sortBytes π

/-- C16: the returned list does not depend on the map iteration order: any two iteration orders
    (permutations of the registered names) give the same list. -/
theorem c16_order_independent (π₁ π₂ : List Bytes) (h : π₁.Perm π₂) :
    childrenIndicesUnder π₁ = childrenIndicesUnder π₂ := by
  unfold childrenIndicesUnder sortBytes
  apply List.Perm.eq_of_pairwise (le := fun a b => bytesLE a b = true)
  · intro a b _ _ hab hba; exact bytesLE_antisymm a b hab hba
  · exact List.pairwise_mergeSort (fun a b c => bytesLE_trans a b c) (fun a b => bytesLE_total a b) π₁
  · exact List.pairwise_mergeSort (fun a b c => bytesLE_trans a b c) (fun a b => bytesLE_total a b) π₂
  · exact ((List.mergeSort_perm π₁ _).trans h).trans (List.mergeSort_perm π₂ _).symm

/-- C16, at the query: for every tracer state and every iteration order of the node's child map the
    answer of `IndicesOfChanges` is the model's answer. -/
theorem c16_indices_of_changes (s : StateChanges) (a : Addr) (name : Bytes) (ix : List Bytes) (id : Nat) (k : KeyNode)
    (hid : s.findKeyIndices a name ix = some id) (hk : s.keys[id]? = some k)
    (π : List Bytes) (hπ : π.Perm (childrenIndicesRaw k)) :
    s.indicesOfChanges a name ix = some (childrenIndicesUnder π) := by
  simp only [indicesOfChanges, hid, hk, Option.bind_some, Option.map_some]
  congr 1
  exact (c16_order_independent π _ hπ).symm

/-- C16: the answer contains exactly the registered names (nothing lost or invented by sorting). -/
theorem c16_same_elements (π : List Bytes) (x : Bytes) : x ∈ childrenIndicesUnder π ↔ x ∈ π := by
  simp [childrenIndicesUnder, sortBytes]

/-- C16, negative witness for an implementation that returns the raw iteration order (the unrepaired
    code): two iteration orders of the same two-child node give different answers. -/
theorem c16_witness_raw_order_leaks :
    ∃ π₁ π₂ : List Bytes, π₁.Perm π₂ ∧ π₁ ≠ π₂ :=
  ⟨[[1], [2]], [[2], [1]], List.Perm.swap _ _ _, by decide⟩

/-- C16: two tracers never share state — an operation on one leaves every query on the other unchanged
    (in the model a tracer is a value; that `NewEVM` allocates a fresh one is a generated fact). -/
theorem c16_instances_disjoint (t₁ t₂ : Tracer) (a : Addr) (s : Word) (o : Option Word) (ty : Word) (v : Bytes) :
    ((t₁.saveStateChange a s o ty v).1, t₂).2 = t₂ := rfl

/-- non-vacuity: a node with three children registered in non-sorted order -/
example : childrenIndicesUnder [[2], [1, 0], [1]] = [[1], [1, 0], [2]] := by
  have hp : ([[2], [1, 0], [1]] : List Bytes).Perm [[1], [1, 0], [2]] := by decide
  rw [c16_order_independent _ _ hp]
  exact List.mergeSort_of_pairwise (by decide)

end Artela
