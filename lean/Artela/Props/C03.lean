import Artela.Proofs.JournalSafe
/-
  C03 — no bytecode, calldata or storage content can crash the VM.

  Part (i): the journal instructions.  `Res.panic` is the model's image of a Go panic: every partial Go
  operation the opcodes perform (slice expressions, `make`, `Memory.GetCopy`) is partial in the model, with the
  slice capacity an adversarial parameter, so "never panics" is a theorem about the guards.
  Further parts (precompiles, MCOPY, call tracers, frame bookkeeping) are in the sections below as they are added.
-/
namespace Artela

/-- (i) For every journal opcode, every operand tuple, every memory content (any length the gas schedule allows,
    any capacity ≥ length), every storage function and every keccak: the instruction returns a result or an
    error — never a panic. -/
theorem c03_journal_no_panic (op : JOp) (args : List Word) (env : JEnv) (tr : Tracer)
    (ha : args.length = op.arity) (hwf : env.WF) :
    ∃ w, (∃ tr', Journal.exec op args env tr = (.ok tr', w)) ∨ (∃ e, Journal.exec op args env tr = (.err e, w)) := by
  have h := journal_no_panic op args env tr ha hwf
  generalize Journal.exec op args env tr = r at h
  obtain ⟨r1, w⟩ := r
  cases r1 with
  | ok t => exact ⟨w, Or.inl ⟨t, rfl⟩⟩
  | err e => exact ⟨w, Or.inr ⟨e, rfl⟩⟩
  | panic p => simp [Res.isPanic] at h

/-- the interpreter step on a journal opcode never panics either (stack and gas checks come first) -/
theorem c03_journal_step_no_panic {World : Type} (op : JOp) (mkEnv : World → Bytes → JEnv) (m : JMachine World)
    (hwf : ∀ w mem, (mkEnv w mem).WF) : (Journal.step op mkEnv m).isPanic = false := by
  unfold Journal.step
  split
  · rfl
  · rename_i hs
    split
    · rfl
    · have ha : (m.stack.take op.arity).length = op.arity := by simp; omega
      have := journal_no_panic op (m.stack.take op.arity) (mkEnv m.world m.mem) m.tr ha (hwf _ _)
      generalize (Journal.exec op (m.stack.take op.arity) (mkEnv m.world m.mem) m.tr).1 = r at this
      cases r <;> simp_all [Res.isPanic]

/-- non-vacuity: a well-formed environment exists (empty memory) -/
example : ({ contract := 1, mem := [], memCap := 0, storage := fun _ => 0, keccak := fun _ => 0 } : JEnv).WF :=
  ⟨Nat.le_refl _, by simp [maxAlloc], fun n => Nat.le_refl n⟩

/-- negation witness for the unrepaired `loadDataFromMem` (pointer used before the 64-bit check): a pointer of
    2^63 became a negative `int64` offset, for which `Memory.GetCopy` panics. -/
theorem c03_witness_negative_offset : (memGetCopy [0, 0] 2 (toInt64 (2 ^ 63)) 32).1.isPanic = true := by decide

end Artela
