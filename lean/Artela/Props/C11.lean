import Artela.Model.StateChanges
/-
  C11 — key-tree lookups by name/index path and by slot agree with registrations.

  The model (Model/StateChanges.lean) is the code as written: per parent a first-wins map name ↦ child and,
  independently, a first-wins map (slot, offset) ↦ child; per account a flat first-wins index
  (slot, offset, type) ↦ key.  Full strength ("for every history both lookups reach the same record") is FALSE for
  this structure whenever two registrations conflict (same name / other key, same (slot, offset) / other type, same
  key / other path): the negation witnesses below are three-operation histories, replayed on the implementation by
  the correspondence (`S both-see …` lines; known finding D14).  What is proved for every state: refusals are pure,
  a non-conflicting registration is reachable through both lookups at the same node, a change goes to exactly the
  node the slot lookup returns, and the child names of a node are exactly those registered.
-/
namespace Artela
open StateChanges

theorem alookup_append_new {κ ν} [DecidableEq κ] (k : κ) (v : ν) :
    ∀ (l : List (κ × ν)), alookup k l = none → alookup k (l ++ [(k, v)]) = some v
  | [], _ => by simp [alookup]
  | (k', v') :: rest, h => by
    simp only [alookup] at h
    by_cases c : k' = k
    · simp [c] at h
    · simp only [c, if_false] at h
      simp only [List.cons_append, alookup, c, if_false]
      exact alookup_append_new k v rest h

theorem alookup_append_old {κ ν} [DecidableEq κ] (k k2 : κ) (v v2 : ν) :
    ∀ (l : List (κ × ν)), alookup k l = some v → alookup k (l ++ [(k2, v2)]) = some v
  | [], h => by simp [alookup] at h
  | (k', v') :: rest, h => by
    simp only [List.cons_append, alookup] at h ⊢
    by_cases c : k' = k
    · simp only [c, if_true] at h ⊢; exact h
    · simp only [c, if_false] at h ⊢
      exact alookup_append_old k k2 v v2 rest h

/-! ### refusals are pure -/

/-- a refused registration (offset out of range, unknown parent) leaves the whole tracer state unchanged -/
theorem c11_refused_registration_pure (s s' : StateChanges) (a : Addr) (parent : Option Word) (self : Word)
    (off : Option Word) (ty pty : Word) (name : Bytes) (e : String)
    (h : s.saveKey a parent self off ty pty name = (s', some e)) : s' = s := by
  unfold saveKey at h
  cases hco : checkOffset off with
  | none =>
    simp only [hco] at h
    injection h with h1 _; exact h1.symm
  | some o =>
    simp only [hco] at h
    cases parent with
    | none =>
      simp only at h
      generalize addChild _ _ _ _ _ _ = r at h
      obtain ⟨keys2, rid⟩ := r
      simp only at h
      cases hk : keys2[rid]? <;> simp only [hk] at h <;> (injection h with _ h2; cases h2)
    | some p =>
      simp only at h
      cases hf : s.findKey a p 0 pty with
      | none =>
        simp only [hf, Option.map_none] at h
        injection h with h1 _; exact h1.symm
      | some pid =>
        simp only [hf, Option.map_some] at h
        generalize addChild _ _ _ _ _ _ = r at h
        obtain ⟨keys2, rid⟩ := r
        simp only at h
        cases hk : keys2[rid]? <;> simp only [hk] at h <;> (injection h with _ h2; cases h2)

/-- a refused change (offset out of range, unknown account, unregistered key) leaves the state unchanged -/
theorem c11_refused_change_pure (s s' : StateChanges) (a : Addr) (self : Word) (off : Option Word) (ty : Word)
    (i : Nat) (v : Bytes) (e : String) (h : s.saveChange a self off ty i v = (s', some e)) : s' = s := by
  unfold saveChange at h
  split at h
  · injection h with h1 _; exact h1.symm
  · split at h
    · injection h with h1 _; exact h1.symm
    · split at h
      · injection h with h1 _; exact h1.symm
      · injection h with _ h2; cases h2

/-- offsets beyond 31 (and therefore ≥ 2^64) are refused by registration, change and slot lookup alike -/
theorem c11_offset_range (o : Word) (h : o > 31) : checkOffset (some o) = none := by
  unfold checkOffset; simp [h]

/-! ### an accepted change goes to exactly the node the slot lookup returns -/

theorem c11_change_target (s s' : StateChanges) (a : Addr) (self : Word) (off : Option Word) (ty : Word)
    (i : Nat) (v : Bytes) (h : s.saveChange a self off ty i v = (s', none)) :
    ∃ o id, checkOffset off = some o ∧ s.findKey a self o ty = some id ∧
      s'.keys = s.keys.modify id (fun k => k.journal i v) ∧ s'.index = s.index ∧ s'.roots = s.roots := by
  unfold saveChange at h
  split at h
  · injection h with _ h2; cases h2
  · rename_i o ho
    split at h
    · injection h with _ h2; cases h2
    · split at h
      · injection h with _ h2; cases h2
      · rename_i id hid
        injection h with h1 _
        subst h1
        exact ⟨o, id, ho, hid, rfl, rfl, rfl⟩

/-- …and what it records there: the value is appended to the list of the call in progress unless it repeats the
    last entry; lists of other calls are untouched -/
theorem c11_journal_appends (m : ChangeMap) (i : Nat) (v : Bytes) :
    alookup i (m.append i v) = some (match alookup i m with
      | none => [v]
      | some l => if l.getLast? = some v then l else l ++ [v]) := by
  have hset : ∀ (l : ChangeMap) (y : List Bytes), alookup i (aset i y l) = some y := by
    intro l y
    induction l with
    | nil => simp [aset, alookup]
    | cons hd tl ih =>
      obtain ⟨kk, vv⟩ := hd
      simp only [aset]
      by_cases c : kk = i
      · simp [c, alookup]
      · simp [c, alookup, ih]
  unfold ChangeMap.append
  cases h : alookup i m with
  | none => simp only; rw [hset]
  | some l =>
    simp only
    by_cases c : l.getLast? = some v
    · simp only [c, if_true]; exact h
    · simp only [c, if_false]; rw [hset]

/-! ### a non-conflicting registration is reachable through both lookups, at the same node -/

/-- Registering a child under an existing parent node `pid` whose name, whose (slot, offset) and whose
    (account, slot, offset, type) are all new: the fresh arena node `cid` is what the parent's name map returns AND
    what the flat index returns. -/
theorem c11_fresh_registration_reachable_both (s : StateChanges) (a : Addr) (p self : Word) (o : Nat) (ho : o ≤ 31)
    (ty pty : Word) (name : Bytes) (pid : Nat) (pk : KeyNode)
    (hp : s.findKey a p 0 pty = some pid) (hpk : s.keys[pid]? = some pk)
    (hname : alookup name pk.childrenIndex = none) (hso : alookup (self, o) pk.children = none)
    (hidx : alookup (a, self, o, ty) s.index = none) :
    let s' := (s.saveKey a (some p) self (some o) ty pty name).1
    let cid := s.keys.length
    (s.saveKey a (some p) self (some o) ty pty name).2 = none ∧
    s'.findKey a self o ty = some cid ∧
    (s'.keys[pid]?.bind (fun k => alookup name k.childrenIndex)) = some cid ∧
    s'.keys[cid]? = some { slot := some self, offset := o, data := name, typeId := ty, nodeType := .branch } := by
  have hlt : pid < s.keys.length := by
    have := List.getElem?_eq_some_iff.mp hpk; exact this.1
  have hco : checkOffset (some o) = some o := by
    unfold checkOffset; simp; omega
  simp only [saveKey, hco, hp, Option.map_some]
  have hpk' : (s.keys ++ [({ slot := some self, offset := o, data := name, typeId := ty, nodeType := .branch } : KeyNode)])[pid]? = some pk := by
    rw [List.getElem?_append_left hlt]; exact hpk
  simp only [addChild, hpk', hname, hso]
  have hcid : (List.modify (s.keys ++ [({ slot := some self, offset := o, data := name, typeId := ty, nodeType := .branch } : KeyNode)]) pid
      (fun k => { k with childrenIndex := pk.childrenIndex ++ [(name, s.keys.length)], children := k.children ++ [((self, o), s.keys.length)] }))[s.keys.length]?
      = some { slot := some self, offset := o, data := name, typeId := ty, nodeType := .branch } := by
    rw [List.getElem?_modify]
    have : ¬ (pid = s.keys.length) := by omega
    simp [this]
  simp only [hcid, Option.getD_some, addKey, hidx]
  refine ⟨trivial, ?_, ?_, trivial⟩
  · unfold findKey
    exact alookup_append_new _ _ _ hidx
  · rw [List.getElem?_modify]
    simp only [if_true, hpk', Option.map_some, Option.bind_some]
    exact alookup_append_new _ _ _ hname

/-- the child names reported for a node are exactly those registered under it: a new name is appended, a name
    already present changes nothing (re-registration is idempotent on the name map) -/
theorem c11_children_names (keys : List KeyNode) (p cid : Nat) (slot : Word) (off : Nat) (name : Bytes) (pk : KeyNode)
    (hpk : keys[p]? = some pk) :
    ((addChild keys p cid slot off name).1[p]?.map childrenIndicesRaw) =
      some (if (alookup name pk.childrenIndex).isSome then childrenIndicesRaw pk else childrenIndicesRaw pk ++ [name]) := by
  unfold addChild
  simp only [hpk]
  cases hn : alookup name pk.childrenIndex with
  | some x =>
    simp only [Option.isSome_some, if_true]
    cases hs : alookup (slot, off) pk.children with
    | some ex => simp [List.getElem?_modify, hpk, childrenIndicesRaw]
    | none => simp [List.getElem?_modify, hpk, childrenIndicesRaw]
  | none =>
    simp only [Option.isSome_none, Bool.false_eq_true, if_false]
    cases hs : alookup (slot, off) pk.children with
    | some ex => simp [List.getElem?_modify, hpk, childrenIndicesRaw]
    | none => simp [List.getElem?_modify, hpk, childrenIndicesRaw]

/-! ### the full statement and its negation witnesses (known finding D14) -/

/-- tracer operations of a history -/
inductive KOp where
  | reg (a : Addr) (parent : Option Word) (self : Word) (off : Option Word) (ty pty : Word) (name : Bytes)
  | change (a : Addr) (self : Word) (off : Option Word) (ty : Word) (v : Bytes)

def KOp.apply (s : StateChanges) : KOp → StateChanges
  | .reg a p self off ty pty n => (s.saveKey a p self off ty pty n).1
  | .change a self off ty v => (s.saveChange a self off ty 0 v).1

def runK (ops : List KOp) : StateChanges := ops.foldl KOp.apply {}

/-- full strength (stated for top-level variables): in every history, for every accepted registration the lookup by
    name and the lookup by (slot, offset, type) return the same change record, whatever happens before and after -/
def c11_full : Prop :=
  ∀ (pre post : List KOp) (a self ty : Word) (o : Nat) (name : Bytes),
    ((runK pre).saveKey a none self (some o) ty 0 name).2 = none →
    (runK (pre ++ [.reg a none self (some o) ty 0 name] ++ post)).variableQ a name [] =
      ((runK (pre ++ [.reg a none self (some o) ty 0 name] ++ post)).slotQ a self (some o) ty).toOption.join

def witnessB : StateChanges := runK [.reg 1 none 5 (some 0) 7 0 [0x61], .reg 1 none 6 (some 0) 7 0 [0x61], .change 1 6 (some 0) 7 [0xee]]
def witnessA : StateChanges := runK [.reg 1 none 5 (some 0) 7 0 [0x61], .reg 1 none 5 (some 0) 8 0 [0x62]]
def witnessC : StateChanges := runK [.reg 1 none 5 (some 0) 7 0 [0x61], .reg 1 none 5 (some 0) 7 0 [0x62], .change 1 5 (some 0) 7 [0xee]]

/-- D14b: same name, other slot — the second registration takes the change through the slot lookup, the name still
    resolves to the first node -/
theorem c11_witness_same_name_two_slots :
    witnessB.variableQ 1 [0x61] [] = some none ∧ (witnessB.slotQ 1 6 (some 0) 7).toOption.join = some (some ([(0, [[0xee]])] : ChangeMap)) :=
  ⟨by decide +kernel, by decide +kernel⟩

/-- D14a: shared (slot, offset), distinct types — the second registration is accepted and reachable by name, but
    never enters the flat index: its changes are refused -/
theorem c11_witness_shared_slot_types :
    (witnessA.findKeyIndices 1 [0x62] []).isSome = true ∧ (witnessA.saveChange 1 5 (some 0) 8 0 [0xee]).2 = some "storage key node not found" := by
  decide +kernel

/-- D14c: the same (slot, offset, type) registered under two different paths — two nodes, only the first indexed -/
theorem c11_witness_same_key_two_paths :
    witnessC.variableQ 1 [0x62] [] = some none ∧ witnessC.variableQ 1 [0x61] [] = some (some ([(0, [[0xee]])] : ChangeMap)) :=
  ⟨by decide +kernel, by decide +kernel⟩

theorem c11_full_is_false : ¬ c11_full := by
  intro h
  have := h [.reg 1 none 5 (some 0) 7 0 [0x61]] [.change 1 6 (some 0) 7 [0xee]] 1 6 7 0 [0x61] (by decide +kernel)
  have h3 : ¬ (witnessB.variableQ 1 [0x61] [] = (witnessB.slotQ 1 6 (some 0) 7).toOption.join) := by decide +kernel
  exact h3 this

/-- non-vacuity of `c11_fresh_registration_reachable_both`: a struct registered at the top level is indexed -/
example : (runK [.reg 1 none 5 (some 0) 7 0 [0x73]]).findKey 1 5 0 7 = some 1 := by decide +kernel

end Artela
