import Artela.Model.Modexp
import Artela.Proofs.BytesKit
import Artela.Props.InterpSafe
/-
  The MODEXP model (M11): what `Run` returns is the modular power, exactly as long as the modulus.

  * `powMod_eq`        square-and-multiply is x ^ y % m, for every x, y, m;
  * `value_eq`         the value padded by `Run` is 0 for a zero modulus and base ^ exp % mod otherwise
                       (the `base == 1` shortcut changes nothing);
  * `beNat_natBytes`, `natBytes_length`, `beNat_leftPad`: the byte rendering loses nothing and fits;
  * `run_spec`         the output of every run that reads operands is the big-endian rendering of that value, of exactly
                       modLen bytes whenever the modulus fits modLen bytes (it does: it is read from modLen bytes).
-/
namespace Artela
namespace Modexp
open Interp

theorem powMod_eq (b m : Nat) : ∀ e : Nat, powMod b e m = b ^ e % m := by
  intro e
  induction e using Nat.strongRecOn with
  | _ e ih =>
    rw [powMod]
    split
    · rename_i h; subst h; simp
    · rename_i h
      have hlt : e / 2 < e := Nat.div_lt_self (Nat.pos_of_ne_zero h) (by decide)
      have ih' := ih (e / 2) hlt
      simp only [ih']
      have hsq : b ^ (e / 2) % m * (b ^ (e / 2) % m) % m = b ^ (2 * (e / 2)) % m := by
        rw [← Nat.mul_mod, ← Nat.pow_add]; congr 2; omega
      rw [hsq]
      split
      · rename_i hodd
        rw [← Nat.mul_mod, ← Nat.pow_succ]
        congr 2; omega
      · rename_i heven
        congr 2; omega

theorem bitLen_one (n : Nat) (h : bitLen n = 1) : n = 1 := by
  unfold bitLen at h
  split at h
  · cases h
  · rename_i hn
    have hl : Nat.log2 n = 0 := by omega
    have : n < 2 := by
      have := (Nat.log2_lt hn (k := 1)).1 (by omega)
      simpa using this
    omega

/-- what `Run` pads: zero for a zero modulus, the modular power otherwise -/
theorem value_eq (o : Operands) : value o = if o.mod = 0 then 0 else o.base ^ o.exp % o.mod := by
  unfold value
  split
  · rfl
  · split
    · rename_i h1
      rw [bitLen_one _ h1]; simp
    · exact powMod_eq _ _ _

theorem beNat_append (a b : Bytes) : beNat (a ++ b) = beNat a * 256 ^ b.length + beNat b := by
  induction a with
  | nil => simp [beNat]
  | cons x xs ih =>
    simp only [List.cons_append, beNat, ih, List.length_append, Nat.pow_add]
    rw [Nat.add_mul, Nat.mul_assoc, Nat.add_assoc]

theorem beNat_natBytes : ∀ n : Nat, beNat (natBytes n) = n := by
  intro n
  induction n using Nat.strongRecOn with
  | _ n ih =>
    rw [natBytes]
    split
    · rename_i h; subst h; rfl
    · rename_i h
      have hlt : n / 256 < n := Nat.div_lt_self (Nat.pos_of_ne_zero h) (by decide)
      rw [beNat_append, ih _ hlt]
      simp only [List.length_cons, List.length_nil, beNat]
      have : (UInt8.ofNat (n % 256)).toNat = n % 256 := by
        simp [UInt8.toNat_ofNat']
      rw [this]
      omega

theorem natBytes_length : ∀ (k n : Nat), n < 256 ^ k → (natBytes n).length ≤ k := by
  intro k
  induction k with
  | zero => intro n h; have : n = 0 := by simpa using h
            subst this; rw [natBytes]; simp
  | succ k ih =>
    intro n h
    rw [natBytes]
    split
    · simp
    · have : n / 256 < 256 ^ k := by
        rw [Nat.pow_succ] at h
        exact Nat.div_lt_of_lt_mul (by rw [Nat.mul_comm]; exact h)
      have := ih _ this
      simp only [List.length_append, List.length_cons, List.length_nil]
      omega

theorem beNat_replicate_zero (k : Nat) : beNat (List.replicate k (0 : UInt8)) = 0 := by
  induction k with
  | zero => rfl
  | succ k ih => simp [List.replicate_succ, beNat, ih]

theorem beNat_leftPad (b : Bytes) (n : Nat) : beNat (leftPad b n) = beNat b := by
  unfold leftPad
  split
  · rfl
  · rw [beNat_append, beNat_replicate_zero]; simp

theorem leftPad_length (b : Bytes) (n : Nat) (h : b.length ≤ n) : (leftPad b n).length = n := by
  unfold leftPad
  split
  · omega
  · simp; omega

theorem beNat_leftPadU64 (b : Bytes) (n : Nat) : beNat (leftPadU64 b n) = beNat b := by
  unfold leftPadU64; split
  · exact beNat_leftPad b n
  · rfl

/-- every run that reads operands returns the modular power; in exactly `modLen` bytes when `modLen < 2^63`
    (from 2^63 on `int(modLen)` is negative and Go pads nothing: `run_unpadded`) -/
theorem run_spec (input : Bytes) (o : Operands) (h : operands input = .ok (some o)) :
    ∃ out, run input = .ok out ∧
      beNat out = (if o.mod = 0 then 0 else o.base ^ o.exp % o.mod) ∧
      (o.modLen < 2 ^ 63 → o.mod < 256 ^ o.modLen → out.length = o.modLen) := by
  refine ⟨leftPadU64 (natBytes (value o)) o.modLen, ?_, ?_, ?_⟩
  · unfold run
    show (operands input).bind _ = _
    rw [h]; rfl
  · rw [beNat_leftPadU64, beNat_natBytes, value_eq]
  · intro hl hm
    unfold leftPadU64
    rw [if_pos hl]
    apply leftPad_length
    apply natBytes_length
    rw [value_eq]
    split
    · exact Nat.pow_pos (by decide)
    · rename_i h0
      exact Nat.lt_trans (Nat.mod_lt _ (Nat.pos_of_ne_zero h0)) hm

/-- a modulus length word whose low 64 bits are 2^63 or more: the minimal bytes of the value, unpadded -/
theorem run_unpadded (input : Bytes) (o : Operands) (h : operands input = .ok (some o)) (hl : ¬ o.modLen < 2 ^ 63) :
    run input = .ok (natBytes (value o)) := by
  unfold run
  show (operands input).bind _ = _
  rw [h]
  show Res.ok (leftPadU64 _ _) = _
  unfold leftPadU64
  rw [if_neg hl]

/-- a run that reads no operands (both lengths zero) returns nothing -/
theorem run_empty (input : Bytes) (h : operands input = .ok none) : run input = .ok [] := by
  unfold run
  show (operands input).bind _ = _
  rw [h]; rfl

-- the premises are met by a concrete input: 3 ^ 2 mod 5 with one-byte operands
example : operands (beBytes 32 1 ++ beBytes 32 1 ++ beBytes 32 1 ++ [3, 2, 5]) = .ok (some { modLen := 1, base := 3, exp := 2, mod := 5 }) := by
  decide +kernel

end Modexp
end Artela

namespace Artela
namespace Modexp
open Interp

theorem lens_ok (input : Bytes) (h : input.length < 2 ^ 62) : ∃ r, lens input = .ok r ∧ r.2.2.2.length ≤ input.length := by
  obtain ⟨b, hb⟩ := getData_safe input 0 32 h (by decide)
  obtain ⟨e, he⟩ := getData_safe input 32 32 h (by decide)
  obtain ⟨m, hm⟩ := getData_safe input 64 32 h (by decide)
  refine ⟨(beNat b, beNat e, beNat m, if input.length > 96 then input.drop 96 else []), ?_, ?_⟩
  · unfold lens
    show (getData input 0 32).bind _ = _
    rw [hb]
    show (getData input 32 32).bind _ = _
    rw [he]
    show (getData input 64 32).bind _ = _
    rw [hm]
    rfl
  · simp only
    split
    · simp
    · simp

theorem cap64_lt (gas : Nat) : cap64 gas < U64 := by
  have hU := U64_eq
  unfold cap64; split
  · omega
  · exact Nat.mod_lt _ (by omega)

theorem cap2565_lt (gas : Nat) : cap2565 gas < U64 := by
  have hU := U64_eq
  unfold cap2565; split
  · omega
  · split
    · omega
    · exact Nat.mod_lt _ (by omega)

theorem lt_of_bitLen_le (n k : Nat) (h : bitLen n ≤ k) : n < 2 ^ k := by
  unfold bitLen at h
  split at h
  · rename_i h0; subst h0; exact Nat.pow_pos (by decide)
  · rename_i hn
    exact (Nat.log2_lt hn).1 (by omega)

/-- the 64-bit cut never sells a price for less: what is charged is at least min(true price, MaxUint64) -/
theorem cap2565_ge (gas : Nat) : min gas (U64 - 1) ≤ cap2565 gas := by
  have hU := U64_eq
  unfold cap2565; split
  · exact Nat.min_le_right _ _
  · rename_i hb
    have : gas < 2 ^ 64 := lt_of_bitLen_le gas 64 (by omega)
    have hm : gas % U64 = gas := Nat.mod_eq_of_lt (by omega)
    rw [hm]
    split
    · have := Nat.min_le_left gas (U64 - 1); omega
    · exact Nat.min_le_left _ _

theorem cap64_ge (gas : Nat) : min gas (U64 - 1) ≤ cap64 gas := by
  have hU := U64_eq
  unfold cap64; split
  · exact Nat.min_le_right _ _
  · rename_i hb
    have : gas < 2 ^ 64 := lt_of_bitLen_le gas 64 (by omega)
    have hm : gas % U64 = gas := Nat.mod_eq_of_lt (by omega)
    rw [hm]
    exact Nat.min_le_left _ _

/-- pricing never panics and the price fits 64 bits, for every input a call can carry -/
theorem requiredGas_total (eip : Bool) (input : Bytes) (h : input.length < 2 ^ 62) :
    ∃ g, requiredGas eip input = .ok g ∧ g < U64 := by
  obtain ⟨⟨bl, el, ml, rest⟩, hl, hrest⟩ := lens_ok input h
  simp only at hrest
  have hr : rest.length < 2 ^ 62 := Nat.lt_of_le_of_lt hrest h
  have hU := U64_eq
  have hhead : ∃ hd, expHeadOf rest bl el = .ok hd := by
    unfold expHeadOf
    split
    · exact ⟨0, rfl⟩
    · split
      · obtain ⟨d, hd⟩ := getData_safe rest (bl % U64) 32 hr (by decide)
        exact ⟨beNat d, by rw [hd]; rfl⟩
      · rename_i hel
        have : el % U64 < 2 ^ 62 := by
          have : el % U64 ≤ el := Nat.mod_le _ _
          omega
        obtain ⟨d, hd⟩ := getData_safe rest (bl % U64) (el % U64) hr this
        exact ⟨beNat d, by rw [hd]; rfl⟩
  obtain ⟨hd, hhd⟩ := hhead
  refine ⟨priceOf eip bl el ml hd, ?_, ?_⟩
  · unfold requiredGas
    rw [hl]
    show (expHeadOf rest bl el).bind _ = _
    rw [hhd]; rfl
  · unfold priceOf
    split
    · exact cap2565_lt _
    · exact cap64_lt _

/-- EIP-2565: the price is never below 200 -/
theorem priceOf_min (bl el ml hd : Nat) : 200 ≤ priceOf true bl el ml hd := by
  have hU := U64_eq
  unfold priceOf cap2565
  simp only [if_true]
  split
  · omega
  · split
    · omega
    · omega

end Modexp
end Artela

namespace Artela
namespace Modexp
open Interp

/-- what `getData` returns has exactly the requested length (sizes and inputs below 2^63, as every Go slice is) -/
theorem getData_length (data : Bytes) (start size : Nat) (d : Bytes) (hd : data.length < 2 ^ 63) (hs : size < 2 ^ 63)
    (h : getData data start size = .ok d) : d.length = size := by
  have hU := U64_eq
  unfold getData at h
  dsimp only at h
  generalize hst : (if start > data.length then data.length else start) = st at h
  have hst' : st ≤ data.length := by rw [← hst]; split <;> omega
  have hm : (st + size) % U64 = st + size := Nat.mod_eq_of_lt (by omega)
  rw [hm] at h
  have hc : st ≤ (if st + size > data.length then data.length else st + size) ∧
      (if st + size > data.length then data.length else st + size) ≤ data.length :=
    ⟨by split <;> omega, by split <;> omega⟩
  unfold goSlice at h
  rw [if_pos hc] at h
  simp only [hs, if_true] at h
  injection h with h
  subst h
  unfold rightPad
  simp only [Nat.sub_self, List.replicate_zero, List.append_nil, List.extract_eq_take_drop]
  by_cases hgt : st + size > data.length
  · simp only [hgt, if_true]
    have hl : (List.take (data.length - st) (List.drop st data)).length = data.length - st := by
      simp only [List.length_take, List.length_drop]; omega
    split
    · omega
    · simp only [List.length_append, List.length_replicate, hl]; omega
  · simp only [hgt, if_false]
    have hl : (List.take (st + size - st) (List.drop st data)).length = size := by
      simp only [List.length_take, List.length_drop]; omega
    split
    · exact hl
    · simp only [List.length_append, List.length_replicate, hl]; omega

/-- the modulus `Run` reads fits the modulus length, so `run_spec`'s length clause applies to every run -/
theorem operands_mod_fits (input : Bytes) (o : Operands) (hi : input.length < 2 ^ 63) (h : operands input = .ok (some o))
    (hm : o.modLen < 2 ^ 63) : o.mod < 256 ^ o.modLen := by
  unfold operands at h
  cases hl : lens input with
  | ok r =>
    obtain ⟨bl, el, ml, rest⟩ := r
    have hrest : rest.length ≤ input.length := by
      unfold lens at hl
      cases h1 : getData input 0 32 with
      | ok b =>
        cases h2 : getData input 32 32 with
        | ok e =>
          cases h3 : getData input 64 32 with
          | ok m =>
            rw [h1] at hl
            simp only [bind, Res.bind] at hl
            rw [h2] at hl
            simp only [Res.bind] at hl
            rw [h3] at hl
            simp only [Res.bind, pure] at hl
            injection hl with hl
            have : rest = if input.length > 96 then input.drop 96 else [] := by
              have := congrArg (fun x => x.2.2.2) hl
              exact this.symm
            rw [this]; split <;> simp
          | err x => rw [h1] at hl; simp only [bind, Res.bind] at hl; rw [h2] at hl; simp only [Res.bind] at hl; rw [h3] at hl; cases hl
          | panic x => rw [h1] at hl; simp only [bind, Res.bind] at hl; rw [h2] at hl; simp only [Res.bind] at hl; rw [h3] at hl; cases hl
        | err x => rw [h1] at hl; simp only [bind, Res.bind] at hl; rw [h2] at hl; cases hl
        | panic x => rw [h1] at hl; simp only [bind, Res.bind] at hl; rw [h2] at hl; cases hl
      | err x => rw [h1] at hl; cases hl
      | panic x => rw [h1] at hl; cases hl
    rw [hl] at h
    simp only [bind, Res.bind] at h
    split at h
    · cases h
    · cases hb : getData rest 0 (bl % U64) with
      | ok b =>
        rw [hb] at h
        simp only [Res.bind] at h
        cases he : getData rest (bl % U64) (el % U64) with
        | ok e =>
          rw [he] at h
          simp only [Res.bind] at h
          cases hmd : getData rest ((bl % U64 + el % U64) % U64) (ml % U64) with
          | ok m =>
            rw [hmd] at h
            simp only [Res.bind, pure] at h
            injection h with h
            injection h with h
            subst h
            simp only at hm ⊢
            have := getData_length rest _ _ m (by omega) hm hmd
            rw [← this]
            exact beNat_lt m
          | err x => rw [hmd] at h; cases h
          | panic x => rw [hmd] at h; cases h
        | err x => rw [he] at h; cases h
        | panic x => rw [he] at h; cases h
      | err x => rw [hb] at h; cases h
      | panic x => rw [hb] at h; cases h
  | err x => rw [hl] at h; cases h
  | panic x => rw [hl] at h; cases h

/-- MODEXP, in one statement: a run that reads operands returns exactly `modLen` bytes whose value is 0 for a zero modulus
    and base ^ exp mod m otherwise (inputs and modulus lengths below 2^63, as every Go slice is) -/
theorem run_correct (input : Bytes) (o : Operands) (hi : input.length < 2 ^ 63) (h : operands input = .ok (some o))
    (hm : o.modLen < 2 ^ 63) :
    ∃ out, run input = .ok out ∧ out.length = o.modLen ∧
      beNat out = (if o.mod = 0 then 0 else o.base ^ o.exp % o.mod) := by
  obtain ⟨out, h1, h2, h3⟩ := run_spec input o h
  exact ⟨out, h1, h3 hm (operands_mod_fits input o hi h hm), h2⟩

end Modexp
end Artela
