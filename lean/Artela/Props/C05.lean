import Artela.Proofs.FrameLocal
/-
  C05 — join points fire exactly once per contract call, nested, with that call's data.

  Reading fixed here: a "message call that runs code of a contract" is an invocation of `EVM.Call` (top level or from
  the CALL opcode) that passes the depth and balance checks and whose target is not a precompile and has code.
  CALLCODE / DELEGATECALL / STATICCALL / creates fire no join point in this code base.
-/
namespace Artela
open Frame

/-- **Pre join point.** `EVM.Call` invokes the pre join point exactly once iff the call reaches the contract's code
    with join points enabled — with exactly this call's caller, callee, calldata (any length, also empty), value,
    supplied gas and call-tree index — and never otherwise (precompiles, code-less accounts, refused calls, join
    points switched off). -/
theorem c05_pre_exactly_once (st : FState) (caller to : Addr) (value : Nat) (input : Bytes) (gas : Nat) (f : EnterFacts) :
    (enterCall st caller to value input gas f).jps =
      st.jps ++ (if reachesCode st.stack.length value f ∧ f.jpEnabled = true
                 then [JPRecord.pre caller to input value gas (st.tracer.saveCall caller (some to) input value gas).tree.currentIndex] else []) :=
  enterCall_jps st caller to value input gas f

/-- the index handed to the join point is the index of the call-tree node pushed for THIS call -/
theorem c05_index_is_this_call (t : Tracer) (caller to : Addr) (value : Nat) (input : Bytes) (gas : Nat) :
    (t.saveCall caller (some to) input value gas).tree.currentIndex = t.tree.count := rfl

/-- **Pre failed ⇒ no code, no post.** No frame is opened (so no instruction of the callee runs and no post join
    point is owed). -/
theorem c05_pre_failed_no_code (st : FState) (caller to : Addr) (value : Nat) (input : Bytes) (gas : Nat) (f : EnterFacts) (e : String)
    (hj : f.jpEnabled = true) (he : f.pre.err = some e) :
    (enterCall st caller to value input gas f).stack = st.stack ∧ (enterCall st caller to value input gas f).started = st.started :=
  enterCall_pre_failed st caller to value input gas f e hj he

/-- **Post join point.** When a frame's interpreter returns, the post join point is invoked exactly once iff the
    frame is a contract call whose pre join point ran, with the same call data, the interpreter's gas left, its
    actual return data and its error text; no other frame kind fires one. -/
theorem c05_post_exactly_once (st : FState) (fr : OpenFrame) (rest : List OpenFrame) (ret : Option Bytes) (err : Option String)
    (gasLeft : Nat) (post : JPResult) :
    (haltFrame st fr rest ret err gasLeft post).jps =
      st.jps ++ (if fr.kind = .call ∧ fr.jpFired = true
                 then [JPRecord.post fr.caller fr.to fr.input fr.value gasLeft fr.nodeIndex ret (err.getD "")] else []) :=
  haltFrame_jps st fr rest ret err gasLeft post

/-- the other frame functions never touch the join-point log -/
theorem c05_other_kinds_silent (st : FState) (kind : CallKind) (caller to : Addr) (value : Nat) (input : Bytes) (gas : Nat) (f : EnterFacts) :
    (enterOther st kind caller to value input gas f).jps = st.jps ∧ (enterCreate st kind caller to value input gas f).jps = st.jps := by
  constructor
  · unfold enterOther; simp only; split
    · rfl
    · split
      · rfl
      · split
        · rfl
        · split <;> rfl
  · unfold enterCreate; simp only; split
    · rfl
    · split
      · rfl
      · split
        · rfl
        · split <;> rfl

/-- LIFO nesting: a post record is appended when the innermost frame is popped, so posts come in reverse order of
    the pres of the frames still open (the stack discipline of `step`) -/
theorem c05_halt_pops_innermost (st : FState) (fr : OpenFrame) (rest : List OpenFrame) (ret : Option Bytes) (err : Option String)
    (gasLeft : Nat) (post : JPResult) (hk : fr.kind = .call) : (haltFrame st fr rest ret err gasLeft post).stack = rest :=
  (haltFrame_call_result st fr rest ret err gasLeft post hk).choose_spec.2.1

/-- non-vacuity: a call with empty calldata to a contract with code and join points on fires its pre join point -/
example : (enterCall {} 0xca 0xc0 0 [] 1000 { jpEnabled := true, pre := ⟨none, 900, none⟩ }).jps = [JPRecord.pre 0xca 0xc0 [] 0 1000 0] := by
  decide +kernel

end Artela
