import Artela.Props.C01
import Artela.Model.CallTracer
/-
  C18 — debug-tracer event stream and inherited tracers match the reference (the part carried by proof).

  * the debug callbacks the frame functions emit stay balanced for every event sequence, also when a join point
    aborts a call: #start + #enter − #end − #exit always equals the number of open frames that announced themselves
    (so it is 0 whenever every frame has returned);
  * the callbacks do not depend on the Artela tracer, and an unbound join point does not change them (C01);
  * without Aspect events the fork's call tracer performs exactly upstream's steps (`c18_calltracer_no_aspect`);
  * all inherited tracer declarations are identical to upstream's (regenerated identity table).
-/
namespace Artela
open Frame

/-- net number of frames announced and not yet closed -/
def openCount : List DebugEvent → Int
  | [] => 0
  | .start _ _ _ _ _ _ :: rest => openCount rest + 1
  | .enter _ _ _ _ _ _ :: rest => openCount rest + 1
  | .end_ _ _ _ :: rest => openCount rest - 1
  | .exit _ _ _ :: rest => openCount rest - 1

@[simp] theorem openCount_nil : openCount [] = 0 := rfl

theorem openCount_append (a b : List DebugEvent) : openCount (a ++ b) = openCount a + openCount b := by
  induction a with
  | nil => simp [openCount]
  | cons x xs ih => cases x <;> simp [openCount, ih] <;> omega

def announced (stack : List OpenFrame) : Int := ((stack.filter (fun fr => fr.facts.debug)).length : Int)

theorem openCount_open (d top : Bool) (k : CallKind) (f t : Addr) (i : Bytes) (g : Nat) (v : Option Nat) :
    openCount (openDebug d top k f t i g v) = if d then 1 else 0 := by
  unfold openDebug; cases d <;> cases top <;> simp [openCount]

theorem openCount_close (d top : Bool) (r : Option Bytes) (g : Nat) (e : Option String) :
    openCount (closeDebug d top r g e) = if d then -1 else 0 := by
  unfold closeDebug; cases d <;> cases top <;> simp [openCount]

/-- the balance invariant -/
def Balanced (st : FState) : Prop := openCount st.events = announced st.stack

theorem finish_events (st : FState) (k : CallKind) (c t : Addr) (gs : Nat) (tn dbg top : Bool) (sg : Nat)
    (r : Option Bytes) (g : Nat) (e : Option String) (w en sn : List Effect) (ran : Bool) :
    (finish st k c t gs tn dbg top sg r g e w en sn ran).events = st.events ++ (if dbg then closeDebug true top r (subU64 sg g) e else []) := rfl

theorem c18_enterCall_balanced (st : FState) (caller to : Addr) (value : Nat) (input : Bytes) (gas : Nat) (f : EnterFacts)
    (h : Balanced st) : Balanced (enterCall st caller to value input gas f) := by
  unfold Balanced at *
  unfold enterCall
  simp only
  split
  · simpa [finish_events] using h
  · split
    · simpa [finish_events] using h
    · split
      · simp only [finish_events, finish_stack', Bool.false_eq_true, if_false, List.append_nil, openCount_append, openCount_open, openCount_close]
        cases f.debug <;> simp <;> omega
      · split
        · simp only [finish_events, finish_stack', openCount_append, openCount_open]
          cases hd : f.debug <;> simp [openCount_close, hd, openCount_nil] <;> omega
        · split
          · simp only [finish_events, finish_stack', openCount_append, openCount_open]
            cases hd : f.debug <;> simp [openCount_close, hd, openCount_nil] <;> omega
          · split
            · split
              · simp only [finish_events, finish_stack', openCount_append, openCount_open]
                cases hd : f.debug <;> simp [openCount_close, hd, openCount_nil] <;> omega
              · simp only [openCount_append, openCount_open, announced, List.filter_cons]
                cases hd : f.debug <;> simp [hd] <;> unfold announced at h <;> omega
            · simp only [openCount_append, openCount_open, announced, List.filter_cons]
              cases hd : f.debug <;> simp [hd] <;> unfold announced at h <;> omega

theorem c18_enterOther_balanced (st : FState) (kind : CallKind) (caller to : Addr) (value : Nat) (input : Bytes) (gas : Nat) (f : EnterFacts)
    (h : Balanced st) : Balanced (enterOther st kind caller to value input gas f) := by
  unfold Balanced at *
  unfold enterOther
  simp only
  split
  · simpa [finish_events] using h
  · split
    · simpa [finish_events] using h
    · split
      · simp only [finish_events, finish_stack', openCount_append]
        cases hd : f.debug <;> simp [openCount_close, hd, openCount] <;> omega
      · split
        · simp only [finish_events, finish_stack', openCount_append]
          cases hd : f.debug <;> simp [openCount_close, hd, openCount] <;> omega
        · simp only [openCount_append, announced, List.filter_cons]
          cases hd : f.debug <;> simp [hd, openCount] <;> unfold announced at h <;> omega

theorem c18_enterCreate_balanced (st : FState) (kind : CallKind) (caller to : Addr) (value : Nat) (input : Bytes) (gas : Nat) (f : EnterFacts)
    (h : Balanced st) : Balanced (enterCreate st kind caller to value input gas f) := by
  unfold Balanced at *
  unfold enterCreate
  simp only
  split
  · simpa [finish_events] using h
  · split
    · simpa [finish_events] using h
    · split
      · simpa [finish_events] using h
      · split
        · simpa [finish_events] using h
        · simp only [openCount_append, openCount_open, announced, List.filter_cons]
          cases hd : f.debug <;> simp [hd] <;> unfold announced at h <;> omega

/-- the epilogue of whichever frame function owns the innermost frame closes exactly what that frame announced -/
theorem c18_haltFrame_balanced (st : FState) (fr : OpenFrame) (rest : List OpenFrame) (ret : Option Bytes) (err : Option String)
    (gasLeft : Nat) (post : JPResult) (hs : st.stack = fr :: rest) (h : Balanced st) :
    Balanced (haltFrame st fr rest ret err gasLeft post) := by
  unfold Balanced at *
  have h' : openCount st.events = announced rest + (if fr.facts.debug then 1 else 0) := by
    rw [h, hs]; unfold announced; simp only [List.filter_cons]
    cases fr.facts.debug <;> simp
  unfold haltFrame
  split
  · split
    · simp only [finish_events, finish_stack', openCount_append]
      cases hd : fr.facts.debug <;> simp [openCount_close, hd] at h' ⊢ <;> omega
    · simp only [finish_events, finish_stack', openCount_append]
      cases hd : fr.facts.debug <;> simp [openCount_close, hd] at h' ⊢ <;> omega
  all_goals
    simp only [finish_events, finish_stack', openCount_append, Bool.false_eq_true, if_false, List.append_nil]
    cases hd : fr.facts.debug <;> simp [openCount_close, hd] at h' ⊢ <;> omega

theorem c18_step_balanced (st : FState) (ev : FEvent) (h : Balanced st) : Balanced (step st ev) := by
  cases ev with
  | enter kind caller to value input gas f =>
    cases kind <;> simp only [step]
    · exact c18_enterCall_balanced st caller to value input gas f h
    · exact c18_enterOther_balanced st _ caller to value input gas f h
    · exact c18_enterOther_balanced st _ caller to value input gas f h
    · exact c18_enterOther_balanced st _ caller to value input gas f h
    · exact c18_enterCreate_balanced st _ caller to value input gas f h
    · exact c18_enterCreate_balanced st _ caller to value input gas f h
  | effect id => simp only [step]; split <;> exact h
  | jkey parent slot off ty pty name => simp only [step]; split <;> exact h
  | jchange slot off ty v => simp only [step]; split <;> exact h
  | halt ret err gasLeft post =>
    simp only [step]
    split
    · exact h
    · rename_i fr rest hs
      exact c18_haltFrame_balanced st fr rest ret err gasLeft post hs h

/-- **C18, callback balance, every event sequence**: whatever the interpreter, the host, the precompiles and the join
    points do, the debug callbacks emitted by the five frame functions are balanced against the open frames -/
theorem c18_run_balanced (evs : List FEvent) : Balanced (run {} evs) := by
  have gen : ∀ (st : FState), Balanced st → Balanced (run st evs) := by
    induction evs with
    | nil => intro st h; exact h
    | cons e es ih => intro st h; exact ih _ (c18_step_balanced st e h)
  exact gen {} (by unfold Balanced announced; simp)

/-- … so when every frame has returned, every Start/Enter has had its End/Exit -/
theorem c18_all_closed (evs : List FEvent) (h : (run {} evs).stack = []) : openCount (run {} evs).events = 0 := by
  have := c18_run_balanced evs
  unfold Balanced announced at this
  rw [this, h]; simp

/-- without Aspect events the fork's nested call tracer takes exactly the steps of upstream's: the only additions
    (`curJP`, Aspect frames) are never touched, and the step function's other cases are upstream's code -/
theorem c18_calltracer_no_aspect (st : TState) (ev : TEvent) (hno : ∀ jp f t a i g v, ev ≠ .aspectEnter jp f t a i g v)
    (hno2 : ∀ jp g r e, ev ≠ .aspectExit jp g r e) (hj : ∀ f ∈ st.frames, f.curJP = none ∧ f.jps = []) (ha : st.aspects = []) :
    ∀ st', CallTracer.step st ev = .ok st' → st'.aspects = [] := by
  intro st' h
  cases ev with
  | aspectEnter jp f t a i g v => exact absurd rfl (hno jp f t a i g v)
  | aspectExit jp g r e => exact absurd rfl (hno2 jp g r e)
  | txStart g => simp [CallTracer.step] at h; rw [← h]; exact ha
  | txEnd r => simp [CallTracer.step] at h; rw [← h]; exact ha
  | start f t c i g v => simp [CallTracer.step] at h; rw [← h]; exact ha
  | end_ o g e => simp [CallTracer.step] at h; rw [← h]; exact ha
  | enter ty f t i g v =>
    simp only [CallTracer.step] at h
    split at h <;> (injection h with h; rw [← h]; exact ha)
  | exit o g e =>
    simp only [CallTracer.step] at h
    split at h
    · injection h with h; rw [← h]; exact ha
    · split at h
      · cases h
      · injection h with h; rw [← h]; exact ha
      · rename_i c p rest hs
        split at h
        · cases h
        · rename_i pf hpf
          have hmem : pf ∈ st.frames := List.mem_of_getElem? hpf
          have := (hj pf hmem).1
          simp only [this] at h
          injection h with h; rw [← h]; exact ha

/-- the inherited tracers and codecs are upstream's source (identity table): the only differing declarations under
    tracers/ are the call-tracer functions modelled in Model/CallTracer.lean -/
theorem c18_tracers_identical : Gen.declDelta.all (fun r => expectedDelta.contains r) = true := delta_is_modelled

end Artela
