import Artela.Props.C11
/-
  C11 (every conflict-free history) — the lookup by name / index path and the lookup by (slot, offset, type) reach the same
  record after ANY sequence of operations in which no two registrations conflict.

  `Agree s` says: every entry of the flat index denotes a node carrying that (slot, offset, type) which is reachable by a
  name path from its account's root, every node reachable by a non-empty name path from an account's root is the entry of
  the flat index for that account and the node's own (slot, offset, type), ids are valid and no node is reachable from two
  accounts.  It holds initially and is preserved by: creating an account's root, a registration that is refused, a
  registration whose name, (slot, offset) and (account, slot, offset, type) are all new (under ANY registered parent,
  top-level or nested), and any change journal — accepted or refused.  What breaks it is exactly a conflicting registration
  (known finding D14, witnesses in C11.lean).
-/
namespace Artela
open StateChanges

/-- one lookup step: the child of node `c` registered under `name` -/
def child (s : StateChanges) (c : Nat) (name : Bytes) : Option Nat :=
  (s.keys[c]?).bind (fun (k : KeyNode) => alookup name k.childrenIndex)

/-- follow a name path from a node -/
def walk (s : StateChanges) (cur : Option Nat) (path : List Bytes) : Option Nat :=
  path.foldl (fun cur ix => cur.bind (fun c => child s c ix)) cur

theorem findKeyIndices_eq_walk (s : StateChanges) (a : Addr) (name : Bytes) (ixs : List Bytes) :
    s.findKeyIndices a name ixs = (alookup a s.roots).bind (fun r => walk s (some r) (name :: ixs)) := by
  unfold findKeyIndices walk child
  cases alookup a s.roots <;> rfl

theorem walk_none (s : StateChanges) (path : List Bytes) : walk s none path = none := by
  induction path with
  | nil => rfl
  | cons x xs ih => simpa [walk] using ih

theorem walk_append (s : StateChanges) (cur : Option Nat) (p q : List Bytes) : walk s cur (p ++ q) = walk s (walk s cur p) q := by
  unfold walk; rw [List.foldl_append]

theorem walk_snoc (s : StateChanges) (cur : Option Nat) (p : List Bytes) (x : Bytes) :
    walk s cur (p ++ [x]) = (walk s cur p).bind (fun c => child s c x) := by
  rw [walk_append]; rfl

structure Agree (s : StateChanges) : Prop where
  /-- ids are valid -/
  rootValid : ∀ (a : Addr) (r : Nat), alookup a s.roots = some r → r < s.keys.length
  childValid : ∀ (p : Nat) (k : KeyNode) (n : Bytes) (c : Nat), s.keys[p]? = some k → alookup n k.childrenIndex = some c → c < s.keys.length
  /-- every index entry is a node with those coordinates, reachable by a non-empty name path from its account's root -/
  idx : ∀ (a : Addr) (sl : Word) (o : Nat) (ty : Word) (id : Nat), alookup (a, sl, o, ty) s.index = some id →
    (∃ k : KeyNode, s.keys[id]? = some k ∧ k.slot = some sl ∧ k.offset = o ∧ k.typeId = ty) ∧
    (∃ (r : Nat) (path : List Bytes), alookup a s.roots = some r ∧ path ≠ [] ∧ walk s (some r) path = some id)
  /-- every node reachable by a non-empty path is its account's index entry for its own coordinates -/
  path : ∀ (a : Addr) (r : Nat) (p : List Bytes) (id : Nat), alookup a s.roots = some r → p ≠ [] → walk s (some r) p = some id →
    ∃ (k : KeyNode) (sl : Word), s.keys[id]? = some k ∧ k.slot = some sl ∧ alookup (a, sl, k.offset, k.typeId) s.index = some id
  /-- no node belongs to two accounts -/
  owner : ∀ (a a' : Addr) (r r' : Nat) (p p' : List Bytes) (id : Nat), alookup a s.roots = some r → alookup a' s.roots = some r' →
    walk s (some r) p = some id → walk s (some r') p' = some id → a = a'

theorem agree_empty : Agree ({} : StateChanges) := by
  refine ⟨?_, ?_, ?_, ?_, ?_⟩ <;> intros <;> simp_all [alookup]

theorem walk_cons (s : StateChanges) (c : Nat) (x : Bytes) (xs : List Bytes) :
    walk s (some c) (x :: xs) = walk s (child s c x) xs := rfl

/-- reachable ids are valid -/
theorem walk_valid (s : StateChanges) (h : Agree s) :
    ∀ (p : List Bytes) (r id : Nat), r < s.keys.length → walk s (some r) p = some id → id < s.keys.length := by
  intro p
  induction p with
  | nil => intro r id hr hw; simp [walk] at hw; omega
  | cons x xs ih =>
    intro r id hr hw
    rw [walk_cons] at hw
    cases hc : child s r x with
    | none => rw [hc, walk_none] at hw; cases hw
    | some c =>
      rw [hc] at hw
      have hcv : c < s.keys.length := by
        unfold child at hc
        cases hk : s.keys[r]? with
        | none => simp [hk] at hc
        | some k => simp only [hk, Option.bind_some] at hc; exact h.childValid r k x c hk hc
      exact ih c id hcv hw

theorem alookup_append_inv {κ ν} [DecidableEq κ] (k n : κ) (v c : ν) :
    ∀ (l : List (κ × ν)), alookup k (l ++ [(n, v)]) = some c → alookup k l = some c ∨ (alookup k l = none ∧ k = n ∧ c = v)
  | [], h => by
    simp only [List.nil_append, alookup] at h
    by_cases hn : n = k
    · simp only [hn, if_true] at h; injection h with h; exact Or.inr ⟨rfl, hn.symm, h.symm⟩
    · simp [hn] at h
  | (k', v') :: rest, h => by
    simp only [List.cons_append, alookup] at h ⊢
    by_cases c' : k' = k
    · simp only [c', if_true] at h ⊢; exact Or.inl h
    · simp only [c', if_false] at h ⊢; exact alookup_append_inv k n v c rest h

/-- the state a non-conflicting registration under parent node `pid` (whose content is `pk`) produces -/
def regUnder (s : StateChanges) (a : Addr) (pid : Nat) (pk : KeyNode) (self : Word) (o : Nat) (ty : Word) (name : Bytes) : StateChanges :=
  { s with
    keys := (s.keys ++ [({ slot := some self, offset := o, data := name, typeId := ty, nodeType := .branch } : KeyNode)]).modify pid
              (fun k => { k with childrenIndex := pk.childrenIndex ++ [(name, s.keys.length)], children := k.children ++ [((self, o), s.keys.length)] })
    index := s.index ++ [((a, self, o, ty), s.keys.length)] }

section RegUnder
variable (s : StateChanges) (a : Addr) (pid : Nat) (pk : KeyNode) (self : Word) (o : Nat) (ty : Word) (name : Bytes)
variable (hpk : s.keys[pid]? = some pk)

theorem reg_len : (regUnder s a pid pk self o ty name).keys.length = s.keys.length + 1 := by
  simp [regUnder]

include hpk in
theorem reg_pid_lt : pid < s.keys.length := (List.getElem?_eq_some_iff.mp hpk).1

include hpk in
theorem reg_key_old (id : Nat) (k : KeyNode) (hk : s.keys[id]? = some k) :
    ∃ k', (regUnder s a pid pk self o ty name).keys[id]? = some k' ∧ k'.slot = k.slot ∧ k'.offset = k.offset ∧ k'.typeId = k.typeId ∧
      k'.childrenIndex = (if pid = id then pk.childrenIndex ++ [(name, s.keys.length)] else k.childrenIndex) := by
  have hlt : id < s.keys.length := (List.getElem?_eq_some_iff.mp hk).1
  simp only [regUnder, List.getElem?_modify, List.getElem?_append_left hlt, hk, Option.map_some]
  by_cases h : pid = id
  · simp [h]
  · simp [h]

theorem reg_key_new : (regUnder s a pid pk self o ty name).keys[s.keys.length]? =
    (if pid = s.keys.length then none else some ({ slot := some self, offset := o, data := name, typeId := ty, nodeType := .branch } : KeyNode)) ∨
    pid = s.keys.length := by
  by_cases h : pid = s.keys.length
  · exact Or.inr h
  · left; simp [regUnder, List.getElem?_modify, h]

include hpk in
theorem reg_key_cid : (regUnder s a pid pk self o ty name).keys[s.keys.length]? =
    some ({ slot := some self, offset := o, data := name, typeId := ty, nodeType := .branch } : KeyNode) := by
  have h : ¬ pid = s.keys.length := by have := reg_pid_lt s pid pk hpk; omega
  simp [regUnder, List.getElem?_modify, h]

include hpk in
theorem reg_child_old (m : Nat) (x : Bytes) (hm : m < s.keys.length) :
    child (regUnder s a pid pk self o ty name) m x =
      if pid = m then alookup x (pk.childrenIndex ++ [(name, s.keys.length)]) else child s m x := by
  unfold child
  cases hk : s.keys[m]? with
  | none => rw [List.getElem?_eq_none_iff] at hk; omega
  | some k =>
    obtain ⟨k', hk', _, _, _, hci⟩ := reg_key_old s a pid pk self o ty name hpk m k hk
    simp only [hk', Option.bind_some, hci]
    by_cases h : pid = m <;> simp [h]

include hpk in
theorem reg_child_cid (x : Bytes) : child (regUnder s a pid pk self o ty name) s.keys.length x = none := by
  unfold child
  rw [reg_key_cid s a pid pk self o ty name hpk]
  simp [alookup]

include hpk in
theorem reg_child_mono (m : Nat) (x : Bytes) (c : Nat) (h : child s m x = some c) :
    child (regUnder s a pid pk self o ty name) m x = some c := by
  have hm : m < s.keys.length := by
    unfold child at h
    cases hk : s.keys[m]? with
    | none => simp [hk] at h
    | some k => exact (List.getElem?_eq_some_iff.mp hk).1
  rw [reg_child_old s a pid pk self o ty name hpk m x hm]
  by_cases hp : pid = m
  · simp only [hp, if_true]
    subst hp
    unfold child at h
    simp only [hpk, Option.bind_some] at h
    exact alookup_append_old _ _ _ _ _ h
  · simp only [hp, if_false]; exact h

include hpk in
theorem reg_walk_mono : ∀ (p : List Bytes) (r id : Nat), walk s (some r) p = some id →
    walk (regUnder s a pid pk self o ty name) (some r) p = some id := by
  intro p
  induction p with
  | nil => intro r id h; exact h
  | cons x xs ih =>
    intro r id h
    rw [walk_cons] at h ⊢
    cases hc : child s r x with
    | none => rw [hc, walk_none] at h; cases h
    | some c =>
      rw [hc] at h
      rw [reg_child_mono s a pid pk self o ty name hpk r x c hc]
      exact ih c id h

include hpk in
/-- a name path in the new state either existed before or enters the new node through the new edge `pid —name→ cid` -/
theorem reg_walk_inv (hs : Agree s) : ∀ (p : List Bytes) (r id : Nat), r < s.keys.length →
    walk (regUnder s a pid pk self o ty name) (some r) p = some id →
    walk s (some r) p = some id ∨ (id = s.keys.length ∧ ∃ p0, p = p0 ++ [name] ∧ walk s (some r) p0 = some pid) := by
  intro p
  induction p with
  | nil => intro r id _ h; exact Or.inl h
  | cons x xs ih =>
    intro r id hr h
    rw [walk_cons, reg_child_old s a pid pk self o ty name hpk r x hr] at h
    -- the step from r in the new state
    have hstep : ∀ c, child s r x = some c → walk (regUnder s a pid pk self o ty name) (some c) xs = some id →
        walk s (some r) (x :: xs) = some id ∨ (id = s.keys.length ∧ ∃ p0, x :: xs = p0 ++ [name] ∧ walk s (some r) p0 = some pid) := by
      intro c hc hw
      have hcv : c < s.keys.length := by
        unfold child at hc
        cases hk : s.keys[r]? with
        | none => simp [hk] at hc
        | some k => simp only [hk, Option.bind_some] at hc; exact hs.childValid r k x c hk hc
      rcases ih c id hcv hw with h1 | ⟨h1, p0, hp0, hw0⟩
      · left; rw [walk_cons, hc]; exact h1
      · right; refine ⟨h1, x :: p0, by simp [hp0], ?_⟩
        rw [walk_cons, hc]; exact hw0
    by_cases hp : pid = r
    · rw [if_pos hp] at h
      cases hl : alookup x (pk.childrenIndex ++ [(name, s.keys.length)]) with
      | none => rw [hl, walk_none] at h; cases h
      | some c =>
        rw [hl] at h
        rcases alookup_append_inv x name s.keys.length c pk.childrenIndex hl with hold | ⟨hnone, hx, hc⟩
        · have hc : child s r x = some c := by
            unfold child; subst hp; simp only [hpk, Option.bind_some]; exact hold
          exact hstep c hc h
        · subst hc
          cases xs with
          | nil =>
            simp [walk] at h
            right
            refine ⟨h.symm, [], by simp [hx], ?_⟩
            simp [walk, hp]
          | cons y ys =>
            rw [walk_cons, reg_child_cid s a pid pk self o ty name hpk y, walk_none] at h
            cases h
    · rw [if_neg hp] at h
      cases hc : child s r x with
      | none => rw [hc, walk_none] at h; cases h
      | some c => rw [hc] at h; exact hstep c hc h

include hpk in
/-- **a non-conflicting registration preserves agreement** -/
theorem agree_regUnder (hs : Agree s) (hname : alookup name pk.childrenIndex = none) (hidx : alookup (a, self, o, ty) s.index = none)
    (hreach : ∃ r p, alookup a s.roots = some r ∧ walk s (some r) p = some pid) :
    Agree (regUnder s a pid pk self o ty name) := by
  have hplt := reg_pid_lt s pid pk hpk
  have hroots : (regUnder s a pid pk self o ty name).roots = s.roots := rfl
  have hindex : (regUnder s a pid pk self o ty name).index = s.index ++ [((a, self, o, ty), s.keys.length)] := rfl
  have hlen := reg_len s a pid pk self o ty name
  obtain ⟨ra, pa, hra, hwa⟩ := hreach
  have hstepNew : child (regUnder s a pid pk self o ty name) pid name = some s.keys.length := by
    rw [reg_child_old s a pid pk self o ty name hpk pid name hplt, if_pos rfl]
    exact alookup_append_new _ _ _ hname
  refine ⟨?_, ?_, ?_, ?_, ?_⟩
  · -- rootValid
    intro a' r hr
    rw [hroots] at hr; rw [hlen]
    have := hs.rootValid a' r hr; omega
  · -- childValid
    intro p k n c hk hc
    rw [hlen]
    by_cases hpl : p < s.keys.length
    · cases hk0 : s.keys[p]? with
      | none => rw [List.getElem?_eq_none_iff] at hk0; omega
      | some k0 =>
        obtain ⟨k', hk', _, _, _, hci⟩ := reg_key_old s a pid pk self o ty name hpk p k0 hk0
        rw [hk'] at hk; injection hk with hk; subst hk
        rw [hci] at hc
        by_cases hpp : pid = p
        · rw [if_pos hpp] at hc
          rcases alookup_append_inv n name s.keys.length c pk.childrenIndex hc with hold | ⟨_, _, hcc⟩
          · have := hs.childValid pid pk n c hpk hold; omega
          · omega
        · rw [if_neg hpp] at hc
          have := hs.childValid p k0 n c hk0 hc; omega
    · have hpe : p = s.keys.length := by
        have : p < (regUnder s a pid pk self o ty name).keys.length := (List.getElem?_eq_some_iff.mp hk).1
        omega
      subst hpe
      rw [reg_key_cid s a pid pk self o ty name hpk] at hk
      injection hk with hk; subst hk
      simp [alookup] at hc
  · -- idx
    intro a' sl o' ty' id hl
    rw [hindex] at hl
    rcases alookup_append_inv _ _ _ _ _ hl with hold | ⟨_, hkey, hid⟩
    · obtain ⟨⟨k, hk, h1, h2, h3⟩, r, pth, hr, hne, hw⟩ := hs.idx a' sl o' ty' id hold
      obtain ⟨k', hk', e1, e2, e3, _⟩ := reg_key_old s a pid pk self o ty name hpk id k hk
      exact ⟨⟨k', hk', by rw [e1, h1], by rw [e2, h2], by rw [e3, h3]⟩, r, pth, hr, hne, reg_walk_mono s a pid pk self o ty name hpk pth r id hw⟩
    · injection hkey with ha hrest; injection hrest with hsl hrest; injection hrest with ho hty
      subst ha hsl ho hty hid
      refine ⟨⟨_, reg_key_cid s a' pid pk sl o' ty' name hpk, rfl, rfl, rfl⟩, ra, pa ++ [name], hra, by simp, ?_⟩
      rw [walk_snoc, reg_walk_mono s a' pid pk sl o' ty' name hpk pa ra pid hwa]
      exact hstepNew
  · -- path
    intro a' r p id hr hne hw
    rw [hroots] at hr
    have hrv := hs.rootValid a' r hr
    rcases reg_walk_inv s a pid pk self o ty name hpk hs p r id hrv hw with hold | ⟨hid, p0, hp0, hw0⟩
    · obtain ⟨k, sl, hk, hsl, hlk⟩ := hs.path a' r p id hr hne hold
      obtain ⟨k', hk', e1, e2, e3, _⟩ := reg_key_old s a pid pk self o ty name hpk id k hk
      refine ⟨k', sl, hk', by rw [e1, hsl], ?_⟩
      rw [hindex, e2, e3]
      exact alookup_append_old _ _ _ _ _ hlk
    · have haa : a' = a := hs.owner a' a r ra p0 pa pid hr hra hw0 hwa
      subst haa hid
      refine ⟨_, self, reg_key_cid s a' pid pk self o ty name hpk, rfl, ?_⟩
      rw [hindex]
      exact alookup_append_new _ _ _ hidx
  · -- owner
    intro a1 a2 r1 r2 p1 p2 id h1 h2 hw1 hw2
    rw [hroots] at h1 h2
    have hv1 := hs.rootValid a1 r1 h1
    have hv2 := hs.rootValid a2 r2 h2
    rcases reg_walk_inv s a pid pk self o ty name hpk hs p1 r1 id hv1 hw1 with o1 | ⟨i1, q1, _, w1⟩ <;>
    rcases reg_walk_inv s a pid pk self o ty name hpk hs p2 r2 id hv2 hw2 with o2 | ⟨i2, q2, _, w2⟩
    · exact hs.owner a1 a2 r1 r2 p1 p2 id h1 h2 o1 o2
    · have := walk_valid s hs p1 r1 id hv1 o1; omega
    · have := walk_valid s hs p2 r2 id hv2 o2; omega
    · exact hs.owner a1 a2 r1 r2 q1 q2 pid h1 h2 w1 w2

end RegUnder

/-! ### journaling a change preserves agreement -/

theorem getElem_opt_modify_some' {α} (l : List α) (k i : Nat) (g : α → α) (x : α) (h : (l.modify k g)[i]? = some x) :
    ∃ x0, l[i]? = some x0 ∧ x = if k = i then g x0 else x0 := by
  rw [List.getElem?_modify] at h
  cases hl : l[i]? with
  | none => simp [hl] at h
  | some x0 =>
    refine ⟨x0, rfl, ?_⟩
    by_cases hk : k = i <;> simp [hl, hk] at h <;> simp [hk, h]

theorem journal_fields (k : KeyNode) (i : Nat) (v : Bytes) :
    (k.journal i v).slot = k.slot ∧ (k.journal i v).offset = k.offset ∧ (k.journal i v).typeId = k.typeId ∧
    (k.journal i v).childrenIndex = k.childrenIndex := by
  unfold KeyNode.journal; cases k.changes <;> exact ⟨rfl, rfl, rfl, rfl⟩

theorem modify_child (s : StateChanges) (id : Nat) (g : KeyNode → KeyNode) (hg : ∀ k, (g k).childrenIndex = k.childrenIndex) (m : Nat) (x : Bytes) :
    child { s with keys := s.keys.modify id g } m x = child s m x := by
  unfold child
  simp only [List.getElem?_modify]
  cases hk : s.keys[m]? with
  | none => simp
  | some k => by_cases h : id = m <;> simp [h, hg]

theorem modify_walk (s : StateChanges) (id : Nat) (g : KeyNode → KeyNode) (hg : ∀ k, (g k).childrenIndex = k.childrenIndex) :
    ∀ (p : List Bytes) (cur : Option Nat), walk { s with keys := s.keys.modify id g } cur p = walk s cur p := by
  intro p
  induction p with
  | nil => intro cur; rfl
  | cons x xs ih =>
    intro cur
    cases cur with
    | none => rw [walk_none, walk_none]
    | some c => rw [walk_cons, walk_cons, modify_child s id g hg c x]; exact ih _

theorem agree_modify (s : StateChanges) (hs : Agree s) (id : Nat) (g : KeyNode → KeyNode)
    (hg : ∀ k, (g k).slot = k.slot ∧ (g k).offset = k.offset ∧ (g k).typeId = k.typeId ∧ (g k).childrenIndex = k.childrenIndex) :
    Agree { s with keys := s.keys.modify id g } := by
  have hw := modify_walk s id g (fun k => (hg k).2.2.2)
  have hkey : ∀ (j : Nat) (k : KeyNode), s.keys[j]? = some k → ∃ k', (s.keys.modify id g)[j]? = some k' ∧ k'.slot = k.slot ∧
      k'.offset = k.offset ∧ k'.typeId = k.typeId ∧ k'.childrenIndex = k.childrenIndex := by
    intro j k hk
    rw [List.getElem?_modify, hk]
    by_cases h : id = j
    · exact ⟨g k, by simp [h], (hg k).1, (hg k).2.1, (hg k).2.2.1, (hg k).2.2.2⟩
    · exact ⟨k, by simp [h], rfl, rfl, rfl, rfl⟩
  have hkeyInv : ∀ (j : Nat) (k' : KeyNode), (s.keys.modify id g)[j]? = some k' → ∃ k, s.keys[j]? = some k ∧ k'.childrenIndex = k.childrenIndex := by
    intro j k' hk'
    obtain ⟨k0, h0, hx⟩ := getElem_opt_modify_some' _ _ _ _ _ hk'
    refine ⟨k0, h0, ?_⟩
    by_cases h : id = j
    · simp only [h, if_true] at hx; rw [hx]; exact (hg k0).2.2.2
    · simp only [h, if_false] at hx; rw [hx]
  refine ⟨?_, ?_, ?_, ?_, ?_⟩
  · intro a r hr; simp only [List.length_modify]; exact hs.rootValid a r hr
  · intro p k n c hk hc
    simp only [List.length_modify]
    obtain ⟨k0, h0, hci⟩ := hkeyInv p k hk
    rw [hci] at hc
    exact hs.childValid p k0 n c h0 hc
  · intro a sl o ty j hl
    obtain ⟨⟨k, hk, h1, h2, h3⟩, r, pth, hr, hne, hwk⟩ := hs.idx a sl o ty j hl
    obtain ⟨k', hk', e1, e2, e3, _⟩ := hkey j k hk
    exact ⟨⟨k', hk', by rw [e1, h1], by rw [e2, h2], by rw [e3, h3]⟩, r, pth, hr, hne, by rw [hw]; exact hwk⟩
  · intro a r p j hr hne hwk
    rw [hw] at hwk
    obtain ⟨k, sl, hk, hsl, hlk⟩ := hs.path a r p j hr hne hwk
    obtain ⟨k', hk', e1, e2, e3, _⟩ := hkey j k hk
    exact ⟨k', sl, hk', by rw [e1, hsl], by rw [e2, e3]; exact hlk⟩
  · intro a1 a2 r1 r2 p1 p2 j h1 h2 w1 w2
    rw [hw] at w1 w2
    exact hs.owner a1 a2 r1 r2 p1 p2 j h1 h2 w1 w2

/-- any change journal — accepted or refused — preserves agreement -/
theorem agree_saveChange (s : StateChanges) (hs : Agree s) (a : Addr) (self : Word) (off : Option Word) (ty : Word) (i : Nat) (v : Bytes) :
    Agree (s.saveChange a self off ty i v).1 := by
  unfold saveChange
  split
  · exact hs
  · split
    · exact hs
    · split
      · exact hs
      · exact agree_modify s hs _ _ (fun k => journal_fields k i v)

/-! ### creating an account's root preserves agreement -/

/-- the state after a root for a new account `a` has been appended -/
def withRoot (s : StateChanges) (a : Addr) : StateChanges :=
  { s with keys := s.keys ++ [({ nodeType := .root } : KeyNode)], roots := s.roots ++ [(a, s.keys.length)] }

theorem ensureRoot_cases (s : StateChanges) (a : Addr) :
    (∃ r, alookup a s.roots = some r ∧ s.ensureRoot a = (s, r)) ∨
    (alookup a s.roots = none ∧ s.ensureRoot a = (withRoot s a, s.keys.length)) := by
  unfold ensureRoot withRoot
  cases h : alookup a s.roots with
  | some r => exact Or.inl ⟨r, rfl, rfl⟩
  | none => exact Or.inr ⟨rfl, rfl⟩

theorem wr_child_old (s : StateChanges) (a : Addr) (m : Nat) (x : Bytes) (hm : m < s.keys.length) :
    child (withRoot s a) m x = child s m x := by
  unfold child withRoot
  simp [List.getElem?_append_left hm]

theorem wr_child_new (s : StateChanges) (a : Addr) (x : Bytes) : child (withRoot s a) s.keys.length x = none := by
  unfold child withRoot
  simp [alookup]

theorem wr_walk_old (s : StateChanges) (hs : Agree s) (a : Addr) :
    ∀ (p : List Bytes) (r : Nat), r < s.keys.length → walk (withRoot s a) (some r) p = walk s (some r) p := by
  intro p
  induction p with
  | nil => intro r _; rfl
  | cons x xs ih =>
    intro r hr
    rw [walk_cons, walk_cons, wr_child_old s a r x hr]
    cases hc : child s r x with
    | none => rw [walk_none, walk_none]
    | some c =>
      have hcv : c < s.keys.length := by
        unfold child at hc
        cases hk : s.keys[r]? with
        | none => simp [hk] at hc
        | some k => simp only [hk, Option.bind_some] at hc; exact hs.childValid r k x c hk hc
      exact ih c hcv

theorem wr_walk_new (s : StateChanges) (a : Addr) (p : List Bytes) (id : Nat) (h : walk (withRoot s a) (some s.keys.length) p = some id) :
    p = [] ∧ id = s.keys.length := by
  cases p with
  | nil => simp [walk] at h; exact ⟨rfl, h.symm⟩
  | cons x xs => rw [walk_cons, wr_child_new, walk_none] at h; cases h

theorem agree_withRoot (s : StateChanges) (hs : Agree s) (a : Addr) (hnew : alookup a s.roots = none) : Agree (withRoot s a) := by
  have hlen : (withRoot s a).keys.length = s.keys.length + 1 := by simp [withRoot]
  have hroot : ∀ a' r, alookup a' (withRoot s a).roots = some r → alookup a' s.roots = some r ∨ (a' = a ∧ r = s.keys.length) := by
    intro a' r h
    rcases alookup_append_inv a' a s.keys.length r s.roots h with h1 | ⟨_, h2, h3⟩
    · exact Or.inl h1
    · exact Or.inr ⟨h2, h3⟩
  have hkeyOld : ∀ (j : Nat) (k : KeyNode), s.keys[j]? = some k → (withRoot s a).keys[j]? = some k := by
    intro j k hk
    have hlt : j < s.keys.length := (List.getElem?_eq_some_iff.mp hk).1
    simp [withRoot, List.getElem?_append_left hlt, hk]
  refine ⟨?_, ?_, ?_, ?_, ?_⟩
  · intro a' r hr
    rw [hlen]
    rcases hroot a' r hr with h | ⟨_, h⟩
    · have := hs.rootValid a' r h; omega
    · omega
  · intro p k n c hk hc
    rw [hlen]
    by_cases hp : p < s.keys.length
    · have : (withRoot s a).keys[p]? = s.keys[p]? := by simp [withRoot, List.getElem?_append_left hp]
      rw [this] at hk
      have := hs.childValid p k n c hk hc; omega
    · have hpe : p = s.keys.length := by
        have : p < (withRoot s a).keys.length := (List.getElem?_eq_some_iff.mp hk).1
        omega
      subst hpe
      simp [withRoot] at hk
      subst hk
      simp [alookup] at hc
  · intro a' sl o ty id hl
    obtain ⟨⟨k, hk, h1, h2, h3⟩, r, pth, hr, hne, hw⟩ := hs.idx a' sl o ty id hl
    refine ⟨⟨k, hkeyOld id k hk, h1, h2, h3⟩, r, pth, ?_, hne, ?_⟩
    · exact alookup_append_old _ _ _ _ _ hr
    · rw [wr_walk_old s hs a pth r (hs.rootValid a' r hr)]; exact hw
  · intro a' r p id hr hne hw
    rcases hroot a' r hr with h | ⟨_, h⟩
    · rw [wr_walk_old s hs a p r (hs.rootValid a' r h)] at hw
      obtain ⟨k, sl, hk, hsl, hlk⟩ := hs.path a' r p id h hne hw
      exact ⟨k, sl, hkeyOld id k hk, hsl, hlk⟩
    · subst h
      exact absurd (wr_walk_new s a p id hw).1 hne
  · intro a1 a2 r1 r2 p1 p2 id h1 h2 w1 w2
    rcases hroot a1 r1 h1 with o1 | ⟨e1, n1⟩ <;> rcases hroot a2 r2 h2 with o2 | ⟨e2, n2⟩
    · rw [wr_walk_old s hs a p1 r1 (hs.rootValid a1 r1 o1)] at w1
      rw [wr_walk_old s hs a p2 r2 (hs.rootValid a2 r2 o2)] at w2
      exact hs.owner a1 a2 r1 r2 p1 p2 id o1 o2 w1 w2
    · subst n2
      rw [wr_walk_old s hs a p1 r1 (hs.rootValid a1 r1 o1)] at w1
      have hv := walk_valid s hs p1 r1 id (hs.rootValid a1 r1 o1) w1
      have := (wr_walk_new s a p2 id w2).2
      omega
    · subst n1
      rw [wr_walk_old s hs a p2 r2 (hs.rootValid a2 r2 o2)] at w2
      have hv := walk_valid s hs p2 r2 id (hs.rootValid a2 r2 o2) w2
      have := (wr_walk_new s a p1 id w1).2
      omega
    · rw [e1, e2]

theorem agree_ensureRoot (s : StateChanges) (hs : Agree s) (a : Addr) :
    Agree (s.ensureRoot a).1 ∧ alookup a (s.ensureRoot a).1.roots = some (s.ensureRoot a).2 := by
  rcases ensureRoot_cases s a with ⟨r, hr, he⟩ | ⟨hn, he⟩
  · rw [he]; exact ⟨hs, hr⟩
  · rw [he]
    refine ⟨agree_withRoot s hs a hn, ?_⟩
    exact alookup_append_new _ _ _ hn

/-! ### what a conflict-free registration does -/

/-- the registration's name, its (slot, offset) under the parent and its (account, slot, offset, type) are all new -/
def FreshUnder (s1 : StateChanges) (a : Addr) (pid : Nat) (pk : KeyNode) (self : Word) (o : Nat) (ty : Word) (name : Bytes) : Prop :=
  s1.keys[pid]? = some pk ∧ alookup name pk.childrenIndex = none ∧ alookup (self, o) pk.children = none ∧
  alookup (a, self, o, ty) s1.index = none

theorem saveKey_under (s1 : StateChanges) (a : Addr) (pid : Nat) (pk : KeyNode) (self : Word) (o : Nat) (ty : Word) (name : Bytes)
    (hf : FreshUnder s1 a pid pk self o ty name) :
    (let cid := s1.keys.length
     let child : KeyNode := { slot := some self, offset := o, data := name, typeId := ty, nodeType := .branch }
     let r := addChild (s1.keys ++ [child]) pid cid self o name
     let s2 : StateChanges := { s1 with keys := r.1 }
     match r.1[r.2]? with
     | none => (s2, (none : Option String))
     | some rk => (s2.addKey a (rk.slot.getD 0) rk.offset rk.typeId r.2, none)) = (regUnder s1 a pid pk self o ty name, none) := by
  obtain ⟨hpk, hname, hso, hidx⟩ := hf
  have hlt : pid < s1.keys.length := (List.getElem?_eq_some_iff.mp hpk).1
  have hpk' : (s1.keys ++ [({ slot := some self, offset := o, data := name, typeId := ty, nodeType := .branch } : KeyNode)])[pid]? = some pk := by
    rw [List.getElem?_append_left hlt]; exact hpk
  simp only [addChild, hpk', hname, hso]
  have hcid : (List.modify (s1.keys ++ [({ slot := some self, offset := o, data := name, typeId := ty, nodeType := .branch } : KeyNode)]) pid
      (fun k => { k with childrenIndex := pk.childrenIndex ++ [(name, s1.keys.length)], children := k.children ++ [((self, o), s1.keys.length)] }))[s1.keys.length]?
      = some { slot := some self, offset := o, data := name, typeId := ty, nodeType := .branch } := by
    rw [List.getElem?_modify]
    have : ¬ (pid = s1.keys.length) := by omega
    simp [this]
  simp only [hcid, Option.getD_some, addKey, hidx]
  rfl

theorem saveKey_nested_fresh (s : StateChanges) (a : Addr) (p self : Word) (off : Option Word) (o : Nat) (ty pty : Word) (name : Bytes)
    (pid : Nat) (pk : KeyNode) (hco : checkOffset off = some o) (hp : s.findKey a p 0 pty = some pid)
    (hf : FreshUnder s a pid pk self o ty name) :
    s.saveKey a (some p) self off ty pty name = (regUnder s a pid pk self o ty name, none) := by
  have := saveKey_under s a pid pk self o ty name hf
  simp only [saveKey, hco, hp, Option.map_some]
  exact this

theorem saveKey_top_fresh (s : StateChanges) (a : Addr) (self : Word) (off : Option Word) (o : Nat) (ty pty : Word) (name : Bytes)
    (pk : KeyNode) (hco : checkOffset off = some o)
    (hf : FreshUnder (s.ensureRoot a).1 a (s.ensureRoot a).2 pk self o ty name) :
    s.saveKey a none self off ty pty name = (regUnder (s.ensureRoot a).1 a (s.ensureRoot a).2 pk self o ty name, none) := by
  have := saveKey_under (s.ensureRoot a).1 a (s.ensureRoot a).2 pk self o ty name hf
  simp only [saveKey, hco]
  exact this

/-! ### re-registering an existing key is idempotent -/

/-- the state after an unreachable node has been appended to the arena (what `NewBranchKey` leaves behind when the key exists) -/
def withJunk (s : StateChanges) (j : KeyNode) : StateChanges := { s with keys := s.keys ++ [j] }

theorem wj_child_old (s : StateChanges) (j : KeyNode) (m : Nat) (x : Bytes) (hm : m < s.keys.length) :
    child (withJunk s j) m x = child s m x := by
  unfold child withJunk
  simp [List.getElem?_append_left hm]

theorem wj_walk_old (s : StateChanges) (hs : Agree s) (j : KeyNode) :
    ∀ (p : List Bytes) (r : Nat), r < s.keys.length → walk (withJunk s j) (some r) p = walk s (some r) p := by
  intro p
  induction p with
  | nil => intro r _; rfl
  | cons x xs ih =>
    intro r hr
    rw [walk_cons, walk_cons, wj_child_old s j r x hr]
    cases hc : child s r x with
    | none => rw [walk_none, walk_none]
    | some c =>
      have hcv : c < s.keys.length := by
        unfold child at hc
        cases hk : s.keys[r]? with
        | none => simp [hk] at hc
        | some k => simp only [hk, Option.bind_some] at hc; exact hs.childValid r k x c hk hc
      exact ih c hcv

theorem agree_withJunk (s : StateChanges) (hs : Agree s) (j : KeyNode) (hj : j.childrenIndex = []) : Agree (withJunk s j) := by
  have hlen : (withJunk s j).keys.length = s.keys.length + 1 := by simp [withJunk]
  have hkeyOld : ∀ (i : Nat) (k : KeyNode), s.keys[i]? = some k → (withJunk s j).keys[i]? = some k := by
    intro i k hk
    have hlt : i < s.keys.length := (List.getElem?_eq_some_iff.mp hk).1
    simp [withJunk, List.getElem?_append_left hlt, hk]
  refine ⟨?_, ?_, ?_, ?_, ?_⟩
  · intro a r hr
    rw [hlen]; have := hs.rootValid a r hr; omega
  · intro p k n c hk hc
    rw [hlen]
    by_cases hp : p < s.keys.length
    · have : (withJunk s j).keys[p]? = s.keys[p]? := by simp [withJunk, List.getElem?_append_left hp]
      rw [this] at hk
      have := hs.childValid p k n c hk hc; omega
    · have hpe : p = s.keys.length := by
        have : p < (withJunk s j).keys.length := (List.getElem?_eq_some_iff.mp hk).1
        omega
      subst hpe
      simp [withJunk] at hk
      subst hk
      rw [hj] at hc
      simp [alookup] at hc
  · intro a sl o ty id hl
    obtain ⟨⟨k, hk, h1, h2, h3⟩, r, pth, hr, hne, hw⟩ := hs.idx a sl o ty id hl
    exact ⟨⟨k, hkeyOld id k hk, h1, h2, h3⟩, r, pth, hr, hne, by rw [wj_walk_old s hs j pth r (hs.rootValid a r hr)]; exact hw⟩
  · intro a r p id hr hne hw
    rw [wj_walk_old s hs j p r (hs.rootValid a r hr)] at hw
    obtain ⟨k, sl, hk, hsl, hlk⟩ := hs.path a r p id hr hne hw
    exact ⟨k, sl, hkeyOld id k hk, hsl, hlk⟩
  · intro a1 a2 r1 r2 p1 p2 id h1 h2 w1 w2
    rw [wj_walk_old s hs j p1 r1 (hs.rootValid a1 r1 h1)] at w1
    rw [wj_walk_old s hs j p2 r2 (hs.rootValid a2 r2 h2)] at w2
    exact hs.owner a1 a2 r1 r2 p1 p2 id h1 h2 w1 w2

/-- the registration names an existing child of its parent by the same name AND the same (slot, offset), which is the
    flat-index entry for its coordinates: an exact re-registration -/
def ExactRereg (s1 : StateChanges) (a : Addr) (pid : Nat) (pk : KeyNode) (self : Word) (o : Nat) (name : Bytes) (ex : Nat) (ek : KeyNode) : Prop :=
  s1.keys[pid]? = some pk ∧ alookup name pk.childrenIndex = some ex ∧ alookup (self, o) pk.children = some ex ∧
  s1.keys[ex]? = some ek ∧ (alookup (a, ek.slot.getD 0, ek.offset, ek.typeId) s1.index).isSome = true

theorem modify_self {α : Type} (l : List α) (i : Nat) (g : α → α) (h : ∀ x, l[i]? = some x → g x = x) : l.modify i g = l := by
  apply List.ext_getElem?
  intro j
  rw [List.getElem?_modify]
  by_cases hij : i = j
  · subst hij
    cases hx : l[i]? with
    | none => simp
    | some x => simp [h x hx]
  · simp [hij]

theorem saveKey_under_rereg (s1 : StateChanges) (a : Addr) (pid : Nat) (pk : KeyNode) (self : Word) (o : Nat) (ty : Word) (name : Bytes)
    (ex : Nat) (ek : KeyNode) (hf : ExactRereg s1 a pid pk self o name ex ek) :
    (let cid := s1.keys.length
     let child : KeyNode := { slot := some self, offset := o, data := name, typeId := ty, nodeType := .branch }
     let r := addChild (s1.keys ++ [child]) pid cid self o name
     let s2 : StateChanges := { s1 with keys := r.1 }
     match r.1[r.2]? with
     | none => (s2, (none : Option String))
     | some rk => (s2.addKey a (rk.slot.getD 0) rk.offset rk.typeId r.2, none)) =
      (withJunk s1 { slot := some self, offset := o, data := name, typeId := ty, nodeType := .branch }, none) := by
  obtain ⟨hpk, hname, hso, hek, hidx⟩ := hf
  have hlt : pid < s1.keys.length := (List.getElem?_eq_some_iff.mp hpk).1
  have hexlt : ex < s1.keys.length := (List.getElem?_eq_some_iff.mp hek).1
  have hpk' : (s1.keys ++ [({ slot := some self, offset := o, data := name, typeId := ty, nodeType := .branch } : KeyNode)])[pid]? = some pk := by
    rw [List.getElem?_append_left hlt]; exact hpk
  simp only [addChild, hpk', hname, hso]
  have hmod : (List.modify (s1.keys ++ [({ slot := some self, offset := o, data := name, typeId := ty, nodeType := .branch } : KeyNode)]) pid
      (fun k => { k with childrenIndex := pk.childrenIndex })) =
      s1.keys ++ [({ slot := some self, offset := o, data := name, typeId := ty, nodeType := .branch } : KeyNode)] := by
    apply modify_self
    intro x hx
    rw [hpk'] at hx
    injection hx with hx
    subst hx
    rfl
  rw [hmod]
  have hek' : (s1.keys ++ [({ slot := some self, offset := o, data := name, typeId := ty, nodeType := .branch } : KeyNode)])[ex]? = some ek := by
    rw [List.getElem?_append_left hexlt]; exact hek
  simp only [hek', addKey]
  cases hl : alookup (a, ek.slot.getD 0, ek.offset, ek.typeId) s1.index with
  | none => rw [hl] at hidx; cases hidx
  | some v => rfl

/-- **re-registering an existing key is idempotent**: what an exact re-registration leaves behind (an unreachable arena node)
    changes the answer of no lookup — by name path, by (slot, offset, type), `Variable`, `Slot` -/
theorem c11_reregistration_idempotent (s : StateChanges) (hs : Agree s) (j : KeyNode) :
    (∀ a name ixs, (withJunk s j).findKeyIndices a name ixs = s.findKeyIndices a name ixs) ∧
    (∀ a sl o ty, (withJunk s j).findKey a sl o ty = s.findKey a sl o ty) ∧
    (∀ a name ixs, (withJunk s j).variableQ a name ixs = s.variableQ a name ixs) ∧
    (∀ a sl off ty, (withJunk s j).slotQ a sl off ty = s.slotQ a sl off ty) := by
  have hfi : ∀ a name ixs, (withJunk s j).findKeyIndices a name ixs = s.findKeyIndices a name ixs := by
    intro a name ixs
    rw [findKeyIndices_eq_walk, findKeyIndices_eq_walk]
    show (alookup a s.roots).bind _ = _
    cases hr : alookup a s.roots with
    | none => rfl
    | some r => simp only [Option.bind_some]; exact wj_walk_old s hs j _ r (hs.rootValid a r hr)
  have hkey : ∀ id, id < s.keys.length → (withJunk s j).keys[id]? = s.keys[id]? := by
    intro id hid; simp [withJunk, List.getElem?_append_left hid]
  refine ⟨hfi, fun _ _ _ _ => rfl, ?_, ?_⟩
  · intro a name ixs
    unfold variableQ
    rw [hfi]
    cases hf : s.findKeyIndices a name ixs with
    | none => rfl
    | some id =>
      simp only [Option.bind_some]
      have hid : id < s.keys.length := by
        rw [findKeyIndices_eq_walk] at hf
        cases hr : alookup a s.roots with
        | none => rw [hr] at hf; cases hf
        | some r => rw [hr] at hf; exact walk_valid s hs _ r id (hs.rootValid a r hr) hf
      rw [hkey id hid]
  · intro a sl off ty
    unfold slotQ
    cases hco : checkOffset off with
    | none => rfl
    | some o =>
      simp only
      have hfk : (withJunk s j).findKey a sl o ty = s.findKey a sl o ty := rfl
      rw [hfk]
      cases hf : s.findKey a sl o ty with
      | none => rfl
      | some id =>
        simp only [Option.bind_some]
        obtain ⟨⟨k, hk, _⟩, _⟩ := hs.idx a sl o ty id hf
        have hid : id < s.keys.length := (List.getElem?_eq_some_iff.mp hk).1
        rw [hkey id hid]

theorem saveKey_nested_rereg (s : StateChanges) (a : Addr) (p self : Word) (off : Option Word) (o : Nat) (ty pty : Word) (name : Bytes)
    (pid : Nat) (pk : KeyNode) (ex : Nat) (ek : KeyNode) (hco : checkOffset off = some o) (hp : s.findKey a p 0 pty = some pid)
    (hf : ExactRereg s a pid pk self o name ex ek) :
    s.saveKey a (some p) self off ty pty name =
      (withJunk s { slot := some self, offset := o, data := name, typeId := ty, nodeType := .branch }, none) := by
  have := saveKey_under_rereg s a pid pk self o ty name ex ek hf
  simp only [saveKey, hco, hp, Option.map_some]
  exact this

theorem saveKey_top_rereg (s : StateChanges) (a : Addr) (self : Word) (off : Option Word) (o : Nat) (ty pty : Word) (name : Bytes)
    (pk : KeyNode) (ex : Nat) (ek : KeyNode) (hco : checkOffset off = some o)
    (hf : ExactRereg (s.ensureRoot a).1 a (s.ensureRoot a).2 pk self o name ex ek) :
    s.saveKey a none self off ty pty name =
      (withJunk (s.ensureRoot a).1 { slot := some self, offset := o, data := name, typeId := ty, nodeType := .branch }, none) := by
  have := saveKey_under_rereg (s.ensureRoot a).1 a (s.ensureRoot a).2 pk self o ty name ex ek hf
  simp only [saveKey, hco]
  exact this

/-! ### every conflict-free history -/

/-- an operation is conflict-free in state `s`: any change journal; a registration that is refused; a registration whose
    name, (slot, offset) under its parent and (account, slot, offset, type) are all new — top-level or nested; or an exact
    re-registration (same name and same (slot, offset) denoting the same existing child) -/
def ConflictFree (s : StateChanges) : KOp → Prop
  | .change _ _ _ _ _ => True
  | .reg a parent self off ty pty name =>
    (s.saveKey a parent self off ty pty name).2.isSome = true ∨
    (∃ o, checkOffset off = some o ∧
      match parent with
      | none => ∃ pk, FreshUnder (s.ensureRoot a).1 a (s.ensureRoot a).2 pk self o ty name ∨
                       ∃ ex ek, ExactRereg (s.ensureRoot a).1 a (s.ensureRoot a).2 pk self o name ex ek
      | some p => ∃ pid pk, s.findKey a p 0 pty = some pid ∧
                    (FreshUnder s a pid pk self o ty name ∨ ∃ ex ek, ExactRereg s a pid pk self o name ex ek))

def CFRun : StateChanges → List KOp → Prop
  | _, [] => True
  | s, op :: rest => ConflictFree s op ∧ CFRun (op.apply s) rest

theorem agree_step (s : StateChanges) (hs : Agree s) (op : KOp) (hcf : ConflictFree s op) : Agree (op.apply s) := by
  cases op with
  | change a self off ty v => exact agree_saveChange s hs a self off ty 0 v
  | reg a parent self off ty pty name =>
    simp only [KOp.apply]
    rcases hcf with href | ⟨o, hco, hfresh⟩
    · cases he : (s.saveKey a parent self off ty pty name).2 with
      | none => rw [he] at href; cases href
      | some e =>
        have : s.saveKey a parent self off ty pty name = ((s.saveKey a parent self off ty pty name).1, some e) := by
          rw [← he]
        rw [c11_refused_registration_pure s _ a parent self off ty pty name e this]
        exact hs
    · cases parent with
      | none =>
        obtain ⟨pk, hf | ⟨ex, ek, hr⟩⟩ := hfresh
        · rw [saveKey_top_fresh s a self off o ty pty name pk hco hf]
          obtain ⟨hs1, hroot⟩ := agree_ensureRoot s hs a
          exact agree_regUnder _ a _ pk self o ty name hf.1 hs1 hf.2.1 hf.2.2.2 ⟨_, [], hroot, rfl⟩
        · rw [saveKey_top_rereg s a self off o ty pty name pk ex ek hco hr]
          exact agree_withJunk _ (agree_ensureRoot s hs a).1 _ rfl
      | some p =>
        obtain ⟨pid, pk, hp, hf | ⟨ex, ek, hr⟩⟩ := hfresh
        · rw [saveKey_nested_fresh s a p self off o ty pty name pid pk hco hp hf]
          obtain ⟨_, r, pth, hr, _, hw⟩ := hs.idx a p 0 pty pid hp
          exact agree_regUnder s a pid pk self o ty name hf.1 hs hf.2.1 hf.2.2.2 ⟨r, pth, hr, hw⟩
        · rw [saveKey_nested_rereg s a p self off o ty pty name pid pk ex ek hco hp hr]
          exact agree_withJunk s hs _ rfl

theorem agree_run (ops : List KOp) : ∀ (s : StateChanges), Agree s → CFRun s ops → Agree (ops.foldl KOp.apply s) := by
  induction ops with
  | nil => intro s hs _; exact hs
  | cons op rest ih => intro s hs h; exact ih _ (agree_step s hs op h.1) h.2

/-- **C11, every conflict-free history**: after any sequence of registrations (top-level and nested, accepted or refused)
    and change journals in which no registration conflicts with an earlier one, the two lookup structures agree -/
theorem c11_conflict_free_agree (ops : List KOp) (h : CFRun {} ops) : Agree (runK ops) :=
  agree_run ops {} agree_empty h

/-- … so a variable found by name and index path is found by its own (slot, offset, type) at the SAME record, -/
theorem c11_by_path_then_by_slot (ops : List KOp) (h : CFRun {} ops) (a : Addr) (name : Bytes) (ixs : List Bytes) (id : Nat)
    (hf : (runK ops).findKeyIndices a name ixs = some id) :
    ∃ k sl, (runK ops).keys[id]? = some k ∧ k.slot = some sl ∧ (runK ops).findKey a sl k.offset k.typeId = some id := by
  have hs := c11_conflict_free_agree ops h
  rw [findKeyIndices_eq_walk] at hf
  cases hr : alookup a (runK ops).roots with
  | none => rw [hr] at hf; cases hf
  | some r =>
    rw [hr] at hf
    exact hs.path a r (name :: ixs) id hr (by simp) hf

/-- … and a key found by (slot, offset, type) carries those coordinates and is reachable by a name and index path at
    the same record -/
theorem c11_by_slot_then_by_path (ops : List KOp) (h : CFRun {} ops) (a : Addr) (sl : Word) (o : Nat) (ty : Word) (id : Nat)
    (hf : (runK ops).findKey a sl o ty = some id) :
    (∃ k, (runK ops).keys[id]? = some k ∧ k.slot = some sl ∧ k.offset = o ∧ k.typeId = ty) ∧
    ∃ name ixs, (runK ops).findKeyIndices a name ixs = some id := by
  have hs := c11_conflict_free_agree ops h
  obtain ⟨hk, r, pth, hr, hne, hw⟩ := hs.idx a sl o ty id hf
  refine ⟨hk, ?_⟩
  cases pth with
  | nil => exact absurd rfl hne
  | cons name ixs => exact ⟨name, ixs, by rw [findKeyIndices_eq_walk, hr]; exact hw⟩

/-- the change sets returned by `Variable` and by `Slot` for such a key are the same value -/
theorem c11_same_changes (ops : List KOp) (h : CFRun {} ops) (a : Addr) (name : Bytes) (ixs : List Bytes) (id : Nat)
    (hf : (runK ops).findKeyIndices a name ixs = some id) :
    ∃ k sl, (runK ops).keys[id]? = some k ∧ k.slot = some sl ∧
      (k.offset ≤ 31 → (runK ops).slotQ a sl (some k.offset) k.typeId = .ok ((runK ops).variableQ a name ixs)) := by
  obtain ⟨k, sl, hk, hsl, hfk⟩ := c11_by_path_then_by_slot ops h a name ixs id hf
  refine ⟨k, sl, hk, hsl, fun hle => ?_⟩
  have hco : checkOffset (some k.offset) = some k.offset := by
    unfold checkOffset
    have : ¬ k.offset > 31 := by omega
    simp [this]
  simp [slotQ, variableQ, hco, hfk, hf]

/-! ### an executable test for conflict-freedom (sound), and a non-vacuity instance -/

/-- executable test for the two accepted kinds of registration under parent content `pk` in state `s1` -/
def okUnder (s1 : StateChanges) (a : Addr) (pk : KeyNode) (self : Word) (o : Nat) (ty : Word) (name : Bytes) : Bool :=
  ((alookup name pk.childrenIndex).isNone && (alookup (self, o) pk.children).isNone && (alookup (a, self, o, ty) s1.index).isNone) ||
  (match alookup name pk.childrenIndex, alookup (self, o) pk.children with
   | some e1, some e2 =>
     e1 == e2 && (match s1.keys[e1]? with
                  | some ek => (alookup (a, ek.slot.getD 0, ek.offset, ek.typeId) s1.index).isSome
                  | none => false)
   | _, _ => false)

theorem okUnder_sound (s1 : StateChanges) (a : Addr) (pid : Nat) (pk : KeyNode) (self : Word) (o : Nat) (ty : Word) (name : Bytes)
    (hpk : s1.keys[pid]? = some pk) (h : okUnder s1 a pk self o ty name = true) :
    FreshUnder s1 a pid pk self o ty name ∨ ∃ ex ek, ExactRereg s1 a pid pk self o name ex ek := by
  simp only [okUnder, Bool.or_eq_true] at h
  rcases h with h | h
  · simp only [Bool.and_eq_true, Option.isNone_iff_eq_none] at h
    exact Or.inl ⟨hpk, h.1.1, h.1.2, h.2⟩
  · right
    cases h1 : alookup name pk.childrenIndex with
    | none => simp [h1] at h
    | some e1 =>
      cases h2 : alookup (self, o) pk.children with
      | none => simp [h1, h2] at h
      | some e2 =>
        simp only [h1, h2, Bool.and_eq_true, beq_iff_eq] at h
        obtain ⟨he, hk⟩ := h
        subst he
        cases hek : s1.keys[e1]? with
        | none => simp [hek] at hk
        | some ek =>
          simp only [hek] at hk
          exact ⟨e1, ek, hpk, h1, h2, hek, hk⟩

def cfCheck (s : StateChanges) : KOp → Bool
  | .change _ _ _ _ _ => true
  | .reg a parent self off ty pty name =>
    (s.saveKey a parent self off ty pty name).2.isSome ||
    (match checkOffset off with
     | none => false
     | some o =>
       match parent with
       | none =>
         (match (s.ensureRoot a).1.keys[(s.ensureRoot a).2]? with
          | none => false
          | some pk => okUnder (s.ensureRoot a).1 a pk self o ty name)
       | some p =>
         (match s.findKey a p 0 pty with
          | none => false
          | some pid =>
            match s.keys[pid]? with
            | none => false
            | some pk => okUnder s a pk self o ty name))

theorem cfCheck_sound (s : StateChanges) (op : KOp) (h : cfCheck s op = true) : ConflictFree s op := by
  cases op with
  | change a self off ty v => trivial
  | reg a parent self off ty pty name =>
    simp only [cfCheck, Bool.or_eq_true] at h
    rcases h with h | h
    · exact Or.inl h
    · right
      cases hco : checkOffset off with
      | none => simp [hco] at h
      | some o =>
        simp only [hco] at h
        refine ⟨o, rfl, ?_⟩
        cases parent with
        | none =>
          simp only at h ⊢
          cases hk : (s.ensureRoot a).1.keys[(s.ensureRoot a).2]? with
          | none => simp [hk] at h
          | some pk =>
            simp only [hk] at h
            exact ⟨pk, okUnder_sound _ a _ pk self o ty name hk h⟩
        | some p =>
          simp only at h ⊢
          cases hp : s.findKey a p 0 pty with
          | none => simp [hp] at h
          | some pid =>
            simp only [hp] at h
            cases hk : s.keys[pid]? with
            | none => simp [hk] at h
            | some pk =>
              simp only [hk] at h
              exact ⟨pid, pk, rfl, okUnder_sound s a pid pk self o ty name hk h⟩

def cfRunCheck : StateChanges → List KOp → Bool
  | _, [] => true
  | s, op :: rest => cfCheck s op && cfRunCheck (op.apply s) rest

theorem cfRunCheck_sound : ∀ (ops : List KOp) (s : StateChanges), cfRunCheck s ops = true → CFRun s ops
  | [], _, _ => trivial
  | op :: rest, s, h => by
    simp only [cfRunCheck, Bool.and_eq_true] at h
    exact ⟨cfCheck_sound s op h.1, cfRunCheck_sound rest _ h.2⟩

/-- non-vacuity: two accounts with the same variable name, a struct member and a mapping entry under one parent, a
    refused registration (offset 32), a change and an exact re-registration — conflict-free, so the theorems apply; the conflicting histories of
    D14 are rejected by the test -/
def cfExample : List KOp :=
  [ .reg 1 none 5 (some 0) 7 0 [0x61], .reg 1 (some 5) 9 (some 0) 8 7 [1], .reg 2 none 5 (some 0) 7 0 [0x61],
    .reg 1 none 6 (some 32) 7 0 [0x62], .change 1 9 (some 0) 8 [0xee], .reg 1 (some 5) 10 (some 4) 8 7 [2],
    .reg 1 (some 5) 9 (some 0) 8 7 [1] ]

example : cfRunCheck {} cfExample = true ∧ (runK cfExample).findKeyIndices 1 [0x61] [[2]] = some 5 ∧
    (runK cfExample).findKey 1 10 4 8 = some 5 := by decide +kernel

example : Agree (runK cfExample) := c11_conflict_free_agree cfExample (cfRunCheck_sound _ _ (by decide +kernel))

example : cfRunCheck {} [.reg 1 none 5 (some 0) 7 0 [0x61], .reg 1 none 6 (some 0) 7 0 [0x61]] = false ∧
    cfRunCheck {} [.reg 1 none 5 (some 0) 7 0 [0x61], .reg 1 none 5 (some 0) 8 0 [0x62]] = false ∧
    cfRunCheck {} [.reg 1 none 5 (some 0) 7 0 [0x61], .reg 1 none 5 (some 0) 7 0 [0x62]] = false := by decide +kernel

end Artela
