import Artela.Proofs.ChangeMapKit
import Artela.Props.C11
/-
  C10 — each journal entry is attributed to the right account and the call in progress (tracer part).

  Here: what `SaveStateChange` does with the account it is given and the call-tree cursor, and the list law of a
  change record.  Which account the opcodes pass (the executing contract's storage address) and that the cursor is
  the innermost CALL/CREATE frame belong to the frame layer (Model/Frame.lean, C04/C08 run).
-/
namespace Artela
open StateChanges

/-- the index under which a change is filed is that of the innermost open call-tree node (0 when none is open) -/
theorem c10_index_is_cursor (t : Tracer) (a : Addr) (slot : Word) (off : Option Word) (ty : Word) (v : Bytes) :
    (t.saveStateChange a slot off ty v).1.states = (t.states.saveChange a slot off ty t.tree.currentIndex v).1 ∧
    (t.saveStateChange a slot off ty v).1.tree = t.tree := ⟨rfl, rfl⟩

/-- entering a call moves the cursor to the new node; leaving it moves the cursor back to the parent -/
theorem c10_cursor_follows_calls (t : CallTree) (f : Addr) (to : Option Addr) (d : Bytes) (v g : Nat) :
    (t.add f to d v g).currentIndex = t.count := rfl

theorem c10_cursor_after_exit (t : CallTree) (c : Nat) (n : CallNode) (l : Nat) (r : Option Bytes) (e : Option String)
    (hc : t.current = some c) (hn : t.nodes[c]? = some n) : (t.exit l r e).current = n.parent := by
  unfold CallTree.exit; simp [hc, hn]

/-- an accepted change modifies exactly one key node — the one the (account, slot, offset, type) lookup returns —
    by journaling `v` under the given call index; the flat index, the roots and every other node are untouched
    (entries of different accounts or keys never mix) -/
theorem c10_change_is_local (s s' : StateChanges) (a : Addr) (slot : Word) (off : Option Word) (ty : Word) (i : Nat) (v : Bytes)
    (h : s.saveChange a slot off ty i v = (s', none)) :
    ∃ o id, checkOffset off = some o ∧ s.findKey a slot o ty = some id ∧
      (∀ j, j ≠ id → s'.keys[j]? = s.keys[j]?) ∧ s'.keys[id]? = (s.keys[id]?).map (fun k => k.journal i v) := by
  obtain ⟨o, id, ho, hid, hk, _, _⟩ := c11_change_target s s' a slot off ty i v h
  refine ⟨o, id, ho, hid, ?_, ?_⟩
  · intro j hj
    rw [hk, List.getElem?_modify]
    have : ¬ (id = j) := fun e => hj e.symm
    simp [this]
  · rw [hk, List.getElem?_modify]; simp

/-- the list law of a record: journaling `v` under call `i` appends `v` to the list of call `i` unless it equals the
    last entry; the lists of all other calls are unchanged; nothing is ever removed -/
theorem c10_list_law (k : KeyNode) (i : Nat) (v : Bytes) (hne : ∀ m, k.changes = some m → m.NonEmpty) :
    ((k.journal i v).changes.getD []).at i = appendDedup ((k.changes.getD []).at i) v ∧
    (∀ j, j ≠ i → ((k.journal i v).changes.getD []).at j = (k.changes.getD []).at j) := by
  unfold KeyNode.journal
  cases hc : k.changes with
  | none =>
    simp only [Option.getD_some, Option.getD_none]
    exact ⟨changeMap_append_at [] i v (fun l h => by simp [alookup] at h), fun j hj => changeMap_append_other [] i j v hj⟩
  | some m =>
    simp only [Option.getD_some]
    exact ⟨changeMap_append_at m i v (fun l h => hne m hc i l h), fun j hj => changeMap_append_other m i j v hj⟩

/-- consequently, after journaling the values `vs` in order under call `i` into a fresh record, the record's list
    for `i` is the chronological sequence with immediate repeats collapsed -/
theorem c10_list_is_collapsed_history (i : Nat) (vs : List Bytes) :
    (vs.foldl (fun m v => ChangeMap.append m i v) []).at i = collapse vs ∧
    (vs.foldl (fun m v => ChangeMap.append m i v) []).NonEmpty := by
  have gen : ∀ (m : ChangeMap), m.NonEmpty →
      (vs.foldl (fun m v => ChangeMap.append m i v) m).at i = vs.foldl appendDedup (m.at i) ∧
      (vs.foldl (fun m v => ChangeMap.append m i v) m).NonEmpty := by
    induction vs with
    | nil => intro m hm; exact ⟨rfl, hm⟩
    | cons v rest ih =>
      intro m hm
      simp only [List.foldl_cons]
      have h1 := changeMap_append_at m i v (fun l h => hm i l h)
      have h2 := changeMap_append_nonEmpty m i v hm
      obtain ⟨a, b⟩ := ih (m.append i v) h2
      exact ⟨by rw [a, h1], b⟩
  have := gen [] (fun j l h => by simp [alookup] at h)
  exact ⟨by rw [this.1]; rfl, this.2⟩

/-- non-vacuity / instance: repeated and alternating values -/
example : collapse [[1], [1], [2], [2], [1]] = [[1], [2], [1]] := by decide

end Artela
