import Artela.Model.FlatTracer
/-
  C19 (flat tracer) — `flatFromNested` emits every frame and every Aspect execution of the nested result exactly once, with
  consistent sub-trace counts and trace addresses — whenever, on every frame, the pre-call Aspect frames precede the
  post-call ones in `JoinPoints` (`PreFirst`; true of every real execution: a call's pre join points run before its post
  join points.  Without it the index arithmetic of the Go code can hand two children the same address — the hypothesis
  is necessary, and the driver reports for every generated stream whether it holds).

  Under `PreFirst` the Go-shaped, index-based conversion (`goFlatFrame`) equals the plain pre-order flattening
  (`Rose.flat`) of the tree with children ordered pre-Aspects, calls, post-Aspects; the generic theorems of
  `Proofs/RoseFlat.lean` then give: as many entries as nodes, pairwise distinct trace addresses, prefix-closed
  addresses, and `subtraces` = number of emitted children.
-/
namespace Artela
open Rose

theorem enumFrom_append {β : Type} : ∀ (a b : List β) (off : Nat), enumFrom off (a ++ b) = enumFrom off a ++ enumFrom (off + a.length) b
  | [], b, off => by simp [enumFrom]
  | x :: xs, b, off => by
    simp only [List.cons_append, enumFrom, List.length_cons]
    rw [enumFrom_append xs b (off + 1), show off + 1 + xs.length = off + (xs.length + 1) by omega]

theorem enumFrom_mem {β : Type} : ∀ (l : List β) (off : Nat) (p : Nat × β), p ∈ enumFrom off l → p.2 ∈ l
  | [], _, _, h => by simp [enumFrom] at h
  | x :: xs, off, p, h => by
    simp only [enumFrom, List.mem_cons] at h
    rcases h with h | h
    · subst h; simp
    · exact List.mem_cons_of_mem _ (enumFrom_mem xs (off + 1) p h)

theorem flatList_append {α : Type} : ∀ (a b : List (Rose α)) (addr : List Nat) (i : Nat),
    flatList (a ++ b) addr i = flatList a addr i ++ flatList b addr (i + a.length)
  | [], b, addr, i => by simp [flatList]
  | c :: cs, b, addr, i => by
    simp only [List.cons_append, flatList, List.length_cons, List.append_assoc]
    rw [flatList_append cs b addr (i + 1), show i + 1 + cs.length = i + (cs.length + 1) by omega]

theorem flatMap_enum_flatList {β : Type} (G : β → List Nat → List (FlatEntry FLabel)) (r : β → Rose FLabel)
    (hG : ∀ x addr', G x addr' = flat (r x) addr') (addr : List Nat) :
    ∀ (l : List β) (off : Nat), (enumFrom off l).flatMap (fun p => G p.2 (addr ++ [p.1])) = flatList (l.map r) addr off
  | [], _ => by simp [enumFrom, flatList]
  | x :: xs, off => by
    simp only [enumFrom, List.flatMap_cons, List.map_cons, flatList]
    rw [flatMap_enum_flatList G r hG addr xs (off + 1), hG]

theorem flatMap_enum_shift {β γ : Type} (H : β → Nat → List γ) (d : Nat) :
    ∀ (l : List β) (off : Nat), (enumFrom off l).flatMap (fun p => H p.2 (p.1 + d)) = (enumFrom (off + d) l).flatMap (fun p => H p.2 p.1)
  | [], _ => by simp [enumFrom]
  | x :: xs, off => by
    simp only [enumFrom, List.flatMap_cons]
    rw [flatMap_enum_shift H d xs (off + 1), show off + 1 + d = off + d + 1 by omega]

theorem flatMap_congr_mem {β γ : Type} (l : List β) (f g : β → List γ) (h : ∀ x ∈ l, f x = g x) : l.flatMap f = l.flatMap g := by
  induction l with
  | nil => rfl
  | cons x xs ih =>
    simp only [List.flatMap_cons]
    rw [h x (by simp), ih (fun y hy => h y (List.mem_cons_of_mem _ hy))]

theorem flatMap_nil_mem {β γ : Type} (l : List β) (f : β → List γ) (h : ∀ x ∈ l, f x = []) : l.flatMap f = [] := by
  induction l with
  | nil => rfl
  | cons x xs ih =>
    simp only [List.flatMap_cons]
    rw [h x (by simp), ih (fun y hy => h y (List.mem_cons_of_mem _ hy))]; rfl

/-- on every frame the pre-call Aspect frames precede the post-call ones -/
def PreFirst (st : TState) : Prop :=
  ∀ (id : Nat) (f : TFrame), st.frames[id]? = some f →
    ∃ pres posts, f.jps = pres ++ posts ∧ (∀ a ∈ pres, isPreJP st a = true) ∧ (∀ a ∈ posts, isPreJP st a = false)

theorem filter_split {β : Type} (p : β → Bool) (pres posts : List β) (h1 : ∀ a ∈ pres, p a = true) (h2 : ∀ a ∈ posts, p a = false) :
    (pres ++ posts).filter p = pres ∧ (pres ++ posts).filter (fun a => !p a) = posts := by
  constructor
  · rw [List.filter_append, List.filter_eq_self.mpr h1, List.filter_eq_nil_iff.mpr (by intro a ha; simp [h2 a ha])]
    simp
  · rw [List.filter_append, List.filter_eq_nil_iff.mpr (by intro a ha; simp [h1 a ha]), List.filter_eq_self.mpr (by intro a ha; simp [h2 a ha])]
    simp

theorem preFirstB_sound (st : TState) (h : preFirstB st = true) : PreFirst st := by
  intro id f hf
  have hmem : f ∈ st.frames := List.mem_of_getElem? hf
  have := List.all_eq_true.mp h f hmem
  refine ⟨f.jps.filter (isPreJP st), f.jps.filter (fun a => !isPreJP st a), eq_of_beq this, ?_, ?_⟩
  · intro a ha; exact (List.mem_filter.mp ha).2
  · intro a ha; simpa using (List.mem_filter.mp ha).2

/-- **the Go-shaped conversion is the pre-order flattening of the tree** -/
theorem goFlat_eq_flat (st : TState) (hpf : PreFirst st) : ∀ (fuel : Nat),
    (∀ id addr, goFlatFrame fuel st id addr = flat (roseFrame fuel st id) addr) ∧
    (∀ a addr, goFlatAspect fuel st a addr = flat (roseAspect fuel st a) addr) := by
  intro fuel
  induction fuel with
  | zero => exact ⟨fun id addr => by simp [goFlatFrame, roseFrame, flat, flatList], fun a addr => by simp [goFlatAspect, roseAspect, flat, flatList]⟩
  | succ n ih =>
    obtain ⟨ihF, ihA⟩ := ih
    constructor
    · intro id addr
      simp only [goFlatFrame, roseFrame]
      cases hf : st.frames[id]? with
      | none => simp [flat, flatList]
      | some f =>
        obtain ⟨pres, posts, hj, hpre, hpost⟩ := hpf id f hf
        obtain ⟨hfp, hfq⟩ := filter_split (isPreJP st) pres posts hpre hpost
        simp only [flat]
        rw [hj, hfp, hfq, enumFrom_append]
        simp only [List.flatMap_append, List.length_append, List.length_map, Nat.zero_add]
        -- pre part
        have e1 : (enumFrom 0 pres).flatMap (fun p => if isPreJP st p.2 = true then goFlatAspect n st p.2 (addr ++ [p.1]) else []) =
            flatList (pres.map (roseAspect n st)) addr 0 := by
          rw [flatMap_congr_mem _ _ (fun p => goFlatAspect n st p.2 (addr ++ [p.1]))
                (fun p hp => by simp [hpre p.2 (enumFrom_mem pres 0 p hp)])]
          exact flatMap_enum_flatList (goFlatAspect n st) (roseAspect n st) ihA addr pres 0
        have e2 : (enumFrom pres.length posts).flatMap (fun p => if isPreJP st p.2 = true then goFlatAspect n st p.2 (addr ++ [p.1]) else []) = [] :=
          flatMap_nil_mem _ _ (fun p hp => by simp [hpost p.2 (enumFrom_mem posts _ p hp)])
        -- calls
        have e3 : (enumFrom 0 f.calls).flatMap (fun p => goFlatFrame n st p.2 (addr ++ [p.1 + pres.length])) =
            flatList (f.calls.map (roseFrame n st)) addr pres.length := by
          rw [flatMap_enum_shift (fun c i => goFlatFrame n st c (addr ++ [i])) pres.length f.calls 0]
          simp only [Nat.zero_add]
          exact flatMap_enum_flatList (goFlatFrame n st) (roseFrame n st) ihF addr f.calls pres.length
        -- post part
        have e4 : (enumFrom 0 pres).flatMap (fun p => if isPreJP st p.2 = true then [] else goFlatAspect n st p.2 (addr ++ [p.1 + f.calls.length])) = [] :=
          flatMap_nil_mem _ _ (fun p hp => by simp [hpre p.2 (enumFrom_mem pres 0 p hp)])
        have e5 : (enumFrom pres.length posts).flatMap (fun p => if isPreJP st p.2 = true then [] else goFlatAspect n st p.2 (addr ++ [p.1 + f.calls.length])) =
            flatList (posts.map (roseAspect n st)) addr (pres.length + f.calls.length) := by
          rw [flatMap_congr_mem _ _ (fun p => goFlatAspect n st p.2 (addr ++ [p.1 + f.calls.length]))
                (fun p hp => by simp [hpost p.2 (enumFrom_mem posts _ p hp)])]
          rw [flatMap_enum_shift (fun a i => goFlatAspect n st a (addr ++ [i])) f.calls.length posts pres.length]
          exact flatMap_enum_flatList (goFlatAspect n st) (roseAspect n st) ihA addr posts (pres.length + f.calls.length)
        rw [e1, e2, e3, e4, e5]
        rw [flatList_append, flatList_append]
        simp only [List.length_map, List.append_nil, List.nil_append, Nat.zero_add, List.length_append, List.append_assoc]
        congr 2
        omega
    · intro a addr
      simp only [goFlatAspect, roseAspect]
      cases hx : st.aspects[a]? with
      | none => simp [flat, flatList]
      | some x =>
        simp only [flat, List.length_map]
        rw [flatMap_enum_flatList (goFlatFrame n st) (roseFrame n st) ihF addr x.calls 0]

/-! ### consequences for the flat tracer's output -/

theorem flatOutput_eq (st : TState) (h : PreFirst st) :
    flatOutput st = flat (roseFrame (st.frames.length + st.aspects.length + 1) st 0) [] :=
  (goFlat_eq_flat st h _).1 0 []

/-- one entry per node of the nested result: nothing is dropped, nothing is emitted twice -/
theorem c19_flat_one_entry_per_node (st : TState) (h : PreFirst st) :
    (flatOutput st).length = size (roseFrame (st.frames.length + st.aspects.length + 1) st 0) := by
  rw [flatOutput_eq st h]; exact flat_length _ _

/-- trace addresses are pairwise distinct -/
theorem c19_flat_addresses_unique (st : TState) (h : PreFirst st) : ((flatOutput st).map (·.addr)).Nodup := by
  rw [flatOutput_eq st h]; exact flat_nodup _ _

/-- trace addresses are prefix-closed: every entry but the first hangs under an emitted entry, at an index below that
    entry's `subtraces` -/
theorem c19_flat_prefix_closed (st : TState) (h : PreFirst st) (e : FlatEntry FLabel) (he : e ∈ flatOutput st) :
    e.addr = [] ∨ ∃ p ∈ flatOutput st, ∃ k, k < p.sub ∧ e.addr = p.addr ++ [k] := by
  rw [flatOutput_eq st h] at he ⊢; exact flat_parent _ _ e he

/-- `subtraces` is exactly the number of emitted children: there is an entry at `p.traceAddress ++ [k]` iff `k < p.subtraces` -/
theorem c19_flat_subtraces_exact (st : TState) (h : PreFirst st) (p : FlatEntry FLabel) (hp : p ∈ flatOutput st) (k : Nat) :
    (∃ e ∈ flatOutput st, e.addr = p.addr ++ [k]) ↔ k < p.sub := by
  rw [flatOutput_eq st h] at hp ⊢; exact flat_child_iff _ _ p hp k

/-- the hypothesis is necessary: with a post-call Aspect frame listed BEFORE a pre-call one the index arithmetic of the Go
    code gives two entries the same trace address -/
def notPreFirst : TState :=
  { frames := [{ typ := "CALL", jps := [0, 1], calls := [1] }, { typ := "CALL" }],
    aspects := [{ jp := 8, aspect := 1, frm := 0, to := 0, input := [], gas := 0, value := 0 },
                { jp := 4, aspect := 2, frm := 0, to := 0, input := [], gas := 0, value := 0 }] }

theorem c19_flat_witness_order_matters : ¬ ((flatOutput notPreFirst).map (·.addr)).Nodup := by decide +kernel

/-- non-vacuity: a frame with one pre Aspect (making a call), one call and one post Aspect -/
def flatExample : TState :=
  { frames := [{ typ := "CALL", jps := [0, 1], calls := [1] }, { typ := "CALL" }, { typ := "STATICCALL" }],
    aspects := [{ jp := 4, aspect := 1, frm := 0, to := 0, input := [], gas := 0, value := 0, calls := [2] },
                { jp := 8, aspect := 2, frm := 0, to := 0, input := [], gas := 0, value := 0 }] }

example : (flatOutput flatExample).map (fun e => (e.label, e.addr, e.sub)) =
    [(.frame 0, [], 3), (.aspect 0, [0], 1), (.frame 2, [0, 0], 0), (.frame 1, [1], 0), (.aspect 1, [2], 0)] := by decide +kernel

end Artela
