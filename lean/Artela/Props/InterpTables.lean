import Artela.Proofs.InterpTable
import Artela.Props.InterpSafe
import Artela.Props.InterpHalts
import Artela.Props.InterpAbort
import Artela.Props.InterpJournal
import Artela.Props.InterpWork
/-
  The hypotheses of the interpreter-loop theorems, discharged for every instruction table extracted from the running
  code (13 forks and 9 extra-EIP variants), and the theorems restated for those tables.
-/
namespace Artela
namespace Interp
variable {World : Type}

/-- every modelled row of the list satisfies the safety, payment and stack-limit conditions -/
def rowsOK (rows : List Gen.OpRow) : Bool :=
  rows.all fun r =>
    match decode r.exec r.op with
    | none => true
    | some i => rowSafe (toRow r) i && paysRow (toRow r) i && rowLimit (toRow r) i && rowWork (toRow r) i

/-- byte 0 is STOP -/
def stopOK (rows : List Gen.OpRow) : Bool :=
  rows.all fun r => r.op != 0 || decode r.exec 0 == some .stop

theorem tableOf_some {rows : List Gen.OpRow} {op : Nat} {row : Row} (h : tableOf rows op = some row) :
    ∃ r, r ∈ rows ∧ r.op = op ∧ toRow r = row := by
  unfold tableOf at h
  cases hf : rows.find? (fun r => r.op == op) with
  | none => rw [hf] at h; cases h
  | some r =>
    rw [hf] at h
    simp only [Option.map_some, Option.some.injEq] at h
    have hm := List.mem_of_find?_eq_some hf
    have hp := List.find?_some hf
    simp only [beq_iff_eq] at hp
    exact ⟨r, hm, hp, h⟩

theorem rowsOK_sound {rows : List Gen.OpRow} (h : rowsOK rows = true) {env : IEnv World} (he : env.table = tableOf rows) :
    TableSafe env ∧ TablePays env ∧ TableLimit env ∧ TableWork env := by
  have key : ∀ op row i, env.table op = some row → decode row.exec op = some i →
      rowSafe row i = true ∧ paysRow row i = true ∧ rowLimit row i = true ∧ rowWork row i = true := by
    intro op row i hr hd
    rw [he] at hr
    obtain ⟨r, hm, hop, htr⟩ := tableOf_some hr
    have := List.all_eq_true.mp h r hm
    subst hop
    have hd' : decode r.exec r.op = some i := by rw [← htr] at hd; exact hd
    rw [hd'] at this
    simp only [Bool.and_eq_true] at this
    rw [htr] at this
    exact ⟨this.1.1.1, this.1.1.2, this.1.2, this.2⟩
  exact ⟨fun op row i hr hd => (key op row i hr hd).1, fun op row i hr hd => (key op row i hr hd).2.1,
         fun op row i hr hd => (key op row i hr hd).2.2.1, fun op row i hr hd => (key op row i hr hd).2.2.2⟩

theorem stopOK_sound {rows : List Gen.OpRow} (h : stopOK rows = true) {env : IEnv World} (he : env.table = tableOf rows) :
    StopAtEnd env := by
  intro row hr
  rw [he] at hr
  obtain ⟨r, hm, hop, htr⟩ := tableOf_some hr
  have := List.all_eq_true.mp h r hm
  simp only [Bool.or_eq_true, bne_iff_ne, ne_eq, beq_iff_eq] at this
  rcases this with h0 | h0
  · exact absurd hop h0
  · left; rw [← htr]; exact h0

/-! ### every extracted table satisfies the conditions (regenerated facts, closed by evaluation in the kernel) -/

theorem rows_ok_Frontier : rowsOK Gen.forkFrontier = true ∧ stopOK Gen.forkFrontier = true := by decide +kernel
theorem rows_ok_Homestead : rowsOK Gen.forkHomestead = true ∧ stopOK Gen.forkHomestead = true := by decide +kernel
theorem rows_ok_TangerineWhistle : rowsOK Gen.forkTangerineWhistle = true ∧ stopOK Gen.forkTangerineWhistle = true := by decide +kernel
theorem rows_ok_SpuriousDragon : rowsOK Gen.forkSpuriousDragon = true ∧ stopOK Gen.forkSpuriousDragon = true := by decide +kernel
theorem rows_ok_Byzantium : rowsOK Gen.forkByzantium = true ∧ stopOK Gen.forkByzantium = true := by decide +kernel
theorem rows_ok_Constantinople : rowsOK Gen.forkConstantinople = true ∧ stopOK Gen.forkConstantinople = true := by decide +kernel
theorem rows_ok_Petersburg : rowsOK Gen.forkPetersburg = true ∧ stopOK Gen.forkPetersburg = true := by decide +kernel
theorem rows_ok_Istanbul : rowsOK Gen.forkIstanbul = true ∧ stopOK Gen.forkIstanbul = true := by decide +kernel
theorem rows_ok_Berlin : rowsOK Gen.forkBerlin = true ∧ stopOK Gen.forkBerlin = true := by decide +kernel
theorem rows_ok_London : rowsOK Gen.forkLondon = true ∧ stopOK Gen.forkLondon = true := by decide +kernel
theorem rows_ok_Merge : rowsOK Gen.forkMerge = true ∧ stopOK Gen.forkMerge = true := by decide +kernel
theorem rows_ok_Shanghai : rowsOK Gen.forkShanghai = true ∧ stopOK Gen.forkShanghai = true := by decide +kernel
theorem rows_ok_Cancun : rowsOK Gen.forkCancun = true ∧ stopOK Gen.forkCancun = true := by decide +kernel
theorem rows_ok_IstanbulEip2929 : rowsOK Gen.forkIstanbulEip2929 = true ∧ stopOK Gen.forkIstanbulEip2929 = true := by decide +kernel
theorem rows_ok_BerlinEip3198 : rowsOK Gen.forkBerlinEip3198 = true ∧ stopOK Gen.forkBerlinEip3198 = true := by decide +kernel
theorem rows_ok_LondonEip3855 : rowsOK Gen.forkLondonEip3855 = true ∧ stopOK Gen.forkLondonEip3855 = true := by decide +kernel
theorem rows_ok_LondonEip3860 : rowsOK Gen.forkLondonEip3860 = true ∧ stopOK Gen.forkLondonEip3860 = true := by decide +kernel
theorem rows_ok_ConstantinopleEip1344 : rowsOK Gen.forkConstantinopleEip1344 = true ∧ stopOK Gen.forkConstantinopleEip1344 = true := by decide +kernel
theorem rows_ok_ConstantinopleEip1884 : rowsOK Gen.forkConstantinopleEip1884 = true ∧ stopOK Gen.forkConstantinopleEip1884 = true := by decide +kernel
theorem rows_ok_ConstantinopleEip2200 : rowsOK Gen.forkConstantinopleEip2200 = true ∧ stopOK Gen.forkConstantinopleEip2200 = true := by decide +kernel
theorem rows_ok_ShanghaiEip1153 : rowsOK Gen.forkShanghaiEip1153 = true ∧ stopOK Gen.forkShanghaiEip1153 = true := by decide +kernel
theorem rows_ok_ShanghaiEip5656 : rowsOK Gen.forkShanghaiEip5656 = true ∧ stopOK Gen.forkShanghaiEip5656 = true := by decide +kernel

/-- the instruction tables of the running code: the 13 forks and the 9 extra-EIP variants -/
def extractedTables : List (List Gen.OpRow) := [Gen.forkFrontier, Gen.forkHomestead, Gen.forkTangerineWhistle, Gen.forkSpuriousDragon, Gen.forkByzantium, Gen.forkConstantinople, Gen.forkPetersburg, Gen.forkIstanbul, Gen.forkBerlin, Gen.forkLondon, Gen.forkMerge, Gen.forkShanghai, Gen.forkCancun, Gen.forkIstanbulEip2929, Gen.forkBerlinEip3198, Gen.forkLondonEip3855, Gen.forkLondonEip3860, Gen.forkConstantinopleEip1344, Gen.forkConstantinopleEip1884, Gen.forkConstantinopleEip2200, Gen.forkShanghaiEip1153, Gen.forkShanghaiEip5656]

theorem extracted_ok : ∀ rows ∈ extractedTables, rowsOK rows = true ∧ stopOK rows = true := by
  intro rows h
  simp only [extractedTables, List.mem_cons, List.mem_nil_iff, or_false] at h
  rcases h with h | h | h | h | h | h | h | h | h | h | h | h | h | h | h | h | h | h | h | h | h | h <;> subst h
  · exact rows_ok_Frontier
  · exact rows_ok_Homestead
  · exact rows_ok_TangerineWhistle
  · exact rows_ok_SpuriousDragon
  · exact rows_ok_Byzantium
  · exact rows_ok_Constantinople
  · exact rows_ok_Petersburg
  · exact rows_ok_Istanbul
  · exact rows_ok_Berlin
  · exact rows_ok_London
  · exact rows_ok_Merge
  · exact rows_ok_Shanghai
  · exact rows_ok_Cancun
  · exact rows_ok_IstanbulEip2929
  · exact rows_ok_BerlinEip3198
  · exact rows_ok_LondonEip3855
  · exact rows_ok_LondonEip3860
  · exact rows_ok_ConstantinopleEip1344
  · exact rows_ok_ConstantinopleEip1884
  · exact rows_ok_ConstantinopleEip2200
  · exact rows_ok_ShanghaiEip1153
  · exact rows_ok_ShanghaiEip5656

/-- `tableByName` only ever answers with one of them (or the empty table for an unknown name) -/
theorem tableByName_extracted (n : String) : Gen.tableByName n ∈ extractedTables ∨ Gen.tableByName n = [] := by
  unfold Gen.tableByName
  by_cases h0 : n = "Frontier"
  · left; rw [if_pos h0]; simp [extractedTables]
  rw [if_neg h0]
  by_cases h1 : n = "Homestead"
  · left; rw [if_pos h1]; simp [extractedTables]
  rw [if_neg h1]
  by_cases h2 : n = "TangerineWhistle"
  · left; rw [if_pos h2]; simp [extractedTables]
  rw [if_neg h2]
  by_cases h3 : n = "SpuriousDragon"
  · left; rw [if_pos h3]; simp [extractedTables]
  rw [if_neg h3]
  by_cases h4 : n = "Byzantium"
  · left; rw [if_pos h4]; simp [extractedTables]
  rw [if_neg h4]
  by_cases h5 : n = "Constantinople"
  · left; rw [if_pos h5]; simp [extractedTables]
  rw [if_neg h5]
  by_cases h6 : n = "Petersburg"
  · left; rw [if_pos h6]; simp [extractedTables]
  rw [if_neg h6]
  by_cases h7 : n = "Istanbul"
  · left; rw [if_pos h7]; simp [extractedTables]
  rw [if_neg h7]
  by_cases h8 : n = "Berlin"
  · left; rw [if_pos h8]; simp [extractedTables]
  rw [if_neg h8]
  by_cases h9 : n = "London"
  · left; rw [if_pos h9]; simp [extractedTables]
  rw [if_neg h9]
  by_cases h10 : n = "Merge"
  · left; rw [if_pos h10]; simp [extractedTables]
  rw [if_neg h10]
  by_cases h11 : n = "Shanghai"
  · left; rw [if_pos h11]; simp [extractedTables]
  rw [if_neg h11]
  by_cases h12 : n = "Cancun"
  · left; rw [if_pos h12]; simp [extractedTables]
  rw [if_neg h12]
  right; rfl

/-! ### the loop theorems on the code's own tables -/

/-- **C03 (interpreter loop)**: on every instruction table of the running code, for every program, calldata, stack,
    memory content below the gas schedule's ceiling, gas, world and tracer, a run of any length never panics. -/
theorem interp_never_panics (rows : List Gen.OpRow) (hr : rows ∈ extractedTables) (env : IEnv World)
    (he : env.table = tableOf rows) (hE : EnvOK env) (n : Nat) (s : IState World) (hinv : Inv s) :
    (run env n s).notPanic :=
  run_safe (rowsOK_sound (extracted_ok rows hr).1 he).1 hE n s hinv

/-- **C20 (interpreter loop)**: on every table of the running code a frame executes at most `gas + 1` instructions -/
theorem interp_work_bounded_by_gas (rows : List Gen.OpRow) (hr : rows ∈ extractedTables) (env : IEnv World)
    (he : env.table = tableOf rows) (n : Nat) (s : IState World) (hn : s.gas < n) : ∀ s', run env n s ≠ .next s' :=
  run_halts_within_gas (rowsOK_sound (extracted_ok rows hr).1 he).2.1 n s hn

/-- the stack never exceeds 1024 items after an instruction -/
theorem interp_stack_limit (rows : List Gen.OpRow) (hr : rows ∈ extractedTables) (env : IEnv World)
    (he : env.table = tableOf rows) {s s' : IState World} (h : step env s = .next s') : s'.stack.length ≤ 1024 :=
  step_stack_limit (rowsOK_sound (extracted_ok rows hr).1 he).2.2.1 h

/-- **C20 (interpreter loop), work**: on every table of the running code, a frame that starts from empty memory with `g` gas
    performs — over any number `n` of iterations — at most `2·g + n` word operations (memory allocated and zeroed, bytes copied,
    EXP multiplications, all in 32-byte words); with `interp_work_bounded_by_gas` (`n ≤ g + 1` iterations) at most `3·g + 1`. -/
theorem interp_work_per_gas (rows : List Gen.OpRow) (hr : rows ∈ extractedTables) (env : IEnv World)
    (he : env.table = tableOf rows) (hE : EnvOK env) (n : Nat) (s : IState World) (hI : MemInv s) (hinv : Inv s) :
    runWork env n s ≤ 2 * s.gas + n :=
  let h := rowsOK_sound (extracted_ok rows hr).1 he
  run_work h.1 h.2.1 h.2.2.2 hE n s hI hinv

/-- **C17 (interpreter loop)**: with the abort flag set, a frame stops within `|code| - pc + 1` instructions -/
theorem interp_cancel_stops (rows : List Gen.OpRow) (hr : rows ∈ extractedTables) (env : IEnv World)
    (he : env.table = tableOf rows) (ha : env.abort = true) (n : Nat) (s : IState World)
    (hn : env.code.length - s.pc < n) : ∀ s', run env n s ≠ .next s' :=
  run_abort_halts ha (stopOK_sound (extracted_ok rows hr).2 he) n s hn

/-! ### C01 at the loop level: on go-ethereum's own tables the Artela tracer is invisible -/

/-- no row of the list is a journal instruction -/
def stdOK (rows : List Gen.OpRow) : Bool :=
  rows.all fun r => match decode r.exec r.op with | some i => !i.isJournal | none => true

theorem stdOK_sound {rows : List Gen.OpRow} (h : stdOK rows = true) {env : IEnv World} (he : env.table = tableOf rows) : StdTable env := by
  intro op row i hr hd
  rw [he] at hr
  obtain ⟨r, hm, hop, htr⟩ := tableOf_some hr
  have := List.all_eq_true.mp h r hm
  subst hop
  have hd' : decode r.exec r.op = some i := by rw [← htr] at hd; exact hd
  rw [hd'] at this
  simpa using this

theorem std_ok_Frontier : stdOK Gen.upFrontier = true := by decide +kernel
theorem std_ok_Homestead : stdOK Gen.upHomestead = true := by decide +kernel
theorem std_ok_TangerineWhistle : stdOK Gen.upTangerineWhistle = true := by decide +kernel
theorem std_ok_SpuriousDragon : stdOK Gen.upSpuriousDragon = true := by decide +kernel
theorem std_ok_Byzantium : stdOK Gen.upByzantium = true := by decide +kernel
theorem std_ok_Constantinople : stdOK Gen.upConstantinople = true := by decide +kernel
theorem std_ok_Petersburg : stdOK Gen.upPetersburg = true := by decide +kernel
theorem std_ok_Istanbul : stdOK Gen.upIstanbul = true := by decide +kernel
theorem std_ok_Berlin : stdOK Gen.upBerlin = true := by decide +kernel
theorem std_ok_London : stdOK Gen.upLondon = true := by decide +kernel
theorem std_ok_Merge : stdOK Gen.upMerge = true := by decide +kernel
theorem std_ok_Shanghai : stdOK Gen.upShanghai = true := by decide +kernel

/-- the instruction tables of go-ethereum v1.12.0, Frontier … Shanghai (equal to the fork's outside 0xe0–0xe7: `tables_agree_*`) -/
def upstreamTables : List (List Gen.OpRow) := [Gen.upFrontier, Gen.upHomestead, Gen.upTangerineWhistle, Gen.upSpuriousDragon, Gen.upByzantium, Gen.upConstantinople, Gen.upPetersburg, Gen.upIstanbul, Gen.upBerlin, Gen.upLondon, Gen.upMerge, Gen.upShanghai]

theorem upstream_std : ∀ rows ∈ upstreamTables, stdOK rows = true := by
  intro rows h
  simp only [upstreamTables, List.mem_cons, List.mem_nil_iff, or_false] at h
  rcases h with h | h | h | h | h | h | h | h | h | h | h | h <;> subst h
  · exact std_ok_Frontier
  · exact std_ok_Homestead
  · exact std_ok_TangerineWhistle
  · exact std_ok_SpuriousDragon
  · exact std_ok_Byzantium
  · exact std_ok_Constantinople
  · exact std_ok_Petersburg
  · exact std_ok_Istanbul
  · exact std_ok_Berlin
  · exact std_ok_London
  · exact std_ok_Merge
  · exact std_ok_Shanghai

/-- **C01 (interpreter loop)**: on every instruction table of go-ethereum v1.12.0 — that is, for every program over the standard
    instruction set — a run does not depend on the state-change tracer and call-tree recorder it carries along: from two states
    that differ in the tracer only, every iteration count gives results that differ in the tracer only. -/
theorem interp_tracer_invisible (rows : List Gen.OpRow) (hr : rows ∈ upstreamTables) (env : IEnv World)
    (he : env.table = tableOf rows) (n : Nat) (x : Tracer) (s : IState World) :
    run env n (s.setTr x) = (run env n s).setTr x :=
  run_setTr_std (stdOK_sound (upstream_std rows hr) he) n x s

/-- non-vacuity: a concrete environment on the Cancun table meets the hypotheses, and a program runs on it -/
def demoEnv : IEnv Unit :=
  { code := [0x60, 0x02, 0x60, 0x03, 0x01, 0x60, 0x00, 0x52, 0x60, 0x20, 0x60, 0x00, 0xf3], input := [], vals := fun _ => 0, abort := false,
    table := tableOf Gen.forkCancun,
    mkEnv := fun _ _ => { contract := 0, mem := [], memCap := 0, storage := fun _ => 0, keccak := fun _ => 0 } }

def demoState : IState Unit :=
  { stack := [], mem := [], pc := 0, gas := 100, rdata := [], readOnly := false, world := (), tr := {}, last := 0 }

example : EnvOK demoEnv := ⟨by decide, by decide, fun _ _ _ => ⟨Nat.le_refl _, by simp [demoEnv, maxAlloc], fun n => Nat.le_refl n⟩⟩
example : Inv demoState := by simp [Inv, demoState, memCeil]
example : MemInv demoState := by simp [MemInv, demoState, memFee]
/-- … and the model runs the demo program (3 + 2, stored and returned) to a normal halt with the expected data -/
example : (match run demoEnv 20 demoState with | .halt h g => some (h, g) | _ => none) = some (.ret (beBytes 32 5), 76) := by
  decide +kernel

end Interp
end Artela
