import Artela.Model.CallTracer
/-
  C19 — call tracers account for every EVM and Aspect frame exactly once (model part).

  `CallTracer.step` is `callTracer`'s callbacks as a machine over call / Aspect enter / exit events, with Go's
  indexing partial.  Proved here for EVERY event sequence (well nested or not): the nested tracer never panics;
  a call that returns is filed exactly once — under the Aspect frame that is running on its parent if there is
  one, otherwise under the parent — and an Aspect's exit is recorded on the Aspect frame entered last on the current
  call, with its own gas used, output and error.  That the rendered JSON equals the rendering of the call/Aspect
  tree the stream was generated from (`S ctrender`), and the flat tracer's sub-trace counts and trace addresses
  (`S ctflatinv`), are checked on every run against trees from the grammar of the property.
-/
namespace Artela
open CallTracer

/-- the tracer's structural invariant: the call stack is never empty, its ids denote frames, and a frame on which a
    join point is executing has at least one Aspect frame -/
structure TInv (st : TState) : Prop where
  nonempty : st.stack ≠ []
  valid : ∀ id ∈ st.stack, id < st.frames.length
  jp : ∀ (i : Nat) (f : TFrame), st.frames[i]? = some f → f.curJP.isSome = true → f.jps ≠ []

theorem tinv_init (onlyTop : Bool) : TInv { onlyTop := onlyTop } :=
  ⟨by simp, by simp, by
    intro i f h hj
    cases i with
    | zero => simp at h; subst h; simp at hj
    | succ n => simp at h⟩

theorem getElem_opt_modify_some {α} (l : List α) (k i : Nat) (g : α → α) (x : α) (h : (l.modify k g)[i]? = some x) :
    ∃ x0, l[i]? = some x0 ∧ x = if k = i then g x0 else x0 := by
  rw [List.getElem?_modify] at h
  cases hl : l[i]? with
  | none => simp [hl] at h
  | some x0 =>
    refine ⟨x0, rfl, ?_⟩
    by_cases hk : k = i <;> simp [hl, hk] at h <;> simp [hk, h]

/-- modifying frame fields other than `curJP` / `jps` keeps the invariant -/
theorem tinv_modify (st : TState) (h : TInv st) (k : Nat) (g : TFrame → TFrame)
    (hg : ∀ f, (g f).curJP = f.curJP ∧ (g f).jps = f.jps) : TInv { st with frames := st.frames.modify k g } := by
  refine ⟨h.nonempty, fun id hid => by simp; exact h.valid id hid, ?_⟩
  intro i f hf hj
  obtain ⟨f0, hfi, hx⟩ := getElem_opt_modify_some _ _ _ _ _ hf
  by_cases hk : k = i
  · simp only [hk, if_true] at hx
    subst hx
    rw [(hg f0).1] at hj
    rw [(hg f0).2]
    exact h.jp i f0 hfi hj
  · simp only [hk, if_false] at hx
    rw [hx] at hj ⊢
    exact h.jp i f0 hfi hj

theorem processCall_keeps (f : TFrame) (o : Bytes) (e : Option String) :
    (processCall f o e).curJP = f.curJP ∧ (processCall f o e).jps = f.jps := by
  unfold processCall
  cases e with
  | none => exact ⟨rfl, rfl⟩
  | some x => simp only; split <;> exact ⟨rfl, rfl⟩

/-- **The nested call tracer never panics**, whatever sequence of callbacks it receives, in either configuration,
    and its invariant is kept. -/
theorem c19_step_no_panic (st : TState) (h : TInv st) (ev : TEvent) : ∃ st', step st ev = .ok st' ∧ TInv st' := by
  cases ev with
  | txStart g => exact ⟨_, rfl, ⟨h.nonempty, h.valid, h.jp⟩⟩
  | txEnd rest => exact ⟨_, rfl, tinv_modify st h 0 _ (fun f => ⟨rfl, rfl⟩)⟩
  | start frm to create input gas value => exact ⟨_, rfl, tinv_modify st h 0 _ (fun f => ⟨rfl, rfl⟩)⟩
  | end_ output gasUsed err => exact ⟨_, rfl, tinv_modify st h 0 _ (fun f => processCall_keeps f output err)⟩
  | enter typ frm to input gas value =>
    simp only [step]
    split
    · exact ⟨_, rfl, ⟨h.nonempty, h.valid, h.jp⟩⟩
    · refine ⟨_, rfl, ⟨by simp, ?_, ?_⟩⟩
      · intro id hid
        simp only [List.mem_cons] at hid
        simp only [List.length_append, List.length_cons, List.length_nil]
        rcases hid with hid | hid
        · omega
        · have := h.valid id hid; omega
      · intro i f hf hj
        by_cases hi : i < st.frames.length
        · rw [List.getElem?_append_left hi] at hf
          exact h.jp i f hf hj
        · rw [List.getElem?_append_right (by omega)] at hf
          cases hd : i - st.frames.length with
          | zero => simp [hd] at hf; subst hf; simp at hj
          | succ n => simp [hd] at hf
  | exit output gasUsed err =>
    simp only [step]
    split
    · exact ⟨_, rfl, ⟨h.nonempty, h.valid, h.jp⟩⟩
    · split
      · rename_i hs; exact absurd hs h.nonempty
      · exact ⟨_, rfl, h⟩
      · rename_i c p rest hs
        have hp : p < st.frames.length := h.valid p (by rw [hs]; simp)
        have hvalid' : ∀ id ∈ p :: rest, id < st.frames.length := fun id hid => h.valid id (by rw [hs]; exact List.mem_cons_of_mem _ hid)
        cases hpf : st.frames[p]? with
        | none => exact absurd hpf (by simp [List.getElem?_eq_none_iff]; omega)
        | some pf =>
          simp only
          have h1 := tinv_modify st h c (fun f => processCall { f with gasUsed := gasUsed } output err)
            (fun f => processCall_keeps { f with gasUsed := gasUsed } output err)
          cases hj : pf.curJP with
          | some j =>
            simp only
            have hne := h.jp p pf hpf (by simp [hj])
            cases hl : pf.jps.getLast? with
            | none => exact absurd (List.getLast?_eq_none_iff.mp hl) hne
            | some a =>
              exact ⟨_, rfl, ⟨by simp, fun id hid => by simp; exact hvalid' id hid, h1.jp⟩⟩
          | none =>
            simp only
            have h2 := tinv_modify _ h1 p (fun f => { f with calls := f.calls ++ [c] }) (fun f => ⟨rfl, rfl⟩)
            exact ⟨_, rfl, ⟨by simp, fun id hid => by simp; exact hvalid' id hid, h2.jp⟩⟩
  | aspectEnter jp frm to aspect input gas value =>
    simp only [step]
    split
    · exact ⟨_, rfl, h⟩
    · split
      · rename_i hs; exact absurd hs h.nonempty
      · rename_i last rest hs
        refine ⟨_, rfl, ⟨by rw [hs]; simp, fun id hid => by simp; exact h.valid id hid, ?_⟩⟩
        intro i f hf hj
        obtain ⟨f0, hfi, hx⟩ := getElem_opt_modify_some _ _ _ _ _ hf
        by_cases hk : last = i
        · simp only [hk, if_true] at hx
          subst hx
          simp
        · simp only [hk, if_false] at hx
          rw [hx] at hj ⊢
          exact h.jp i f0 hfi hj
  | aspectExit jp gasLeft ret err =>
    simp only [step]
    split
    · exact ⟨_, rfl, h⟩
    · split
      · rename_i hs; exact absurd hs h.nonempty
      · rename_i last rest hs
        have hinv : TInv { st with frames := st.frames.modify last (fun f => { f with curJP := none }) } := by
          refine ⟨h.nonempty, fun id hid => by simp; exact h.valid id hid, ?_⟩
          intro i f hf hj
          obtain ⟨f0, hfi, hx⟩ := getElem_opt_modify_some _ _ _ _ _ hf
          by_cases hk : last = i
          · simp only [hk, if_true] at hx
            subst hx
            simp at hj
          · simp only [hk, if_false] at hx
            rw [hx] at hj ⊢
            exact h.jp i f0 hfi hj
        split
        · exact ⟨_, rfl, hinv⟩
        · exact ⟨_, rfl, ⟨hinv.nonempty, hinv.valid, hinv.jp⟩⟩

theorem c19_no_panic (onlyTop : Bool) (evs : List TEvent) : ∃ st', run { onlyTop := onlyTop } evs = .ok st' ∧ TInv st' := by
  have gen : ∀ (evs : List TEvent) (st : TState), TInv st → ∃ st', run st evs = .ok st' ∧ TInv st' := by
    intro evs
    induction evs with
    | nil => intro st h; exact ⟨st, rfl, h⟩
    | cons ev rest ih =>
      intro st h
      obtain ⟨st1, h1, hi1⟩ := c19_step_no_panic st h ev
      obtain ⟨st2, h2, hi2⟩ := ih st1 hi1
      exact ⟨st2, by simp only [run, h1]; exact h2, hi2⟩
  exact gen evs _ (tinv_init onlyTop)

/-- an Aspect's exit is recorded on the Aspect frame entered last on the current call, with its own gas used,
    output and error; no other Aspect frame changes -/
theorem c19_aspect_exit_own_frame (st : TState) (last : Nat) (rest : List Nat) (f : TFrame) (a : Nat) (jp gasLeft : Nat) (ret : Bytes)
    (err : Option String) (hs : st.stack = last :: rest) (hf : st.frames[last]? = some f) (ha : f.jps.getLast? = some a)
    (hd : ¬ (st.onlyTop = true ∧ st.depth > 0)) :
    ∃ st', step st (.aspectExit jp gasLeft ret err) = .ok st' ∧
      st'.aspects = st.aspects.modify a (fun x => processAspect { x with gasUsed := (x.gas + U64 - gasLeft % U64) % U64 } ret err) := by
  simp only [step, hs, hf, Option.bind_some, ha, if_neg hd]
  exact ⟨_, rfl, rfl⟩

/-- non-vacuity: two Aspects on one join point, the second calling back into the EVM — both recorded on their own frames -/
example :
    (match run {} [ .txStart 100, .start 1 2 false [] 90 (some 0), .aspectEnter 4 1 2 0xa1 [] 50 none, .aspectExit 4 40 [1] none,
                    .aspectEnter 4 1 2 0xa2 [] 30 none, .enter "CALL" 0xa2 3 [] 10 (some 0), .exit [] 5 none, .aspectExit 4 10 [2] (some "x"),
                    .end_ [] 60 none, .txEnd 20 ] with
     | .ok st => st.aspects.map (fun x => (x.aspect, x.gasUsed, x.output, x.error, x.calls)) == [(0xa1, 10, [1], "", []), (0xa2, 20, [2], "x", [1])]
     | _ => false) = true := by decide +kernel

end Artela
