import Artela.Proofs.FrameInv
/-
  C04 — a failed call frame leaves world state untouched, whatever made it fail.

  The frame machine (Model/Frame.lean) is run over an ARBITRARY sequence of interpreter events: any program, any
  nesting, any environment answers, any join-point outcome at any firing position (the `pre` / `post` results are
  part of the events and universally quantified — that is the fault enumeration).  The world is the StateDB's
  journal of effects; `worldAtEntry` is the world when the frame function was invoked, `worldAfter` the world it
  left behind.
-/
namespace Artela
open Frame

/-- **Atomicity.** Whatever happens — exceptional halt, revert, failing pre- or post-contract-call join point,
    refusal up front — a call frame (CALL, CALLCODE, DELEGATECALL, STATICCALL) that ends in an error leaves the world
    exactly as it found it: its value transfer, account creation, its own effects and those of all its
    descendants are gone. -/
theorem c04_failed_frame_atomic (evs : List FEvent) (r : FrameResult) (hr : r ∈ (run {} evs).results)
    (hk : r.kind.isCreate = false) (he : r.err ≠ none) : r.worldAfter = r.worldAtEntry :=
  ((run_inv {} evs inv_init).2 r hr).1 hk he

/-- A failed CREATE / CREATE2 (other than the pre-Homestead code-store case) leaves the world as it was at its
    snapshot: the entry world plus the creator's nonce bump and the access-list addition that are made on purpose
    before the snapshot. -/
theorem c04_failed_create_atomic (evs : List FEvent) (r : FrameResult) (hr : r ∈ (run {} evs).results)
    (hk : r.kind.isCreate = true) (he : r.err ≠ none) (hc : r.err ≠ some errCodeStoreOOG) : r.worldAfter = r.worldAtSnapshot :=
  ((run_inv {} evs inv_init).2 r hr).2.2 hk he hc

/-- **Caller effects preserved.** Everything that was in the world before the frame is still there afterwards, in
    order, whether the frame failed or not (a successful frame only appends). -/
theorem c04_caller_effects_preserved (evs : List FEvent) (r : FrameResult) (hr : r ∈ (run {} evs).results)
    (hk : r.kind.isCreate = false) : ∃ l, r.worldAfter = r.worldAtEntry ++ l := by
  by_cases he : r.err = none
  · exact ((run_inv {} evs inv_init).2 r hr).2.1 hk he
  · exact ⟨[], by rw [c04_failed_frame_atomic evs r hr hk he]; simp⟩

/-- the snapshots of the frames still open always denote the world as it was when they were taken, so a later
    failure of any of them restores exactly that world — also across repeated top-level invocations -/
theorem c04_snapshots_stay_valid (evs : List FEvent) : WorldInv (run {} evs).stack (run {} evs).world :=
  (run_inv {} evs inv_init).1

/-- the gas / world rule of the common tail: an error truncates the world to the snapshot, success keeps it -/
theorem c04_tail_rule (world : List Effect) (snap : Nat) (e : String) :
    tailWorld world snap (some e) = world.take snap ∧ tailWorld world snap none = world := ⟨rfl, rfl⟩

/-! ### non-vacuity: a caller stores, calls a contract whose pre join point fails after the value transfer, stores again -/

def c04_example : List FEvent :=
  [ .enter .call 0xca 0xc0 0 [] 1000000 {},
    .effect 1,
    .enter .call 0xc0 0xc1 5 [1, 2] 50000 { jpEnabled := true, pre := ⟨none, 40000, some "aspect refused"⟩, balFrom := 9, balTo := 0, balFromAfter := 4, balToAfter := 5 },
    .effect 2,
    .halt none none 900000 ⟨none, 0, none⟩ ]

/-- the inner frame failed at its pre join point; its transfer is gone, the caller's two stores are there -/
example : (run {} c04_example).results.map (fun r => (r.err.isSome, r.worldAfter)) =
    [(true, [Effect.transfer 0xca 0xc0 0, Effect.prog 1]),
     (false, [Effect.transfer 0xca 0xc0 0, Effect.prog 1, Effect.prog 2])] := by decide +kernel

end Artela
