import Artela.Props.C19
/-
  C19 (exactly once) — in the nested call tracer every call frame that has returned is listed exactly once, under a
  call frame or an Aspect frame, every frame still running is on the call stack exactly once, and every Aspect frame is
  listed exactly once under a call frame — for EVERY callback sequence (default configuration).
-/
namespace Artela
open CallTracer

/-- occurrences of id `x` in the `proj` lists of an arena -/
def occ {α} (proj : α → List Nat) (l : List α) (x : Nat) : Nat := (l.flatMap proj).count x

theorem occ_nil {α} (proj : α → List Nat) (x : Nat) : occ proj [] x = 0 := rfl

theorem occ_cons {α} (proj : α → List Nat) (a : α) (l : List α) (x : Nat) : occ proj (a :: l) x = (proj a).count x + occ proj l x := by
  unfold occ; simp [List.flatMap_cons, List.count_append]

theorem occ_append {α} (proj : α → List Nat) (l m : List α) (x : Nat) : occ proj (l ++ m) x = occ proj l x + occ proj m x := by
  unfold occ; simp [List.flatMap_append, List.count_append]

theorem occ_modify_same {α} (proj : α → List Nat) (g : α → α) (hg : ∀ y, proj (g y) = proj y) :
    ∀ (l : List α) (i : Nat) (x : Nat), occ proj (l.modify i g) x = occ proj l x := by
  intro l
  induction l with
  | nil => intro i x; simp
  | cons a as ih =>
    intro i x
    cases i with
    | zero => simp [List.modify_zero_cons, occ_cons, hg]
    | succ k => simp [List.modify_succ_cons, occ_cons, ih k x]

theorem occ_modify_push {α} (proj : α → List Nat) (g : α → α) (c : Nat) (hg : ∀ y, proj (g y) = proj y ++ [c]) :
    ∀ (l : List α) (i : Nat) (x : Nat), i < l.length → occ proj (l.modify i g) x = occ proj l x + (if c = x then 1 else 0) := by
  intro l
  induction l with
  | nil => intro i x hi; simp at hi
  | cons a as ih =>
    intro i x hi
    cases i with
    | zero =>
      simp only [List.modify_zero_cons, occ_cons, hg, List.count_append, List.count_singleton]
      by_cases hc : c = x <;> simp [hc] <;> omega
    | succ k =>
      simp only [List.modify_succ_cons, occ_cons]
      have := ih k x (by simpa using hi)
      omega

/-- the accounting invariant of the nested tracer -/
structure Once (st : TState) : Prop where
  tinv : TInv st
  aspValid : ∀ (i : Nat) (f : TFrame), st.frames[i]? = some f → ∀ a ∈ f.jps, a < st.aspects.length
  calls : ∀ x, occ (·.calls) st.frames x + occ (·.calls) st.aspects x + st.stack.count x = if x < st.frames.length then 1 else 0
  jps : ∀ a, occ (·.jps) st.frames a = if a < st.aspects.length then 1 else 0

theorem once_init : Once {} := by
  refine ⟨tinv_init false, ?_, ?_, ?_⟩
  · intro i f h a ha
    cases i with
    | zero => simp at h; subst h; simp at ha
    | succ n => simp at h
  · intro x
    cases x with
    | zero => simp [occ]
    | succ n => simp [occ]
  · intro a; simp [occ]

theorem processCall_calls (f : TFrame) (o : Bytes) (e : Option String) : (processCall f o e).calls = f.calls := by
  unfold processCall
  cases e with
  | none => rfl
  | some x => simp only; split <;> rfl

theorem processAspect_calls (a : TAspect) (o : Bytes) (e : Option String) : (processAspect a o e).calls = a.calls := by
  unfold processAspect
  cases e with
  | none => rfl
  | some x => simp only; split <;> rfl

/-- a modification of frames that keeps `calls`, `jps` and `curJP` keeps the accounting -/
theorem once_modify (st : TState) (h : Once st) (k : Nat) (g : TFrame → TFrame)
    (hg : ∀ f, (g f).curJP = f.curJP ∧ (g f).jps = f.jps ∧ (g f).calls = f.calls) :
    Once { st with frames := st.frames.modify k g } := by
  refine ⟨tinv_modify st h.tinv k g (fun f => ⟨(hg f).1, (hg f).2.1⟩), ?_, ?_, ?_⟩
  · intro i f hf a ha
    obtain ⟨f0, hfi, hx⟩ := getElem_opt_modify_some _ _ _ _ _ hf
    by_cases hk : k = i
    · simp only [hk, if_true] at hx; subst hx; rw [(hg f0).2.1] at ha; exact h.aspValid i f0 hfi a ha
    · simp only [hk, if_false] at hx; subst hx; exact h.aspValid i f hfi a ha
  · intro x
    have := h.calls x
    simp only [List.length_modify]
    rw [occ_modify_same (·.calls) g (fun y => (hg y).2.2)]
    exact this
  · intro a
    rw [occ_modify_same (·.jps) g (fun y => (hg y).2.1)]
    exact h.jps a

theorem aspValid_modify (frames : List TFrame) (n : Nat) (hv : ∀ (i : Nat) (f : TFrame), frames[i]? = some f → ∀ a ∈ f.jps, a < n)
    (k : Nat) (g : TFrame → TFrame) (hg : ∀ f, (g f).jps = f.jps) :
    ∀ (i : Nat) (f : TFrame), (frames.modify k g)[i]? = some f → ∀ a ∈ f.jps, a < n := by
  intro i f hf a ha
  obtain ⟨f0, hfi, hx⟩ := getElem_opt_modify_some _ _ _ _ _ hf
  by_cases hk : k = i
  · simp only [hk, if_true] at hx; subst hx; rw [hg f0] at ha; exact hv i f0 hfi a ha
  · simp only [hk, if_false] at hx; subst hx; exact hv i f hfi a ha

theorem once_step (st : TState) (h : Once st) (hno : st.onlyTop = false) (ev : TEvent) :
    ∃ st', step st ev = .ok st' ∧ Once st' ∧ st'.onlyTop = false := by
  cases ev with
  | txStart g => exact ⟨_, rfl, ⟨⟨h.tinv.nonempty, h.tinv.valid, h.tinv.jp⟩, h.aspValid, h.calls, h.jps⟩, hno⟩
  | txEnd rest => exact ⟨_, rfl, once_modify st h 0 _ (fun f => ⟨rfl, rfl, rfl⟩), hno⟩
  | start frm to create input gas value => exact ⟨_, rfl, once_modify st h 0 _ (fun f => ⟨rfl, rfl, rfl⟩), hno⟩
  | end_ output gasUsed err =>
    exact ⟨_, rfl, once_modify st h 0 _ (fun f => ⟨(processCall_keeps f output err).1, (processCall_keeps f output err).2, processCall_calls f output err⟩), hno⟩
  | enter typ frm to input gas value =>
    obtain ⟨st1, hs1, hi1⟩ := c19_step_no_panic st h.tinv (.enter typ frm to input gas value)
    simp only [step, hno, Bool.false_eq_true, if_false] at hs1 ⊢
    refine ⟨_, rfl, ⟨?_, ?_, ?_, ?_⟩, by simp [hno]⟩
    · injection hs1 with hs1; rw [hs1]; exact hi1
    · intro i f hf a ha
      rw [List.getElem?_append] at hf
      split at hf
      · exact h.aspValid i f hf a ha
      · simp only [List.getElem?_singleton] at hf
        split at hf
        · injection hf with hf; subst hf; simp at ha
        · cases hf
    · intro x
      have hx := h.calls x
      have hn := h.calls st.frames.length
      simp only [Nat.lt_irrefl, if_false] at hn
      simp only [occ_append, occ_cons, occ_nil, List.count_nil, List.length_append, List.length_singleton, List.count_cons, Nat.add_zero] at *
      by_cases hxl : x < st.frames.length
      · have h1 : ¬ st.frames.length = x := by omega
        have h2 : x < st.frames.length + 1 := by omega
        simp [hxl, h1, h2] at hx ⊢; omega
      · by_cases hxe : st.frames.length = x
        · subst hxe; simp at hx ⊢; omega
        · have : ¬ x < st.frames.length + 1 := by omega
          simp [hxl, this, hxe] at hx ⊢; omega
    · intro a
      simp only [occ_append, occ_cons, occ_nil, List.count_nil, Nat.add_zero]
      exact h.jps a
  | exit output gasUsed err =>
    obtain ⟨st1, hs1, hi1⟩ := c19_step_no_panic st h.tinv (.exit output gasUsed err)
    simp only [step, hno, Bool.false_eq_true, if_false] at hs1 ⊢
    cases hst : st.stack with
    | nil => exact absurd hst h.tinv.nonempty
    | cons c tl =>
      cases tl with
      | nil => exact ⟨_, rfl, h, hno⟩
      | cons p rest =>
        have hc : c < st.frames.length := h.tinv.valid c (by simp [hst])
        have hp : p < st.frames.length := h.tinv.valid p (by simp [hst])
        simp only [hst] at hs1 ⊢
        cases hpf : st.frames[p]? with
        | none => rw [List.getElem?_eq_none_iff] at hpf; omega
        | some pf =>
          simp only [hpf] at hs1 ⊢
          have hg1 : ∀ f : TFrame, (processCall { f with gasUsed := gasUsed } output err).jps = f.jps :=
            fun f => (processCall_keeps { f with gasUsed := gasUsed } output err).2
          have hg1c : ∀ f : TFrame, (processCall { f with gasUsed := gasUsed } output err).calls = f.calls :=
            fun f => processCall_calls { f with gasUsed := gasUsed } output err
          cases hj : pf.curJP with
          | some j =>
            simp only [hj] at hs1 ⊢
            cases hl : pf.jps.getLast? with
            | none =>
              have := h.tinv.jp p pf hpf (by simp [hj])
              rw [List.getLast?_eq_none_iff] at hl
              exact absurd hl this
            | some a =>
              simp only [hl] at hs1 ⊢
              have ha : a < st.aspects.length := h.aspValid p pf hpf a (List.mem_of_getLast? hl)
              refine ⟨_, rfl, ⟨?_, ?_, ?_, ?_⟩, by simp [hno]⟩
              · injection hs1 with hs1; rw [hs1]; exact hi1
              · simp only [List.length_modify]
                exact aspValid_modify st.frames st.aspects.length h.aspValid c _ hg1
              · intro x
                have hx := h.calls x
                rw [hst] at hx
                simp only [List.length_modify]
                rw [occ_modify_same (fun (f : TFrame) => f.calls) _ ?hg]
                case hg => intro y; exact hg1c y
                rw [occ_modify_push (fun (a : TAspect) => a.calls) _ c ?hg2 _ _ _ ha]
                case hg2 => intro y; rfl
                simp only [List.count_cons] at hx ⊢
                by_cases hcx : c = x <;> simp [hcx] at hx ⊢ <;> omega
              · intro a'
                simp only [List.length_modify]
                rw [occ_modify_same (fun (f : TFrame) => f.jps) _ ?hg]
                case hg => intro y; exact hg1 y
                exact h.jps a'
          | none =>
            simp only [hj] at hs1 ⊢
            refine ⟨_, rfl, ⟨?_, ?_, ?_, ?_⟩, by simp [hno]⟩
            · injection hs1 with hs1; rw [hs1]; exact hi1
            · exact aspValid_modify _ st.aspects.length (aspValid_modify st.frames st.aspects.length h.aspValid c _ hg1) p _ (fun f => rfl)
            · intro x
              have hx := h.calls x
              rw [hst] at hx
              simp only [List.length_modify]
              rw [occ_modify_push (fun (f : TFrame) => f.calls) _ c ?hg2 _ _ _ (by simpa using hp)]
              case hg2 => intro y; rfl
              rw [occ_modify_same (fun (f : TFrame) => f.calls) _ ?hg]
              case hg => intro y; exact hg1c y
              simp only [List.count_cons] at hx ⊢
              by_cases hcx : c = x <;> simp [hcx] at hx ⊢ <;> omega
            · intro a'
              rw [occ_modify_same (fun (f : TFrame) => f.jps) _ ?hg]
              case hg => intro y; rfl
              rw [occ_modify_same (fun (f : TFrame) => f.jps) _ ?hg]
              case hg => intro y; exact hg1 y
              exact h.jps a'
  | aspectEnter jp frm to aspect input gas value =>
    obtain ⟨st1, hs1, hi1⟩ := c19_step_no_panic st h.tinv (.aspectEnter jp frm to aspect input gas value)
    have hd : ¬ (st.onlyTop = true ∧ st.depth > 0) := by simp [hno]
    cases hst : st.stack with
    | nil => exact absurd hst h.tinv.nonempty
    | cons last rest =>
      have hlast : last < st.frames.length := h.tinv.valid last (by simp [hst])
      simp only [step, hst, if_neg hd] at hs1 ⊢
      refine ⟨_, rfl, ⟨?_, ?_, ?_, ?_⟩, hno⟩
      · injection hs1 with hs1; rw [hs1]; exact hi1
      · intro i f hf a ha
        obtain ⟨f0, hfi, hx⟩ := getElem_opt_modify_some _ _ _ _ _ hf
        simp only [List.length_append, List.length_singleton]
        by_cases hk : last = i
        · simp only [hk, if_true] at hx; subst hx
          simp only [List.mem_append, List.mem_singleton] at ha
          rcases ha with ha | ha
          · have := h.aspValid i f0 hfi a ha; omega
          · omega
        · simp only [hk, if_false] at hx; subst hx
          have := h.aspValid i f hfi a ha; omega
      · intro x
        have hx := h.calls x
        simp only [List.length_modify, occ_append, occ_cons, occ_nil, List.count_nil, Nat.add_zero]
        rw [occ_modify_same (fun (f : TFrame) => f.calls) _ ?hg]
        case hg => intro y; exact rfl
        rw [hst] at hx
        exact hx
      · intro a
        have ha := h.jps a
        have hn := h.jps st.aspects.length
        simp only [Nat.lt_irrefl, if_false] at hn
        rw [occ_modify_push (fun (f : TFrame) => f.jps) _ st.aspects.length ?hg _ _ _ hlast]
        case hg => intro y; rfl
        simp only [List.length_append, List.length_singleton]
        by_cases hal : a < st.aspects.length
        · have h1 : ¬ st.aspects.length = a := by omega
          have h2 : a < st.aspects.length + 1 := by omega
          simp [hal, h1, h2] at ha ⊢; omega
        · by_cases hae : st.aspects.length = a
          · subst hae; simp at ha ⊢; omega
          · have h2 : ¬ a < st.aspects.length + 1 := by omega
            simp [hal, h2, hae] at ha ⊢; omega
  | aspectExit jp gasLeft ret err =>
    obtain ⟨st1, hs1, hi1⟩ := c19_step_no_panic st h.tinv (.aspectExit jp gasLeft ret err)
    have hd : ¬ (st.onlyTop = true ∧ st.depth > 0) := by simp [hno]
    cases hst : st.stack with
    | nil => exact absurd hst h.tinv.nonempty
    | cons last rest =>
      simp only [step, hst, if_neg hd] at hs1 ⊢
      have hasp : ∀ (i : Nat) (f : TFrame), (st.frames.modify last (fun f => { f with curJP := none }))[i]? = some f → ∀ a ∈ f.jps, a < st.aspects.length := by
        intro i f hf a ha
        obtain ⟨f0, hfi, hx⟩ := getElem_opt_modify_some _ _ _ _ _ hf
        by_cases hk : last = i
        · simp only [hk, if_true] at hx; subst hx; exact h.aspValid i f0 hfi a ha
        · simp only [hk, if_false] at hx; subst hx; exact h.aspValid i f hfi a ha
      cases hm : (st.frames[last]?).bind (fun f => f.jps.getLast?) with
      | none =>
        simp only [hm] at hs1 ⊢
        refine ⟨_, rfl, ⟨?_, hasp, ?_, ?_⟩, hno⟩
        · injection hs1 with hs1; rw [hs1]; exact hi1
        · intro x
          have hx := h.calls x
          simp only [List.length_modify]
          rw [occ_modify_same (fun (f : TFrame) => f.calls) _ ?hg]
          case hg => intro y; exact rfl
          rw [hst] at hx; exact hx
        · intro a
          rw [occ_modify_same (fun (f : TFrame) => f.jps) _ ?hg]
          case hg => intro y; exact rfl
          exact h.jps a
      | some a0 =>
        simp only [hm] at hs1 ⊢
        refine ⟨_, rfl, ⟨?_, ?_, ?_, ?_⟩, hno⟩
        · injection hs1 with hs1; rw [hs1]; exact hi1
        · intro i f hf a ha
          simp only [List.length_modify]
          exact hasp i f hf a ha
        · intro x
          have hx := h.calls x
          simp only [List.length_modify]
          rw [occ_modify_same (fun (f : TFrame) => f.calls) _ ?hg]
          case hg => intro y; exact rfl
          rw [occ_modify_same (fun (a : TAspect) => a.calls) _ ?hg]
          case hg => intro y; exact processAspect_calls _ ret err
          rw [hst] at hx; exact hx
        · intro a
          simp only [List.length_modify]
          rw [occ_modify_same (fun (f : TFrame) => f.jps) _ ?hg]
          case hg => intro y; exact rfl
          exact h.jps a

/-- **C19, exactly once, every callback sequence** (default configuration): the accounting invariant holds after any
    sequence of callbacks, well nested or not -/
theorem c19_accounting (evs : List TEvent) : ∃ st', run {} evs = .ok st' ∧ Once st' := by
  have gen : ∀ (evs : List TEvent) (st : TState), Once st → st.onlyTop = false → ∃ st', run st evs = .ok st' ∧ Once st' := by
    intro evs
    induction evs with
    | nil => intro st h _; exact ⟨st, rfl, h⟩
    | cons ev rest ih =>
      intro st h hno
      obtain ⟨st1, h1, hi1, hn1⟩ := once_step st h hno ev
      obtain ⟨st2, h2, hi2⟩ := ih st1 hi1 hn1
      exact ⟨st2, by simp only [run, h1]; exact h2, hi2⟩
  exact gen evs {} once_init rfl

/-- so, once every call has returned (only the transaction's own frame is on the stack): every other call frame is
    listed exactly once — under a call frame or under an Aspect frame, never both, never twice —, the transaction's
    frame is listed nowhere, and every Aspect frame is listed exactly once under a call frame -/
theorem c19_every_frame_exactly_once (evs : List TEvent) (st' : TState) (h : run {} evs = .ok st') (hs : st'.stack = [0]) :
    (∀ x, 0 < x → x < st'.frames.length → occ (·.calls) st'.frames x + occ (·.calls) st'.aspects x = 1) ∧
    (occ (·.calls) st'.frames 0 + occ (·.calls) st'.aspects 0 = 0) ∧
    (∀ a, a < st'.aspects.length → occ (·.jps) st'.frames a = 1) ∧
    (∀ x, st'.frames.length ≤ x → occ (·.calls) st'.frames x + occ (·.calls) st'.aspects x = 0) := by
  obtain ⟨st2, h2, hi⟩ := c19_accounting evs
  rw [h] at h2; injection h2 with h2; subst h2
  have hlen : 0 < st'.frames.length := hi.tinv.valid 0 (by simp [hs])
  refine ⟨?_, ?_, ?_, ?_⟩
  · intro x hx0 hxl
    have := hi.calls x
    have hne : ¬ (0 = x) := by omega
    simp [hs, hxl, hne] at this
    exact this
  · have := hi.calls 0
    simp [hs, hlen] at this
    omega
  · intro a ha
    have := hi.jps a
    simpa [ha] using this
  · intro x hx
    have := hi.calls x
    have hnl : ¬ x < st'.frames.length := by omega
    have hne : ¬ (0 = x) := by omega
    simp [hs, hnl, hne] at this
    omega

/-- non-vacuity: the stream of the C19 example (two Aspects on one join point, a call from inside the second) ends with
    the stack at rest, so the theorem applies to it -/
example :
    (match run {} [ .txStart 100, .start 1 2 false [] 90 (some 0), .aspectEnter 4 1 2 0xa1 [] 50 none, .aspectExit 4 40 [1] none,
                    .aspectEnter 4 1 2 0xa2 [] 30 none, .enter "CALL" 0xa2 3 [] 10 (some 0), .exit [] 5 none, .aspectExit 4 10 [2] (some "x"),
                    .end_ [] 60 none, .txEnd 20 ] with
     | .ok st => st.stack == [0] && st.frames.length == 2 && st.aspects.length == 2
     | _ => false) = true := by decide +kernel

end Artela
