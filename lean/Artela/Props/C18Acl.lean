import Artela.Model.AccessList
/-
  C18, access-list tracer: what the reference tracer guarantees for every prior list, exclusion set and run.

  * `acl_prior_slots_kept`    every (account, key) of the prior list is in the result, excluded account or not;
  * `acl_prior_addr_kept`     every non-excluded account of the prior list is in the result;
  * `acl_run_mono_*`          nothing is ever removed by a step;
  * `acl_excluded_only_by_slot` an excluded account enters the list only through one of its slots (prior or touched);
  * `acl_nodup`               an account is listed once.
-/
namespace Artela.Acl

/-- the account is listed -/
def HasAddr (l : AList) (a : Addr) : Prop := ∃ e ∈ l, e.1 = a
/-- the (account, key) pair is listed -/
def HasSlot (l : AList) (a : Addr) (s : Slot) : Prop := ∃ e ∈ l, e.1 = a ∧ s ∈ e.2

theorem hasAddr_iff (l : AList) (a : Addr) : hasAddr l a = true ↔ HasAddr l a := by
  simp [hasAddr, HasAddr]

theorem hasSlot_iff (l : AList) (a : Addr) (s : Slot) : hasSlot l a s = true ↔ HasSlot l a s := by
  simp [hasSlot, HasSlot]

theorem mem_insertSlot (ks : List Slot) (s t : Slot) : t ∈ insertSlot ks s ↔ t ∈ ks ∨ t = s := by
  unfold insertSlot
  split
  · rename_i h
    have hs : s ∈ ks := by simpa using h
    constructor
    · intro h; exact Or.inl h
    · rintro (h | h)
      · exact h
      · subst h; exact hs
  · simp [List.mem_append]

theorem HasAddr_addAddress (l : AList) (a b : Addr) : HasAddr (addAddress l a) b ↔ HasAddr l b ∨ a = b := by
  unfold addAddress
  split
  · rename_i h
    have ha := (hasAddr_iff l a).1 h
    constructor
    · intro h; exact Or.inl h
    · rintro (h | h)
      · exact h
      · subst h; exact ha
  · unfold HasAddr
    constructor
    · rintro ⟨e, he, rfl⟩
      rcases List.mem_append.1 he with h | h
      · exact Or.inl ⟨e, h, rfl⟩
      · simp only [List.mem_singleton] at h; subst h; exact Or.inr rfl
    · rintro (⟨e, he, rfl⟩ | h)
      · exact ⟨e, List.mem_append_left _ he, rfl⟩
      · exact ⟨(a, []), List.mem_append_right _ (List.mem_singleton.2 rfl), h⟩

theorem HasSlot_addAddress (l : AList) (a b : Addr) (s : Slot) : HasSlot (addAddress l a) b s ↔ HasSlot l b s := by
  unfold addAddress
  split
  · exact Iff.rfl
  · unfold HasSlot
    constructor
    · rintro ⟨e, he, h1, h2⟩
      rcases List.mem_append.1 he with h | h
      · exact ⟨e, h, h1, h2⟩
      · simp only [List.mem_singleton] at h; subst h; cases h2
    · rintro ⟨e, he, h1, h2⟩
      exact ⟨e, List.mem_append_left _ he, h1, h2⟩

theorem HasAddr_addSlot (l : AList) (a : Addr) (s : Slot) (b : Addr) : HasAddr (addSlot l a s) b ↔ HasAddr l b ∨ a = b := by
  unfold addSlot
  split
  · rename_i h
    have ha := (hasAddr_iff l a).1 h
    unfold HasAddr
    constructor
    · rintro ⟨e', he', rfl⟩
      rcases List.mem_map.1 he' with ⟨e, he, rfl⟩
      left
      refine ⟨e, he, ?_⟩
      split <;> rfl
    · rintro (⟨e, he, rfl⟩ | h)
      · refine ⟨_, List.mem_map.2 ⟨e, he, rfl⟩, ?_⟩
        split <;> rfl
      · subst h
        rcases ha with ⟨e, he, h1⟩
        refine ⟨_, List.mem_map.2 ⟨e, he, rfl⟩, ?_⟩
        split <;> exact h1
  · unfold HasAddr
    constructor
    · rintro ⟨e, he, rfl⟩
      rcases List.mem_append.1 he with h | h
      · exact Or.inl ⟨e, h, rfl⟩
      · simp only [List.mem_singleton] at h; subst h; exact Or.inr rfl
    · rintro (⟨e, he, rfl⟩ | h)
      · exact ⟨e, List.mem_append_left _ he, rfl⟩
      · exact ⟨(a, [s]), List.mem_append_right _ (List.mem_singleton.2 rfl), h⟩

theorem HasSlot_addSlot (l : AList) (a : Addr) (s : Slot) (b : Addr) (t : Slot) :
    HasSlot (addSlot l a s) b t ↔ HasSlot l b t ∨ (a = b ∧ s = t) := by
  unfold addSlot
  split
  · rename_i h
    have ha := (hasAddr_iff l a).1 h
    unfold HasSlot
    constructor
    · rintro ⟨e', he', h1, h2⟩
      rcases List.mem_map.1 he' with ⟨e, he, rfl⟩
      by_cases hea : e.1 = a
      · simp only [hea, beq_self_eq_true, if_true] at h1 h2
        rcases (mem_insertSlot _ _ _).1 h2 with h3 | h3
        · exact Or.inl ⟨e, he, hea.trans h1, h3⟩
        · exact Or.inr ⟨h1, h3.symm⟩
      · have : (e.1 == a) = false := by simpa using hea
        simp only [this, Bool.false_eq_true, if_false] at h1 h2
        exact Or.inl ⟨e, he, h1, h2⟩
    · rintro (⟨e, he, h1, h2⟩ | ⟨h1, h2⟩)
      · refine ⟨_, List.mem_map.2 ⟨e, he, rfl⟩, ?_⟩
        split
        · exact ⟨h1, (mem_insertSlot _ _ _).2 (Or.inl h2)⟩
        · exact ⟨h1, h2⟩
      · subst h1; subst h2
        rcases ha with ⟨e, he, hea⟩
        refine ⟨_, List.mem_map.2 ⟨e, he, rfl⟩, ?_⟩
        simp only [hea, beq_self_eq_true, if_true]
        exact ⟨trivial, (mem_insertSlot _ _ _).2 (Or.inr rfl)⟩
  · unfold HasSlot
    constructor
    · rintro ⟨e, he, h1, h2⟩
      rcases List.mem_append.1 he with h | h
      · exact Or.inl ⟨e, h, h1, h2⟩
      · simp only [List.mem_singleton] at h; subst h
        simp only [List.mem_singleton] at h2
        exact Or.inr ⟨h1, h2.symm⟩
    · rintro (⟨e, he, h1, h2⟩ | ⟨h1, h2⟩)
      · exact ⟨e, List.mem_append_left _ he, h1, h2⟩
      · exact ⟨(a, [s]), List.mem_append_right _ (List.mem_singleton.2 rfl), h1, by simp [h2]⟩

/-- list facts never disappear: the two predicates a step may only turn on -/
def Le (l m : AList) : Prop := (∀ a, HasAddr l a → HasAddr m a) ∧ (∀ a s, HasSlot l a s → HasSlot m a s)

theorem Le.refl (l : AList) : Le l l := ⟨fun _ h => h, fun _ _ h => h⟩
theorem Le.trans {l m n : AList} (h1 : Le l m) (h2 : Le m n) : Le l n :=
  ⟨fun a h => h2.1 a (h1.1 a h), fun a s h => h2.2 a s (h1.2 a s h)⟩

theorem le_addAddress (l : AList) (a : Addr) : Le l (addAddress l a) :=
  ⟨fun b h => (HasAddr_addAddress l a b).2 (Or.inl h), fun b s h => (HasSlot_addAddress l a b s).2 h⟩

theorem le_addSlot (l : AList) (a : Addr) (s : Slot) : Le l (addSlot l a s) :=
  ⟨fun b h => (HasAddr_addSlot l a s b).2 (Or.inl h), fun b t h => (HasSlot_addSlot l a s b t).2 (Or.inl h)⟩

theorem le_foldSlots (ks : List Slot) (l : AList) (a : Addr) : Le l (ks.foldl (fun acc s => addSlot acc a s) l) := by
  induction ks generalizing l with
  | nil => exact Le.refl l
  | cons k ks ih => exact (le_addSlot l a k).trans (ih _)

theorem foldSlots_has (ks : List Slot) (l : AList) (a : Addr) (k : Slot) (hk : k ∈ ks) :
    HasSlot (ks.foldl (fun acc s => addSlot acc a s) l) a k := by
  induction ks generalizing l with
  | nil => cases hk
  | cons x xs ih =>
    cases hk with
    | head => exact (le_foldSlots xs _ a).2 a k ((HasSlot_addSlot l a k a k).2 (Or.inr ⟨rfl, rfl⟩))
    | tail _ h => exact ih _ h

theorem le_initTuple (excl : List Addr) (l : AList) (t : Addr × List Slot) : Le l (initTuple excl l t) := by
  unfold initTuple
  split
  · exact le_foldSlots _ _ _
  · exact (le_addAddress l t.1).trans (le_foldSlots _ _ _)

theorem le_foldTuples (excl : List Addr) (ts : AList) (l : AList) : Le l (ts.foldl (initTuple excl) l) := by
  induction ts generalizing l with
  | nil => exact Le.refl l
  | cons t ts ih => exact (le_initTuple excl l t).trans (ih _)

/-- every storage key of the prior list is kept, whether or not its account is excluded -/
theorem acl_prior_slots_kept (excl : List Addr) (prior : AList) (a : Addr) (ks : List Slot) (k : Slot)
    (ht : (a, ks) ∈ prior) (hk : k ∈ ks) : HasSlot (init excl prior).list a k := by
  unfold init
  simp only
  suffices ∀ l : AList, HasSlot (prior.foldl (initTuple excl) l) a k from this []
  induction prior with
  | nil => cases ht
  | cons t ts ih =>
    intro l
    cases ht with
    | head =>
      apply (le_foldTuples excl ts _).2
      unfold initTuple
      exact foldSlots_has ks _ a k hk
    | tail _ h => exact ih h _

/-- every account of the prior list that is not excluded is kept -/
theorem acl_prior_addr_kept (excl : List Addr) (prior : AList) (a : Addr) (ks : List Slot)
    (ht : (a, ks) ∈ prior) (hx : excl.contains a = false) : HasAddr (init excl prior).list a := by
  unfold init
  simp only
  suffices ∀ l : AList, HasAddr (prior.foldl (initTuple excl) l) a from this []
  induction prior with
  | nil => cases ht
  | cons t ts ih =>
    intro l
    cases ht with
    | head =>
      apply (le_foldTuples excl ts _).1
      unfold initTuple
      simp only [hx, Bool.false_eq_true, if_false]
      exact (le_foldSlots ks _ a).1 a ((HasAddr_addAddress l a a).2 (Or.inr rfl))
    | tail _ h => exact ih h _

theorem le_touch (st : St) (a : Addr) : Le st.list (touch st a).list := by
  unfold touch; split
  · exact Le.refl _
  · exact le_addAddress _ _

theorem touch_excl (st : St) (a : Addr) : (touch st a).excl = st.excl := by unfold touch; split <;> rfl

/-- the three parts of CaptureState, named so that each lemma is proved part by part -/
def slotPart (st : St) (op : Nat) (c : Addr) (stack : List Nat) : St :=
  if isSlotOp op then
    match stack with
    | top :: _ => { st with list := addSlot st.list c top }
    | [] => st
  else st

def addrPart (st : St) (op : Nat) (stack : List Nat) : St :=
  if isAddrOp op then
    match stack with
    | top :: _ => touch st (addrOf top)
    | [] => st
  else st

def callPart (st : St) (op : Nat) (stack : List Nat) : St :=
  if isCallOp op && decide (5 ≤ stack.length) then
    match stack with
    | _ :: second :: _ => touch st (addrOf second)
    | _ => st
  else st

theorem capture_parts (st : St) (op : Nat) (c : Addr) (stack : List Nat) :
    capture st op c stack = callPart (addrPart (slotPart st op c stack) op stack) op stack := rfl

theorem slotPart_excl (st : St) (op : Nat) (c : Addr) (stack : List Nat) : (slotPart st op c stack).excl = st.excl := by
  unfold slotPart; split
  · split <;> rfl
  · rfl
theorem addrPart_excl (st : St) (op : Nat) (stack : List Nat) : (addrPart st op stack).excl = st.excl := by
  unfold addrPart; split
  · split
    · exact touch_excl _ _
    · rfl
  · rfl
theorem callPart_excl (st : St) (op : Nat) (stack : List Nat) : (callPart st op stack).excl = st.excl := by
  unfold callPart; split
  · split
    · exact touch_excl _ _
    · rfl
  · rfl

theorem capture_excl (st : St) (op : Nat) (c : Addr) (stack : List Nat) : (capture st op c stack).excl = st.excl := by
  rw [capture_parts, callPart_excl, addrPart_excl, slotPart_excl]

theorem le_slotPart (st : St) (op : Nat) (c : Addr) (stack : List Nat) : Le st.list (slotPart st op c stack).list := by
  unfold slotPart; split
  · split
    · exact le_addSlot _ _ _
    · exact Le.refl _
  · exact Le.refl _
theorem le_addrPart (st : St) (op : Nat) (stack : List Nat) : Le st.list (addrPart st op stack).list := by
  unfold addrPart; split
  · split
    · exact le_touch _ _
    · exact Le.refl _
  · exact Le.refl _
theorem le_callPart (st : St) (op : Nat) (stack : List Nat) : Le st.list (callPart st op stack).list := by
  unfold callPart; split
  · split
    · exact le_touch _ _
    · exact Le.refl _
  · exact Le.refl _

theorem le_capture (st : St) (op : Nat) (c : Addr) (stack : List Nat) : Le st.list (capture st op c stack).list := by
  rw [capture_parts]
  exact (le_slotPart st op c stack).trans ((le_addrPart _ op stack).trans (le_callPart _ op stack))

/-- nothing is ever removed: whatever is listed stays listed through every step of every run -/
theorem acl_run_mono (st : St) (evs : List Ev) : Le st.list (run st evs).list := by
  unfold run
  induction evs generalizing st with
  | nil => exact Le.refl _
  | cons e es ih => exact (le_capture st e.op e.contract e.stack).trans (ih _)

/-- so the prior list's keys are in the final result of every run -/
theorem acl_prior_slots_final (excl : List Addr) (prior : AList) (evs : List Ev) (a : Addr) (ks : List Slot) (k : Slot)
    (ht : (a, ks) ∈ prior) (hk : k ∈ ks) : HasSlot (run (init excl prior) evs).list a k :=
  (acl_run_mono _ evs).2 a k (acl_prior_slots_kept excl prior a ks k ht hk)

/-- a storage access lists the slot under the executing contract, excluded or not -/
theorem acl_slot_access_listed (st : St) (op : Nat) (c : Addr) (top : Nat) (rest : List Nat) (h : isSlotOp op = true) :
    HasSlot (capture st op c (top :: rest)).list c top := by
  rw [capture_parts]
  apply (le_callPart _ op _).2
  apply (le_addrPart _ op _).2
  unfold slotPart
  simp only [h, if_true]
  exact (HasSlot_addSlot st.list c top c top).2 (Or.inr ⟨rfl, rfl⟩)

/-- an excluded account enters the list only with one of its slots: by address alone it never does -/
theorem touch_excluded (st : St) (a b : Addr) (hb : st.excl.contains b = true) (h : ¬ HasAddr st.list b) :
    ¬ HasAddr (touch st a).list b := by
  unfold touch
  split
  · exact h
  · rename_i hx
    intro hh
    rcases (HasAddr_addAddress st.list a b).1 hh with h1 | h1
    · exact h h1
    · subst h1; exact hx hb

theorem capture_excluded (st : St) (op : Nat) (c : Addr) (stack : List Nat) (b : Addr)
    (hb : st.excl.contains b = true) (h : ¬ HasAddr st.list b) (hc : isSlotOp op = true → c ≠ b) :
    ¬ HasAddr (capture st op c stack).list b := by
  rw [capture_parts]
  have h1 : ¬ HasAddr (slotPart st op c stack).list b := by
    unfold slotPart; split
    · rename_i hs
      split
      · intro hh
        rcases (HasAddr_addSlot st.list c _ b).1 hh with h1 | h1
        · exact h h1
        · exact hc hs h1
      · exact h
    · exact h
  have hb1 : (slotPart st op c stack).excl.contains b = true := by rw [slotPart_excl]; exact hb
  generalize slotPart st op c stack = st1 at h1 hb1
  have h2 : ¬ HasAddr (addrPart st1 op stack).list b := by
    unfold addrPart; split
    · split
      · exact touch_excluded st1 _ b hb1 h1
      · exact h1
    · exact h1
  have hb2 : (addrPart st1 op stack).excl.contains b = true := by rw [addrPart_excl]; exact hb1
  generalize addrPart st1 op stack = st2 at h2 hb2
  unfold callPart; split
  · split
    · exact touch_excluded st2 _ b hb2 h2
    · exact h2
  · exact h2

/-- over a whole run in which the excluded account's own storage is not touched -/
theorem acl_excluded_only_by_slot (st : St) (evs : List Ev) (b : Addr)
    (hb : st.excl.contains b = true) (h : ¬ HasAddr st.list b)
    (hc : ∀ e ∈ evs, isSlotOp e.op = true → e.contract ≠ b) : ¬ HasAddr (run st evs).list b := by
  unfold run
  induction evs generalizing st with
  | nil => exact h
  | cons e es ih =>
    simp only [List.foldl_cons]
    apply ih
    · rw [capture_excl]; exact hb
    · exact capture_excluded st e.op e.contract e.stack b hb h (hc e (List.mem_cons_self ..))
    · intro e' he'; exact hc e' (List.mem_cons_of_mem _ he')

/-- an excluded account listed bare (no keys) in the prior list is not in the constructed list -/
theorem acl_init_excluded_bare (excl : List Addr) (prior : AList) (b : Addr) (hb : excl.contains b = true)
    (hk : ∀ t ∈ prior, t.1 = b → t.2 = []) : ¬ HasAddr (init excl prior).list b := by
  unfold init
  simp only
  suffices ∀ l : AList, ¬ HasAddr l b → ¬ HasAddr (prior.foldl (initTuple excl) l) b from
    this [] (by rintro ⟨e, he, _⟩; cases he)
  induction prior with
  | nil => intro l h; exact h
  | cons t ts ih =>
    intro l h
    simp only [List.foldl_cons]
    apply ih (fun t' ht' => hk t' (List.mem_cons_of_mem _ ht'))
    unfold initTuple
    by_cases htb : t.1 = b
    · have := hk t (List.mem_cons_self ..) htb
      rw [this, htb]
      simp only [hb, if_true, List.foldl_nil]
      exact h
    · have hbase : ¬ HasAddr (if excl.contains t.1 then l else addAddress l t.1) b := by
        split
        · exact h
        · intro hh
          rcases (HasAddr_addAddress l t.1 b).1 hh with h1 | h1
          · exact h h1
          · exact htb h1
      generalize (if excl.contains t.1 then l else addAddress l t.1) = l0 at hbase
      generalize t.2 = ks
      induction ks generalizing l0 with
      | nil => exact hbase
      | cons k ks ihk =>
        simp only [List.foldl_cons]
        apply ihk
        intro hh
        rcases (HasAddr_addSlot l0 t.1 k b).1 hh with h1 | h1
        · exact hbase h1
        · exact htb h1

/-- accounts are listed once -/
def Nodup (l : AList) : Prop := (l.map (·.1)).Nodup

theorem not_mem_of_not_hasAddr (l : AList) (a : Addr) (h : ¬ hasAddr l a = true) : a ∉ l.map (·.1) := by
  intro hm
  rcases List.mem_map.1 hm with ⟨e, he, rfl⟩
  exact h ((hasAddr_iff l e.1).2 ⟨e, he, rfl⟩)

theorem nodup_snoc (l : AList) (x : Addr × List Slot) (h : Nodup l) (hn : ¬ hasAddr l x.1 = true) : Nodup (l ++ [x]) := by
  unfold Nodup at *
  simp only [List.map_append, List.map_cons, List.map_nil]
  refine List.nodup_append.2 ⟨h, by simp, ?_⟩
  intro a ha b hb
  simp only [List.mem_singleton] at hb
  subst hb
  intro hab; subst hab
  exact not_mem_of_not_hasAddr l _ hn ha

theorem nodup_addAddress (l : AList) (a : Addr) (h : Nodup l) : Nodup (addAddress l a) := by
  unfold addAddress
  split
  · exact h
  · rename_i hn; exact nodup_snoc l (a, []) h hn

theorem nodup_addSlot (l : AList) (a : Addr) (s : Slot) (h : Nodup l) : Nodup (addSlot l a s) := by
  unfold addSlot
  split
  · unfold Nodup at *
    have : (l.map (fun e => if e.1 == a then (e.1, insertSlot e.2 s) else e)).map (·.1) = l.map (·.1) := by
      rw [List.map_map]; apply List.map_congr_left; intro e _; simp only [Function.comp]; split <;> rfl
    rw [this]; exact h
  · rename_i hn; exact nodup_snoc l (a, [s]) h hn

theorem nodup_init (excl : List Addr) (prior : AList) : Nodup (init excl prior).list := by
  unfold init
  simp only
  suffices ∀ l : AList, Nodup l → Nodup (prior.foldl (initTuple excl) l) from this [] (by simp [Nodup])
  induction prior with
  | nil => intro l h; exact h
  | cons t ts ih =>
    intro l h
    simp only [List.foldl_cons]
    apply ih
    unfold initTuple
    have hbase : Nodup (if excl.contains t.1 then l else addAddress l t.1) := by
      split
      · exact h
      · exact nodup_addAddress _ _ h
    generalize (if excl.contains t.1 then l else addAddress l t.1) = l0 at hbase
    generalize t.2 = ks
    induction ks generalizing l0 with
    | nil => exact hbase
    | cons k ks ihk => exact ihk _ (nodup_addSlot _ _ _ hbase)

theorem nodup_touch (st : St) (a : Addr) (h : Nodup st.list) : Nodup (touch st a).list := by
  unfold touch; split
  · exact h
  · exact nodup_addAddress _ _ h

theorem nodup_capture (st : St) (op : Nat) (c : Addr) (stack : List Nat) (h : Nodup st.list) :
    Nodup (capture st op c stack).list := by
  rw [capture_parts]
  have h1 : Nodup (slotPart st op c stack).list := by
    unfold slotPart; split
    · split
      · exact nodup_addSlot _ _ _ h
      · exact h
    · exact h
  generalize slotPart st op c stack = st1 at h1
  have h2 : Nodup (addrPart st1 op stack).list := by
    unfold addrPart; split
    · split
      · exact nodup_touch _ _ h1
      · exact h1
    · exact h1
  generalize addrPart st1 op stack = st2 at h2
  unfold callPart; split
  · split
    · exact nodup_touch _ _ h2
    · exact h2
  · exact h2

/-- an account appears once in the result of every construction and run -/
theorem acl_nodup (excl : List Addr) (prior : AList) (evs : List Ev) : Nodup (run (init excl prior) evs).list := by
  unfold run
  suffices ∀ st : St, Nodup st.list → Nodup (evs.foldl (fun s e => capture s e.op e.contract e.stack) st).list from
    this _ (nodup_init excl prior)
  induction evs with
  | nil => intro st h; exact h
  | cons e es ih => intro st h; exact ih _ (nodup_capture st e.op e.contract e.stack h)

-- the hypotheses are met by a concrete construction: `to` (= 2) excluded and listed with key 7, a stranger with key 1
example : hasSlot (init [1, 2, 9] [(2, [7]), (5, [1]), (1, [])]).list 2 7 = true ∧
    hasAddr (init [1, 2, 9] [(2, [7]), (5, [1]), (1, [])]).list 1 = false ∧
    hasAddr (init [1, 2, 9] [(2, [7]), (5, [1]), (1, [])]).list 5 = true := by decide

end Artela.Acl

/-!  ### The tracer's result, characterised exactly

  What one step and a whole run list, as a set: the slots are the prior ones and those touched by SLOAD/SSTORE (under the
  executing contract); the accounts are the prior ones, the owners of listed slots, and the non-excluded operands of the
  account-access and call instructions.  -/
namespace Artela.Acl

/-- the slot a step touches -/
def Ev.slotTouch (e : Ev) : Option (Addr × Slot) :=
  if isSlotOp e.op then
    match e.stack with
    | top :: _ => some (e.contract, top)
    | [] => none
  else none

/-- the accounts a step names (before the exclusion filter) -/
def Ev.addrTouch (e : Ev) : List Addr :=
  (if isAddrOp e.op then
    match e.stack with
    | top :: _ => [addrOf top]
    | [] => []
  else []) ++
  (if isCallOp e.op && decide (5 ≤ e.stack.length) then
    match e.stack with
    | _ :: second :: _ => [addrOf second]
    | _ => []
  else [])

theorem HasSlot_touch (st : St) (a b : Addr) (s : Slot) : HasSlot (touch st a).list b s ↔ HasSlot st.list b s := by
  unfold touch; split
  · exact Iff.rfl
  · exact HasSlot_addAddress _ _ _ _

theorem HasAddr_touch (st : St) (a b : Addr) :
    HasAddr (touch st a).list b ↔ HasAddr st.list b ∨ (a = b ∧ st.excl.contains a = false) := by
  unfold touch; split
  · rename_i h
    constructor
    · intro hh; exact Or.inl hh
    · rintro (hh | ⟨_, hc⟩)
      · exact hh
      · rw [h] at hc; cases hc
  · rename_i h
    rw [HasAddr_addAddress]
    constructor
    · rintro (hh | hh)
      · exact Or.inl hh
      · exact Or.inr ⟨hh, by simpa using h⟩
    · rintro (hh | ⟨hh, _⟩)
      · exact Or.inl hh
      · exact Or.inr hh

/-- one step, slots -/
theorem capture_slots (st : St) (e : Ev) (a : Addr) (s : Slot) :
    HasSlot (capture st e.op e.contract e.stack).list a s ↔ HasSlot st.list a s ∨ e.slotTouch = some (a, s) := by
  rw [capture_parts]
  have h3 : ∀ st2 : St, HasSlot (callPart st2 e.op e.stack).list a s ↔ HasSlot st2.list a s := by
    intro st2; unfold callPart; split
    · split
      · exact HasSlot_touch _ _ _ _
      · exact Iff.rfl
    · exact Iff.rfl
  have h2 : ∀ st1 : St, HasSlot (addrPart st1 e.op e.stack).list a s ↔ HasSlot st1.list a s := by
    intro st1; unfold addrPart; split
    · split
      · exact HasSlot_touch _ _ _ _
      · exact Iff.rfl
    · exact Iff.rfl
  rw [h3, h2]
  unfold slotPart Ev.slotTouch
  split
  · split
    · rw [HasSlot_addSlot]
      simp only [Option.some.injEq, Prod.mk.injEq]
    · simp
  · simp

/-- one step, accounts -/
theorem capture_addrs (st : St) (e : Ev) (b : Addr) :
    HasAddr (capture st e.op e.contract e.stack).list b ↔
      HasAddr st.list b ∨ (∃ s, e.slotTouch = some (b, s)) ∨ (b ∈ e.addrTouch ∧ st.excl.contains b = false) := by
  rw [capture_parts]
  have e1 := slotPart_excl st e.op e.contract e.stack
  have e2 := addrPart_excl (slotPart st e.op e.contract e.stack) e.op e.stack
  have h1 : HasAddr (slotPart st e.op e.contract e.stack).list b ↔ HasAddr st.list b ∨ ∃ s, e.slotTouch = some (b, s) := by
    unfold slotPart Ev.slotTouch
    split
    · split
      · rw [HasAddr_addSlot]
        simp only [Option.some.injEq, Prod.mk.injEq]
        constructor
        · rintro (h | h)
          · exact Or.inl h
          · exact Or.inr ⟨_, h, rfl⟩
        · rintro (h | ⟨_, h, _⟩)
          · exact Or.inl h
          · exact Or.inr h
      · simp
    · simp
  generalize slotPart st e.op e.contract e.stack = st1 at e1 e2 h1
  have h2 : HasAddr (addrPart st1 e.op e.stack).list b ↔ HasAddr st1.list b ∨
      (b ∈ (if isAddrOp e.op then (match e.stack with | top :: _ => [addrOf top] | [] => []) else []) ∧ st.excl.contains b = false) := by
    unfold addrPart
    split
    · split
      · rw [HasAddr_touch, e1]
        simp only [List.mem_singleton]
        constructor
        · rintro (h | ⟨h, hc⟩)
          · exact Or.inl h
          · exact Or.inr ⟨h.symm, h ▸ hc⟩
        · rintro (h | ⟨h, hc⟩)
          · exact Or.inl h
          · exact Or.inr ⟨h.symm, h ▸ hc⟩
      · simp
    · simp
  generalize addrPart st1 e.op e.stack = st2 at e2 h2
  have h3 : HasAddr (callPart st2 e.op e.stack).list b ↔ HasAddr st2.list b ∨
      (b ∈ (if isCallOp e.op && decide (5 ≤ e.stack.length) then (match e.stack with | _ :: second :: _ => [addrOf second] | _ => []) else []) ∧
        st.excl.contains b = false) := by
    unfold callPart
    split
    · split
      · rw [HasAddr_touch, e2, e1]
        simp only [List.mem_singleton]
        constructor
        · rintro (h | ⟨h, hc⟩)
          · exact Or.inl h
          · exact Or.inr ⟨h.symm, h ▸ hc⟩
        · rintro (h | ⟨h, hc⟩)
          · exact Or.inl h
          · exact Or.inr ⟨h.symm, h ▸ hc⟩
      · simp
    · simp
  rw [h3, h2, h1]
  unfold Ev.addrTouch
  simp only [List.mem_append]
  constructor
  · rintro (((h | h) | h) | h)
    · exact Or.inl h
    · exact Or.inr (Or.inl h)
    · exact Or.inr (Or.inr ⟨Or.inl h.1, h.2⟩)
    · exact Or.inr (Or.inr ⟨Or.inr h.1, h.2⟩)
  · rintro (h | h | ⟨h | h, hc⟩)
    · exact Or.inl (Or.inl (Or.inl h))
    · exact Or.inl (Or.inl (Or.inr h))
    · exact Or.inl (Or.inr ⟨h, hc⟩)
    · exact Or.inr ⟨h, hc⟩

theorem run_excl (st : St) (evs : List Ev) : (run st evs).excl = st.excl := by
  unfold run
  induction evs generalizing st with
  | nil => rfl
  | cons e es ih => simp only [List.foldl_cons]; rw [ih, capture_excl]

/-- a whole run, slots: exactly the initial ones and those touched -/
theorem acl_run_slots (st : St) (evs : List Ev) (a : Addr) (s : Slot) :
    HasSlot (run st evs).list a s ↔ HasSlot st.list a s ∨ ∃ e ∈ evs, e.slotTouch = some (a, s) := by
  unfold run
  induction evs generalizing st with
  | nil => simp
  | cons e es ih =>
    simp only [List.foldl_cons]
    rw [ih, capture_slots]
    simp only [List.mem_cons, exists_eq_or_imp]
    constructor
    · rintro ((h | h) | h)
      · exact Or.inl h
      · exact Or.inr (Or.inl h)
      · exact Or.inr (Or.inr h)
    · rintro (h | h | h)
      · exact Or.inl (Or.inl h)
      · exact Or.inl (Or.inr h)
      · exact Or.inr h

/-- a whole run, accounts: the initial ones, the owners of touched slots, and the named accounts that are not excluded -/
theorem acl_run_addrs (st : St) (evs : List Ev) (b : Addr) :
    HasAddr (run st evs).list b ↔
      HasAddr st.list b ∨ (∃ e ∈ evs, ∃ s, e.slotTouch = some (b, s)) ∨ ((∃ e ∈ evs, b ∈ e.addrTouch) ∧ st.excl.contains b = false) := by
  unfold run
  induction evs generalizing st with
  | nil => simp
  | cons e es ih =>
    simp only [List.foldl_cons]
    rw [ih, capture_addrs, capture_excl]
    simp only [List.mem_cons, exists_eq_or_imp]
    constructor
    · rintro ((h | h | h) | h | h)
      · exact Or.inl h
      · exact Or.inr (Or.inl (Or.inl h))
      · exact Or.inr (Or.inr ⟨Or.inl h.1, h.2⟩)
      · exact Or.inr (Or.inl (Or.inr h))
      · exact Or.inr (Or.inr ⟨Or.inr h.1, h.2⟩)
    · rintro (h | (h | h) | ⟨h | h, hc⟩)
      · exact Or.inl (Or.inl h)
      · exact Or.inl (Or.inr (Or.inl h))
      · exact Or.inr (Or.inl h)
      · exact Or.inl (Or.inr (Or.inr ⟨h, hc⟩))
      · exact Or.inr (Or.inr ⟨h, hc⟩)

end Artela.Acl

namespace Artela.Acl

theorem foldSlots_slots (ks : List Slot) (l : AList) (a b : Addr) (s : Slot) :
    HasSlot (ks.foldl (fun acc k => addSlot acc a k) l) b s ↔ HasSlot l b s ∨ (a = b ∧ s ∈ ks) := by
  induction ks generalizing l with
  | nil => simp
  | cons k ks ih =>
    simp only [List.foldl_cons]
    rw [ih, HasSlot_addSlot]
    simp only [List.mem_cons]
    constructor
    · rintro ((h | ⟨h1, h2⟩) | ⟨h1, h2⟩)
      · exact Or.inl h
      · exact Or.inr ⟨h1, Or.inl h2.symm⟩
      · exact Or.inr ⟨h1, Or.inr h2⟩
    · rintro (h | ⟨h1, h2 | h2⟩)
      · exact Or.inl (Or.inl h)
      · exact Or.inl (Or.inr ⟨h1, h2.symm⟩)
      · exact Or.inr ⟨h1, h2⟩

theorem foldSlots_addrs (ks : List Slot) (l : AList) (a b : Addr) :
    HasAddr (ks.foldl (fun acc k => addSlot acc a k) l) b ↔ HasAddr l b ∨ (a = b ∧ ks ≠ []) := by
  induction ks generalizing l with
  | nil => simp
  | cons k ks ih =>
    simp only [List.foldl_cons]
    rw [ih, HasAddr_addSlot]
    constructor
    · rintro ((h | h) | ⟨h, _⟩)
      · exact Or.inl h
      · exact Or.inr ⟨h, by simp⟩
      · exact Or.inr ⟨h, by simp⟩
    · rintro (h | ⟨h, _⟩)
      · exact Or.inl (Or.inl h)
      · exact Or.inl (Or.inr h)

/-- the constructed list, slots: exactly the keys of the prior list -/
theorem acl_init_slots (excl : List Addr) (prior : AList) (a : Addr) (s : Slot) :
    HasSlot (init excl prior).list a s ↔ ∃ t ∈ prior, t.1 = a ∧ s ∈ t.2 := by
  unfold init
  simp only
  suffices ∀ l : AList, HasSlot (prior.foldl (initTuple excl) l) a s ↔ HasSlot l a s ∨ ∃ t ∈ prior, t.1 = a ∧ s ∈ t.2 by
    rw [this []]
    constructor
    · rintro (⟨e, he, _⟩ | h)
      · cases he
      · exact h
    · intro h; exact Or.inr h
  induction prior with
  | nil => intro l; simp
  | cons t ts ih =>
    intro l
    simp only [List.foldl_cons]
    rw [ih]
    unfold initTuple
    rw [foldSlots_slots]
    have hb : HasSlot (if excl.contains t.1 then l else addAddress l t.1) a s ↔ HasSlot l a s := by
      split
      · exact Iff.rfl
      · exact HasSlot_addAddress _ _ _ _
    rw [hb]
    simp only [List.mem_cons, exists_eq_or_imp]
    constructor
    · rintro ((h | h) | h)
      · exact Or.inl h
      · exact Or.inr (Or.inl h)
      · exact Or.inr (Or.inr h)
    · rintro (h | h | h)
      · exact Or.inl (Or.inl h)
      · exact Or.inl (Or.inr h)
      · exact Or.inr h

/-- the constructed list, accounts: those of the prior list that are not excluded or come with a key -/
theorem acl_init_addrs (excl : List Addr) (prior : AList) (a : Addr) :
    HasAddr (init excl prior).list a ↔ ∃ t ∈ prior, t.1 = a ∧ (excl.contains a = false ∨ t.2 ≠ []) := by
  unfold init
  simp only
  suffices ∀ l : AList, HasAddr (prior.foldl (initTuple excl) l) a ↔
      HasAddr l a ∨ ∃ t ∈ prior, t.1 = a ∧ (excl.contains a = false ∨ t.2 ≠ []) by
    rw [this []]
    constructor
    · rintro (⟨e, he, _⟩ | h)
      · cases he
      · exact h
    · intro h; exact Or.inr h
  induction prior with
  | nil => intro l; simp
  | cons t ts ih =>
    intro l
    simp only [List.foldl_cons]
    rw [ih]
    unfold initTuple
    rw [foldSlots_addrs]
    have hb : HasAddr (if excl.contains t.1 then l else addAddress l t.1) a ↔ HasAddr l a ∨ (t.1 = a ∧ excl.contains a = false) := by
      split
      · rename_i hx
        constructor
        · intro h; exact Or.inl h
        · rintro (h | ⟨h1, h2⟩)
          · exact h
          · rw [h1] at hx; rw [hx] at h2; cases h2
      · rename_i hx
        rw [HasAddr_addAddress]
        constructor
        · rintro (h | h)
          · exact Or.inl h
          · exact Or.inr ⟨h, by rw [← h]; simpa using hx⟩
        · rintro (h | ⟨h, _⟩)
          · exact Or.inl h
          · exact Or.inr h
    rw [hb]
    simp only [List.mem_cons, exists_eq_or_imp]
    constructor
    · rintro (((h | ⟨h1, h2⟩) | ⟨h1, h2⟩) | h)
      · exact Or.inl h
      · exact Or.inr (Or.inl ⟨h1, Or.inl h2⟩)
      · exact Or.inr (Or.inl ⟨h1, Or.inr h2⟩)
      · exact Or.inr (Or.inr h)
    · rintro (h | ⟨h1, h2 | h2⟩ | h)
      · exact Or.inl (Or.inl (Or.inl h))
      · exact Or.inl (Or.inl (Or.inr ⟨h1, h2⟩))
      · exact Or.inl (Or.inr ⟨h1, h2⟩)
      · exact Or.inr h

/-- C18, access-list tracer, as a specification: after construction from `prior` and any run, a slot is listed iff it is a
    key of the prior list or was touched by SLOAD/SSTORE in that contract -/
theorem acl_spec_slots (excl : List Addr) (prior : AList) (evs : List Ev) (a : Addr) (s : Slot) :
    HasSlot (run (init excl prior) evs).list a s ↔
      (∃ t ∈ prior, t.1 = a ∧ s ∈ t.2) ∨ ∃ e ∈ evs, e.slotTouch = some (a, s) := by
  rw [acl_run_slots, acl_init_slots]

/-- … and an account is listed iff it is in the prior list un-excluded or with a key, owns a touched slot, or is named by
    an account-access or call instruction and not excluded -/
theorem acl_spec_addrs (excl : List Addr) (prior : AList) (evs : List Ev) (b : Addr) :
    HasAddr (run (init excl prior) evs).list b ↔
      (∃ t ∈ prior, t.1 = b ∧ (excl.contains b = false ∨ t.2 ≠ [])) ∨
      (∃ e ∈ evs, ∃ s, e.slotTouch = some (b, s)) ∨
      ((∃ e ∈ evs, b ∈ e.addrTouch) ∧ excl.contains b = false) := by
  rw [acl_run_addrs, acl_init_addrs]
  rfl

end Artela.Acl
