import Artela.Model.Interp
import Artela.Props.InterpGas
namespace Artela
namespace Interp
variable {World : Type}

/-- a row pays for a continuing step: a constant fee of at least 1, or the instruction always halts, or its
    dynamic-gas function has a positive floor (EXP: 10; journal instructions: the flat fee) -/
def paysRow (row : Row) (i : Instr) : Bool :=
  decide (1 ≤ row.cgas) ||
  (match i with
   | .stop | .ret | .revert => true
   | .exp => row.dyn == "gasExpFrontier" || row.dyn == "gasExpEIP158"
   | .journal _ => row.dyn == "makeGasJournal"
   | _ => false)

def TablePays (env : IEnv World) : Prop :=
  ∀ op row i, env.table op = some row → decode row.exec op = some i → paysRow row i = true

theorem exec_next_gas {env : IEnv World} {i : Instr} {s s' : IState World} (h : exec env i s = .next s') :
    s'.gas = s.gas := by
  cases i <;> simp only [exec, IState.cont, stackPanic] at h <;> (repeat' split at h) <;> simp_all <;>
    (try (subst h; rfl)) <;> (try (cases h; rfl))

theorem exec_halting_never_next {env : IEnv World} {i : Instr} {s s' : IState World}
    (hi : i = .stop ∨ i = .ret ∨ i = .revert) : exec env i s ≠ .next s' := by
  rcases hi with h | h | h <;> subst h <;> simp only [exec, stackPanic] <;> (repeat' split) <;> simp

/-- what `dynPart` leaves: the state itself (no dynamic-gas function) or the state after paying the dynamic cost -/
theorem dynPart_next {op : Nat} {row : Row} {s s1 : IState World} (h : dynPart op row s = .next s1) :
    (row.dyn = "-" ∧ s1 = s) ∨
    (row.dyn ≠ "-" ∧ ∃ m c l, dynGasOf row.dyn s.stack s.mem.length s.last m = .cost c l ∧ c ≤ s.gas ∧ s1.gas = s.gas - c) := by
  unfold dynPart at h
  split at h
  · rename_i hd; left; exact ⟨hd, by cases h; rfl⟩
  · rename_i hd
    right
    refine ⟨hd, ?_⟩
    split at h
    · cases h
    · cases h
    · rename_i m _
      unfold gasPart at h
      split at h
      · cases h
      · cases h
      · cases h
      · rename_i c l hc
        split at h
        · cases h
        · rename_i hg
          refine ⟨m, c, l, hc, by omega, ?_⟩
          cases h; rfl

theorem dynGas_exp_floor {name : String} {st : List Word} {a b m c l : Nat}
    (hn : name = "gasExpFrontier" ∨ name = "gasExpEIP158") (h : dynGasOf name st a b m = .cost c l) : 10 ≤ c := by
  rcases hn with hn | hn <;> subst hn <;> simp [dynGasOf] at h <;> (split at h) <;> simp_all <;> omega

theorem dynGas_journal_floor {st : List Word} {a b m c l : Nat}
    (h : dynGasOf "makeGasJournal" st a b m = .cost c l) : c = journalFee := by
  simp [dynGasOf] at h; exact h.1.symm

/-- every continuing step of the loop costs at least one unit of gas -/
theorem step_progress {env : IEnv World} (hp : TablePays env) {s s' : IState World} (h : step env s = .next s') :
    s'.gas < s.gas := by
  obtain ⟨row, i, s1, hr, hd, _, _, h3, hs1, h⟩ := step_next_inv h
  have hpay := hp _ _ _ hr hd
  have hg := exec_next_gas h
  have hdp := dynPart_next hs1
  simp only [paysRow, Bool.or_eq_true, decide_eq_true_eq] at hpay
  rcases hpay with hc | hi
  · -- constant fee ≥ 1
    rcases hdp with ⟨_, he⟩ | ⟨_, m, c, l, _, hle, he⟩
    · subst he; simp at hg; omega
    · simp at he hle; omega
  · -- halting instruction, or a dynamic floor
    cases i <;> simp at hi
    case stop => exact absurd h (exec_halting_never_next (Or.inl rfl))
    case ret => exact absurd h (exec_halting_never_next (Or.inr (Or.inl rfl)))
    case revert => exact absurd h (exec_halting_never_next (Or.inr (Or.inr rfl)))
    case exp =>
      rcases hdp with ⟨hdash, _⟩ | ⟨_, m, c, l, hcost, hle, he⟩
      · rcases hi with hi | hi <;> rw [hdash] at hi <;> simp at hi
      · have := dynGas_exp_floor hi hcost
        simp at he hle; omega
    case journal j =>
      rcases hdp with ⟨hdash, _⟩ | ⟨_, m, c, l, hcost, hle, he⟩
      · rw [hdash] at hi; simp at hi
      · rw [hi] at hcost
        have := dynGas_journal_floor hcost
        simp [journalFee] at this he hle; omega

/-- C20 at the loop level: a frame of the modelled subset halts within `gas + 1` instructions — the work of a frame
    is bounded by the gas it was given, for every program, input and table that pays (all extracted tables do) -/
theorem run_halts_within_gas {env : IEnv World} (hp : TablePays env) (n : Nat) (s : IState World) (hn : s.gas < n) :
    ∀ s', run env n s ≠ .next s' := by
  induction n generalizing s with
  | zero => omega
  | succ n ih =>
    intro s' hrun
    unfold run at hrun
    split at hrun
    · rename_i s1 hs1
      have := step_progress hp hs1
      exact ih s1 (by omega) s' hrun
    · rename_i o hne
      exact hne s' hrun

end Interp
end Artela
