import Artela.Model.Journal
import Artela.Proofs.GenFacts
/-
  C12 — journal instructions are invisible to execution and cost a constant fee.

  `Journal.step` is one interpreter step on a journal opcode.  What a contract can observe is the machine
  state minus the tracer.  That the real interpreter performs exactly this step (pops = arity, memory size
  unchanged, pc+1, cost 800, return-data buffer untouched, same in static frames, on every fork) is the
  correspondence (`S jeffect` lines + the regenerated table rows `journal_rows_*`, `fee_bodies`).
-/
namespace Artela

/-- With well-formed operands the successor state is the old state with the operands popped, `pc+1`, the fee
    deducted and the tracer updated — and every other component equal (memory not even expanded, world,
    return-data buffer and static flag untouched). -/
theorem c12_effect_is_pops {World : Type} (op : JOp) (mkEnv : World → Bytes → JEnv) (m m' : JMachine World)
    (h : Journal.step op mkEnv m = .ok m') :
    m'.stack = m.stack.drop op.arity ∧ m'.mem = m.mem ∧ m'.pc = m.pc + 1 ∧ m'.gas + journalFee = m.gas ∧
    m'.rdata = m.rdata ∧ m'.readOnly = m.readOnly ∧ m'.world = m.world := by
  unfold Journal.step at h
  split at h
  · cases h
  · split at h
    · cases h
    · rename_i hg
      split at h
      · injection h with h
        subst h
        refine ⟨rfl, rfl, rfl, ?_, rfl, rfl, rfl⟩
        simp only
        omega
      · cases h
      · cases h

/-- The fee is the same non-zero constant for all eight instructions, all operands and all states. -/
theorem c12_fee_constant {World : Type} (op : JOp) (mkEnv : World → Bytes → JEnv) (m m' : JMachine World)
    (h : Journal.step op mkEnv m = .ok m') : m.gas - m'.gas = 800 ∧ (800 : Nat) ≠ 0 := by
  have := (c12_effect_is_pops op mkEnv m m' h).2.2.2.1
  unfold journalFee at this
  omega

/-- Static and non-static frames behave alike: the step never consults the read-only flag. -/
theorem c12_static_same {World : Type} (op : JOp) (mkEnv : World → Bytes → JEnv) (m : JMachine World) (b : Bool) :
    (Journal.step op mkEnv { m with readOnly := b }) =
      (match Journal.step op mkEnv m with
       | .ok m' => .ok { m' with readOnly := b }
       | .err e => .err e
       | .panic p => .panic p) := by
  unfold Journal.step
  simp only
  split
  · rfl
  · split
    · rfl
    · split <;> rfl

/-- With malformed operands (the opcode returns an error) the step is an exceptional halt: no successor state. -/
theorem c12_malformed_halts {World : Type} (op : JOp) (mkEnv : World → Bytes → JEnv) (m : JMachine World) (e : String)
    (hs : op.arity ≤ m.stack.length) (hg : journalFee ≤ m.gas)
    (h : (Journal.exec op (m.stack.take op.arity) (mkEnv m.world m.mem) m.tr).1 = .err e) :
    Journal.step op mkEnv m = .err e := by
  unfold Journal.step
  rw [if_neg (by omega), if_neg (by omega), h]

/-- The instructions exist with the same table entry on every fork Frontier … Cancun and under every extra-EIP
    set: regenerated from the running code and closed by `decide +kernel` (see Proofs/GenFacts.lean). -/
theorem c12_all_forks :
    Gen.forkFrontier.filter isJournalOp = journalRows ∧ Gen.forkHomestead.filter isJournalOp = journalRows ∧
    Gen.forkByzantium.filter isJournalOp = journalRows ∧ Gen.forkIstanbul.filter isJournalOp = journalRows ∧
    Gen.forkBerlin.filter isJournalOp = journalRows ∧ Gen.forkLondon.filter isJournalOp = journalRows ∧
    Gen.forkShanghai.filter isJournalOp = journalRows ∧ Gen.forkCancun.filter isJournalOp = journalRows :=
  ⟨journal_rows_Frontier, journal_rows_Homestead, journal_rows_Byzantium, journal_rows_Istanbul,
   journal_rows_Berlin, journal_rows_London, journal_rows_Shanghai, journal_rows_Cancun⟩

/-- non-vacuity: a value journal on a registered key succeeds and pops four operands -/
example :
    let tr0 : Tracer := ((Tracer.empty.saveStateKey 0xc1 none 5 (some 0) 7 0 [0x76]).1)
    let m : JMachine Unit := { stack := [5, 0, 32, 7, 99], mem := [], pc := 10, gas := 1000, rdata := [1], readOnly := true, world := (), tr := tr0 }
    (match Journal.step .vv (fun _ mem => { contract := 0xc1, mem := mem, memCap := mem.length, storage := fun _ => 42, keccak := fun _ => 0 }) m with
     | .ok m' => m'.stack == [99] && m'.pc == 11 && m'.gas == 200
     | _ => false) = true := by decide

end Artela
