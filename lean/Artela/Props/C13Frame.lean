import Artela.Proofs.FrameLocal
/-
  C13 (frame part) — `EVM.Call` and `create` bracket exactly the transfers they make, and nothing else touches the
  balance journal.

  The balance journal lives in `tracer.states`.  Over the frame machine (every event sequence = every program, host
  answer and join-point outcome): the prologue of `Call` files one `TransferWithRecord` — under the index of the node it
  has just pushed for this very call — iff the call gets past the depth check, the balance check and the
  "non-existing account, no value" shortcut; `create` does so iff it gets past depth, balance, nonce and collision
  checks; `CallCode`/`DelegateCall`/`StaticCall`, every epilogue, and every world effect of the program leave the
  journal untouched (journal instructions touch only storage records: C10).
-/
namespace Artela
open Frame

@[simp] theorem finish_states (st : FState) (k : CallKind) (c t : Addr) (gs : Nat) (tn dbg top : Bool) (sg : Nat)
    (r : Option Bytes) (g : Nat) (e : Option String) (w en sn : List Effect) (ran : Bool) :
    (finish st k c t gs tn dbg top sg r g e w en sn ran).tracer.states = st.tracer.states := by
  unfold finish; cases tn <;> rfl

@[simp] theorem finish_tracer_noNode (st : FState) (k : CallKind) (c t : Addr) (gs : Nat) (dbg top : Bool) (sg : Nat)
    (r : Option Bytes) (g : Nat) (e : Option String) (w en sn : List Effect) (ran : Bool) :
    (finish st k c t gs false dbg top sg r g e w en sn ran).tracer = st.tracer := rfl

/-- `EVM.Call` reaches its `TransferWithRecord` -/
def callTransfers (depth value : Nat) (f : EnterFacts) : Prop :=
  ¬ depth > 1024 ∧ ¬ (value ≠ 0 ∧ ¬ f.canTransfer) ∧ ¬ (¬ f.exists_ ∧ f.precompile.isNone ∧ f.eip158 ∧ value = 0)

instance (depth value : Nat) (f : EnterFacts) : Decidable (callTransfers depth value f) := by unfold callTransfers; infer_instance

/-- `create` reaches its `TransferWithRecord` -/
def createTransfers (depth : Nat) (f : EnterFacts) : Prop :=
  ¬ depth > 1024 ∧ f.canTransfer ∧ ¬ f.nonceOverflow ∧ ¬ f.collision

instance (depth : Nat) (f : EnterFacts) : Decidable (createTransfers depth f) := by unfold createTransfers; infer_instance

/-- exactly one bracket per `Call` that transfers (also when the callee is a precompile, has no code, or its pre join
    point fails afterwards), none otherwise; it carries the four balances read around the host's `Transfer` -/
theorem c13_call_records_once (st : FState) (caller to : Addr) (value : Nat) (input : Bytes) (gas : Nat) (f : EnterFacts) :
    (enterCall st caller to value input gas f).tracer.states =
      if callTransfers st.stack.length value f
      then ((st.tracer.saveCall caller (some to) input value gas).transferRecord caller to f.balFrom f.balTo f.balFromAfter f.balToAfter).states
      else st.tracer.states := by
  by_cases hc : callTransfers st.stack.length value f
  · rw [if_pos hc]
    obtain ⟨h1, h2, h3⟩ := hc
    unfold enterCall
    simp only
    rw [if_neg h1, if_neg h2, if_neg h3]
    split
    · simp
    · split
      · simp
      · split
        · split <;> simp
        · simp
  · rw [if_neg hc]
    unfold enterCall
    simp only
    split
    · simp [Tracer.saveCall]
    · rename_i h1
      split
      · simp [Tracer.saveCall]
      · rename_i h2
        split
        · simp [Tracer.saveCall]
        · rename_i h3
          exact absurd ⟨h1, h2, h3⟩ hc

/-- the bracket is filed under the call-tree index of the node pushed for this very call -/
theorem c13_call_record_index (t : Tracer) (caller to : Addr) (value : Nat) (input : Bytes) (gas : Nat) (bf bt af at_ : Nat) :
    ((t.saveCall caller (some to) input value gas).transferRecord caller to bf bt af at_).states =
      ((((t.states.saveBalance caller bf t.tree.count).saveBalance to bt t.tree.count).saveBalance caller af t.tree.count).saveBalance to at_ t.tree.count) := rfl

theorem c13_create_records_once (st : FState) (kind : CallKind) (caller to : Addr) (value : Nat) (input : Bytes) (gas : Nat) (f : EnterFacts) :
    (enterCreate st kind caller to value input gas f).tracer.states =
      if createTransfers st.stack.length f
      then ((st.tracer.saveCall caller none input value gas).transferRecord caller to f.balFrom f.balTo f.balFromAfter f.balToAfter).states
      else st.tracer.states := by
  by_cases hc : createTransfers st.stack.length f
  · rw [if_pos hc]
    obtain ⟨h1, h2, h3, h4⟩ := hc
    unfold enterCreate
    simp only
    have h2' : ¬ ¬ f.canTransfer = true := fun h => h h2
    rw [if_neg h1, if_neg h2', if_neg h3, if_neg h4]
  · rw [if_neg hc]
    unfold enterCreate
    simp only
    split
    · simp [Tracer.saveCall]
    · rename_i h1
      split
      · simp [Tracer.saveCall]
      · rename_i h2
        split
        · simp [Tracer.saveCall]
        · rename_i h3
          split
          · simp [Tracer.saveCall]
          · rename_i h4
            exact absurd ⟨h1, by simpa using h2, h3, h4⟩ hc

/-- `CallCode`, `DelegateCall`, `StaticCall` never touch the tracer -/
theorem c13_other_kinds_silent (st : FState) (kind : CallKind) (caller to : Addr) (value : Nat) (input : Bytes) (gas : Nat) (f : EnterFacts) :
    (enterOther st kind caller to value input gas f).tracer = st.tracer := by
  unfold enterOther
  simp only
  split
  · simp
  · split
    · simp
    · split
      · simp
      · split <;> simp

/-- no epilogue touches the balance journal -/
theorem c13_halt_silent (st : FState) (fr : OpenFrame) (rest : List OpenFrame) (ret : Option Bytes) (err : Option String)
    (gasLeft : Nat) (post : JPResult) : (haltFrame st fr rest ret err gasLeft post).tracer.states = st.tracer.states := by
  unfold haltFrame
  split
  · split <;> simp
  all_goals simp

/-- world effects of the program (SSTORE, LOG, SELFDESTRUCT, …) never touch the tracer -/
theorem c13_effect_silent (st : FState) (id : Nat) : (step st (.effect id)).tracer = st.tracer := by
  simp only [step]; split <;> rfl

/-- non-vacuity: a value call that is refused for balance files nothing; one that goes through files the bracket -/
example : (enterCall {} 0xca 0xc0 5 [] 1000 { canTransfer := false }).tracer.states = ({} : StateChanges) ∧
    (enterCall {} 0xca 0xc0 5 [] 1000 { balFrom := 9, balTo := 1, balFromAfter := 4, balToAfter := 6 }).tracer.states.balance 0xca =
      some (some [(0, [[9], [4]])]) := by decide +kernel

end Artela
