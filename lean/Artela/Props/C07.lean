import Artela.Proofs.CallTreeWF
import Artela.Proofs.CallTreeBalanced
/-
  C07 — the call tree is a well-formed tree after every execution.

  Property theorems only; helper lemmas live in `Artela/Proofs/CallTree*.lean`.
  The statement quantifies over *every* finite history of `SaveCall`/`ExitCall` (balanced or not),
  hence over every execution of the frame layer, which performs nothing else on the call tree
  (`c07_exec_emits_balanced` in `Props/Frame.lean` ties the frame layer to `Balanced`).
-/
namespace Artela
open CallTree

/-- C07, invariant: after any finite sequence of tracer operations from a fresh tracer the call tree is
    well formed: dense indices in order of entry, lookup by index returns the node with that index,
    every non-top-level node has one parent of smaller index listing it once in increasing order. -/
theorem c07_wf_any_history (ops : List Op) : WF (CallTree.empty.run ops) :=
  run_wf wf_empty ops

/-- C07, same statement from any well-formed starting point (repeated top-level invocations on one EVM). -/
theorem c07_wf_preserved (t : CallTree) (h : WF t) (ops : List Op) : WF (t.run ops) :=
  run_wf h ops

/-- C07: indices are dense `0..n-1`, assigned in order of entry. -/
theorem c07_dense_indices (ops : List Op) (i : Nat) (n : CallNode)
    (h : (CallTree.empty.run ops).findCall i = some n) : n.index = i ∧ i < (CallTree.empty.run ops).count := by
  have wf := c07_wf_any_history ops
  refine ⟨wf.index_eq i n h, ?_⟩
  rw [wf.count_eq]
  exact (List.getElem?_eq_some_iff.mp h).1

/-- C07: a node has at most one parent, that parent has a smaller index, and lists the node exactly once. -/
theorem c07_unique_parent (ops : List Op) (c p : Nat) (pn : CallNode)
    (hp : (CallTree.empty.run ops).findCall p = some pn) (hc : c ∈ pn.children) :
    (CallTree.empty.run ops).parentOf c = some p ∧ p < c ∧ pn.children.count c = 1 := by
  have wf := c07_wf_any_history ops
  obtain ⟨cn, hcn, hpar⟩ := wf.child_parent p pn c hp hc
  refine ⟨by simp [parentOf, hcn, hpar], wf.parent_lt c cn p hcn hpar, ?_⟩
  have hs := wf.children_sorted p pn hp
  have hnd : pn.children.Nodup := hs.imp (fun h => Nat.ne_of_lt h)
  rw [hnd.count, if_pos hc]

/-- C07: no call is left open — a balanced sequence (what one top-level frame emits) returns the cursor
    to its previous value; from rest (`none`) it is `none` again. -/
theorem c07_closed_after_balanced (t : CallTree) (h : WF t) (ops : List Op) (hb : Balanced ops) :
    (t.run ops).current = t.current :=
  balanced_current hb h

theorem c07_closed_from_rest (ops : List Op) (hb : Balanced ops) :
    (CallTree.empty.run ops).current = none :=
  balanced_current hb wf_empty

/-- C07, repeated top-level invocations on one EVM: after two balanced runs the tree is well formed,
    closed, and the second top-level node has no parent. -/
theorem c07_second_toplevel (a : List Op) (ha : Balanced a) (f : Addr) (to : Option Addr) (d : Bytes) (v g : Nat) :
    let t := CallTree.empty.run a
    ((t.add f to d v g).findCall t.count).map (·.parent) = some none := by
  intro t
  have hcur : t.current = none := c07_closed_from_rest a ha
  have wf : WF t := c07_wf_any_history a
  simp only [findCall]
  rw [add_nodes, wf.count_eq]
  simp [mkNode, hcur]

/-- non-vacuity: a concrete unbalanced history with nesting satisfies the hypotheses and the invariant is
    about a non-trivial tree (3 nodes, one left open). -/
example :
    let t := CallTree.empty.run [Op.add 1 (some 2) [] 0 10, Op.add 2 none [1] 5 7, Op.exit 3 none (some "x"),
                                 Op.add 2 (some 3) [] 0 1]
    t.nodes.length = 3 ∧ t.current = some 2 ∧ t.parentOf 2 = some 0 ∧ t.childrenOf 0 = some [1, 2] := by
  decide

example : Balanced [Op.add 1 (some 2) [] 0 10, Op.add 2 none [] 0 1, Op.exit 0 none none, Op.exit 0 none none] :=
  Balanced.node 1 (some 2) [] 0 10 0 none none [Op.add 2 none [] 0 1, Op.exit 0 none none]
    (Balanced.node 2 none [] 0 1 0 none none [] Balanced.nil)

end Artela
