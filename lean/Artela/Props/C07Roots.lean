import Artela.Props.C07Frame
/-
  C07 (roots) — a node has no parent exactly when it was pushed while no CALL/CREATE frame was in progress, i.e. it is a
  top-level invocation by the host; every other node is listed under the frame that issued it.

  Counting form, for every event sequence: the number of parentless nodes of the recorded tree equals the number of
  `Call`/`create` invocations made while no CALL/CREATE frame was open.
-/
namespace Artela
open Frame CallTree

def roots (t : CallTree) : Nat := (t.nodes.filter (fun n => n.parent.isNone)).length

theorem filter_modify_length {α} (p : α → Bool) (g : α → α) (h : ∀ x, p (g x) = p x) :
    ∀ (l : List α) (i : Nat), ((l.modify i g).filter p).length = (l.filter p).length := by
  intro l
  induction l with
  | nil => intro i; simp
  | cons x xs ih =>
    intro i
    cases i with
    | zero =>
      simp only [List.modify_zero_cons, List.filter_cons, h]
      split <;> simp
    | succ k =>
      simp only [List.modify_succ_cons, List.filter_cons]
      split <;> simp [ih k]

theorem roots_add (t : CallTree) (f : Addr) (to : Option Addr) (d : Bytes) (v g : Nat) :
    roots (t.add f to d v g) = roots t + (if t.current.isNone then 1 else 0) := by
  unfold roots CallTree.add
  simp only [List.filter_append, List.length_append]
  cases hc : t.current with
  | none => simp [mkNode]
  | some p =>
    simp only [mkNode, Option.isNone_some, Bool.false_eq_true, if_false, List.filter_cons, List.filter_nil, List.length_nil, Nat.add_zero]
    exact filter_modify_length (fun n => n.parent.isNone) (pushChild t.count) (fun x => rfl) t.nodes p

theorem roots_exit (t : CallTree) (l : Nat) (r : Option Bytes) (e : Option String) : roots (t.exit l r e) = roots t := by
  unfold CallTree.exit
  split
  · rfl
  · split
    · rfl
    · unfold roots; exact filter_modify_length (fun n => n.parent.isNone) (setResult l r e) (fun x => rfl) t.nodes _

/-- invocations of `Call` / `create` made while no CALL/CREATE frame is in progress -/
def topLevelEnters : FState → List FEvent → Nat
  | _, [] => 0
  | st, ev :: rest =>
    (match ev with
     | .enter k _ _ _ _ _ _ => if (k = .call ∨ k.isCreate) ∧ cursorOf st.stack none = none then 1 else 0
     | _ => 0) + topLevelEnters (Frame.step st ev) rest

@[simp] theorem finish_roots (st : FState) (k : CallKind) (c t : Addr) (gs : Nat) (tn dbg top : Bool) (sg : Nat)
    (r : Option Bytes) (g : Nat) (e : Option String) (w en sn : List Effect) (ran : Bool) :
    roots (finish st k c t gs tn dbg top sg r g e w en sn ran).tracer.tree = roots st.tracer.tree := by
  unfold finish; cases tn
  · rfl
  · simp [Tracer.exitCall, roots_exit]

theorem enterCall_roots (st : FState) (caller to : Addr) (value : Nat) (input : Bytes) (gas : Nat) (f : EnterFacts) :
    roots (enterCall st caller to value input gas f).tracer.tree = roots st.tracer.tree + (if st.tracer.tree.current.isNone then 1 else 0) := by
  rw [← roots_add st.tracer.tree caller (some to) input value gas]
  unfold enterCall
  simp only
  split
  · simp [Tracer.saveCall]
  · split
    · simp [Tracer.saveCall]
    · split
      · simp [Tracer.saveCall]
      · split
        · simp [Tracer.saveCall, Tracer.transferRecord]
        · split
          · simp [Tracer.saveCall, Tracer.transferRecord]
          · split
            · split
              · simp [Tracer.saveCall, Tracer.transferRecord]
              · simp [Tracer.saveCall, Tracer.transferRecord]
            · simp [Tracer.saveCall, Tracer.transferRecord]

theorem enterCreate_roots (st : FState) (kind : CallKind) (caller to : Addr) (value : Nat) (input : Bytes) (gas : Nat) (f : EnterFacts) :
    roots (enterCreate st kind caller to value input gas f).tracer.tree = roots st.tracer.tree + (if st.tracer.tree.current.isNone then 1 else 0) := by
  rw [← roots_add st.tracer.tree caller none input value gas]
  unfold enterCreate
  simp only
  split
  · simp [Tracer.saveCall]
  · split
    · simp [Tracer.saveCall]
    · split
      · simp [Tracer.saveCall]
      · split
        · simp [Tracer.saveCall]
        · simp [Tracer.saveCall, Tracer.transferRecord]

theorem enterOther_roots (st : FState) (kind : CallKind) (caller to : Addr) (value : Nat) (input : Bytes) (gas : Nat) (f : EnterFacts) :
    roots (enterOther st kind caller to value input gas f).tracer.tree = roots st.tracer.tree := by
  unfold enterOther
  simp only
  split
  · simp
  · split
    · simp
    · split
      · simp
      · split <;> simp

theorem haltFrame_roots (st : FState) (fr : OpenFrame) (rest : List OpenFrame) (ret : Option Bytes) (err : Option String)
    (gasLeft : Nat) (post : JPResult) : roots (haltFrame st fr rest ret err gasLeft post).tracer.tree = roots st.tracer.tree := by
  unfold haltFrame
  split
  · split <;> simp
  all_goals simp

theorem step_roots (st : FState) (ev : FEvent) (h : st.tracer.tree.current = cursorOf st.stack none) :
    roots (Frame.step st ev).tracer.tree = roots st.tracer.tree + topLevelEnters st [ev] := by
  cases ev with
  | enter kind caller to value input gas f =>
    have hn : (st.tracer.tree.current.isNone = true) ↔ cursorOf st.stack none = none := by rw [h]; simp
    cases kind <;> simp only [Frame.step, topLevelEnters, Nat.add_zero]
    · rw [enterCall_roots]; congr 1; by_cases c : cursorOf st.stack none = none <;> simp [hn, c]
    · rw [enterOther_roots]; simp [CallKind.isCreate]
    · rw [enterOther_roots]; simp [CallKind.isCreate]
    · rw [enterOther_roots]; simp [CallKind.isCreate]
    · rw [enterCreate_roots]; congr 1; by_cases c : cursorOf st.stack none = none <;> simp [hn, c, CallKind.isCreate]
    · rw [enterCreate_roots]; congr 1; by_cases c : cursorOf st.stack none = none <;> simp [hn, c, CallKind.isCreate]
  | effect id => simp only [Frame.step, topLevelEnters]; split <;> simp
  | jkey parent slot off ty pty name =>
    simp only [Frame.step, topLevelEnters]; split <;> simp [Tracer.saveStateKey]
  | jchange slot off ty v =>
    simp only [Frame.step, topLevelEnters]; split <;> simp [Tracer.saveStateChange]
  | halt ret err gasLeft post =>
    simp only [Frame.step, topLevelEnters]
    split
    · simp
    · simp [haltFrame_roots]

/-- **every event sequence**: the parentless nodes of the recorded tree are exactly the top-level invocations -/
theorem c07_roots_are_top_level (evs : List FEvent) : roots (Frame.run {} evs).tracer.tree = topLevelEnters {} evs := by
  have gen : ∀ (st : FState), FullInv none st → roots (Frame.run st evs).tracer.tree = roots st.tracer.tree + topLevelEnters st evs := by
    induction evs with
    | nil => intro st _; simp [Frame.run, topLevelEnters]
    | cons e es ih =>
      intro st h
      have h1 := step_roots st e h.1.2.1
      have h2 := ih (Frame.step st e) (step_tree none st e h)
      simp only [Frame.run, List.foldl_cons] at h2 ⊢
      rw [h2, h1]
      simp only [topLevelEnters]
      omega
  have := gen {} fullInv_init
  simpa [roots] using this

/-- non-vacuity: two top-level calls, the first making a nested call and a refused create → two roots among four nodes -/
example :
    let evs : List FEvent := [ .enter .call 0xca 0xc0 0 [] 1000 {}, .enter .call 0xc0 0xc1 0 [] 500 {}, .halt none none 100 ⟨none, 0, none⟩,
                               .enter .create 0xc0 0xdd 0 [0] 500 { collision := true }, .halt none none 100 ⟨none, 0, none⟩,
                               .enter .call 0xca 0xc0 0 [] 1000 {}, .halt none none 7 ⟨none, 0, none⟩ ]
    roots (Frame.run {} evs).tracer.tree = 2 ∧ (Frame.run {} evs).tracer.tree.count = 4 ∧ topLevelEnters {} evs = 2 := by decide +kernel

end Artela
