import Artela.Proofs.FrameLocal
import Artela.Proofs.GenFacts
/-
  C01 / C02 — execution and gas match go-ethereum v1.12.0 for every standard program (the part carried by proof).

  The fork differs from upstream in an enumerable delta (`Spec/Delta.lean`, checked against the regenerated identity
  table by `delta_is_modelled`).  Everything else is the same source text (modulo the `ctx` parameter) and is tied by
  differential execution.  What is PROVED here is that the delta inside the frame functions is invisible for
  standard programs:

  * the frame machine never reads the Artela tracer: two states that differ only in the tracer (and the join-point
    log) make the same steps on everything else — world, debug callbacks, results handed back, interpreter starts;
  * a join point with nothing bound (`djpm` returns `(nil, gas, nil)`) leaves gas, return data, error and world
    exactly as with join points switched off.

  The instruction tables agree outside 0xe0–0xe7 on every fork (`tables_agree_*`), the precompile sets agree outside
  0x64–0x66 (`precompiles_*`), both regenerated from the running code on every run.
-/
namespace Artela
open Frame

/-- what go-ethereum v1.12.0 would also compute: everything except the Artela tracer and the join-point log -/
structure Core where
  world : List Effect
  events : List DebugEvent
  results : List (CallKind × Addr × Option Bytes × Nat × Option String × List Effect)
  started : List (Addr × Nat)
  depth : Nat

def core (st : FState) : Core :=
  { world := st.world, events := st.events,
    results := st.results.map (fun r => (r.kind, r.to, r.ret, r.gas, r.err, r.worldAfter)),
    started := st.started, depth := st.stack.length }

/-- a join point with nothing bound returns `(nil, gas, nil)`: the post join point then changes nothing -/
theorem c01_unbound_post_invisible (ret : Option Bytes) (err : Option String) (gasLeft : Nat) :
    postJoinPoint ret err ⟨none, gasLeft, none⟩ = (ret, err, gasLeft) := rfl

/-- …and so the result a contract call hands back, its gas included (C02), is the same with join points on and
    nothing bound as with join points off -/
theorem c01_unbound_joinpoints_same_result (st : FState) (fr : OpenFrame) (rest : List OpenFrame) (ret : Option Bytes)
    (err : Option String) (gasLeft : Nat) (hk : fr.kind = .call) :
    core (haltFrame st { fr with jpFired := true } rest ret err gasLeft ⟨none, gasLeft, none⟩) =
    core (haltFrame st { fr with jpFired := false } rest ret err gasLeft ⟨none, 0, none⟩) := by
  unfold haltFrame
  simp only [hk]
  simp [core, finish, postJoinPoint]

/-- the pre join point with nothing bound hands the callee exactly the supplied gas -/
theorem c01_unbound_pre_same_start (st : FState) (caller to : Addr) (value : Nat) (input : Bytes) (gas : Nat) (f : EnterFacts) :
    core (enterCall st caller to value input gas { f with jpEnabled := true, pre := ⟨none, gas, none⟩ }) =
    core (enterCall st caller to value input gas { f with jpEnabled := false }) := by
  unfold enterCall
  simp only
  split
  · rfl
  · split
    · rfl
    · split
      · rfl
      · split
        · rfl
        · split
          · rfl
          · simp [core]

/-- the frame functions never read the Artela tracer or the join-point log: replacing them changes nothing else -/
theorem c01_tracer_invisible_call (st : FState) (t' : Tracer) (j' : List JPRecord) (caller to : Addr) (value : Nat) (input : Bytes)
    (gas : Nat) (f : EnterFacts) :
    core (enterCall { st with tracer := t', jps := j' } caller to value input gas f) = core (enterCall st caller to value input gas f) := by
  unfold enterCall
  simp only
  split
  · rfl
  · split
    · rfl
    · split
      · rfl
      · split
        · rfl
        · split
          · rfl
          · split
            · split <;> rfl
            · rfl

theorem c01_tracer_invisible_halt (st : FState) (t' : Tracer) (j' : List JPRecord) (fr : OpenFrame) (rest : List OpenFrame)
    (ret : Option Bytes) (err : Option String) (gasLeft : Nat) (post : JPResult) :
    core (haltFrame { st with tracer := t', jps := j' } fr rest ret err gasLeft post) = core (haltFrame st fr rest ret err gasLeft post) := by
  unfold haltFrame
  cases fr.kind <;> simp only
  · split <;> rfl
  all_goals rfl

/-- C01/C02, table part: on every fork up to Shanghai each instruction table equals upstream's outside the journal
    opcodes (same execute / dynamic-gas / memory-size functions by name, same constant gas, same stack bounds), and
    the precompile sets agree outside the three Artela addresses — regenerated from the running code. -/
theorem c01_tables_and_precompiles_agree :
    Gen.forkFrontier.filter notJournal = Gen.upFrontier ∧ Gen.forkHomestead.filter notJournal = Gen.upHomestead ∧
    Gen.forkTangerineWhistle.filter notJournal = Gen.upTangerineWhistle ∧ Gen.forkSpuriousDragon.filter notJournal = Gen.upSpuriousDragon ∧
    Gen.forkByzantium.filter notJournal = Gen.upByzantium ∧ Gen.forkConstantinople.filter notJournal = Gen.upConstantinople ∧
    Gen.forkPetersburg.filter notJournal = Gen.upPetersburg ∧ Gen.forkIstanbul.filter notJournal = Gen.upIstanbul ∧
    Gen.forkBerlin.filter notJournal = Gen.upBerlin ∧ Gen.forkLondon.filter notJournal = Gen.upLondon ∧
    Gen.forkMerge.filter notJournal = Gen.upMerge ∧ Gen.forkShanghai.filter notJournal = Gen.upShanghai ∧
    Gen.forkPrecompilesBerlin.filter (fun s => !isArtelaPrecompile s) = Gen.upPrecompilesBerlin :=
  ⟨tables_agree_Frontier, tables_agree_Homestead, tables_agree_TangerineWhistle, tables_agree_SpuriousDragon, tables_agree_Byzantium,
   tables_agree_Constantinople, tables_agree_Petersburg, tables_agree_Istanbul, tables_agree_Berlin, tables_agree_London, tables_agree_Merge,
   tables_agree_Shanghai, precompiles_berlin_delta.1⟩

/-- every declaration of vm, core/evm.go and tracers/** that is not identical to go-ethereum v1.12.0 is in the
    hand-modelled delta -/
theorem c01_delta_is_modelled : Gen.declDelta.all (fun r => expectedDelta.contains r) = true := delta_is_modelled

end Artela
