import Artela.Model.Interp
import Artela.Props.InterpGas
namespace Artela
namespace Interp
variable {World : Type}

/-- with the abort flag set no instruction moves the program counter backwards or keeps it in place -/
theorem exec_abort_pc {env : IEnv World} (ha : env.abort = true) {i : Instr} {s s' : IState World}
    (h : exec env i s = .next s') : s.pc < s'.pc := by
  cases i <;> simp only [exec, IState.cont, stackPanic, ha] at h <;> (repeat' split at h) <;> simp_all <;>
    (try (subst h; simp)) <;> (try (cases h; simp)) <;> (try omega)

theorem dynPart_pc {op : Nat} {row : Row} {s s1 : IState World} (h : dynPart op row s = .next s1) : s1.pc = s.pc := by
  unfold dynPart at h
  split at h
  · cases h; rfl
  · split at h
    · cases h
    · cases h
    · unfold gasPart at h
      (repeat' split at h) <;> first | cases h | skip
      all_goals (try rfl)

theorem step_abort_pc {env : IEnv World} (ha : env.abort = true) {s s' : IState World}
    (h : step env s = .next s') : s.pc < s'.pc := by
  obtain ⟨row, i, s1, _, _, _, _, _, hs1, hex⟩ := step_next_inv h
  have h1 := dynPart_pc hs1
  have h2 := exec_abort_pc ha hex
  simp at h1; omega

/-- a table whose entry for byte 0 (what `GetOp` returns beyond the end of the code) is STOP or undefined -/
def StopAtEnd (env : IEnv World) : Prop :=
  ∀ row, env.table 0 = some row → decode row.exec 0 = some .stop ∨ decode row.exec 0 = none

theorem opAt_beyond {code : Bytes} {pc : Nat} (h : code.length ≤ pc) : opAt code pc = 0 := by
  simp [opAt, List.getD, List.getElem?_eq_none h]

theorem step_beyond_end {env : IEnv World} (hs : StopAtEnd env) {s : IState World} (h : env.code.length ≤ s.pc) :
    ∀ s', step env s ≠ .next s' := by
  intro s' hst
  obtain ⟨row, i, s1, hr, hd, _, _, _, _, hex⟩ := step_next_inv hst
  rw [opAt_beyond h] at hr hd
  rcases hs row hr with hd' | hd'
  · rw [hd'] at hd; cases hd
    simp [exec] at hex
  · rw [hd'] at hd; cases hd

/-- C17 at the loop level: once `Cancel` has set the abort flag, the running frame stops within
    `|code| - pc + 1` further instructions, whatever the program, the stack, the memory and the gas -/
theorem run_abort_halts {env : IEnv World} (ha : env.abort = true) (hs : StopAtEnd env) (n : Nat) (s : IState World)
    (hn : env.code.length - s.pc < n) : ∀ s', run env n s ≠ .next s' := by
  induction n generalizing s with
  | zero => omega
  | succ n ih =>
    intro s' hrun
    unfold run at hrun
    split at hrun
    · rename_i s1 hs1
      by_cases hb : env.code.length ≤ s.pc
      · exact step_beyond_end hs hb s1 hs1
      · have := step_abort_pc ha hs1
        exact ih s1 (by omega) s' hrun
    · rename_i o hne
      exact hne s' hrun

end Interp
end Artela
