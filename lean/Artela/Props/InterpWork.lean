import Artela.Model.Interp
import Artela.Props.InterpGas
import Artela.Props.InterpHalts
import Artela.Props.InterpSafe
/-
  C20 for the frame-local instruction set: the work an iteration of the interpreter loop performs — memory it makes
  the frame allocate and zero, bytes it copies, word multiplications of EXP, all counted in 32-byte words — is at most
  twice the gas it is charged, plus one.
-/
namespace Artela
namespace Interp
variable {World : Type}

def wordsOf (n : Nat) : Nat := (n + 31) / 32

/-- word-sized operations `execute` performs, read off vm/instructions.go: the copy instructions build the padded source
    (`getData`: `make` + `copy`) and copy it into memory; RETURNDATACOPY and MCOPY copy once; KECCAK256 absorbs the hashed range word by word; EXP squares and multiplies once
    per exponent bit (`uint256.Exp`), 8 bits per counted exponent byte; CALLDATALOAD and PUSH build one padded word; everything
    else touches a constant number of words.  The journal instructions have their own work counter (M2, C20's journal part). -/
def execWork (i : Instr) (st : List Word) : Nat :=
  match i, st with
  | .calldatacopy, _ :: _ :: len :: _ => 2 * wordsOf (len % U64)
  | .codecopy, _ :: _ :: len :: _ => 2 * wordsOf (len % U64)
  | .returndatacopy, _ :: _ :: len :: _ => wordsOf (len % U64)
  | .mcopy, _ :: _ :: len :: _ => wordsOf (len % U64)
  | .exp, _ :: e :: _ => 16 * byteLen 32 e + 1
  | .keccak, _ :: size :: _ => wordsOf (size % U64) + 1
  | .calldataload, _ => 2
  | .push _, _ => 2
  | .journal _, _ => 0
  | _, _ => 1

/-- work of one iteration: words of memory the iteration allocates (and zeroes) in `Resize`, plus `execWork` -/
def stepWork (env : IEnv World) (s : IState World) : Nat :=
  match pre env s with
  | .next (i, s1) => (s1.mem.length - s.mem.length) / 32 + execWork i s1.stack
  | _ => 0

/-- memory is a whole number of words and `lastGasCost` is the fee already paid for it (the invariant `Memory.Resize` and
    `memoryGasCost` maintain together) -/
def MemInv (s : IState World) : Prop := s.mem.length % 32 = 0 ∧ s.last = memFee (s.mem.length / 32)

theorem memFee_mono {a b : Nat} (h : a ≤ b) : memFee a + 3 * (b - a) ≤ memFee b := by
  unfold memFee
  have : a * a / 512 ≤ b * b / 512 := Nat.div_le_div_right (Nat.mul_le_mul h h)
  omega

theorem toWordSize_words {w : Nat} (h : w * 32 < U64) : toWordSize (w * 32) = w := by
  have hU := U64_eq
  have hM := maxU64_eq
  unfold toWordSize
  rw [if_neg (by rw [hM]; omega)]
  omega

/-- the memory fee: growing from a whole number of words to `w` words costs at least 3 per new word, and keeps the invariant -/
theorem memoryGasCost_work {len last w g l : Nat} (hlen : len % 32 = 0) (hlast : last = memFee (len / 32)) (hw : w * 32 < U64)
    (h : memoryGasCost len last (w * 32) = some (g, l)) :
    3 * ((max len (w * 32) - len) / 32) ≤ g ∧ l = memFee (max len (w * 32) / 32) := by
  unfold memoryGasCost at h
  by_cases h0 : w * 32 = 0
  · rw [if_pos h0] at h
    cases h
    have : max len (w * 32) = len := by omega
    rw [this]; exact ⟨by omega, hlast⟩
  · rw [if_neg h0] at h
    by_cases hcap : w * 32 > 0x1FFFFFFFE0
    · rw [if_pos hcap] at h; cases h
    · rw [if_neg hcap] at h
      rw [toWordSize_words hw] at h
      dsimp only at h
      by_cases hg : w * 32 > len
      · rw [if_pos hg] at h
        cases h
        have hmax : max len (w * 32) = w * 32 := by omega
        rw [hmax]
        have hU := U64_eq
        have hle : len / 32 ≤ w := by omega
        have := memFee_mono hle
        refine ⟨?_, by congr 1; omega⟩
        rw [hlast]
        have e : (w * 32 - len) / 32 = w - len / 32 := by omega
        rw [e]
        -- the fee fits 64 bits (w < 2^59), so the uint64 subtraction is the exact difference
        have hwb : w ≤ 4294967296 := by omega
        have hfw : memFee w < U64 := by
          unfold memFee
          have : w * w ≤ 4294967296 * 4294967296 := Nat.mul_le_mul hwb hwb
          omega
        have e1 : memFee w % U64 = memFee w := Nat.mod_eq_of_lt hfw
        have e2 : memFee (len / 32) % U64 = memFee (len / 32) := Nat.mod_eq_of_lt (by omega)
        rw [e1, e2, hU]
        omega
      · rw [if_neg hg] at h
        cases h
        have hmax : max len (w * 32) = len := by omega
        rw [hmax]; exact ⟨by omega, hlast⟩

theorem memResize_length (mem : Bytes) (m : Nat) : (memResize mem m).length = max mem.length m := by
  unfold memResize
  split
  · simp; omega
  · omega

theorem gasPart_facts {op : Nat} {row : Row} {s s1 : IState World} {m : Nat} (h : gasPart op row s m = .next s1) :
    ∃ c l, dynGasOf row.dyn s.stack s.mem.length s.last m = .cost c l ∧ c ≤ s.gas ∧ s1.gas = s.gas - c ∧ s1.last = l ∧
      s1.stack = s.stack ∧ s1.mem = (if m > 0 then memResize s.mem m else s.mem) := by
  unfold gasPart at h
  cases hd : dynGasOf row.dyn s.stack s.mem.length s.last m with
  | unmodelled => rw [hd] at h; cases h
  | stackPanic => rw [hd] at h; cases h
  | overflow => rw [hd] at h; cases h
  | cost c l =>
    rw [hd] at h; dsimp only at h
    by_cases hg : s.gas < c
    · rw [if_pos hg] at h; cases h
    · rw [if_neg hg] at h; cases h
      exact ⟨c, l, rfl, by omega, rfl, rfl, rfl, rfl⟩

theorem dynPart_facts {op : Nat} {row : Row} {s s1 : IState World} (h : dynPart op row s = .next s1) :
    (row.dyn = "-" ∧ s1 = s) ∨
    (row.dyn ≠ "-" ∧ ∃ m, m % 32 = 0 ∧ m < U64 ∧ (row.mem = "-" → m = 0) ∧ gasPart op row s m = .next s1) := by
  unfold dynPart at h
  split at h
  · rename_i hd; left; cases h; exact ⟨hd, rfl⟩
  · rename_i hd
    right
    refine ⟨hd, ?_⟩
    cases hm : memPart op row s with
    | halt hh g => rw [hm] at h; cases h
    | panic p => rw [hm] at h; cases h
    | next m =>
      rw [hm] at h; dsimp only at h
      refine ⟨m, ?_, ?_, ?_, h⟩
      all_goals
        unfold memPart at hm
        have hU := U64_eq
        (repeat' split at hm) <;> first | cases hm | skip
      all_goals (try omega)
      all_goals (try (intro; rfl))
      all_goals (try (intro hx; rename_i hne _ _ _ _ _ _; exact absurd hx hne))
      all_goals (try (intro hx; simp_all))

/-- a copy instruction is charged by the copier gas function, EXP by one of the EXP gas functions -/
def rowWork (row : Row) (i : Instr) : Bool :=
  match i with
  | .calldatacopy => row.dyn == "memoryCopierGas"
  | .codecopy => row.dyn == "memoryCopierGas"
  | .returndatacopy => row.dyn == "memoryCopierGas"
  | .mcopy => row.dyn == "memoryCopierGas"
  | .exp => row.dyn == "gasExpFrontier" || row.dyn == "gasExpEIP158"
  | .keccak => row.dyn == "gasKeccak256"
  | _ => true

def TableWork (env : IEnv World) : Prop :=
  ∀ op row i, env.table op = some row → decode row.exec op = some i → rowWork row i = true

theorem wordsOf_le_toWordSize {n : Nat} (h : n < U64) : wordsOf n ≤ toWordSize n := by
  have hU := U64_eq
  have hM := maxU64_eq
  unfold wordsOf toWordSize
  split <;> omega

/-- instructions whose work depends on an operand -/
def varWork : Instr → Bool
  | .calldatacopy | .codecopy | .returndatacopy | .mcopy | .exp | .keccak => true
  | _ => false

theorem execWork_le_two (i : Instr) (st : List Word) (hc : varWork i = false) : execWork i st ≤ 2 := by
  cases i <;> simp_all [execWork, varWork] <;> (repeat' split) <;> omega

/-- the gas functions that do not charge for memory leave `lastGasCost` alone -/
theorem dynGas_other_last {name : String} (h1 : name ≠ "pureMemoryGascost") (h2 : name ≠ "memoryCopierGas") (h3 : name ≠ "gasKeccak256")
    {st : List Word} {len last m c l : Nat} (h : dynGasOf name st len last m = .cost c l) : l = last := by
  unfold dynGasOf at h
  rw [if_neg h1, if_neg h2, if_neg h3] at h
  (repeat' split at h) <;> first | cases h | skip
  all_goals rfl

theorem mem_after (mem : Bytes) (m : Nat) : (if m > 0 then memResize mem m else mem).length = max mem.length m := by
  split
  · exact memResize_length mem m
  · omega

/-- **the part before `execute`**: it keeps the memory invariant, and what it allocates plus what the instruction is about to do
    is paid for — at most two word operations per unit of gas charged, plus one -/
theorem pre_work {env : IEnv World} (hS : TableSafe env) (hP : TablePays env) (hW : TableWork env)
    {s s1 : IState World} {i : Instr} (hI : MemInv s) (hp : pre env s = .next (i, s1)) :
    MemInv s1 ∧ (s1.mem.length - s.mem.length) / 32 + execWork i s1.stack ≤ 2 * (s.gas - s1.gas) + 1 := by
  obtain ⟨row, hr, hd, h1, h2, h3, hdp⟩ := pre_next_inv hp
  have hs := hS _ _ _ hr hd
  have hpay := hP _ _ _ hr hd
  have hw := hW _ _ _ hr hd
  simp only [rowSafe, Bool.and_eq_true, decide_eq_true_eq, beq_iff_eq, Bool.or_eq_true] at hs
  obtain ⟨⟨⟨⟨hpops, hdn⟩, _⟩, hmem⟩, hdyn⟩ := hs
  simp only [paysRow, Bool.or_eq_true, decide_eq_true_eq] at hpay
  obtain ⟨hlen32, hlast⟩ := hI
  rcases dynPart_facts hdp with ⟨hdash, he⟩ | ⟨hnd, m, hm32, hmU, hm0, hgp⟩
  · -- no dynamic-gas function: nothing is allocated; the instruction is a constant-work one
    subst he
    refine ⟨⟨hlen32, hlast⟩, ?_⟩
    simp only [Nat.sub_self, Nat.zero_div, Nat.zero_add]
    have hnc : varWork i = false := by cases i <;> first | rfl | (simp [rowWork, hdash] at hw)
    have h2w := execWork_le_two i s.stack hnc
    by_cases hcg : 1 ≤ row.cgas
    · omega
    · -- constant fee 0: then the instruction halts (STOP, RETURN, REVERT) or is a journal one, all of constant work 1
      have h1w : execWork i s.stack ≤ 1 := by
        rcases hpay with hc | hi
        · exact absurd hc hcg
        · cases i <;> simp [hdash] at hi <;> simp [execWork]
      omega
  · obtain ⟨c, l, hcost, hle, hgas, hlastl, hstk, hmemeq⟩ := gasPart_facts hgp
    simp only at hcost hle hgas hstk hmemeq
    have hmlen : s1.mem.length = max s.mem.length m := by rw [hmemeq]; exact mem_after _ _
    obtain ⟨w, hwm⟩ : ∃ w, m = w * 32 := ⟨m / 32, by omega⟩
    by_cases hpure : row.dyn = "pureMemoryGascost"
    · -- memory fee only
      rw [hpure] at hcost
      simp only [dynGasOf, if_true] at hcost
      cases hg : memoryGasCost s.mem.length s.last m with
      | none => rw [hg] at hcost; cases hcost
      | some gl =>
        obtain ⟨g, l'⟩ := gl
        rw [hg] at hcost; simp only [Dyn.cost.injEq] at hcost
        obtain ⟨hgc, hll⟩ := hcost
        subst hwm
        obtain ⟨hfee, hl'⟩ := memoryGasCost_work hlen32 hlast (by omega) hg
        refine ⟨⟨by rw [hmlen]; omega, by rw [hlastl, ← hll, hl', hmlen]⟩, ?_⟩
        have hnc : varWork i = false := by cases i <;> first | rfl | (simp [rowWork, hpure] at hw)
        have h2w := execWork_le_two i s1.stack hnc
        rw [hmlen]
        by_cases hcg : 1 ≤ row.cgas
        · omega
        · have h1w : execWork i s1.stack ≤ 1 := by
            rcases hpay with hc | hi
            · exact absurd hc hcg
            · cases i <;> simp [hpure] at hi <;> simp [execWork]
          omega
    · by_cases hcop : row.dyn = "memoryCopierGas"
      · -- memory fee plus 3 per word copied
        rw [hcop] at hcost
        simp only [dynGasOf] at hcost
        rw [if_pos trivial] at hcost
        cases hb : back s.stack 2 with
        | none => rw [hb] at hcost; cases hcost
        | some len =>
          rw [hb] at hcost; dsimp only at hcost
          cases hg : gasMcopy s.mem.length s.last m len with
          | none => rw [hg] at hcost; cases hcost
          | some gl =>
            obtain ⟨g, l'⟩ := gl
            rw [hg] at hcost; simp only [Dyn.cost.injEq] at hcost
            obtain ⟨hgc, hll⟩ := hcost
            unfold gasMcopy at hg
            cases hmg : memoryGasCost s.mem.length s.last m with
            | none => rw [hmg] at hg; cases hg
            | some gl2 =>
              obtain ⟨g2, l2⟩ := gl2
              rw [hmg] at hg; dsimp only at hg
              by_cases hlU : len ≥ U64
              · rw [if_pos hlU] at hg; cases hg
              · rw [if_neg hlU] at hg
                (repeat' split at hg) <;> first | cases hg | skip
                subst hwm
                obtain ⟨hfee, hl'⟩ := memoryGasCost_work hlen32 hlast (by omega) hmg
                refine ⟨⟨by rw [hmlen]; omega, by rw [hlastl, hl', hmlen]⟩, ?_⟩
                have hwl := wordsOf_le_toWordSize (n := len) (by omega)
                have hlm : len % U64 = len := Nat.mod_eq_of_lt (by omega)
                -- whatever the instruction, it copies at most twice the words the gas function charged for
                have hne : i ≠ .exp := by intro hi; subst hi; simp [rowWork, hcop] at hw
                have hnk : i ≠ .keccak := by intro hi; subst hi; simp [rowWork, hcop] at hw
                have hexec : execWork i s1.stack ≤ 2 * toWordSize len + 2 := by
                  rw [hstk]
                  obtain ⟨x, y, z, r, hst⟩ := ge3 (l := s.stack) (by simp [dynNeed, hcop] at hdn; omega)
                  rw [hst] at hb
                  simp only [back, List.getElem?_cons_succ, List.getElem?_cons_zero, Option.some.injEq] at hb
                  subst hb
                  cases i <;> simp only [execWork, hst, hlm] <;> first | omega | exact absurd rfl hne | exact absurd rfl hnk
                rw [hmlen]
                by_cases hcg : 1 ≤ row.cgas
                · omega
                · have : execWork i s1.stack ≤ 1 := by
                    rcases hpay with hc | hi
                    · exact absurd hc hcg
                    · cases i <;> simp [hcop] at hi <;> simp [execWork]
                  omega
      · by_cases hkec : row.dyn = "gasKeccak256"
        · -- memory fee plus 6 per word hashed
          rw [hkec] at hcost
          simp only [dynGasOf] at hcost
          rw [if_pos trivial] at hcost
          cases hb : back s.stack 1 with
          | none => rw [hb] at hcost; cases hcost
          | some len =>
            rw [hb] at hcost; dsimp only at hcost
            cases hmg : memoryGasCost s.mem.length s.last m with
            | none => rw [hmg] at hcost; cases hcost
            | some gl2 =>
              obtain ⟨g2, l2⟩ := gl2
              rw [hmg] at hcost; dsimp only at hcost
              by_cases hlU : len ≥ U64
              · rw [if_pos hlU] at hcost; cases hcost
              · rw [if_neg hlU] at hcost
                by_cases ho1 : toWordSize len * 6 ≥ U64
                · rw [if_pos ho1] at hcost; cases hcost
                · rw [if_neg ho1] at hcost
                  by_cases ho2 : g2 + toWordSize len * 6 ≥ U64
                  · rw [if_pos ho2] at hcost; cases hcost
                  · rw [if_neg ho2] at hcost
                    injection hcost with hcc hll
                    subst hwm
                    obtain ⟨hfee, hl'⟩ := memoryGasCost_work hlen32 hlast (by omega) hmg
                    refine ⟨⟨by rw [hmlen]; omega, by rw [hlastl, ← hll, hl', hmlen]⟩, ?_⟩
                    have hwl := wordsOf_le_toWordSize (n := len) (by omega)
                    have hlm : len % U64 = len := Nat.mod_eq_of_lt (by omega)
                    have hne : i ≠ .exp := by intro hi; subst hi; simp [rowWork, hkec] at hw
                    have hn1 : i ≠ .calldatacopy := by intro hi; subst hi; simp [rowWork, hkec] at hw
                    have hn2 : i ≠ .codecopy := by intro hi; subst hi; simp [rowWork, hkec] at hw
                    have hn3 : i ≠ .returndatacopy := by intro hi; subst hi; simp [rowWork, hkec] at hw
                    have hn4 : i ≠ .mcopy := by intro hi; subst hi; simp [rowWork, hkec] at hw
                    have hexec : execWork i s1.stack ≤ toWordSize len + 2 := by
                      rw [hstk]
                      obtain ⟨x, y, r, hst⟩ := ge2 (l := s.stack) (by simp [dynNeed, hkec] at hdn; omega)
                      rw [hst] at hb
                      simp only [back, List.getElem?_cons_succ, List.getElem?_cons_zero, Option.some.injEq] at hb
                      subst hb
                      cases i <;> simp only [execWork, hst, hlm] <;>
                        first | omega | exact absurd rfl hne | exact absurd rfl hn1 | exact absurd rfl hn2 | exact absurd rfl hn3 | exact absurd rfl hn4 | ((repeat' split) <;> omega)
                    rw [hmlen]
                    by_cases hcg : 1 ≤ row.cgas
                    · omega
                    · have : execWork i s1.stack ≤ 1 := by
                        rcases hpay with hc | hi
                        · exact absurd hc hcg
                        · cases i <;> simp [hkec] at hi <;> simp [execWork]
                      omega
        · -- a gas function that does not charge for memory: the row has no memory-size function, nothing is allocated
          have hname : memName i = "-" := by
            rcases hdyn with ((h | h) | h) | h
            · exact h
            · exact absurd h hpure
            · exact absurd h hcop
            · exact absurd h hkec
          have hm : m = 0 := hm0 (by rw [hmem, hname])
          have hl := dynGas_other_last hpure hcop hkec hcost
          have hmeq : s1.mem = s.mem := by rw [hmemeq, hm]; simp
          refine ⟨⟨by rw [hmeq]; exact hlen32, by rw [hlastl, hl, hmeq]; exact hlast⟩, ?_⟩
          rw [hmeq]
          simp only [Nat.sub_self, Nat.zero_div, Nat.zero_add]
          by_cases hexp : i = .exp
          · subst hexp
            simp only [rowWork, Bool.or_eq_true, beq_iff_eq] at hw
            rw [hstk]
            obtain ⟨b, e, r, hst⟩ := ge2 (l := s.stack) (by simp [Instr.pops] at hpops; omega)
            have hc10 : 10 * byteLen 32 e + 10 ≤ c := by
              rcases hw with hw | hw <;> rw [hw] at hcost <;> simp [dynGasOf, back, hst] at hcost <;> omega
            simp only [execWork, hst]
            omega
          · have hnc : varWork i = false := by
              cases i <;> first | rfl | exact absurd rfl hexp | (simp [rowWork] at hw; first | exact absurd hw hcop | exact absurd hw hkec)
            have h2w := execWork_le_two i s1.stack hnc
            by_cases hcg : 1 ≤ row.cgas
            · omega
            · rcases hpay with hc | hi
              · exact absurd hc hcg
              · have : execWork i s1.stack ≤ 1 ∨ 1 ≤ c := by
                  cases i <;> simp at hi <;> (first | (left; simp [execWork]) | skip)
                  · exact absurd rfl hexp
                omega

theorem exec_next_last {env : IEnv World} {i : Instr} {s s' : IState World} (h : exec env i s = .next s') :
    s'.last = s.last := by
  cases i <;> simp only [exec, IState.cont, stackPanic] at h <;> (repeat' split at h) <;> simp_all <;>
    (try (subst h; rfl)) <;> (try (cases h; rfl))

/-- **One iteration**: on a table that is safe, pays and charges copies by the word, an iteration that continues has done at
    most two word operations per unit of gas it was charged, plus one; the memory invariant is kept. -/
theorem step_work {env : IEnv World} (hS : TableSafe env) (hP : TablePays env) (hW : TableWork env) (hE : EnvOK env)
    {s s' : IState World} (hI : MemInv s) (hinv : Inv s) (h : step env s = .next s') :
    MemInv s' ∧ Inv s' ∧ stepWork env s ≤ 2 * (s.gas - s'.gas) + 1 := by
  obtain ⟨i, s1, hp, hex⟩ := stepWith_next h
  obtain ⟨hI1, hwk⟩ := pre_work hS hP hW hI hp
  obtain ⟨⟨_, hlen⟩, hinv1⟩ := pre_execSafe hS hE hinv hp
  obtain ⟨hl, _⟩ := hlen s' hex
  have hg := exec_next_gas hex
  have hla := exec_next_last hex
  refine ⟨⟨by rw [hl]; exact hI1.1, by rw [hla, hl]; exact hI1.2⟩, by unfold Inv; rw [hl]; exact hinv1, ?_⟩
  unfold stepWork
  rw [hp]
  dsimp only
  rw [hg]
  exact hwk

/-- work of a whole run: the sum over its iterations -/
def runWork (env : IEnv World) : Nat → IState World → Nat
  | 0, _ => 0
  | n + 1, s =>
    match step env s with
    | .next s' => stepWork env s + runWork env n s'
    | _ => stepWork env s

/-- the last iteration of a frame (the one that halts) also stays within the bound, against the gas the iteration started with -/
theorem step_work_halt {env : IEnv World} (hS : TableSafe env) (hP : TablePays env) (hW : TableWork env)
    {s : IState World} (hI : MemInv s) : stepWork env s ≤ 2 * s.gas + 1 := by
  unfold stepWork
  cases hp : pre env s with
  | next is1 =>
    obtain ⟨i, s1⟩ := is1
    dsimp only
    have := (pre_work hS hP hW hI hp).2
    omega
  | halt h g => simp
  | panic p => simp

/-- **C20 (frame-local instruction set), whole frames**: a frame that starts with `g` gas performs at most `3·g + 2·|run| …`
    — precisely: at most `2·g + 1` word operations plus one per iteration; with `run_halts_within_gas` (at most `g + 1`
    iterations) that is at most `3·g + 2`. -/
theorem run_work {env : IEnv World} (hS : TableSafe env) (hP : TablePays env) (hW : TableWork env) (hE : EnvOK env)
    (n : Nat) (s : IState World) (hI : MemInv s) (hinv : Inv s) : runWork env n s ≤ 2 * s.gas + n := by
  induction n generalizing s with
  | zero => simp [runWork]
  | succ n ih =>
    unfold runWork
    cases hs : step env s with
    | next s' =>
      dsimp only
      obtain ⟨hI', hinv', hw⟩ := step_work hS hP hW hE hI hinv hs
      have := ih s' hI' hinv'
      have hg := step_gas env s
      rw [hs] at hg
      simp only [Out.gasLe] at hg
      omega
    | halt h g =>
      dsimp only
      have := step_work_halt hS hP hW hI
      omega
    | panic p =>
      dsimp only
      have := step_work_halt hS hP hW hI
      omega

end Interp
end Artela
