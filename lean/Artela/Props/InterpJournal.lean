import Artela.Model.Interp
import Artela.Props.InterpGas
/-
  C12 at the program level: a program run with its journal instructions, and the same program run with every
  journal instruction replaced by "pop the operands, charge the fee", go through the same observable states.
-/
namespace Artela
namespace Interp
variable {World : Type}

/-- the same state with another tracer: everything a contract can observe is unchanged -/
def IState.setTr (x : Tracer) (s : IState World) : IState World := { s with tr := x }

def Out.setTr (x : Tracer) : Out (IState World) → Out (IState World)
  | .next s => .next (s.setTr x)
  | .halt h g => .halt h g
  | .panic p => .panic p

def Instr.isJournal : Instr → Bool
  | .journal _ => true
  | _ => false

/-- the specification side: a journal instruction that only pops its operands -/
def execPops (env : IEnv World) (i : Instr) (s : IState World) : Out (IState World) :=
  match i with
  | .journal j =>
    if s.stack.length < j.arity then stackPanic
    else .next { s with stack := s.stack.drop j.arity, pc := s.pc + 1 }
  | _ => exec env i s

/-- the loop body with `execPops` in place of `exec` (everything else is the code's own loop body) -/
def stepPops (env : IEnv World) (s : IState World) : Out (IState World) := stepWith execPops env s

def runPops (env : IEnv World) : Nat → IState World → Out (IState World)
  | 0, s => .next s
  | fuel + 1, s =>
    match stepPops env s with
    | .next s' => runPops env fuel s'
    | o => o

/-- no instruction but the journal ones looks at the tracer -/
theorem exec_setTr (env : IEnv World) (i : Instr) (hi : i.isJournal = false) (x : Tracer) (s : IState World) :
    exec env i (s.setTr x) = (exec env i s).setTr x := by
  cases i <;> simp only [Instr.isJournal] at hi <;>
    rcases hst : s.stack with _ | ⟨a, _ | ⟨b, _ | ⟨c, r⟩⟩⟩ <;>
    simp only [exec, IState.cont, stackPanic, IState.setTr, Out.setTr, hst] <;>
    (repeat' split) <;> simp_all [Out.setTr, IState.setTr] <;> (try (rename_i hq; cases hq; simp))

theorem dynPart_setTr (op : Nat) (row : Row) (x : Tracer) (s : IState World) :
    dynPart op row (s.setTr x) = (dynPart op row s).setTr x := by
  unfold dynPart
  split
  · rfl
  · have hm : memPart op row (s.setTr x) = memPart op row s := by
      unfold memPart; simp only [IState.setTr]
    rw [hm]
    cases memPart op row s with
    | halt h g => rfl
    | panic p => rfl
    | next m =>
      dsimp only
      unfold gasPart
      simp only [IState.setTr]
      cases dynGasOf row.dyn s.stack s.mem.length s.last m with
      | unmodelled => rfl
      | stackPanic => rfl
      | overflow => rfl
      | cost c l =>
        dsimp only
        by_cases hg : s.gas < c <;> simp [hg, Out.setTr, IState.setTr]

/-- the part before `execute` does not look at the tracer -/
theorem pre_setTr (env : IEnv World) (x : Tracer) (s : IState World) :
    pre env (s.setTr x) = (match pre env s with
      | .next (i, s1) => .next (i, s1.setTr x)
      | .halt h g => .halt h g
      | .panic p => .panic p) := by
  unfold pre
  have hd : ∀ row, dynPart (opAt env.code s.pc) row { s.setTr x with gas := s.gas - row.cgas }
      = (dynPart (opAt env.code s.pc) row { s with gas := s.gas - row.cgas }).setTr x := by
    intro row
    exact dynPart_setTr (opAt env.code s.pc) row x { s with gas := s.gas - row.cgas }
  simp only [IState.setTr] at hd ⊢
  cases env.table (opAt env.code s.pc) with
  | none => rfl
  | some row =>
    dsimp only
    cases decode row.exec (opAt env.code s.pc) with
    | none => rfl
    | some i =>
      dsimp only
      by_cases h1 : s.stack.length < row.minStack
      · simp only [h1, ↓reduceIte]
      · by_cases h2 : s.stack.length > row.maxStack
        · simp only [h1, h2, ↓reduceIte]
        · by_cases h3 : s.gas < row.cgas
          · simp only [h1, h2, h3, ↓reduceIte]
          · simp only [h1, h2, h3, ↓reduceIte]
            rw [hd row]
            cases dynPart (opAt env.code s.pc) row { s with gas := s.gas - row.cgas } <;> rfl

theorem execPops_of_not_journal (env : IEnv World) {i : Instr} (hi : i.isJournal = false) (s : IState World) :
    execPops env i s = exec env i s := by
  cases i <;> simp [Instr.isJournal] at hi <;> rfl

/-- a journal instruction that goes through leaves exactly what popping its operands leaves, tracer aside -/
theorem exec_journal_pops {env : IEnv World} {j : JOp} {s s' : IState World} (x : Tracer)
    (h : exec env (.journal j) s = .next s') : execPops env (.journal j) (s.setTr x) = .next (s'.setTr x) := by
  simp only [exec] at h
  simp only [execPops, IState.setTr]
  split at h
  · simp [stackPanic] at h
  · rename_i hlen
    simp only [hlen, ↓reduceIte]
    split at h
    · cases h; rfl
    · cases h
    · cases h

/-- a journal instruction halts only with an error (malformed operands) -/
theorem exec_journal_halt {env : IEnv World} {j : JOp} {s : IState World} {h : Halt} {g : Nat}
    (hs : exec env (.journal j) s = .halt h g) : ∃ e, h = .err e := by
  simp only [exec] at hs
  split at hs
  · simp [stackPanic] at hs
  · split at hs
    · cases hs
    · cases hs; exact ⟨_, rfl⟩
    · cases hs

/-- **One iteration**: whenever the journal program continues, the pops program continues in the same observable
    state; this holds from any pair of states that differ in the tracer only -/
theorem step_pops_same {env : IEnv World} {s s' : IState World} (x : Tracer) (h : step env s = .next s') :
    stepPops env (s.setTr x) = .next (s'.setTr x) := by
  obtain ⟨i, s1, hp, hex⟩ := stepWith_next h
  have hp' := pre_setTr env x s
  rw [hp] at hp'
  dsimp only at hp'
  unfold stepPops
  rw [stepWith_of_pre hp']
  cases hi : i.isJournal with
  | false =>
    rw [execPops_of_not_journal env hi, exec_setTr env i hi x s1, hex]; rfl
  | true =>
    cases i <;> simp [Instr.isJournal] at hi
    exact exec_journal_pops x hex

/-- a halt that is not an error is reached by both programs alike -/
theorem step_pops_halt {env : IEnv World} {s : IState World} (x : Tracer) {h : Halt} {g : Nat}
    (hs : step env s = .halt h g) (hne : ∀ e, h ≠ .err e) : stepPops env (s.setTr x) = .halt h g := by
  unfold step stepWith at hs
  have hp' := pre_setTr env x s
  unfold stepPops stepWith
  cases hp : pre env s with
  | halt hh gg => rw [hp] at hs hp'; rw [hp']; exact hs
  | panic p => rw [hp] at hs; cases hs
  | next is1 =>
    obtain ⟨i, s1⟩ := is1
    rw [hp] at hs hp'; dsimp only at hs hp'
    rw [hp']; dsimp only
    cases hi : i.isJournal with
    | false => rw [execPops_of_not_journal env hi, exec_setTr env i hi x s1, hs]; rfl
    | true =>
      cases i <;> simp [Instr.isJournal] at hi
      obtain ⟨e, he⟩ := exec_journal_halt hs
      exact absurd he (hne e)

/-- **C12 over whole runs**: for every program, table, input, world and number of steps — if the run with journal
    instructions is still going after `n` iterations, so is the run with pops, in the same state up to the tracer;
    if it has stopped, returned or reverted, the run with pops has done the same with the same gas and data. -/
theorem run_pops_same (env : IEnv World) (n : Nat) (s : IState World) (x : Tracer) :
    (∀ s', run env n s = .next s' → runPops env n (s.setTr x) = .next (s'.setTr x)) ∧
    (∀ h g, run env n s = .halt h g → (∀ e, h ≠ .err e) → runPops env n (s.setTr x) = .halt h g) := by
  induction n generalizing s with
  | zero =>
    refine ⟨?_, ?_⟩
    · intro s' h; simp only [run] at h; cases h; rfl
    · intro h g hr; simp [run] at hr
  | succ n ih =>
    refine ⟨?_, ?_⟩
    · intro s' h
      unfold run at h
      cases hs : step env s with
      | next s1 =>
        rw [hs] at h; dsimp only at h
        have hy := step_pops_same x hs
        unfold runPops; rw [hy]; exact (ih s1).1 s' h
      | halt hh g => rw [hs] at h; cases h
      | panic p => rw [hs] at h; cases h
    · intro h g hr hne
      unfold run at hr
      cases hs : step env s with
      | next s1 =>
        rw [hs] at hr; dsimp only at hr
        have hy := step_pops_same x hs
        unfold runPops; rw [hy]; exact (ih s1).2 h g hr hne
      | halt hh gg =>
        rw [hs] at hr; cases hr
        have := step_pops_halt x hs hne
        unfold runPops; rw [this]
      | panic p => rw [hs] at hr; cases hr

theorem exec_keeps_tr {env : IEnv World} {i : Instr} (hi : i.isJournal = false) {s s' : IState World}
    (h : exec env i s = .next s') : s'.tr = s.tr := by
  cases i <;> simp [Instr.isJournal] at hi <;>
    simp only [exec, IState.cont, stackPanic] at h <;> (repeat' split at h) <;> simp_all <;>
    (try (subst h; rfl)) <;> (try (cases h; rfl))

/-- a table without journal rows (go-ethereum's own tables; the fork's with 0xe0–0xe7 filtered out) -/
def StdTable (env : IEnv World) : Prop :=
  ∀ op row i, env.table op = some row → decode row.exec op = some i → i.isJournal = false

/-- C01 at the loop level: over the standard instruction set the Artela tracer is invisible — one iteration from two states that
    differ in the tracer only gives results that differ in the tracer only -/
theorem step_setTr_std {env : IEnv World} (hstd : StdTable env) (x : Tracer) (s : IState World) :
    step env (s.setTr x) = (step env s).setTr x := by
  unfold step stepWith
  rw [pre_setTr env x s]
  cases hp : pre env s with
  | halt h g => rfl
  | panic p => rfl
  | next is1 =>
    obtain ⟨i, s1⟩ := is1
    dsimp only
    obtain ⟨row, hr, hd, _⟩ := pre_next_inv hp
    exact exec_setTr env i (hstd _ _ _ hr hd) x s1

theorem run_setTr_std {env : IEnv World} (hstd : StdTable env) (n : Nat) (x : Tracer) (s : IState World) :
    run env n (s.setTr x) = (run env n s).setTr x := by
  induction n generalizing s with
  | zero => rfl
  | succ n ih =>
    unfold run
    rw [step_setTr_std hstd x s]
    cases step env s with
    | next s' => simp only [Out.setTr]; exact ih s'
    | halt h g => rfl
    | panic p => rfl

/-- the pops program never consults or changes the tracer: it ends with the tracer it started with -/
theorem runPops_tr (env : IEnv World) (n : Nat) (s s' : IState World) (h : runPops env n s = .next s') : s'.tr = s.tr := by
  induction n generalizing s with
  | zero => simp only [runPops] at h; cases h; rfl
  | succ n ih =>
    unfold runPops at h
    cases hs : stepPops env s with
    | next s1 =>
      rw [hs] at h; dsimp only at h
      rw [ih s1 h]
      obtain ⟨i, s0, hp, hex⟩ := stepWith_next hs
      obtain ⟨row, _, _, _, _, _, hdp⟩ := pre_next_inv hp
      have h0 : s0.tr = s.tr := by
        have := dynPart_setTr (opAt env.code s.pc) row s.tr { s with gas := s.gas - row.cgas }
        -- `dynPart` keeps the tracer: read it off the frame lemma instead
        clear this
        unfold dynPart at hdp
        split at hdp
        · cases hdp; rfl
        · split at hdp
          · cases hdp
          · cases hdp
          · unfold gasPart at hdp
            (repeat' split at hdp) <;> first | cases hdp | skip
            all_goals rfl
      rw [← h0]
      cases hi : i.isJournal with
      | false =>
        rw [execPops_of_not_journal env hi] at hex
        exact exec_keeps_tr hi hex
      | true =>
        cases i <;> simp [Instr.isJournal] at hi
        simp only [execPops] at hex
        split at hex
        · simp [stackPanic] at hex
        · cases hex; rfl
    | halt hh g => rw [hs] at h; cases h
    | panic p => rw [hs] at h; cases h

end Interp
end Artela
