import Artela.Props.C13Frame
import Artela.Props.C11Global
/-
  C13 (nothing else) — no balance entry exists that does not correspond to a transfer observation.

  Journal instructions (`SaveStateKey`, `SaveStateChange`) work on the same arena as the balance records: an account's root
  key holds its balance changes.  For EVERY state reachable by tracer operations — conflicting registrations included —
  a journal instruction never alters the change record of any root: a registration only touches `children` /
  `childrenIndex` of its parent and appends nodes; a change goes to the node the flat index names, and neither the flat
  index nor any `children` map ever names a root node.  Together with C13Frame (the frame functions file exactly the
  brackets of the transfers they make; epilogues and world effects touch nothing) the balance journal consists of transfer
  observations and nothing else.
-/
namespace Artela
open StateChanges

/-- the change record of an account's root: what `Balance()` returns (`none` = no root, or no balance change yet) -/
def balanceRecord (s : StateChanges) (a : Addr) : Option ChangeMap :=
  ((alookup a s.roots).bind (fun r => s.keys[r]?)).bind (fun (k : KeyNode) => k.changes)

/-- roots are root-typed arena nodes; nothing the journal instructions look up (flat index, `children`) is root-typed -/
structure RootsApart (s : StateChanges) : Prop where
  rootValid : ∀ (a : Addr) (r : Nat), alookup a s.roots = some r → ∃ k : KeyNode, s.keys[r]? = some k ∧ k.nodeType = .root
  idxNotRoot : ∀ key (id : Nat), alookup key s.index = some id → ∃ k : KeyNode, s.keys[id]? = some k ∧ k.nodeType ≠ .root
  childNotRoot : ∀ (p : Nat) (pk : KeyNode) (so : Word × Nat) (c : Nat), s.keys[p]? = some pk → alookup so pk.children = some c →
    ∃ k : KeyNode, s.keys[c]? = some k ∧ k.nodeType ≠ .root

theorem rootsApart_empty : RootsApart ({} : StateChanges) := by
  refine ⟨?_, ?_, ?_⟩ <;> intros <;> simp_all [alookup]

theorem journal_nodeType (k : KeyNode) (i : Nat) (v : Bytes) : ((k.journal i v).nodeType = .root ↔ k.nodeType = .root) ∧
    (k.journal i v).children = k.children := by
  unfold KeyNode.journal
  cases hc : k.changes with
  | none =>
    simp only
    by_cases hr : k.nodeType = .root
    · simp [hr]
    · simp [hr]
  | some m => simp

/-- **a change journal never touches a balance record**, and keeps the invariant -/
theorem saveChange_balance (s : StateChanges) (hs : RootsApart s) (a : Addr) (self : Word) (off : Option Word) (ty : Word) (i : Nat) (v : Bytes) :
    RootsApart (s.saveChange a self off ty i v).1 ∧ ∀ b, balanceRecord (s.saveChange a self off ty i v).1 b = balanceRecord s b := by
  unfold saveChange
  split
  · exact ⟨hs, fun _ => rfl⟩
  · split
    · exact ⟨hs, fun _ => rfl⟩
    · split
      · exact ⟨hs, fun _ => rfl⟩
      · rename_i o _ _ _ id hid
        have hkey : ∀ (j : Nat) (k' : KeyNode), (s.keys.modify id (fun k => k.journal i v))[j]? = some k' →
            ∃ k, s.keys[j]? = some k ∧ (k'.nodeType = .root ↔ k.nodeType = .root) ∧ k'.children = k.children ∧ (id ≠ j → k' = k) := by
          intro j k' hk'
          obtain ⟨k0, h0, hx⟩ := getElem_opt_modify_some' _ _ _ _ _ hk'
          refine ⟨k0, h0, ?_⟩
          by_cases h : id = j
          · simp only [h, if_true] at hx; subst hx
            exact ⟨(journal_nodeType k0 i v).1, (journal_nodeType k0 i v).2, fun hne => absurd h hne⟩
          · simp only [h, if_false] at hx; subst hx; exact ⟨Iff.rfl, rfl, fun _ => rfl⟩
        have hkeyF : ∀ (j : Nat) (k : KeyNode), s.keys[j]? = some k → ∃ k', (s.keys.modify id (fun k => k.journal i v))[j]? = some k' ∧
            (k'.nodeType = .root ↔ k.nodeType = .root) := by
          intro j k hk
          rw [List.getElem?_modify, hk]
          by_cases h : id = j
          · exact ⟨k.journal i v, by simp [h], (journal_nodeType k i v).1⟩
          · exact ⟨k, by simp [h], Iff.rfl⟩
        constructor
        · refine ⟨?_, ?_, ?_⟩
          · intro b r hr
            obtain ⟨k, hk, hkr⟩ := hs.rootValid b r hr
            obtain ⟨k', hk', hiff⟩ := hkeyF r k hk
            exact ⟨k', hk', hiff.mpr hkr⟩
          · intro key j hl
            obtain ⟨k, hk, hnr⟩ := hs.idxNotRoot key j hl
            obtain ⟨k', hk', hiff⟩ := hkeyF j k hk
            exact ⟨k', hk', fun h => hnr (hiff.mp h)⟩
          · intro p pk' so c hp hl
            obtain ⟨pk, hpk, _, hch, _⟩ := hkey p pk' hp
            rw [hch] at hl
            obtain ⟨k, hk, hnr⟩ := hs.childNotRoot p pk so c hpk hl
            obtain ⟨k', hk', hiff⟩ := hkeyF c k hk
            exact ⟨k', hk', fun h => hnr (hiff.mp h)⟩
        · intro b
          unfold balanceRecord
          show ((alookup b s.roots).bind (fun r => (s.keys.modify id (fun k => k.journal i v))[r]?)).bind _ = _
          cases hr : alookup b s.roots with
          | none => rfl
          | some r =>
            simp only [Option.bind_some]
            obtain ⟨rk, hrk, hrt⟩ := hs.rootValid b r hr
            have hne : id ≠ r := by
              intro he
              subst he
              obtain ⟨k, hk, hnr⟩ := hs.idxNotRoot _ id hid
              rw [hrk] at hk; injection hk with hk; subst hk
              exact hnr hrt
            rw [List.getElem?_modify]
            simp [hne]

/-! ### registrations -/

theorem alookup_append_ne {κ ν} [DecidableEq κ] (k k2 : κ) (v2 : ν) (hne : k ≠ k2) :
    ∀ (l : List (κ × ν)), alookup k (l ++ [(k2, v2)]) = alookup k l
  | [] => by simp [alookup, Ne.symm hne]
  | (k', v') :: rest => by
    simp only [List.cons_append, alookup]
    by_cases c : k' = k
    · simp [c]
    · simp only [c, if_false]; exact alookup_append_ne k k2 v2 hne rest

theorem modify_get {α : Type} (l : List α) (p j : Nat) (g : α → α) (k : α) (h : l[j]? = some k) :
    (l.modify p g)[j]? = some (if p = j then g k else k) := by
  rw [List.getElem?_modify, h]
  by_cases hpj : p = j <;> simp [hpj]

/-- what `AddChild` does to the arena: node types and change records stay, `children` of the parent may gain the one
    entry `(slot, offset) ↦ cid`, and the key it returns is the fresh node or an existing child of the parent -/
theorem addChild_spec (keys : List KeyNode) (p cid : Nat) (slot : Word) (off : Nat) (name : Bytes) :
    (∀ (j : Nat) (k' : KeyNode), (addChild keys p cid slot off name).1[j]? = some k' →
        ∃ k, keys[j]? = some k ∧ k'.nodeType = k.nodeType ∧ k'.changes = k.changes ∧
          ∀ so c, alookup so k'.children = some c → alookup so k.children = some c ∨ (c = cid ∧ j = p)) ∧
    (∀ (j : Nat) (k : KeyNode), keys[j]? = some k →
        ∃ k', (addChild keys p cid slot off name).1[j]? = some k' ∧ k'.nodeType = k.nodeType ∧ k'.changes = k.changes) ∧
    ((addChild keys p cid slot off name).2 = cid ∨
      ∃ pk, keys[p]? = some pk ∧ alookup (slot, off) pk.children = some (addChild keys p cid slot off name).2) := by
  cases hp : keys[p]? with
  | none =>
    simp only [addChild, hp]
    exact ⟨fun j k' h => ⟨k', h, rfl, rfl, fun so c hc => Or.inl hc⟩, fun j k h => ⟨k, h, rfl, rfl⟩, by first | exact Or.inl trivial | exact Or.inl rfl | trivial⟩
  | some pk =>
    cases hso : alookup (slot, off) pk.children with
    | some ex =>
      simp only [addChild, hp, hso]
      refine ⟨?_, ?_, by first | trivial | exact Or.inr ⟨pk, rfl, hso⟩ | exact Or.inr ⟨pk, rfl, rfl⟩ | simp [hso]⟩
      · intro j k' h
        obtain ⟨k0, h0, hx⟩ := getElem_opt_modify_some' _ _ _ _ _ h
        refine ⟨k0, h0, ?_⟩
        by_cases hpj : p = j
        · simp only [hpj, if_true] at hx; subst hx
          exact ⟨rfl, rfl, fun so c hc => Or.inl hc⟩
        · simp only [hpj, if_false] at hx; subst hx
          exact ⟨rfl, rfl, fun so c hc => Or.inl hc⟩
      · intro j k h
        refine ⟨_, modify_get _ p j _ k h, ?_, ?_⟩ <;> (by_cases hpj : p = j <;> simp [hpj])
    | none =>
      simp only [addChild, hp, hso]
      refine ⟨?_, ?_, by first | exact Or.inl trivial | exact Or.inl rfl | trivial⟩
      · intro j k' h
        obtain ⟨k0, h0, hx⟩ := getElem_opt_modify_some' _ _ _ _ _ h
        refine ⟨k0, h0, ?_⟩
        by_cases hpj : p = j
        · simp only [hpj, if_true] at hx; subst hx
          refine ⟨rfl, rfl, fun so c hc => ?_⟩
          simp only at hc
          rcases alookup_append_inv so (slot, off) cid c k0.children hc with h1 | ⟨_, _, h3⟩
          · exact Or.inl h1
          · exact Or.inr ⟨h3, hpj.symm⟩
        · simp only [hpj, if_false] at hx; subst hx
          exact ⟨rfl, rfl, fun so c hc => Or.inl hc⟩
      · intro j k h
        refine ⟨_, modify_get _ p j _ k h, ?_, ?_⟩ <;> (by_cases hpj : p = j <;> simp [hpj])

theorem rootsApart_ensureRoot (s : StateChanges) (hs : RootsApart s) (a : Addr) :
    RootsApart (s.ensureRoot a).1 ∧ (∀ b, balanceRecord (s.ensureRoot a).1 b = balanceRecord s b) ∧
    (∃ k : KeyNode, (s.ensureRoot a).1.keys[(s.ensureRoot a).2]? = some k) := by
  rcases ensureRoot_cases s a with ⟨r, hr, he⟩ | ⟨hn, he⟩
  · rw [he]
    obtain ⟨k, hk, _⟩ := hs.rootValid a r hr
    exact ⟨hs, fun _ => rfl, k, hk⟩
  · rw [he]
    have hold : ∀ (j : Nat) (k : KeyNode), s.keys[j]? = some k → (withRoot s a).keys[j]? = some k := by
      intro j k hk
      have hlt : j < s.keys.length := (List.getElem?_eq_some_iff.mp hk).1
      simp [withRoot, List.getElem?_append_left hlt, hk]
    have hnew : (withRoot s a).keys[s.keys.length]? = some ({ nodeType := .root } : KeyNode) := by simp [withRoot]
    refine ⟨⟨?_, ?_, ?_⟩, ?_, _, hnew⟩
    · intro b r hr
      rcases alookup_append_inv b a s.keys.length r s.roots hr with h1 | ⟨_, _, h3⟩
      · obtain ⟨k, hk, hkr⟩ := hs.rootValid b r h1
        exact ⟨k, hold r k hk, hkr⟩
      · subst h3; exact ⟨_, hnew, rfl⟩
    · intro key id hl
      obtain ⟨k, hk, hnr⟩ := hs.idxNotRoot key id hl
      exact ⟨k, hold id k hk, hnr⟩
    · intro p pk so c hp hl
      by_cases hpl : p < s.keys.length
      · have : (withRoot s a).keys[p]? = s.keys[p]? := by simp [withRoot, List.getElem?_append_left hpl]
        rw [this] at hp
        obtain ⟨k, hk, hnr⟩ := hs.childNotRoot p pk so c hp hl
        exact ⟨k, hold c k hk, hnr⟩
      · have hpe : p = s.keys.length := by
          have : p < (withRoot s a).keys.length := (List.getElem?_eq_some_iff.mp hp).1
          simp [withRoot] at this; omega
        subst hpe
        rw [hnew] at hp; injection hp with hp; subst hp
        simp [alookup] at hl
    · intro b
      unfold balanceRecord
      by_cases hba : b = a
      · subst hba
        have h1 : alookup b (withRoot s b).roots = some s.keys.length := alookup_append_new _ _ _ hn
        rw [h1, hn]
        simp [hnew]
      · have h1 : alookup b (withRoot s a).roots = alookup b s.roots := alookup_append_ne b a _ hba s.roots
        rw [h1]
        cases hr : alookup b s.roots with
        | none => rfl
        | some r =>
          obtain ⟨k, hk, _⟩ := hs.rootValid b r hr
          simp only [Option.bind_some, hold r k hk, hk]

/-- the part of `saveKey` after the parent has been resolved to arena id `pid` in state `s1` -/
theorem regTail_inv (s1 : StateChanges) (hs : RootsApart s1) (a : Addr) (pid : Nat) (self : Word) (o : Nat) (ty : Word) (name : Bytes) :
    RootsApart
      (let cid := s1.keys.length
       let child : KeyNode := { slot := some self, offset := o, data := name, typeId := ty, nodeType := .branch }
       let r := addChild (s1.keys ++ [child]) pid cid self o name
       let s2 : StateChanges := { s1 with keys := r.1 }
       match r.1[r.2]? with
       | none => (s2, (none : Option String))
       | some rk => (s2.addKey a (rk.slot.getD 0) rk.offset rk.typeId r.2, none)).1 ∧
    ∀ b, balanceRecord
      (let cid := s1.keys.length
       let child : KeyNode := { slot := some self, offset := o, data := name, typeId := ty, nodeType := .branch }
       let r := addChild (s1.keys ++ [child]) pid cid self o name
       let s2 : StateChanges := { s1 with keys := r.1 }
       match r.1[r.2]? with
       | none => (s2, (none : Option String))
       | some rk => (s2.addKey a (rk.slot.getD 0) rk.offset rk.typeId r.2, none)).1 b = balanceRecord s1 b := by
  -- name the pieces
  simp only
  generalize hK : s1.keys ++ [({ slot := some self, offset := o, data := name, typeId := ty, nodeType := .branch } : KeyNode)] = K
  obtain ⟨hback, hfwd, hrid⟩ := addChild_spec K pid s1.keys.length self o name
  generalize hR : addChild K pid s1.keys.length self o name = R at hback hfwd hrid
  -- facts about K
  have hKold : ∀ (j : Nat) (k : KeyNode), s1.keys[j]? = some k → K[j]? = some k := by
    intro j k hk
    have hlt : j < s1.keys.length := (List.getElem?_eq_some_iff.mp hk).1
    rw [← hK, List.getElem?_append_left hlt]; exact hk
  have hKnew : K[s1.keys.length]? = some ({ slot := some self, offset := o, data := name, typeId := ty, nodeType := .branch } : KeyNode) := by
    rw [← hK]; simp
  have hKinv : ∀ (j : Nat) (k : KeyNode), K[j]? = some k → s1.keys[j]? = some k ∨
      (j = s1.keys.length ∧ k = ({ slot := some self, offset := o, data := name, typeId := ty, nodeType := .branch } : KeyNode)) := by
    intro j k hk
    by_cases hj : j < s1.keys.length
    · left; rw [← hK, List.getElem?_append_left hj] at hk; exact hk
    · right
      have hjl : j < K.length := (List.getElem?_eq_some_iff.mp hk).1
      have : j = s1.keys.length := by rw [← hK] at hjl; simp at hjl; omega
      subst this
      rw [hKnew] at hk; injection hk with hk; exact ⟨rfl, hk.symm⟩
  -- the invariant for the state with the new arena (before addKey)
  have hnonroot : ∀ (j : Nat) (k : KeyNode), s1.keys[j]? = some k → k.nodeType ≠ .root → ∃ k', R.1[j]? = some k' ∧ k'.nodeType ≠ .root := by
    intro j k hk hnr
    obtain ⟨k', hk', hnt, _⟩ := hfwd j k (hKold j k hk)
    exact ⟨k', hk', by rw [hnt]; exact hnr⟩
  have hcidnr : ∃ k', R.1[s1.keys.length]? = some k' ∧ k'.nodeType ≠ .root := by
    obtain ⟨k', hk', hnt, _⟩ := hfwd _ _ hKnew
    exact ⟨k', hk', by rw [hnt]; simp⟩
  have hS2 : RootsApart { s1 with keys := R.1 } := by
    refine ⟨?_, ?_, ?_⟩
    · intro b r hr
      obtain ⟨k, hk, hkr⟩ := hs.rootValid b r hr
      obtain ⟨k', hk', hnt, _⟩ := hfwd r k (hKold r k hk)
      exact ⟨k', hk', by rw [hnt]; exact hkr⟩
    · intro key id hl
      obtain ⟨k, hk, hnr⟩ := hs.idxNotRoot key id hl
      exact hnonroot id k hk hnr
    · intro p pk' so c hp hl
      obtain ⟨pk0, hpk0, _, _, hch⟩ := hback p pk' hp
      rcases hch so c hl with hold | ⟨hc, _⟩
      · rcases hKinv p pk0 hpk0 with h1 | ⟨_, h2⟩
        · obtain ⟨k, hk, hnr⟩ := hs.childNotRoot p pk0 so c h1 hold
          exact hnonroot c k hk hnr
        · subst h2; simp [alookup] at hold
      · subst hc; exact hcidnr
  have hbal : ∀ b, balanceRecord { s1 with keys := R.1 } b = balanceRecord s1 b := by
    intro b
    unfold balanceRecord
    show ((alookup b s1.roots).bind (fun r => R.1[r]?)).bind _ = _
    cases hr : alookup b s1.roots with
    | none => rfl
    | some r =>
      obtain ⟨k, hk, _⟩ := hs.rootValid b r hr
      obtain ⟨k', hk', _, hch⟩ := hfwd r k (hKold r k hk)
      simp only [Option.bind_some, hk', hk, hch]
  -- addKey
  cases hrk : R.1[R.2]? with
  | none => exact ⟨hS2, hbal⟩
  | some rk =>
    simp only [addKey]
    cases hl : alookup (a, rk.slot.getD 0, rk.offset, rk.typeId) s1.index with
    | some v => exact ⟨hS2, hbal⟩
    | none =>
      simp only
      refine ⟨⟨hS2.rootValid, ?_, hS2.childNotRoot⟩, hbal⟩
      intro key id hl2
      rcases alookup_append_inv key _ R.2 id s1.index hl2 with hold | ⟨_, _, hid⟩
      · exact hS2.idxNotRoot key id hold
      · subst hid
        rcases hrid with hc | ⟨pk, hpk, hex⟩
        · rw [hc]; exact hcidnr
        · rcases hKinv pid pk hpk with h1 | ⟨_, h2⟩
          · obtain ⟨k, hk, hnr⟩ := hs.childNotRoot pid pk (self, o) R.2 h1 hex
            exact hnonroot R.2 k hk hnr
          · subst h2; simp [alookup] at hex

/-- **a registration never touches a balance record** (accepted or refused, conflicting or not), and keeps the invariant -/
theorem saveKey_balance (s : StateChanges) (hs : RootsApart s) (a : Addr) (parent : Option Word) (self : Word) (off : Option Word)
    (ty pty : Word) (name : Bytes) :
    RootsApart (s.saveKey a parent self off ty pty name).1 ∧
    ∀ b, balanceRecord (s.saveKey a parent self off ty pty name).1 b = balanceRecord s b := by
  cases hco : checkOffset off with
  | none =>
    simp only [saveKey, hco]
    exact ⟨hs, fun b => trivial⟩
  | some o =>
    cases parent with
    | none =>
      obtain ⟨h1, h2, _⟩ := rootsApart_ensureRoot s hs a
      have h34 := regTail_inv (s.ensureRoot a).1 h1 a (s.ensureRoot a).2 self o ty name
      simp only at h34
      obtain ⟨h3, h4⟩ := h34
      simp only [saveKey, hco]
      exact ⟨h3, fun b => (h4 b).trans (h2 b)⟩
    | some p =>
      cases hp : s.findKey a p 0 pty with
      | none =>
        simp only [saveKey, hco, hp, Option.map_none]
        exact ⟨hs, fun b => trivial⟩
      | some pid =>
        have h34 := regTail_inv s hs a pid self o ty name
        simp only at h34
        obtain ⟨h3, h4⟩ := h34
        simp only [saveKey, hco, hp, Option.map_some]
        exact ⟨h3, h4⟩

/-- recording a balance keeps the invariant (the root stays a root; nothing else moves) -/
theorem saveBalance_apart (s : StateChanges) (hs : RootsApart s) (a : Addr) (bal i : Nat) : RootsApart (s.saveBalance a bal i) := by
  obtain ⟨h1, _, _⟩ := rootsApart_ensureRoot s hs a
  unfold saveBalance
  simp only
  generalize (s.ensureRoot a).1 = s1 at h1
  generalize (s.ensureRoot a).2 = r
  have hkeyF : ∀ (j : Nat) (k : KeyNode), s1.keys[j]? = some k → ∃ k', (s1.keys.modify r (fun k => k.journal i (minimalBytes bal)))[j]? = some k' ∧
      (k'.nodeType = .root ↔ k.nodeType = .root) ∧ k'.children = k.children := by
    intro j k hk
    refine ⟨_, modify_get _ r j _ k hk, ?_, ?_⟩ <;> by_cases h : r = j
    · simp only [h, if_true]; exact (journal_nodeType k i _).1
    · simp only [h, if_false]
    · simp only [h, if_true]; exact (journal_nodeType k i _).2
    · simp only [h, if_false]
  have hkeyB : ∀ (j : Nat) (k' : KeyNode), (s1.keys.modify r (fun k => k.journal i (minimalBytes bal)))[j]? = some k' →
      ∃ k, s1.keys[j]? = some k ∧ k'.children = k.children := by
    intro j k' hk'
    obtain ⟨k0, h0, hx⟩ := getElem_opt_modify_some' _ _ _ _ _ hk'
    refine ⟨k0, h0, ?_⟩
    by_cases h : r = j
    · simp only [h, if_true] at hx; subst hx; exact (journal_nodeType k0 i _).2
    · simp only [h, if_false] at hx; subst hx; rfl
  refine ⟨?_, ?_, ?_⟩
  · intro b r0 hr
    obtain ⟨k, hk, hkr⟩ := h1.rootValid b r0 hr
    obtain ⟨k', hk', hiff, _⟩ := hkeyF r0 k hk
    exact ⟨k', hk', hiff.mpr hkr⟩
  · intro key id hl
    obtain ⟨k, hk, hnr⟩ := h1.idxNotRoot key id hl
    obtain ⟨k', hk', hiff, _⟩ := hkeyF id k hk
    exact ⟨k', hk', fun h => hnr (hiff.mp h)⟩
  · intro p pk' so c hp hl
    obtain ⟨pk, hpk, hch⟩ := hkeyB p pk' hp
    rw [hch] at hl
    obtain ⟨k, hk, hnr⟩ := h1.childNotRoot p pk so c hpk hl
    obtain ⟨k', hk', hiff, _⟩ := hkeyF c k hk
    exact ⟨k', hk', fun h => hnr (hiff.mp h)⟩

theorem transferRecord_apart (t : Tracer) (hs : RootsApart t.states) (frm to : Addr) (bf bt af at_ : Nat) :
    RootsApart (t.transferRecord frm to bf bt af at_).states := by
  unfold Tracer.transferRecord
  simp only
  exact saveBalance_apart _ (saveBalance_apart _ (saveBalance_apart _ (saveBalance_apart _ hs _ _ _) _ _ _) _ _ _) _ _ _

/-! ### along every execution of the frame machine -/

open Frame in
theorem apart_step (st : FState) (h : RootsApart st.tracer.states) (ev : FEvent) : RootsApart (Frame.step st ev).tracer.states := by
  cases ev with
  | enter kind caller to value input gas f =>
    cases kind <;> simp only [Frame.step]
    · rw [c13_call_records_once]
      split
      · exact transferRecord_apart _ (by simpa [Tracer.saveCall] using h) _ _ _ _ _ _
      · exact h
    · rw [c13_other_kinds_silent]; exact h
    · rw [c13_other_kinds_silent]; exact h
    · rw [c13_other_kinds_silent]; exact h
    · rw [c13_create_records_once]
      split
      · exact transferRecord_apart _ (by simpa [Tracer.saveCall] using h) _ _ _ _ _ _
      · exact h
    · rw [c13_create_records_once]
      split
      · exact transferRecord_apart _ (by simpa [Tracer.saveCall] using h) _ _ _ _ _ _
      · exact h
  | effect id => rw [c13_effect_silent]; exact h
  | jkey parent slot off ty pty name =>
    simp only [Frame.step]
    split
    · exact h
    · exact (saveKey_balance st.tracer.states h _ parent slot off ty pty name).1
  | jchange slot off ty v =>
    simp only [Frame.step]
    split
    · exact h
    · exact (saveChange_balance st.tracer.states h _ slot off ty _ v).1
  | halt ret err gasLeft post =>
    simp only [Frame.step]
    split
    · exact h
    · rw [c13_halt_silent]; exact h

theorem apart_run (evs : List FEvent) : RootsApart (Frame.run {} evs).tracer.states := by
  have gen : ∀ (evs : List FEvent) (st : FState), RootsApart st.tracer.states → RootsApart (Frame.run st evs).tracer.states := by
    intro evs
    induction evs with
    | nil => intro st h; exact h
    | cons e es ih => intro st h; exact ih _ (apart_step st h e)
  exact gen evs {} rootsApart_empty

/-- **C13, nothing else, every event sequence**: after any execution, a journal instruction of the running frame — a
    registration or a change, accepted or refused, conflicting with earlier ones or not — leaves every account's balance
    record exactly as it was -/
theorem c13_journal_never_touches_balances (evs : List FEvent) (b : Addr) :
    (∀ parent slot off ty pty name,
      balanceRecord (Frame.step (Frame.run {} evs) (.jkey parent slot off ty pty name)).tracer.states b =
        balanceRecord (Frame.run {} evs).tracer.states b) ∧
    (∀ slot off ty v,
      balanceRecord (Frame.step (Frame.run {} evs) (.jchange slot off ty v)).tracer.states b =
        balanceRecord (Frame.run {} evs).tracer.states b) := by
  have h := apart_run evs
  constructor
  · intro parent slot off ty pty name
    simp only [Frame.step]
    split
    · rfl
    · exact (saveKey_balance _ h _ parent slot off ty pty name).2 b
  · intro slot off ty v
    simp only [Frame.step]
    split
    · rfl
    · exact (saveChange_balance _ h _ slot off ty _ v).2 b

/-- … and neither does anything else but the two prologues that transfer (C13Frame): CallCode / DelegateCall / StaticCall
    prologues, every epilogue and every world effect leave the whole tracer state or its `states` part untouched -/
theorem c13_only_transfers_write_balances (st : FState) (b : Addr) :
    (∀ kind caller to value input gas f, balanceRecord (Frame.enterOther st kind caller to value input gas f).tracer.states b = balanceRecord st.tracer.states b) ∧
    (∀ fr rest ret err gasLeft post, balanceRecord (Frame.haltFrame st fr rest ret err gasLeft post).tracer.states b = balanceRecord st.tracer.states b) ∧
    (∀ id, balanceRecord (Frame.step st (.effect id)).tracer.states b = balanceRecord st.tracer.states b) := by
  refine ⟨fun kind caller to value input gas f => ?_, fun fr rest ret err gasLeft post => ?_, fun id => ?_⟩
  · rw [c13_other_kinds_silent]
  · rw [c13_halt_silent]
  · rw [c13_effect_silent]

/-- non-vacuity: a call with value, then a registration and a change in the callee, leave the two balance records as the
    transfer bracket wrote them -/
example :
    let evs : List FEvent := [ .enter .call 0xca 0xc0 5 [] 1000 { balFrom := 9, balTo := 1, balFromAfter := 4, balToAfter := 6 },
                               .jkey none 3 (some 0) 7 0 [0x61], .jchange 3 (some 0) 7 [0xee] ]
    balanceRecord (Frame.run {} evs).tracer.states 0xca = some [(0, [[9], [4]])] ∧
    balanceRecord (Frame.run {} evs).tracer.states 0xc0 = some [(0, [[1], [6]])] := by decide +kernel

end Artela
