import Artela.Proofs.McopyStep
import Artela.Proofs.GenFacts
/-
  C15 — Cancun additions behave per EIP-1153 and EIP-5656.

  Specification side (EIP-5656), stated without machine arithmetic: `memmoveSpec`, `mcopyNewLen`, `mcopyCost`.
  Model side: `mcopyStep` (Model/Memory.lean), one interpreter step with exact uint64 arithmetic.
-/
namespace Artela

def ceil32 (n : Nat) : Nat := (n + 31) / 32 * 32

/-- EIP-5656 memory size after the instruction -/
def mcopyNewLen (memLen dst src len : Nat) : Nat :=
  if len = 0 then memLen else max memLen (ceil32 (max dst src + len))

/-- zero-extended memory -/
def zeroExt (m : Bytes) (n : Nat) : Bytes := m ++ List.replicate (n - m.length) 0

/-- overlap-safe memmove, pointwise: byte `i` of the result -/
def memmoveSpec (m : Bytes) (dst src len : Nat) (i : Nat) : Option UInt8 :=
  if dst ≤ i ∧ i < dst + len then m[src + (i - dst)]? else m[i]?

/-- EIP-5656 gas: 3 + 3·⌈len/32⌉ + Cmem(new) − Cmem(old) -/
def mcopyCost (oldLen newLen len : Nat) : Nat :=
  3 + 3 * ((len + 31) / 32) + (memFee (newLen / 32) - memFee (oldLen / 32))

/-- interpreter invariant on memory: word-aligned, fee cache in sync, below the gas cap -/
structure MemState.Inv (m : MemState) : Prop where
  aligned : m.store.length % 32 = 0
  fee     : m.lastGasCost = memFee (m.store.length / 32)
  small   : m.store.length ≤ 0x1FFFFFFFE0

theorem expand_eq_zeroExt (s : Bytes) (W : Nat) (h : s.length ≤ max s.length (W * 32)) :
    expand s (W * 32) = zeroExt s (max s.length (W * 32)) := by
  unfold expand zeroExt
  split
  · rename_i c; congr 2; omega
  · rename_i c
    have : max s.length (W * 32) - s.length = 0 := by omega
    rw [this]; simp

/-- **MCOPY is memmove with the EIP's size and gas**: whenever the step succeeds, for every `dst`, `src`, `len`
    (overlapping, adjacent, zero-length …) the new memory has the EIP's size, every byte is the memmove of the
    zero-extended old memory, the cost is the EIP's, and the invariant is kept. -/
theorem c15_mcopy_spec (m : MemState) (hinv : m.Inv) (gas : Nat) (dst src len : Word) (m' : MemState) (cost : Nat)
    (h : mcopyStep m gas dst src len = .ok (m', cost)) :
    m'.store.length = mcopyNewLen m.store.length dst src len ∧
    (∀ i, i < m'.store.length → m'.store[i]? = memmoveSpec (zeroExt m.store m'.store.length) dst src len i) ∧
    cost = mcopyCost m.store.length m'.store.length len ∧
    m'.Inv := by
  obtain ⟨hal, hfee, hsm⟩ := hinv
  by_cases hl : len = 0
  · subst hl
    rw [mcopyStep_zero] at h
    split at h
    · cases h
    · injection h with h
      have h1 := congrArg Prod.fst h
      have h2 := congrArg Prod.snd h
      simp only at h1 h2
      subst h1
      refine ⟨by simp [mcopyNewLen], ?_, ?_, ⟨hal, hfee, hsm⟩⟩
      · intro i hi
        unfold memmoveSpec zeroExt
        have : ¬ (dst ≤ i ∧ i < dst + 0) := by omega
        rw [if_neg this]; simp
      · unfold mcopyCost; omega
  · have hpos : 0 < len := by omega
    by_cases hr : max dst src + len ≤ 0x1FFFFFFFE0
    · rw [mcopyStep_pos m gas dst src len hpos hr hsm hal hfee] at h
      dsimp only at h
      generalize hW : (max dst src + len + 31) / 32 = W at *
      generalize hfv : (if W * 32 > m.store.length then memFee W - m.lastGasCost else 0) = feeV at h
      generalize hlv : (if W * 32 > m.store.length then memFee W else m.lastGasCost) = lastV at h
      by_cases hg : gas < 3
      · rw [if_pos hg] at h; cases h
      · rw [if_neg hg] at h
        by_cases hg2 : gas - 3 < feeV + (len + 31) / 32 * 3
        · rw [if_pos hg2] at h; cases h
        · rw [if_neg hg2] at h
          injection h with h
          have h1 := congrArg Prod.fst h
          have h2 := congrArg Prod.snd h
          simp only at h1 h2
          have hel := expand_length m.store (W * 32)
          have hdl : dst + len ≤ (expand m.store (W * 32)).length := by omega
          have hsl : src + len ≤ (expand m.store (W * 32)).length := by omega
          have hlen : m'.store.length = max m.store.length (W * 32) := by
            rw [← h1]; simp only
            rw [memmove_length _ dst src len hdl hsl, hel]
          have hc32 : ceil32 (max dst src + len) = W * 32 := by unfold ceil32; rw [hW]
          refine ⟨?_, ?_, ?_, ?_⟩
          · unfold mcopyNewLen; rw [if_neg hl, hc32]; exact hlen
          · intro i _
            rw [hlen, ← expand_eq_zeroExt m.store W (by omega), ← h1]
            simp only
            rw [memmove_pointwise _ dst src len hdl hsl]
            rfl
          · rw [← h2, hlen, ← hfv]
            unfold mcopyCost
            by_cases c : W * 32 > m.store.length
            · rw [if_pos c, hfee]
              have e1 : max m.store.length (W * 32) / 32 = W := by omega
              rw [e1]; omega
            · rw [if_neg c]
              have e1 : max m.store.length (W * 32) = m.store.length := by omega
              rw [e1]; omega
          · refine ⟨by rw [hlen]; omega, ?_, by rw [hlen]; omega⟩
            rw [hlen, ← h1]
            simp only
            rw [← hlv]
            by_cases c : W * 32 > m.store.length
            · rw [if_pos c]
              have e1 : max m.store.length (W * 32) / 32 = W := by omega
              rw [e1]
            · rw [if_neg c, hfee]
              have e1 : max m.store.length (W * 32) = m.store.length := by omega
              rw [e1]
    · obtain ⟨e, he⟩ := mcopyStep_out_of_range m gas dst src len hpos (by omega)
      rw [he] at h; cases h

/-- MCOPY never panics: for every memory satisfying the interpreter invariant, every gas and every operand triple
    (including operands ≥ 2^64 and sums that wrap) the step returns a state or an out-of-gas-class error. -/
theorem c15_mcopy_no_panic (m : MemState) (hinv : m.Inv) (gas : Nat) (dst src len : Word) :
    (mcopyStep m gas dst src len).isPanic = false := by
  by_cases hl : len = 0
  · subst hl; rw [mcopyStep_zero]; split <;> rfl
  · by_cases hr : max dst src + len ≤ 0x1FFFFFFFE0
    · rw [mcopyStep_pos m gas dst src len (by omega) hr hinv.small hinv.aligned hinv.fee]
      dsimp only
      by_cases hg : gas < 3
      · rw [if_pos hg]; rfl
      · rw [if_neg hg]
        generalize (if (max dst src + len + 31) / 32 * 32 > m.store.length then memFee ((max dst src + len + 31) / 32) - m.lastGasCost else 0) = feeV
        by_cases hg2 : gas - 3 < feeV + (len + 31) / 32 * 3
        · rw [if_pos hg2]; rfl
        · rw [if_neg hg2]; rfl
    · obtain ⟨e, he⟩ := mcopyStep_out_of_range m gas dst src len (by omega) (by omega)
      rw [he]; rfl

/-- out-of-range operands with non-zero length fail in the out-of-gas class (no partial copy) -/
theorem c15_mcopy_out_of_range (m : MemState) (gas : Nat) (dst src len : Word) (hl : 0 < len)
    (h : dst ≥ U64 ∨ src ≥ U64 ∨ len ≥ U64 ∨ max dst src + len ≥ U64) : ∃ e, mcopyStep m gas dst src len = .err e := by
  have hU := U64_eq
  exact mcopyStep_out_of_range m gas dst src len hl (by omega)

/-- zero length is a no-op costing 3 gas even with absurd offsets -/
theorem c15_mcopy_zero_length (m : MemState) (gas : Nat) (dst src : Word) (hg : 3 ≤ gas) :
    mcopyStep m gas dst src 0 = .ok (m, 3) := by
  rw [mcopyStep_zero, if_neg (by omega)]

/-! ### transient storage -/

/-- TSTORE in a read-only (static) frame returns the write-protection error before touching the store -/
theorem c15_tstore_static (t : Transient) (addr : Addr) (k v : Word) : tstore t true addr k v = .error "write protection" := rfl

/-- a successful TSTORE is read back by TLOAD at the same address and key, and no other (address, key) changes -/
theorem c15_tstore_tload (t t' : Transient) (addr : Addr) (k v : Word) (h : tstore t false addr k v = .ok t') :
    tload t' addr k = v ∧ ∀ a' k', (a', k') ≠ (addr, k) → tload t' a' k' = tload t a' k' := by
  unfold tstore at h
  simp only [Bool.false_eq_true, if_false] at h
  injection h with h
  subst h
  have hset : ∀ (l : Transient) (x : Addr × Word) (y : Word), alookup x (aset x y l) = some y := by
    intro l x y
    induction l with
    | nil => simp [aset, alookup]
    | cons hd tl ih =>
      obtain ⟨kk, vv⟩ := hd
      simp only [aset]
      by_cases c : kk = x
      · simp [c, alookup]
      · simp [c, alookup, ih]
  have hother : ∀ (l : Transient) (x z : Addr × Word) (y : Word), z ≠ x → alookup z (aset x y l) = alookup z l := by
    intro l x z y hz
    induction l with
    | nil => simp [aset, alookup]; intro h; exact absurd h.symm hz
    | cons hd tl ih =>
      obtain ⟨kk, vv⟩ := hd
      simp only [aset]
      by_cases c : kk = x
      · subst c
        simp only [if_true, alookup]
        have : ¬ (kk = z) := fun h => hz h.symm
        simp [this]
      · simp only [c, if_false, alookup]
        by_cases c2 : kk = z
        · simp [c2]
        · simp [c2, ih]
  constructor
  · unfold tload; rw [hset]; rfl
  · intro a' k' hne
    unfold tload; rw [hother _ _ _ _ hne]

/-- a frame that ends in failure (exceptional halt or REVERT) leaves transient storage exactly as at its entry,
    whatever it and its descendants stored: the caller continues on the entry state -/
theorem c15_transient_reverts (fuel : Nat) (sa : Addr) (ro : Bool) (kind : TKind) (target : Addr) (body rest : List TOp)
    (t : Transient) (obs : List TObs) :
    runTOps (fuel + 1) sa ro (.sub kind target body true :: rest) t obs =
      runTOps fuel sa ro rest t
        ((runTOps fuel (match kind with | .call | .static => target | .delegate | .callcode => sa) (ro || (kind == .static)) body t obs).2.2 ++ [.flag false]) := by
  simp only [runTOps]
  generalize runTOps fuel (match kind with | .call | .static => target | .delegate | .callcode => sa) (ro || (kind == .static)) body t obs = r
  obtain ⟨ok, t', obs'⟩ := r
  cases ok <;> simp

/-- fork gate and fees, regenerated from the running code -/
theorem c15_fork_gate :
    Gen.forkCancun.filter cancunOps = [⟨0x5c, "opTload", "-", "-", 100, 1, 1024⟩, ⟨0x5d, "opTstore", "-", "-", 100, 2, 1026⟩,
      ⟨0x5e, "opMcopy", "memoryCopierGas", "memoryMcopy", 3, 3, 1027⟩] ∧
    Gen.forkShanghai.filter cancunOps = [] ∧ Gen.forkLondon.filter cancunOps = [] ∧ Gen.forkBerlin.filter cancunOps = [] ∧
    Gen.forkFrontier.filter cancunOps = [] :=
  ⟨cancun_rows, pre_cancun_undefined_Shanghai, pre_cancun_undefined_London, pre_cancun_undefined_Berlin, pre_cancun_undefined_Frontier⟩

/-! ### non-vacuity -/

/-- an overlapping forward copy inside 64 bytes of memory: dst=1, src=0, len=33 expands to 64 bytes -/
example :
    let m : MemState := { store := List.replicate 32 7, lastGasCost := memFee 1 }
    (match mcopyStep m 1000 1 0 33 with
     | .ok (m', cost) => m'.store.length == 64 && cost == 3 + 3 * 2 + (memFee 2 - memFee 1) && m'.store.take 3 == [7, 7, 7] && m'.store[33]? == some 0
     | _ => false) = true := by decide +kernel

example : ({ store := List.replicate 32 7, lastGasCost := memFee 1 } : MemState).Inv :=
  ⟨by decide, by decide, by decide⟩

end Artela
