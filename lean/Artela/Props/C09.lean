import Artela.Model.Journal
import Artela.Spec.Solidity
import Artela.Proofs.BytesKit
import Artela.Proofs.JournalSafe
/-
  C09 — journaled values equal the decoded storage content at the moment of journaling.

  Specification side: `solPacked` / `solString` (Spec/Solidity.lean), written from Solidity's layout
  rules, independently of the code's expressions.  Model side: `Journal.exec .vv / .vr`
  (Model/Journal.lean), a transcription of `opValueChangeJournal` / `opReferenceChangeJournal`.
  Every storage word, slot, offset, width, string length and content is universally quantified.
-/
namespace Artela

/-! ### value journal (VVJNAL, 0xe6) -/

/-- For every storage word and every valid packed field `(off, width)` the value journal records
    exactly the bytes Solidity's packed layout assigns to that field, under `(contract, slot, off, typeId)`. -/
theorem c09_value_exact (env : JEnv) (tr : Tracer) (slot off width typeId : Word)
    (hv : validPacked off width) (hw : env.storage slot < W256) :
    Journal.exec .vv [slot, off, width, typeId] env tr =
      (liftKey (tr.saveStateChange env.contract slot (some off) typeId (solPacked (env.storage slot) off width)),
       { reads := 1 }) := by
  obtain ⟨h1, h2, h3⟩ := hv
  have hU := U64_eq
  have ho : off % U64 = off := Nat.mod_eq_of_lt (by omega)
  have hs : width % U64 = width := Nat.mod_eq_of_lt (by omega)
  have hlo : (32 - off - width) % U64 = 32 - off - width := Nat.mod_eq_of_lt (by omega)
  have hhi : (32 - off) % U64 = 32 - off := Nat.mod_eq_of_lt (by omega)
  simp only [Journal.exec, ho, hs, hlo, hhi]
  have c1 : ¬ (off ≥ U64 ∨ off > 31) := by omega
  have c2 : ¬ (width ≥ U64 ∨ width > 32 - off) := by omega
  rw [if_neg c1, if_neg c2]
  obtain ⟨hi, hhi⟩ : ∃ hi, 32 = hi + width + off := ⟨32 - off - width, by omega⟩
  have e1 : 32 - off - width = hi := by omega
  have e2 : 32 - off = hi + width := by omega
  rw [e1, e2]
  have hb : bytes32 (env.storage slot) = beBytes (hi + width + off) (env.storage slot) := by
    unfold bytes32
    rw [Nat.mod_eq_of_lt hw, ← hhi]
  have hg : goSlice (bytes32 (env.storage slot)) 32 hi (hi + width)
      = .ok (solPacked (env.storage slot) off width) := by
    unfold goSlice
    have hc : (hi ≤ hi + width ∧ hi + width ≤ 32) := ⟨by omega, by omega⟩
    rw [if_pos hc]
    have hl : (bytes32 (env.storage slot)).length = 32 := by unfold bytes32; simp
    rw [hl, Nat.sub_self, List.replicate_zero, List.append_nil]
    rw [hb, beBytes_extract]
    rfl
  rw [hg]

/-- Operands that do not denote a valid packed field are rejected with an error (the tracer is not
    touched: an `err` outcome carries no tracer). -/
theorem c09_value_rejects (env : JEnv) (tr : Tracer) (slot off width typeId : Word)
    (hv : ¬ validPacked off width) :
    ∃ e w, Journal.exec .vv [slot, off, width, typeId] env tr = (.err e, w) := by
  have hU := U64_eq
  simp only [Journal.exec]
  split
  · exact ⟨_, _, rfl⟩
  · rename_i c1
    split
    · exact ⟨_, _, rfl⟩
    · rename_i c2
      exfalso
      apply hv
      have ho2 : off % U64 = off := Nat.mod_eq_of_lt (by omega)
      have hw2 : width % U64 = width := Nat.mod_eq_of_lt (by omega)
      rw [ho2] at c1 c2
      rw [hw2] at c2
      unfold validPacked; omega

/-! ### reference journal (VRJNAL, 0xe7) -/

theorem readSlots_eq_solDataArea (st : Word → Word) (k : Word) : ∀ n, readSlots st k n = solDataArea st k n
  | 0 => rfl
  | n + 1 => by simp only [readSlots, solDataArea, readSlots_eq_solDataArea st k n]; rfl

theorem solDataArea_length (st : Word → Word) (k : Word) : ∀ n, (solDataArea st k n).length = 32 * n
  | 0 => rfl
  | n + 1 => by simp [solDataArea, solDataArea_length st k n]; omega

theorem solDataArea_prefix (st : Word → Word) (k : Word) (n : Nat) :
    ∀ m, ∃ tl, solDataArea st k (n + m) = solDataArea st k n ++ tl
  | 0 => ⟨[], by simp⟩
  | m + 1 => by
    obtain ⟨tl, h⟩ := solDataArea_prefix st k n m
    refine ⟨tl ++ beBytes 32 (st ((k + (n + m)) % W256) % W256), ?_⟩
    have : n + (m + 1) = (n + m) + 1 := by omega
    rw [this]
    simp only [solDataArea]
    rw [h, List.append_assoc]

theorem slotCount_bounds (len : Nat) (hl : len ≤ U64 - 32) : len ≤ 32 * slotCount len ∧ slotCount len ≤ len / 32 + 1 := by
  have hU := U64_eq
  unfold slotCount; rw [Nat.mod_eq_of_lt (by omega)]; omega

/-- the model's read of `⌈len/32⌉` slots, cut to `len`, is the specification's data area cut to `len` -/
theorem take_dataArea (st : Word → Word) (k : Word) (len : Nat) (hl : len ≤ U64 - 32) :
    (solDataArea st k (slotCount len)).take len = (solDataArea st k (len / 32 + 1)).take len := by
  obtain ⟨h1, h2⟩ := slotCount_bounds len hl
  obtain ⟨tl, h⟩ := solDataArea_prefix st k (slotCount len) (len / 32 + 1 - slotCount len)
  have : slotCount len + (len / 32 + 1 - slotCount len) = len / 32 + 1 := by omega
  rw [this] at h
  rw [h, List.take_append_of_le_length (by rw [solDataArea_length]; exact h1)]

theorem goSlice_take (s : Bytes) (cap len : Nat) (h1 : len ≤ s.length) (h2 : s.length ≤ cap) :
    goSlice s cap 0 len = .ok (s.take len) := by
  unfold goSlice
  rw [if_pos ⟨by omega, by omega⟩]
  congr 1
  rw [List.extract_eq_take_drop]
  simp only [Nat.sub_zero, List.drop_zero]
  exact List.take_append_of_le_length h1

theorem take_bytes32_mask (w len : Nat) (hw : w < W256) (hl : len ≤ 31) :
    (bytes32 (w - w % 256)).take len = (beBytes 32 (w % W256)).take len := by
  unfold bytes32
  rw [Nat.mod_eq_of_lt hw, Nat.mod_eq_of_lt (Nat.lt_of_le_of_lt (Nat.sub_le _ _) hw)]
  have h32 : (32 : Nat) = 31 + 1 := rfl
  rw [h32, beBytes_take_high 31 1 _ len hl, beBytes_take_high 31 1 _ len hl]
  congr 2
  simp only [Nat.pow_one]
  omega

/-- For every stored bytes/string — any length (empty, the 31/32 boundary, multi-slot), any content
    (leading zero bytes included), any slot number — whose length word is a valid encoding, the reference
    journal records exactly the string's content. -/
theorem c09_string_exact (env : JEnv) (tr : Tracer) (slot typeId : Word) (b : Bytes)
    (hst : env.storage slot < W256)
    (hcap : ∀ n, n ≤ env.appendCap n)
    (hlen : env.storage slot / 2 ≤ U64 - 32)
    (h : solString env.storage env.keccak slot = some b) :
    (Journal.exec .vr [slot, typeId] env tr).1 =
      liftKey (tr.saveStateChange env.contract slot none typeId b) := by
  simp only [Journal.exec]
  unfold solString at h
  by_cases hodd : env.storage slot % 2 = 1
  · -- long (out-of-place) form
    have e1 : (env.storage slot - 1) / 2 = env.storage slot / 2 := by omega
    simp only [hodd, if_true, e1] at h
    rw [extractStorageLen_odd _ hodd hlen]
    by_cases c : env.storage slot / 2 ≥ 32
    · simp only [c, if_true] at h ⊢
      have c' : ¬ (env.storage slot / 2 < 32) := by omega
      simp only [c', if_false]
      rw [readSlots_eq_solDataArea]
      have hl := slotCount_bounds (env.storage slot / 2) hlen
      rw [goSlice_take _ _ _ (by rw [solDataArea_length]; exact hl.1) (hcap _)]
      simp only
      rw [take_dataArea _ _ _ hlen]
      have hb : b = (solDataArea env.storage (env.keccak (beBytes 32 (slot % W256))) (env.storage slot / 2 / 32 + 1)).take (env.storage slot / 2) := by
        exact (Option.some.inj h).symm
      rw [hb]; rfl
    · simp [c] at h
  · -- short (in-place) form
    have hev : env.storage slot % 2 = 0 := by omega
    have hne : ¬ (env.storage slot % 2 = 1) := hodd
    simp only [hne, if_false] at h
    rw [extractStorageLen_even _ hev]
    by_cases c : env.storage slot % 256 / 2 < 32
    · simp only [c, if_true] at h ⊢
      have hl : (bytes32 (env.storage slot - env.storage slot % 256)).length = 32 := by unfold bytes32; simp
      rw [goSlice_take _ _ _ (by rw [hl]; omega) (by rw [hl]; exact Nat.le_refl _)]
      simp only
      have hb : b = (beBytes 32 (env.storage slot % W256)).take (env.storage slot % 256 / 2) := by
        exact (Option.some.inj h).symm
      rw [hb, take_bytes32_mask _ _ hst (by omega)]
    · simp [c] at h

/-- A length word that is not a valid string encoding is rejected with an error; nothing is recorded. -/
theorem c09_string_rejects (env : JEnv) (tr : Tracer) (slot typeId : Word)
    (h : solString env.storage env.keccak slot = none) :
    ∃ e w, Journal.exec .vr [slot, typeId] env tr = (.err e, w) := by
  simp only [Journal.exec]
  unfold solString at h
  by_cases hodd : env.storage slot % 2 = 1
  · have e1 : (env.storage slot - 1) / 2 = env.storage slot / 2 := by omega
    simp only [hodd, if_true, e1] at h
    have c : ¬ (env.storage slot / 2 ≥ 32) := by
      intro c; simp [c] at h
    have : extractStorageLen (env.storage slot) = .error "storage encoding error" := by
      unfold extractStorageLen
      have : env.storage slot / 2 < 32 := by omega
      simp [hodd, this]
    rw [this]; exact ⟨_, _, rfl⟩
  · have hev : env.storage slot % 2 = 0 := by omega
    simp only [hodd, if_false] at h
    have c : ¬ (env.storage slot % 256 / 2 < 32) := by
      intro c; simp [c] at h
    rw [extractStorageLen_even _ hev]
    simp only [c, if_false]
    exact ⟨_, _, rfl⟩

/-- A long-form length above 2^64 - 32 cannot be loaded — its slot count `(len+31)/32` would wrap around in uint64 arithmetic
    (`c09_slotcount_wraps`) — and is rejected (the guard `hlen` of `c09_string_exact`; repair D21 for the lengths below 2^64). -/
theorem c09_string_huge_rejected (env : JEnv) (tr : Tracer) (slot typeId : Word)
    (hodd : env.storage slot % 2 = 1) (hl : env.storage slot / 2 > U64 - 32) :
    ∃ e w, Journal.exec .vr [slot, typeId] env tr = (.err e, w) := by
  simp only [Journal.exec]
  rw [extractStorageLen_huge _ hodd hl]; exact ⟨_, _, rfl⟩

/-- why the guard is needed: for the largest 64-bit length the code's slot count is 0 (before the repair the empty result was
    then cut to that length: a slice-bounds panic) -/
theorem c09_slotcount_wraps : slotCount (U64 - 1) = 0 ∧ slotCount (U64 - 31) = 0 ∧ slotCount (U64 - 32) = U64 / 32 - 1 := by
  decide

/-! ### non-vacuity: concrete states meeting the hypotheses -/

/-- a packed `uint16` at offset 2 of a word -/
example : validPacked 2 2 ∧ solPacked 0x11223344 2 2 = [0x11, 0x22] := by decide

/-- a 3-byte string with a leading zero byte stored in place: `00 41 42`, length byte `2·3` -/
example : solString (fun _ => 0x0041420000000000000000000000000000000000000000000000000000000006) (fun _ => 0) 5
    = some [0x00, 0x41, 0x42] := by decide

/-- negation witness for the unrepaired code's behaviour (`Int.Bytes()` dropped leading zeros): the
    minimal big-endian form of the masked word starts with `41`, not `00`. -/
theorem c09_witness_minimal_bytes_shift :
    (minimalBytes 0x0041420000000000000000000000000000000000000000000000000000000000).take 3 ≠
      (beBytes 32 0x0041420000000000000000000000000000000000000000000000000000000000).take 3 := by decide

end Artela
