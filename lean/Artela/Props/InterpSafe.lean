import Artela.Model.Interp
import Artela.Props.InterpGas
import Artela.Props.InterpHalts
import Artela.Proofs.JournalSafe
import Artela.Proofs.MemoryKit
import Artela.Proofs.McopyStep
namespace Artela
namespace Interp
variable {World : Type}

/-! ### stack effect of every instruction -/

def Instr.pops : Instr → Nat
  | .stop => 0 | .bin _ => 2 | .iszero => 1 | .not => 1 | .addmod => 3 | .mulmod => 3 | .exp => 2 | .env _ => 0
  | .calldataload => 1 | .calldatacopy => 3 | .codecopy => 3 | .returndatasize => 0 | .returndatacopy => 3
  | .pop => 1 | .mload => 1 | .mstore => 2 | .mstore8 => 2 | .jump => 1 | .jumpi => 2 | .pc => 0 | .msize => 0 | .gas => 0
  | .jumpdest => 0 | .mcopy => 3 | .keccak => 2 | .tload => 1 | .tstore => 2 | .push _ => 0 | .dup n => n | .swap n => n + 1 | .ret => 2 | .revert => 2
  | .journal j => j.arity

def Instr.pushes : Instr → Nat
  | .stop => 0 | .bin _ => 1 | .iszero => 1 | .not => 1 | .addmod => 1 | .mulmod => 1 | .exp => 1 | .env _ => 1
  | .calldataload => 1 | .calldatacopy => 0 | .codecopy => 0 | .returndatasize => 1 | .returndatacopy => 0
  | .pop => 0 | .mload => 1 | .mstore => 0 | .mstore8 => 0 | .jump => 0 | .jumpi => 0 | .pc => 1 | .msize => 1 | .gas => 1
  | .jumpdest => 0 | .mcopy => 0 | .keccak => 1 | .tload => 1 | .tstore => 0 | .push _ => 1 | .dup n => n + 1 | .swap n => n + 1 | .ret => 0 | .revert => 0
  | .journal _ => 0

theorem exec_stack {env : IEnv World} {i : Instr} {s s' : IState World} (h : exec env i s = .next s') :
    s'.stack.length + i.pops = s.stack.length + i.pushes := by
  cases i <;> simp only [exec, IState.cont, stackPanic] at h <;> (repeat' split at h) <;>
    simp_all [Instr.pops, Instr.pushes] <;> (try (subst h; simp)) <;> (try (cases h; simp)) <;> (try omega)

/-! ### what the dynamic part leaves untouched, and what it guarantees about memory -/

theorem dynPart_frame {op : Nat} {row : Row} {s s1 : IState World} (h : dynPart op row s = .next s1) :
    s1.stack = s.stack ∧ s1.pc = s.pc ∧ s1.rdata = s.rdata ∧ s1.readOnly = s.readOnly ∧ s1.world = s.world ∧
    s1.tr = s.tr ∧ s.mem.length ≤ s1.mem.length := by
  unfold dynPart at h
  split at h
  · cases h; simp
  · split at h
    · cases h
    · cases h
    · unfold gasPart at h
      (repeat' split at h) <;> first | cases h | skip
      all_goals (simp [memResize]; try (split <;> simp))

/-- the memory ceiling the gas schedule enforces (`memoryGasCost` refuses anything larger) -/
def memCeil : Nat := 0x1FFFFFFFE0

theorem memoryGasCost_bound {len last m g l : Nat} (h : memoryGasCost len last m = some (g, l)) : m ≤ memCeil := by
  unfold memoryGasCost at h
  (repeat' split at h) <;> simp_all [memCeil] <;> omega

theorem gasMcopy_bound {len last m g l : Nat} {w : Word} (h : gasMcopy len last m w = some (g, l)) : m ≤ memCeil := by
  unfold gasMcopy at h
  split at h
  · cases h
  · rename_i g' l' hm; exact memoryGasCost_bound hm

theorem words_cover {n : Nat} (h : toWordSize n * 32 < U64) : n ≤ toWordSize n * 32 ∧ (n = 0 ↔ toWordSize n * 32 = 0) := by
  have hU := U64_eq
  have hM := maxU64_eq
  unfold toWordSize at *
  split at h <;> rename_i hc
  · rw [hM] at h hc; omega
  · rw [if_neg hc]; omega

/-- a row of a memory instruction: the expected size function and one of the two gas functions that charge for memory -/
def memDyn (row : Row) : Prop := row.dyn = "pureMemoryGascost" ∨ row.dyn = "memoryCopierGas" ∨ row.dyn = "gasKeccak256"

theorem dynGas_mem_bound {name : String} (hd : name = "pureMemoryGascost" ∨ name = "memoryCopierGas" ∨ name = "gasKeccak256")
    {st : List Word} {len last m c l : Nat} (h : dynGasOf name st len last m = .cost c l) : m ≤ memCeil := by
  rcases hd with hd | hd | hd <;> subst hd <;> simp only [dynGasOf] at h
  · simp at h
    cases hg : memoryGasCost len last m with
    | none => rw [hg] at h; cases h
    | some gl => obtain ⟨g, l'⟩ := gl; exact memoryGasCost_bound hg
  · simp at h
    cases hb : back st 2 with
    | none => rw [hb] at h; cases h
    | some w =>
      rw [hb] at h; dsimp only at h
      cases hg : gasMcopy len last m w with
      | none => rw [hg] at h; cases h
      | some gl => obtain ⟨g, l'⟩ := gl; exact gasMcopy_bound hg
  · simp at h
    cases hb : back st 1 with
    | none => rw [hb] at h; cases h
    | some w =>
      rw [hb] at h; dsimp only at h
      cases hg : memoryGasCost len last m with
      | none => rw [hg] at h; cases h
      | some gl => obtain ⟨g, l'⟩ := gl; exact memoryGasCost_bound hg

/-- after the dynamic part of a memory row the requested range lies inside memory, below the ceiling -/
theorem dynPart_covers {op : Nat} {row : Row} {s s1 : IState World} (hd : memDyn row) (hm : row.mem ≠ "-")
    (h : dynPart op row s = .next s1) {msz : Nat} {ovf : Bool}
    (hs : memSizeOf row.mem s.stack = some (some (msz, ovf))) (hinv : s.mem.length ≤ memCeil) :
    ovf = false ∧ msz ≤ memCeil ∧ msz ≤ s1.mem.length ∧ s1.mem.length ≤ memCeil ∧ (msz = 0 → s1.mem = s.mem) := by
  have hdash : row.dyn ≠ "-" := by rcases hd with h | h | h <;> rw [h] <;> decide
  unfold dynPart at h
  rw [if_neg hdash] at h
  unfold memPart at h
  rw [if_neg hm, hs] at h
  dsimp only at h
  by_cases ho : ovf = true
  · rw [if_pos ho] at h; cases h
  · rw [if_neg ho] at h
    by_cases hw : toWordSize msz * 32 ≥ U64
    · rw [if_pos hw] at h; cases h
    · rw [if_neg hw] at h
      dsimp only at h
      have hc := words_cover (n := msz) (by omega)
      unfold gasPart at h
      cases hdyn : dynGasOf row.dyn s.stack s.mem.length s.last (toWordSize msz * 32) with
      | unmodelled => rw [hdyn] at h; cases h
      | stackPanic => rw [hdyn] at h; cases h
      | overflow => rw [hdyn] at h; cases h
      | cost c l =>
        rw [hdyn] at h; dsimp only at h
        have hb := dynGas_mem_bound hd hdyn
        by_cases hg : s.gas < c
        · rw [if_pos hg] at h; cases h
        · rw [if_neg hg] at h
          cases h
          refine ⟨by simpa using ho, by omega, ?_, ?_, ?_⟩
          · dsimp only
            split
            · simp only [memResize]; split
              · simp; omega
              · omega
            · omega
          · dsimp only
            split
            · simp only [memResize]; split
              · simp; omega
              · omega
            · exact hinv
          · intro h0
            have := hc.2.mp h0
            dsimp only
            rw [if_neg (by omega)]

/-! ### the memory primitives inside the allocated memory -/

theorem memCeil_eq : memCeil = 137438953440 := by decide

theorem writeAt_length (store : Bytes) (off room : Nat) (v : Bytes) (h : off + room ≤ store.length) :
    (writeAt store off room v).length = store.length := by
  unfold writeAt
  simp only [List.length_append, List.length_take, List.length_drop]
  omega

theorem memGetPtr_inside (store : Bytes) (off size : Nat) (h : off + size ≤ store.length) (hb : store.length ≤ memCeil) :
    ∃ d, memGetPtr store off size = .ok d := by
  have hC := memCeil_eq
  unfold memGetPtr
  dsimp only
  rw [toInt64_small off (by omega), toInt64_small size (by omega)]
  by_cases hz : size = 0
  · subst hz; exact ⟨[], by simp⟩
  · rw [if_neg (by omega)]
    rw [if_pos (by omega)]
    rw [if_neg (by omega), addInt64_small off size (by omega)]
    rw [if_neg (by omega)]
    simp only [Int.toNat_natCast]
    exact goSlice_ok _ _ _ _ ⟨by omega, by omega⟩

theorem memSet_inside (store : Bytes) (off size : Nat) (v : Bytes) (h : off + size ≤ store.length) (hb : store.length ≤ memCeil) :
    ∃ m, memSet store off size v = .ok m ∧ m.length = store.length := by
  have hC := memCeil_eq
  have hU := U64_eq
  unfold memSet
  by_cases hz : size = 0
  · rw [if_pos hz]; exact ⟨store, rfl, rfl⟩
  · rw [if_neg hz]
    have hm : (off + size) % U64 = off + size := Nat.mod_eq_of_lt (by omega)
    rw [hm, if_neg (by omega), if_neg (by omega)]
    exact ⟨_, rfl, writeAt_length _ _ _ _ h⟩

theorem memSet32_inside (store : Bytes) (off : Nat) (val : Word) (h : off + 32 ≤ store.length) (hb : store.length ≤ memCeil) :
    ∃ m, memSet32 store off val = .ok m ∧ m.length = store.length := by
  have hC := memCeil_eq
  have hU := U64_eq
  unfold memSet32
  have hm : (off + 32) % U64 = off + 32 := Nat.mod_eq_of_lt (by omega)
  rw [hm, if_neg (by omega), if_neg (by omega)]
  exact ⟨_, rfl, writeAt_length _ _ _ _ (by omega)⟩

theorem getData_safe (data : Bytes) (start size : Nat) (hd : data.length < 2 ^ 62) (hs : size < 2 ^ 62) :
    ∃ d, getData data start size = .ok d := by
  have hU := U64_eq
  unfold getData
  dsimp only
  generalize hst : (if start > data.length then data.length else start) = st
  have hst' : st ≤ data.length := by rw [← hst]; split <;> omega
  have hm : (st + size) % U64 = st + size := Nat.mod_eq_of_lt (by omega)
  rw [hm]
  obtain ⟨v, hv⟩ := goSlice_ok data data.length st (if st + size > data.length then data.length else st + size)
    ⟨by split <;> omega, by split <;> omega⟩
  rw [hv]; exact ⟨_, rfl⟩

theorem memCopyGo_safe (store : Bytes) (dst src len : Nat) (hd : len = 0 ∨ (dst + len ≤ store.length ∧ src + len ≤ store.length))
    (hb : store.length ≤ memCeil) : ∃ m, memCopyGo store store.length dst src len = .ok m ∧ m.length = store.length := by
  have hC := memCeil_eq
  have hU := U64_eq
  by_cases hz : len = 0
  · subst hz; exact ⟨store, by simp [memCopyGo], rfl⟩
  · rcases hd with h0 | ⟨h1, h2⟩
    · exact absurd h0 hz
    · rw [memCopyGo_inside store dst src len (by omega) h1 h2 (by omega)]
      refine ⟨_, rfl, ?_⟩
      simp only [List.length_append, List.length_take, List.length_drop, List.extract_eq_take_drop]
      omega

/-! ### no instruction panics once its row's checks have passed -/

def memName : Instr → String
  | .mload => "memoryMLoad" | .mstore => "memoryMStore" | .mstore8 => "memoryMStore8"
  | .calldatacopy => "memoryCallDataCopy" | .codecopy => "memoryCodeCopy" | .returndatacopy => "memoryReturnDataCopy"
  | .mcopy => "memoryMcopy" | .ret => "memoryReturn" | .revert => "memoryRevert" | .keccak => "memoryKeccak256" | _ => "-"

/-- what Go guarantees about the frame's byte slices, and what the journal instructions need of their view -/
structure EnvOK (env : IEnv World) : Prop where
  input : env.input.length < 2 ^ 62
  code  : env.code.length < 2 ^ 62
  jenv  : ∀ w m, m.length ≤ memCeil → (env.mkEnv w m).WF

/-- the range the instruction's memory-size function asks for lies inside memory -/
def Covered (i : Instr) (s : IState World) : Prop :=
  ∀ msz ovf, memSizeOf (memName i) s.stack = some (some (msz, ovf)) → ovf = false ∧ msz ≤ memCeil ∧ msz ≤ s.mem.length

theorem calcMemSize64_ok {off len msz : Nat} (h : calcMemSize64 off len = (msz, false)) :
    (len = 0 ∧ msz = 0) ∨ (0 < len ∧ off < U64 ∧ len < U64 ∧ msz = off + len) := by
  have hU := U64_eq
  unfold calcMemSize64 at h
  split at h
  · cases h
  · split at h
    · rename_i h0; cases h; exact Or.inl ⟨h0, rfl⟩
    · split at h
      · cases h
      · rename_i h1 h2 h3
        simp only [Prod.mk.injEq, decide_eq_false_iff_not] at h
        right
        obtain ⟨hv, hlt⟩ := h
        rw [hU] at *
        refine ⟨by omega, by omega, by omega, ?_⟩
        omega

theorem ge1 {α} {l : List α} (h : 1 ≤ l.length) : ∃ a r, l = a :: r := by
  cases l with
  | nil => simp at h
  | cons a r => exact ⟨a, r, rfl⟩
theorem ge2 {α} {l : List α} (h : 2 ≤ l.length) : ∃ a b r, l = a :: b :: r := by
  obtain ⟨a, r, rfl⟩ := ge1 (l := l) (by omega)
  obtain ⟨b, r', rfl⟩ := ge1 (l := r) (by simp at h; omega)
  exact ⟨a, b, r', rfl⟩
theorem ge3 {α} {l : List α} (h : 3 ≤ l.length) : ∃ a b c r, l = a :: b :: c :: r := by
  obtain ⟨a, b, r, rfl⟩ := ge2 (l := l) (by omega)
  obtain ⟨c, r', rfl⟩ := ge1 (l := r) (by simp at h; omega)
  exact ⟨a, b, c, r', rfl⟩

def Out.notPanic {σ} : Out σ → Prop
  | .panic _ => False
  | _ => True

/-- the two things the safety proof carries through `execute`: no panic, and memory / return data keep their length -/
def ExecSafe (env : IEnv World) (i : Instr) (s : IState World) : Prop :=
  (exec env i s).notPanic ∧ ∀ s', exec env i s = .next s' → s'.mem.length = s.mem.length ∧ s'.rdata = s.rdata

theorem exec_safe (env : IEnv World) (hE : EnvOK env) (i : Instr) (s : IState World) (hst : i.pops ≤ s.stack.length)
    (hn : ∀ n, (i = .dup n ∨ i = .swap n) → 1 ≤ n) (hcov : Covered i s) (hinv : s.mem.length ≤ memCeil) :
    ExecSafe env i s := by
  have hU := U64_eq
  have hC := memCeil_eq
  unfold ExecSafe
  cases i with
  | stop => simp [exec, Out.notPanic]
  | bin f =>
    obtain ⟨x, y, r, hl⟩ := ge2 (l := s.stack) (by simpa [Instr.pops] using hst)
    simp only [exec, hl, IState.cont, Out.notPanic, true_and]
    intro s' h; cases h; simp
  | iszero =>
    obtain ⟨x, r, hl⟩ := ge1 (l := s.stack) (by simpa [Instr.pops] using hst)
    simp only [exec, hl, IState.cont, Out.notPanic, true_and]
    intro s' h; cases h; simp
  | not =>
    obtain ⟨x, r, hl⟩ := ge1 (l := s.stack) (by simpa [Instr.pops] using hst)
    simp only [exec, hl, IState.cont, Out.notPanic, true_and]
    intro s' h; cases h; simp
  | addmod =>
    obtain ⟨x, y, z, r, hl⟩ := ge3 (l := s.stack) (by simpa [Instr.pops] using hst)
    simp only [exec, hl, IState.cont, Out.notPanic, true_and]
    intro s' h; cases h; simp
  | mulmod =>
    obtain ⟨x, y, z, r, hl⟩ := ge3 (l := s.stack) (by simpa [Instr.pops] using hst)
    simp only [exec, hl, IState.cont, Out.notPanic, true_and]
    intro s' h; cases h; simp
  | exp =>
    obtain ⟨x, y, r, hl⟩ := ge2 (l := s.stack) (by simpa [Instr.pops] using hst)
    simp only [exec, hl, IState.cont, Out.notPanic, true_and]
    intro s' h; cases h; simp
  | env e =>
    simp only [exec, IState.cont, Out.notPanic, true_and]
    intro s' h; cases h; simp
  | calldataload =>
    obtain ⟨x, r, hl⟩ := ge1 (l := s.stack) (by simpa [Instr.pops] using hst)
    simp only [exec, hl, IState.cont]
    by_cases hx : x ≥ U64
    · rw [if_pos hx]; simp only [Out.notPanic, true_and]; intro s' h; cases h; simp
    · rw [if_neg hx]
      obtain ⟨d, hd⟩ := getData_safe env.input x 32 hE.input (by omega)
      rw [hd]; simp only [Out.notPanic, true_and]; intro s' h; cases h; simp
  | returndatasize =>
    simp only [exec, IState.cont, Out.notPanic, true_and]
    intro s' h; cases h; simp
  | pop =>
    obtain ⟨x, r, hl⟩ := ge1 (l := s.stack) (by simpa [Instr.pops] using hst)
    simp only [exec, hl, IState.cont, Out.notPanic, true_and]
    intro s' h; cases h; simp
  | jump =>
    obtain ⟨x, r, hl⟩ := ge1 (l := s.stack) (by simpa [Instr.pops] using hst)
    simp only [exec, hl]
    (repeat' split) <;> simp [Out.notPanic] <;> (intro s' h; cases h; simp)
  | jumpi =>
    obtain ⟨x, y, r, hl⟩ := ge2 (l := s.stack) (by simpa [Instr.pops] using hst)
    simp only [exec, hl, IState.cont]
    (repeat' split) <;> simp [Out.notPanic] <;> (intro s' h; cases h; simp)
  | pc => simp only [exec, IState.cont, Out.notPanic, true_and]; intro s' h; cases h; simp
  | msize => simp only [exec, IState.cont, Out.notPanic, true_and]; intro s' h; cases h; simp
  | gas => simp only [exec, IState.cont, Out.notPanic, true_and]; intro s' h; cases h; simp
  | jumpdest => simp only [exec, IState.cont, Out.notPanic, true_and]; intro s' h; cases h; simp
  | push n => simp only [exec, IState.cont, Out.notPanic, true_and]; intro s' h; cases h; simp
  | dup n =>
    have h1 := hn n (Or.inl rfl)
    obtain ⟨m, rfl⟩ : ∃ m, n = m + 1 := ⟨n - 1, by omega⟩
    have hlen : m < s.stack.length := by simp [Instr.pops] at hst; omega
    obtain ⟨v, hb⟩ : ∃ v, back s.stack (m + 1 - 1) = some v := ⟨s.stack[m], by simp [back, List.getElem?_eq_getElem hlen]⟩
    simp only [exec, hb, IState.cont, Out.notPanic, true_and]
    intro s' h; cases h; simp
  | swap n =>
    have h1 := hn n (Or.inr rfl)
    have hlen : n < s.stack.length := by simp [Instr.pops] at hst; omega
    obtain ⟨top, r, hl⟩ := ge1 (l := s.stack) (by omega)
    obtain ⟨v, hb⟩ : ∃ v, back s.stack n = some v := ⟨s.stack[n], by simp [back, List.getElem?_eq_getElem hlen]⟩
    rw [hl] at hb
    simp only [exec, hl, hb, IState.cont]
    rw [if_neg (by omega)]
    simp only [Out.notPanic, true_and]
    intro s' h; cases h; simp
  | mload =>
    obtain ⟨off, r, hl⟩ := ge1 (l := s.stack) (by simpa [Instr.pops] using hst)
    obtain ⟨msz, ovf, hc⟩ : ∃ msz ovf, calcMemSize64 off 32 = (msz, ovf) := ⟨_, _, rfl⟩
    obtain ⟨ho, _, hm⟩ := hcov msz ovf (by simp [memName, memSizeOf, hl, back, hc])
    subst ho
    rcases calcMemSize64_ok hc with ⟨h0, _⟩ | ⟨_, ho, _, he⟩
    · omega
    · have hmod : off % U64 = off := Nat.mod_eq_of_lt ho
      obtain ⟨d, hd⟩ := memGetPtr_inside s.mem off 32 (by omega) hinv
      simp only [exec, hl, hmod, hd, IState.cont, Out.notPanic, true_and]
      intro s' h; cases h; simp
  | mstore =>
    obtain ⟨off, v, r, hl⟩ := ge2 (l := s.stack) (by simpa [Instr.pops] using hst)
    obtain ⟨msz, ovf, hc⟩ : ∃ msz ovf, calcMemSize64 off 32 = (msz, ovf) := ⟨_, _, rfl⟩
    obtain ⟨ho, _, hm⟩ := hcov msz ovf (by simp [memName, memSizeOf, hl, back, hc])
    subst ho
    rcases calcMemSize64_ok hc with ⟨h0, _⟩ | ⟨_, ho, _, he⟩
    · omega
    · have hmod : off % U64 = off := Nat.mod_eq_of_lt ho
      obtain ⟨m, hd, hlen⟩ := memSet32_inside s.mem off v (by omega) hinv
      simp only [exec, hl, hmod, hd, Out.notPanic, true_and]
      intro s' h; cases h; simp [hlen]
  | mstore8 =>
    obtain ⟨off, v, r, hl⟩ := ge2 (l := s.stack) (by simpa [Instr.pops] using hst)
    obtain ⟨msz, ovf, hc⟩ : ∃ msz ovf, calcMemSize64 off 1 = (msz, ovf) := ⟨_, _, rfl⟩
    obtain ⟨ho, _, hm⟩ := hcov msz ovf (by simp [memName, memSizeOf, hl, back, hc])
    subst ho
    rcases calcMemSize64_ok hc with ⟨h0, _⟩ | ⟨_, ho, _, he⟩
    · omega
    · have hmod : off % U64 = off := Nat.mod_eq_of_lt ho
      simp only [exec, hl, hmod]
      rw [if_pos (by omega)]
      simp only [Out.notPanic, true_and]
      intro s' h; cases h; simp
  | calldatacopy =>
    obtain ⟨mo, dof, len, r, hl⟩ := ge3 (l := s.stack) (by simpa [Instr.pops] using hst)
    obtain ⟨msz, ovf, hc⟩ : ∃ msz ovf, calcMemSize64 mo len = (msz, ovf) := ⟨_, _, rfl⟩
    obtain ⟨ho, _, hm⟩ := hcov msz ovf (by simp [memName, memSizeOf, hl, back, hc])
    subst ho
    have hlen : len % U64 < 2 ^ 62 ∧ (len % U64 = 0 ∨ (mo % U64 + len % U64 ≤ s.mem.length)) := by
      rcases calcMemSize64_ok hc with ⟨h0, _⟩ | ⟨_, ho, hlU, he⟩
      · subst h0; simp
      · rw [Nat.mod_eq_of_lt ho, Nat.mod_eq_of_lt hlU]; omega
    obtain ⟨d, hd⟩ := getData_safe env.input (if dof ≥ U64 then U64 - 1 else dof) (len % U64) hE.input hlen.1
    obtain ⟨m, hms, hml⟩ : ∃ m, memSet s.mem (mo % U64) (len % U64) d = .ok m ∧ m.length = s.mem.length := by
      rcases hlen.2 with h0 | h1
      · rw [h0]; exact ⟨s.mem, by simp [memSet], rfl⟩
      · exact memSet_inside _ _ _ _ h1 hinv
    simp only [exec, hl, hd, hms, Out.notPanic, true_and]
    intro s' h; cases h; simp [hml]
  | codecopy =>
    obtain ⟨mo, dof, len, r, hl⟩ := ge3 (l := s.stack) (by simpa [Instr.pops] using hst)
    obtain ⟨msz, ovf, hc⟩ : ∃ msz ovf, calcMemSize64 mo len = (msz, ovf) := ⟨_, _, rfl⟩
    obtain ⟨ho, _, hm⟩ := hcov msz ovf (by simp [memName, memSizeOf, hl, back, hc])
    subst ho
    have hlen : len % U64 < 2 ^ 62 ∧ (len % U64 = 0 ∨ (mo % U64 + len % U64 ≤ s.mem.length)) := by
      rcases calcMemSize64_ok hc with ⟨h0, _⟩ | ⟨_, ho, hlU, he⟩
      · subst h0; simp
      · rw [Nat.mod_eq_of_lt ho, Nat.mod_eq_of_lt hlU]; omega
    obtain ⟨d, hd⟩ := getData_safe env.code (if dof ≥ U64 then U64 - 1 else dof) (len % U64) hE.code hlen.1
    obtain ⟨m, hms, hml⟩ : ∃ m, memSet s.mem (mo % U64) (len % U64) d = .ok m ∧ m.length = s.mem.length := by
      rcases hlen.2 with h0 | h1
      · rw [h0]; exact ⟨s.mem, by simp [memSet], rfl⟩
      · exact memSet_inside _ _ _ _ h1 hinv
    simp only [exec, hl, hd, hms, Out.notPanic, true_and]
    intro s' h; cases h; simp [hml]
  | returndatacopy =>
    obtain ⟨mo, dof, len, r, hl⟩ := ge3 (l := s.stack) (by simpa [Instr.pops] using hst)
    obtain ⟨msz, ovf, hc⟩ : ∃ msz ovf, calcMemSize64 mo len = (msz, ovf) := ⟨_, _, rfl⟩
    obtain ⟨ho, _, hm⟩ := hcov msz ovf (by simp [memName, memSizeOf, hl, back, hc])
    subst ho
    have hW := W256_eq
    simp only [exec, hl]
    by_cases hdo : dof ≥ U64
    · rw [if_pos hdo]; simp [Out.notPanic]
    · rw [if_neg hdo]
      by_cases he : (dof + len) % W256 ≥ U64 ∨ s.rdata.length < (dof + len) % W256
      · rw [if_pos he]; simp [Out.notPanic]
      · rw [if_neg he]
        have hlen : len < U64 ∧ (len % U64 = 0 ∨ (mo % U64 + len % U64 ≤ s.mem.length)) := by
          rcases calcMemSize64_ok hc with ⟨h0, _⟩ | ⟨_, ho, hlU, he⟩
          · subst h0; simp; omega
          · rw [Nat.mod_eq_of_lt ho, Nat.mod_eq_of_lt hlU]; omega
        have hsum : (dof + len) % W256 = dof + len := Nat.mod_eq_of_lt (by omega)
        rw [hsum] at he ⊢
        obtain ⟨d, hd⟩ := goSlice_ok s.rdata s.rdata.length dof (dof + len) ⟨by omega, by omega⟩
        obtain ⟨m, hms, hml⟩ : ∃ m, memSet s.mem (mo % U64) (len % U64) d = .ok m ∧ m.length = s.mem.length := by
          rcases hlen.2 with h0 | h1
          · rw [h0]; exact ⟨s.mem, by simp [memSet], rfl⟩
          · exact memSet_inside _ _ _ _ h1 hinv
        simp only [hd, hms, Out.notPanic, true_and]
        intro s' h; cases h; simp [hml]
  | mcopy =>
    obtain ⟨dst, src, len, r, hl⟩ := ge3 (l := s.stack) (by simpa [Instr.pops] using hst)
    obtain ⟨msz, ovf, hc⟩ : ∃ msz ovf, memoryMcopy dst src len = (msz, ovf) := ⟨_, _, rfl⟩
    obtain ⟨ho, _, hm⟩ := hcov msz ovf (by simp [memName, memSizeOf, hl, back, hc])
    subst ho
    have hcond : len % U64 = 0 ∨ (dst % U64 + len % U64 ≤ s.mem.length ∧ src % U64 + len % U64 ≤ s.mem.length) := by
      unfold memoryMcopy at hc
      rcases calcMemSize64_ok hc with ⟨h0, _⟩ | ⟨_, ho, hlU, he⟩
      · subst h0; simp
      · right
        split at ho <;> split at he <;> simp_all <;> omega
    obtain ⟨m, hms, hml⟩ := memCopyGo_safe s.mem (dst % U64) (src % U64) (len % U64) hcond hinv
    simp only [exec, hl, hms, Out.notPanic, true_and]
    intro s' h; cases h; simp [hml]
  | ret =>
    obtain ⟨off, size, r, hl⟩ := ge2 (l := s.stack) (by simpa [Instr.pops] using hst)
    obtain ⟨msz, ovf, hc⟩ : ∃ msz ovf, calcMemSize64 off size = (msz, ovf) := ⟨_, _, rfl⟩
    obtain ⟨ho, _, hm⟩ := hcov msz ovf (by simp [memName, memSizeOf, hl, back, hc])
    subst ho
    obtain ⟨d, hd⟩ : ∃ d, memGetPtr s.mem (off % U64) (size % U64) = .ok d := by
      rcases calcMemSize64_ok hc with ⟨h0, _⟩ | ⟨_, ho, hlU, he⟩
      · subst h0; exact ⟨[], by simp [memGetPtr, toInt64]⟩
      · rw [Nat.mod_eq_of_lt ho, Nat.mod_eq_of_lt hlU]; exact memGetPtr_inside _ _ _ (by omega) hinv
    simp only [exec, hl, hd, Out.notPanic, true_and]
    intro s' h; cases h
  | revert =>
    obtain ⟨off, size, r, hl⟩ := ge2 (l := s.stack) (by simpa [Instr.pops] using hst)
    obtain ⟨msz, ovf, hc⟩ : ∃ msz ovf, calcMemSize64 off size = (msz, ovf) := ⟨_, _, rfl⟩
    obtain ⟨ho, _, hm⟩ := hcov msz ovf (by simp [memName, memSizeOf, hl, back, hc])
    subst ho
    obtain ⟨d, hd⟩ : ∃ d, memGetPtr s.mem (off % U64) (size % U64) = .ok d := by
      rcases calcMemSize64_ok hc with ⟨h0, _⟩ | ⟨_, ho, hlU, he⟩
      · subst h0; exact ⟨[], by simp [memGetPtr, toInt64]⟩
      · rw [Nat.mod_eq_of_lt ho, Nat.mod_eq_of_lt hlU]; exact memGetPtr_inside _ _ _ (by omega) hinv
    simp only [exec, hl, hd, Out.notPanic, true_and]
    intro s' h; cases h
  | keccak =>
    obtain ⟨off, size, r, hl⟩ := ge2 (l := s.stack) (by simpa [Instr.pops] using hst)
    obtain ⟨msz, ovf, hc⟩ : ∃ msz ovf, calcMemSize64 off size = (msz, ovf) := ⟨_, _, rfl⟩
    obtain ⟨ho, _, hm⟩ := hcov msz ovf (by simp [memName, memSizeOf, hl, back, hc])
    subst ho
    obtain ⟨d, hd⟩ : ∃ d, memGetPtr s.mem (off % U64) (size % U64) = .ok d := by
      rcases calcMemSize64_ok hc with ⟨h0, _⟩ | ⟨_, ho, hlU, he⟩
      · subst h0; exact ⟨[], by simp [memGetPtr, toInt64]⟩
      · rw [Nat.mod_eq_of_lt ho, Nat.mod_eq_of_lt hlU]; exact memGetPtr_inside _ _ _ (by omega) hinv
    simp only [exec, hl, hd, IState.cont, Out.notPanic, true_and]
    intro s' h; cases h; simp
  | tload =>
    obtain ⟨x, r, hl⟩ := ge1 (l := s.stack) (by simpa [Instr.pops] using hst)
    simp only [exec, hl, IState.cont, Out.notPanic, true_and]
    intro s' h; cases h; simp
  | tstore =>
    obtain ⟨x, y, r, hl⟩ := ge2 (l := s.stack) (by simpa [Instr.pops] using hst)
    simp only [exec, hl]
    split
    · simp [Out.notPanic]
    · simp only [Out.notPanic, true_and]
      intro s' h; cases h; simp
  | journal j =>
    have ha : (s.stack.take j.arity).length = j.arity := by simp [Instr.pops] at hst; simp; omega
    have hnp := journal_no_panic j (s.stack.take j.arity) (env.mkEnv s.world s.mem) s.tr ha (hE.jenv _ _ hinv)
    simp only [exec]
    rw [if_neg (by simp [Instr.pops] at hst; omega)]
    generalize (Journal.exec j (s.stack.take j.arity) (env.mkEnv s.world s.mem) s.tr).1 = res at hnp
    cases res with
    | ok t => simp only [Out.notPanic, true_and]; intro s' h; cases h; simp
    | err e => simp [Out.notPanic]
    | panic p => simp [Res.isPanic] at hnp

/-! ### the table condition, and the loop -/

/-- stack items a dynamic-gas function looks at -/
def dynNeed (name : String) : Nat :=
  if name = "memoryCopierGas" then 3 else if name = "gasExpFrontier" ∨ name = "gasExpEIP158" ∨ name = "gasKeccak256" then 2 else 0

/-- what the safety proof needs of a table row: the stack floor covers the operands of the execute function, of the
    dynamic-gas function and of the memory-size function; DUP/SWAP are wired to positive depths; a memory instruction
    has exactly its own memory-size function and a gas function that charges for memory; no other instruction has one -/
def rowSafe (row : Row) (i : Instr) : Bool :=
  decide (i.pops ≤ row.minStack) && decide (dynNeed row.dyn ≤ row.minStack) &&
  (match i with | .dup n => decide (1 ≤ n) | .swap n => decide (1 ≤ n) | _ => true) &&
  (row.mem == memName i) &&
  (memName i == "-" || row.dyn == "pureMemoryGascost" || row.dyn == "memoryCopierGas" || row.dyn == "gasKeccak256")

def TableSafe (env : IEnv World) : Prop :=
  ∀ op row i, env.table op = some row → decode row.exec op = some i → rowSafe row i = true

theorem memSizeOf_dash (st : List Word) : memSizeOf "-" st = none := by
  simp [memSizeOf]

theorem memSizeOf_total (i : Instr) (st : List Word) (h : i.pops ≤ st.length) : memSizeOf (memName i) st ≠ some none := by
  cases i <;> simp only [memName, memSizeOf_dash] <;> (try (intro hc; cases hc))
  all_goals simp only [Instr.pops] at h
  case mload => obtain ⟨a, r, rfl⟩ := ge1 h; simp [memSizeOf, back]
  case mstore => obtain ⟨a, b, r, rfl⟩ := ge2 h; simp [memSizeOf, back]
  case mstore8 => obtain ⟨a, b, r, rfl⟩ := ge2 h; simp [memSizeOf, back]
  case calldatacopy => obtain ⟨a, b, c, r, rfl⟩ := ge3 h; simp [memSizeOf, back]
  case codecopy => obtain ⟨a, b, c, r, rfl⟩ := ge3 h; simp [memSizeOf, back]
  case returndatacopy => obtain ⟨a, b, c, r, rfl⟩ := ge3 h; simp [memSizeOf, back]
  case mcopy => obtain ⟨a, b, c, r, rfl⟩ := ge3 h; simp [memSizeOf, back]
  case ret => obtain ⟨a, b, r, rfl⟩ := ge2 h; simp [memSizeOf, back]
  case revert => obtain ⟨a, b, r, rfl⟩ := ge2 h; simp [memSizeOf, back]
  case keccak => obtain ⟨a, b, r, rfl⟩ := ge2 h; simp [memSizeOf, back]

theorem dynGasOf_total (name : String) (st : List Word) (a b m : Nat) (h : dynNeed name ≤ st.length) :
    dynGasOf name st a b m ≠ .stackPanic := by
  unfold dynNeed at h
  unfold dynGasOf
  by_cases h1 : name = "pureMemoryGascost"
  · rw [if_pos h1]; split <;> simp
  · rw [if_neg h1]
    by_cases h2 : name = "memoryCopierGas"
    · rw [if_pos h2] at h ⊢
      obtain ⟨x, y, z, r, rfl⟩ := ge3 h
      simp only [back, List.getElem?_cons_succ, List.getElem?_cons_zero]
      split <;> simp
    · rw [if_neg h2] at h ⊢
      by_cases h3 : name = "gasKeccak256"
      · rw [if_pos h3]
        rw [if_pos (Or.inr (Or.inr h3))] at h
        obtain ⟨x, y, r, rfl⟩ := ge2 h
        simp only [back, List.getElem?_cons_succ, List.getElem?_cons_zero]
        (repeat' split) <;> simp
      · rw [if_neg h3]
        by_cases h4 : name = "gasExpFrontier"
        · rw [if_pos h4]
          rw [if_pos (Or.inl h4)] at h
          obtain ⟨x, y, r, rfl⟩ := ge2 h
          simp [back]
        · rw [if_neg h4]
          by_cases h5 : name = "gasExpEIP158"
          · rw [if_pos h5]
            rw [if_pos (Or.inr (Or.inl h5))] at h
            obtain ⟨x, y, r, rfl⟩ := ge2 h
            simp [back]
          · rw [if_neg h5]
            split <;> simp

theorem dynPart_notPanic {op : Nat} {row : Row} {i : Instr} {s : IState World} (hs : rowSafe row i = true)
    (hmin : row.minStack ≤ s.stack.length) : (dynPart op row s).notPanic := by
  simp only [rowSafe, Bool.and_eq_true, decide_eq_true_eq, beq_iff_eq] at hs
  obtain ⟨⟨⟨⟨hp, hdn⟩, _⟩, hmem⟩, _⟩ := hs
  unfold dynPart
  split
  · trivial
  · have hgp : ∀ m, (gasPart op row s m).notPanic := by
      intro m
      unfold gasPart
      have := dynGasOf_total row.dyn s.stack s.mem.length s.last m (by omega)
      cases hd : dynGasOf row.dyn s.stack s.mem.length s.last m with
      | stackPanic => exact absurd hd this
      | unmodelled => trivial
      | overflow => trivial
      | cost c l => dsimp only; split <;> trivial
    have hmp : ∀ p, memPart op row s ≠ .panic p := by
      intro p hpn
      unfold memPart at hpn
      split at hpn
      · cases hpn
      · have := memSizeOf_total i s.stack (by omega)
        rw [← hmem] at this
        (repeat' split at hpn) <;> first | cases hpn | skip
        rename_i hsn; exact this hsn
    cases hm : memPart op row s with
    | halt h g => trivial
    | panic p => exact absurd hm (hmp p)
    | next m => exact hgp m

theorem dynPart_nomem {op : Nat} {row : Row} {s s1 : IState World} (hm : row.mem = "-")
    (h : dynPart op row s = .next s1) : s1.mem = s.mem := by
  unfold dynPart at h
  split at h
  · cases h; rfl
  · unfold memPart at h
    rw [if_pos hm] at h
    dsimp only at h
    unfold gasPart at h
    (repeat' split at h) <;> first | cases h | skip
    all_goals (first | rfl | (rename_i hz; exact absurd hz (by omega)) | simp)

/-- the stack limit: a row lets the instruction run only if the stack cannot exceed 1024 afterwards -/
def rowLimit (row : Row) (i : Instr) : Bool := decide (row.maxStack + i.pushes ≤ 1024 + i.pops)

def TableLimit (env : IEnv World) : Prop :=
  ∀ op row i, env.table op = some row → decode row.exec op = some i → rowLimit row i = true

/-- the loop invariant: memory below the ceiling of the gas schedule -/
def Inv (s : IState World) : Prop := s.mem.length ≤ memCeil

/-- what the part before `execute` establishes for the instruction it hands over -/
theorem pre_execSafe {env : IEnv World} (hT : TableSafe env) (hE : EnvOK env) {s s1 : IState World} {i : Instr} (hinv : Inv s)
    (hpre : pre env s = .next (i, s1)) : ExecSafe env i s1 ∧ Inv s1 := by
    obtain ⟨row, hr, hd, h1, h2, h3, hdp⟩ := pre_next_inv hpre
    have hsafe := hT _ _ _ hr hd
    obtain ⟨hstk, _, _, _, _, _, _⟩ := dynPart_frame hdp
    simp only [rowSafe, Bool.and_eq_true, decide_eq_true_eq, beq_iff_eq, Bool.or_eq_true] at hsafe
    obtain ⟨⟨⟨⟨hp, _⟩, hdup⟩, hmem⟩, hdyn⟩ := hsafe
    have hpops : i.pops ≤ s1.stack.length := by rw [hstk]; simp; omega
    have hn : ∀ n, (i = .dup n ∨ i = .swap n) → 1 ≤ n := by
      intro n hi
      rcases hi with hi | hi <;> subst hi <;> simpa using hdup
    have hcovinv : Covered i s1 ∧ Inv s1 := by
      by_cases hname : memName i = "-"
      · constructor
        · intro msz ovf hms; rw [hname, memSizeOf_dash] at hms; cases hms
        · have := dynPart_nomem (by rw [hmem, hname]) hdp
          unfold Inv; rw [this]; exact hinv
      · have hmd : memDyn row := by
          rcases hdyn with ((h | h) | h) | h
          · exact absurd h hname
          · exact Or.inl h
          · exact Or.inr (Or.inl h)
          · exact Or.inr (Or.inr h)
        have hmne : row.mem ≠ "-" := by rw [hmem]; exact hname
        constructor
        · intro msz ovf hms
          rw [hstk, ← hmem] at hms
          obtain ⟨ho, hb, hl, _, _⟩ := dynPart_covers hmd hmne hdp hms hinv
          exact ⟨ho, hb, hl⟩
        · -- the size function is total on this stack: take its value
          have htot := memSizeOf_total i s.stack (by omega)
          rw [← hmem] at htot
          cases hms : memSizeOf row.mem s.stack with
          | none =>
            -- impossible: a memory instruction's size function is one of the modelled names
            unfold dynPart memPart at hdp
            have hdash : row.dyn ≠ "-" := by rcases hmd with h | h | h <;> rw [h] <;> decide
            rw [if_neg hdash, if_neg hmne, hms] at hdp
            cases hdp
          | some o =>
            cases o with
            | none => exact absurd hms htot
            | some pr =>
              obtain ⟨msz, ovf⟩ := pr
              obtain ⟨_, _, _, hl, _⟩ := dynPart_covers hmd hmne hdp hms hinv
              exact hl
    obtain ⟨hcov, hinv1⟩ := hcovinv
    exact ⟨exec_safe env hE i s1 hpops hn hcov hinv1, hinv1⟩

/-- **One iteration never panics** and keeps the invariant: for every program, program counter, stack, memory content,
    gas, calldata, world and tracer, on every table that satisfies `rowSafe`. -/
theorem step_safe {env : IEnv World} (hT : TableSafe env) (hE : EnvOK env) (s : IState World) (hinv : Inv s) :
    (step env s).notPanic ∧ ∀ s', step env s = .next s' → Inv s' := by
  unfold step stepWith
  cases hpre : pre env s with
  | halt h g => exact ⟨trivial, fun s' h => by cases h⟩
  | panic p =>
    -- the part before `execute` panics only through `dynPart`
    exfalso
    unfold pre at hpre
    dsimp only at hpre
    cases hr : env.table (opAt env.code s.pc) with
    | none => rw [hr] at hpre; cases hpre
    | some row =>
      rw [hr] at hpre; dsimp only at hpre
      cases hd : decode row.exec (opAt env.code s.pc) with
      | none => rw [hd] at hpre; cases hpre
      | some i =>
        rw [hd] at hpre; dsimp only at hpre
        have hsafe := hT _ _ _ hr hd
        by_cases h1 : s.stack.length < row.minStack
        · rw [if_pos h1] at hpre; cases hpre
        · by_cases h2 : s.stack.length > row.maxStack
          · rw [if_neg h1, if_pos h2] at hpre; cases hpre
          · by_cases h3 : s.gas < row.cgas
            · rw [if_neg h1, if_neg h2, if_pos h3] at hpre; cases hpre
            · rw [if_neg h1, if_neg h2, if_neg h3] at hpre
              have hnp := dynPart_notPanic (op := opAt env.code s.pc) (s := { s with gas := s.gas - row.cgas }) hsafe (by simp; omega)
              cases hdp : dynPart (opAt env.code s.pc) row { s with gas := s.gas - row.cgas } with
              | halt h g => rw [hdp] at hpre; cases hpre
              | panic p' => rw [hdp] at hnp; exact hnp
              | next s1 => rw [hdp] at hpre; cases hpre
  | next is1 =>
    obtain ⟨i, s1⟩ := is1
    dsimp only
    obtain ⟨⟨hnp1, hmemlen⟩, hinv1⟩ := pre_execSafe hT hE hinv hpre
    refine ⟨hnp1, ?_⟩
    intro s' hs'
    unfold Inv
    rw [(hmemlen s' hs').1]
    exact hinv1

/-- **C03 for the interpreter loop**: no run of any length panics -/
theorem run_safe {env : IEnv World} (hT : TableSafe env) (hE : EnvOK env) (n : Nat) (s : IState World) (hinv : Inv s) :
    (run env n s).notPanic := by
  induction n generalizing s with
  | zero => trivial
  | succ n ih =>
    unfold run
    obtain ⟨hnp, hnext⟩ := step_safe hT hE s hinv
    cases hs : step env s with
    | next s' => exact ih s' (hnext s' hs)
    | halt h g => trivial
    | panic p => rw [hs] at hnp; exact hnp

/-- the stack limit holds after every instruction -/
theorem step_stack_limit {env : IEnv World} (hL : TableLimit env) {s s' : IState World} (h : step env s = .next s') :
    s'.stack.length ≤ 1024 := by
  obtain ⟨row, i, s1, hr, hd, _, hmax, _, hdp, hex⟩ := step_next_inv h
  have hl := hL _ _ _ hr hd
  simp only [rowLimit, decide_eq_true_eq] at hl
  obtain ⟨hstk, _⟩ := dynPart_frame hdp
  have := exec_stack hex
  rw [hstk] at this
  simp at this
  omega

end Interp
end Artela
