import Artela.Proofs.JournalSafe
/-
  C20 — work done per instruction is bounded by the gas it pays.

  The model carries a work counter (`Work`: storage reads, bytes copied, bytes allocated).  What is proved:
  the value journal, the value-keyed registrations do O(1) work; the memory-keyed registrations copy at most the
  memory that already exists (paid for by memory-expansion gas) — NOT a fixed multiple of the flat 800 fee; the
  reference journal reads ⌈len/32⌉ slots with `len` decoded from one storage word — unbounded for the flat fee.
  The full statement is kept visible (`c20_full`); it is FALSE for the current code, witnessed below (known
  findings D5 and D7 in known_findings.jsonl).
-/
namespace Artela

/-- work of an instruction measured in one number: storage reads weigh 32 bytes each -/
def Work.total (w : Work) : Nat := 32 * w.reads + w.copied + w.alloc

/-- the full-strength statement: some constant `K` bounds the work of every journal instruction by `K · fee`
    for every operand tuple, memory and storage content -/
def c20_bound (K : Nat) : Prop :=
  ∀ (op : JOp) (args : List Word) (env : JEnv) (tr : Tracer), args.length = op.arity → env.WF →
    (Journal.exec op args env tr).2.total ≤ K * journalFee

/-- "a fixed multiple": a constant of any reasonable size (the EVM's own schedule pays ≥ 1 gas per 32 bytes
    copied or hashed and ≥ 100 gas per storage read, i.e. `K` would be well below 100) -/
def c20_full : Prop := ∃ K : Nat, K < 2 ^ 48 ∧ c20_bound K

/-- VVJNAL: at most one storage read, nothing copied or allocated — for every operand tuple. -/
theorem c20_value_journal (slot off width typeId : Word) (env : JEnv) (tr : Tracer) :
    (Journal.exec .vv [slot, off, width, typeId] env tr).2.total ≤ 32 := by
  obtain ⟨_, h1, h2, h3⟩ := vv_safe slot off width typeId env tr
  unfold Work.total; omega

/-- IVVVJNAL / IVVRJNAL (index key passed by value): no storage read, nothing copied. -/
theorem c20_value_key_journals (a b c d e f : Word) (env : JEnv) (tr : Tracer) :
    (Journal.exec .ivvv [a, b, c, d, e, f] env tr).2.total = 0 ∧ (Journal.exec .ivvr [a, b, c, d, e] env tr).2.total = 0 :=
  ⟨rfl, rfl⟩

/-- The four key-journal instructions that read a name / index from memory copy at most `32 + |memory|` bytes:
    bounded by memory that exists (whose expansion was paid for), not by the flat fee. -/
theorem c20_key_journal_partial (ptr : Word) (env : JEnv) (hwf : env.WF) (f : Bytes → Tracer × Option String) :
    (keyFromMem ptr env f).2.total ≤ 2 * (32 + env.mem.length) := by
  obtain ⟨_, h1, h2, h3⟩ := keyFromMem_safe ptr env hwf f
  unfold Work.total; omega

/-- RSVJNAL as an instance (the other three have the same shape). -/
theorem c20_rsv (ptr slot typeId : Word) (env : JEnv) (tr : Tracer) (hwf : env.WF) :
    (Journal.exec .rsv [ptr, slot, typeId] env tr).2.total ≤ 2 * (32 + env.mem.length) :=
  c20_key_journal_partial ptr env hwf _

/-- VRJNAL: `1 + ⌈len/32⌉` storage reads and `32·⌈len/32⌉` bytes appended, `len` being decoded from one storage word. -/
theorem c20_reference_journal_partial (slot typeId : Word) (env : JEnv) (tr : Tracer) (hwf : env.WF) :
    (Journal.exec .vr [slot, typeId] env tr).2.reads ≤ 1 + slotCount (env.storage slot / 2) ∧
    (Journal.exec .vr [slot, typeId] env tr).2.copied ≤ 32 * slotCount (env.storage slot / 2) :=
  (vr_safe slot typeId env tr hwf).2

/-- a storage word announcing a long string of `32·n` bytes, `n ≥ 1` -/
def longWord (n : Nat) : Word := 2 * (32 * n) + 1

/-- the reference journal on such a word performs `1 + n` storage reads -/
theorem vr_reads_longWord (n : Nat) (hn : 1 ≤ n) (hs : 32 * n ≤ U64 - 32) (tr : Tracer) :
    (Journal.exec .vr [0, 0]
      { contract := 0, mem := [], memCap := 0, storage := fun _ => longWord n, keccak := fun _ => 0 } tr).2.reads = 1 + n := by
  have hU := U64_eq
  simp only [Journal.exec]
  have hodd : longWord n % 2 = 1 := by unfold longWord; omega
  have hhalf : longWord n / 2 = 32 * n := by unfold longWord; omega
  rw [extractStorageLen_odd _ hodd (by rw [hhalf]; exact hs), hhalf]
  have c : 32 * n ≥ 32 := by omega
  rw [if_pos c]
  have c2 : ¬ (32 * n < 32) := by omega
  simp only [c2, if_false]
  have hsc : slotCount (32 * n) = n := by unfold slotCount; rw [Nat.mod_eq_of_lt (by omega)]; omega
  rw [hsc]
  split <;> rfl

/-- **Negation witness (D5)**: no constant below 2^48 bounds the reference journal's work by a multiple of its
    flat fee — for every such `K` a single storage word makes it perform more than `K · 800` units of work
    (lengths are limited to 2^64 only by `IsUint64`, so astronomically large constants are not refuted). -/
theorem c20_witness_reference_unbounded : ¬ c20_full := by
  have hU := U64_eq
  intro ⟨K, hK, h⟩
  have hn : 32 * (K * 800 + 1) ≤ U64 - 32 := by omega
  have := h .vr [0, 0] { contract := 0, mem := [], memCap := 0, storage := fun _ => longWord (K * 800 + 1), keccak := fun _ => 0 }
    {} rfl ⟨Nat.le_refl _, by simp [maxAlloc], fun n => Nat.le_refl n⟩
  have hr := vr_reads_longWord (K * 800 + 1) (by omega) hn {}
  unfold Work.total at this
  unfold journalFee at this
  rw [hr] at this
  omega

/-- what remains true of the whole family: every journal instruction's work is bounded by the memory that exists
    plus the decoded string length — the `…_partial` form of `c20_full` -/
theorem c20_partial (op : JOp) (args : List Word) (env : JEnv) (tr : Tracer) (ha : args.length = op.arity) (hwf : env.WF) :
    (Journal.exec op args env tr).2.total ≤
      2 * (32 + env.mem.length) + 32 + (match op, args with | .vr, [slot, _] => 96 * slotCount (env.storage slot / 2) | _, _ => 0) := by
  cases op <;> simp only [JOp.arity] at ha
  · obtain ⟨a, b, c, rfl⟩ := len3 args ha
    have := c20_key_journal_partial a env hwf (fun name => tr.saveStateKey env.contract none b none c 0 name)
    simp only [Journal.exec] at this ⊢; omega
  · obtain ⟨a, b, c, d, rfl⟩ := len4 args ha
    have := c20_key_journal_partial a env hwf (fun name => tr.saveStateKey env.contract none b (some c) d 0 name)
    simp only [Journal.exec] at this ⊢; omega
  · obtain ⟨a, b, c, d, e, f, rfl⟩ := len6 args ha
    have := c20_key_journal_partial c env hwf (fun ix => tr.saveStateKey env.contract (some a) b (some d) e f ix)
    simp only [Journal.exec] at this ⊢; omega
  · obtain ⟨a, b, c, d, e, rfl⟩ := len5 args ha
    have := c20_key_journal_partial c env hwf (fun ix => tr.saveStateKey env.contract (some a) b none d e ix)
    simp only [Journal.exec] at this ⊢; omega
  · obtain ⟨a, b, c, d, e, f, rfl⟩ := len6 args ha
    have := (c20_value_key_journals a b c d e f env tr).1
    omega
  · obtain ⟨a, b, c, d, e, rfl⟩ := len5 args ha
    have := (c20_value_key_journals a b c d e 0 env tr).2
    omega
  · obtain ⟨a, b, c, d, rfl⟩ := len4 args ha
    have := c20_value_journal a b c d env tr
    omega
  · obtain ⟨a, b, rfl⟩ := len2 args ha
    obtain ⟨_, h1, h2⟩ := vr_safe a b env tr hwf
    have h3 : (Journal.exec .vr [a, b] env tr).2.alloc ≤ 32 * slotCount (env.storage a / 2) := vr_alloc a b env tr hwf
    unfold Work.total
    simp only
    omega

/-- non-vacuity of the witness: a one-slot environment is well-formed and the bound fails already for K = 1 -/
example : ¬ c20_bound 1 := fun h => c20_witness_reference_unbounded ⟨1, by decide, h⟩

end Artela
