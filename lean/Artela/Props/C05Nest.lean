import Artela.Props.C05
/-
  C05 (nesting) — pre and post join points are bracketed last-in-first-out with the calls, for every event sequence.

  `jpStack st` lists, innermost first, the call-tree indices of the open contract-call frames whose pre join point ran
  (a post join point is owed for exactly these).  One step of the frame machine — whatever the event — does one of:

    * nothing to the join-point log and nothing to `jpStack`;
    * append ONE pre record with index `i` and either push `i` (the callee's code starts) or leave `jpStack` alone (the
      pre join point failed: no code, no post);
    * append ONE post record with index `i`, where `i` is the top of `jpStack`, and pop it.

  So every post closes the most recent still-open pre: the log is well bracketed, nested exactly like the calls.
-/
namespace Artela
open Frame

def jpStack (st : FState) : List Nat :=
  (st.stack.filter (fun fr => fr.kind == .call && fr.jpFired)).map (·.nodeIndex)

/-- what one step may do to the join-point log and the stack of owed posts -/
def LifoStep (st st' : FState) : Prop :=
  (st'.jps = st.jps ∧ jpStack st' = jpStack st) ∨
  (∃ c t i v g idx, st'.jps = st.jps ++ [JPRecord.pre c t i v g idx] ∧ (jpStack st' = idx :: jpStack st ∨ jpStack st' = jpStack st)) ∨
  (∃ c t i v g idx r e, st'.jps = st.jps ++ [JPRecord.post c t i v g idx r e] ∧ jpStack st = idx :: jpStack st')

theorem jpStack_finish (st : FState) (k : CallKind) (c t : Addr) (gs : Nat) (tn dbg top : Bool) (sg : Nat)
    (r : Option Bytes) (g : Nat) (e : Option String) (w en sn : List Effect) (ran : Bool) :
    jpStack (finish st k c t gs tn dbg top sg r g e w en sn ran) = jpStack st := rfl

theorem c05_lifo_enterCall (st : FState) (caller to : Addr) (value : Nat) (input : Bytes) (gas : Nat) (f : EnterFacts) :
    LifoStep st (enterCall st caller to value input gas f) := by
  unfold enterCall
  simp only
  split
  · exact Or.inl ⟨rfl, rfl⟩
  · split
    · exact Or.inl ⟨rfl, rfl⟩
    · split
      · exact Or.inl ⟨rfl, rfl⟩
      · split
        · exact Or.inl ⟨rfl, rfl⟩
        · split
          · exact Or.inl ⟨rfl, rfl⟩
          · split
            · split
              · exact Or.inr (Or.inl ⟨caller, to, input, value, gas, _, rfl, Or.inr rfl⟩)
              · refine Or.inr (Or.inl ⟨caller, to, input, value, gas, _, rfl, Or.inl ?_⟩)
                simp [jpStack]
            · refine Or.inl ⟨rfl, ?_⟩
              simp [jpStack]

theorem c05_lifo_enterOther (st : FState) (kind : CallKind) (caller to : Addr) (value : Nat) (input : Bytes) (gas : Nat) (f : EnterFacts) :
    LifoStep st (enterOther st kind caller to value input gas f) := by
  unfold enterOther
  simp only
  split
  · exact Or.inl ⟨rfl, rfl⟩
  · split
    · exact Or.inl ⟨rfl, rfl⟩
    · split
      · exact Or.inl ⟨rfl, rfl⟩
      · split
        · exact Or.inl ⟨rfl, rfl⟩
        · exact Or.inl ⟨rfl, by simp [jpStack]⟩

theorem c05_lifo_enterCreate (st : FState) (kind : CallKind) (caller to : Addr) (value : Nat) (input : Bytes) (gas : Nat) (f : EnterFacts) :
    LifoStep st (enterCreate st kind caller to value input gas f) := by
  unfold enterCreate
  simp only
  split
  · exact Or.inl ⟨rfl, rfl⟩
  · split
    · exact Or.inl ⟨rfl, rfl⟩
    · split
      · exact Or.inl ⟨rfl, rfl⟩
      · split
        · exact Or.inl ⟨rfl, rfl⟩
        · exact Or.inl ⟨rfl, by simp [jpStack]⟩

theorem c05_lifo_halt (st : FState) (fr : OpenFrame) (rest : List OpenFrame) (ret : Option Bytes) (err : Option String)
    (gasLeft : Nat) (post : JPResult) (hs : st.stack = fr :: rest) :
    LifoStep st (haltFrame st fr rest ret err gasLeft post) := by
  unfold haltFrame
  split
  · rename_i hk
    split
    · rename_i hj
      refine Or.inr (Or.inr ⟨fr.caller, fr.to, fr.input, fr.value, gasLeft, fr.nodeIndex, ret, err.getD "", rfl, ?_⟩)
      simp [jpStack, hs, hk, hj, jpStack_finish]
    · rename_i hj
      refine Or.inl ⟨rfl, ?_⟩
      simp [jpStack, hs, hj, jpStack_finish]
  all_goals
    rename_i hk
    refine Or.inl ⟨rfl, ?_⟩
    simp [jpStack, hs, hk, jpStack_finish]

/-- **LIFO bracketing, one step, any state** -/
theorem c05_lifo_step (st : FState) (ev : FEvent) : LifoStep st (Frame.step st ev) := by
  cases ev with
  | enter kind caller to value input gas f =>
    cases kind <;> simp only [Frame.step]
    · exact c05_lifo_enterCall st caller to value input gas f
    · exact c05_lifo_enterOther st _ caller to value input gas f
    · exact c05_lifo_enterOther st _ caller to value input gas f
    · exact c05_lifo_enterOther st _ caller to value input gas f
    · exact c05_lifo_enterCreate st _ caller to value input gas f
    · exact c05_lifo_enterCreate st _ caller to value input gas f
  | effect id => simp only [Frame.step]; split <;> exact Or.inl ⟨rfl, rfl⟩
  | jkey parent slot off ty pty name => simp only [Frame.step]; split <;> exact Or.inl ⟨rfl, rfl⟩
  | jchange slot off ty v => simp only [Frame.step]; split <;> exact Or.inl ⟨rfl, rfl⟩
  | halt ret err gasLeft post =>
    simp only [Frame.step]
    split
    · exact Or.inl ⟨rfl, rfl⟩
    · rename_i fr rest hs
      exact c05_lifo_halt st fr rest ret err gasLeft post hs

/-- replaying a join-point log against a stack of open pres: a pre pushes or (when it failed) does not; a post must
    match the top.  `closes log s` = the log is well bracketed starting from open pres `s`, for SOME choice of which
    pres failed, and ends with open pres `s'` -/
inductive Closes : List JPRecord → List Nat → List Nat → Prop
  | nil (s) : Closes [] s s
  | preOpen (c t i v g idx rest s s') : Closes rest (idx :: s) s' → Closes (JPRecord.pre c t i v g idx :: rest) s s'
  | preFailed (c t i v g idx rest s s') : Closes rest s s' → Closes (JPRecord.pre c t i v g idx :: rest) s s'
  | post (c t i v g idx r e rest s s') : Closes rest s s' → Closes (JPRecord.post c t i v g idx r e :: rest) (idx :: s) s'

theorem closes_append (a b : List JPRecord) (s m s' : List Nat) (h1 : Closes a s m) (h2 : Closes b m s') : Closes (a ++ b) s s' := by
  induction h1 with
  | nil s => simpa using h2
  | preOpen c t i v g idx rest s m _ ih => exact Closes.preOpen _ _ _ _ _ _ _ _ _ (ih h2)
  | preFailed c t i v g idx rest s m _ ih => exact Closes.preFailed _ _ _ _ _ _ _ _ _ (ih h2)
  | post c t i v g idx r e rest s m _ ih => exact Closes.post _ _ _ _ _ _ _ _ _ _ _ (ih h2)

/-- **C05 nesting, every event sequence**: the join-point log of any execution is well bracketed — every post record
    closes the most recent pre record still open — and the pres still open are exactly those of the contract-call
    frames in progress, innermost first -/
theorem c05_log_well_bracketed (evs : List FEvent) : Closes (run {} evs).jps [] (jpStack (run {} evs)) := by
  have gen : ∀ (st : FState), Closes st.jps [] (jpStack st) → Closes (run st evs).jps [] (jpStack (run st evs)) := by
    induction evs with
    | nil => intro st h; exact h
    | cons e es ih =>
      intro st h
      apply ih
      rcases c05_lifo_step st e with ⟨hj, hs⟩ | ⟨c, t, i, v, g, idx, hj, hs⟩ | ⟨c, t, i, v, g, idx, r, er, hj, hs⟩
      · rw [hj, hs]; exact h
      · rw [hj]
        rcases hs with hs | hs
        · rw [hs]; exact closes_append _ _ _ _ _ h (Closes.preOpen _ _ _ _ _ _ _ _ _ (Closes.nil _))
        · rw [hs]; exact closes_append _ _ _ _ _ h (Closes.preFailed _ _ _ _ _ _ _ _ _ (Closes.nil _))
      · rw [hj]
        rw [hs] at h
        exact closes_append _ _ _ _ _ h (Closes.post _ _ _ _ _ _ _ _ _ _ _ (Closes.nil _))
  exact gen {} (Closes.nil _)

/-- after every frame has returned nothing is owed: every pre that opened has been closed by its post -/
theorem c05_all_closed (evs : List FEvent) (h : (run {} evs).stack = []) : Closes (run {} evs).jps [] [] := by
  have := c05_log_well_bracketed evs
  simpa [jpStack, h] using this

end Artela
