import Artela.Props.C06
/-
  C06 (every event sequence) — no frame ever returns more gas than it was given, and the callee starts with exactly
  what the pre join point left.

  The environment is asked only what the property asks of it: a join point, a precompile and the interpreter never
  hand back more gas than they received (`saneEv`).  Under that hypothesis on the events — and nothing else —
  every invocation of every frame function, in every call tree, returns at most the gas it was supplied with.
-/
namespace Artela
open Frame

/-- what is assumed of the environment at one event: nobody creates gas -/
def saneEv (st : FState) : FEvent → Prop
  | .enter _ _ _ _ _ gas f => f.pre.gas ≤ gas ∧ (∀ r g e, f.precompile = some (r, g, e) → g ≤ gas)
  | .halt _ _ gasLeft post =>
    match st.stack with
    | [] => True
    | fr :: _ => gasLeft ≤ fr.interpGas ∧ post.gas ≤ gasLeft
  | _ => True

def saneRun : FState → List FEvent → Prop
  | _, [] => True
  | st, ev :: rest => saneEv st ev ∧ saneRun (Frame.step st ev) rest

/-- invariant: every open frame's interpreter started with at most what the frame was supplied with, and every
    finished invocation returned at most what it was supplied with -/
def GasInv (st : FState) : Prop :=
  (∀ fr ∈ st.stack, fr.interpGas ≤ fr.gasSupplied) ∧ (∀ r ∈ st.results, r.gas ≤ r.gasSupplied)

theorem tailGas_le (g : Nat) (e : Option String) : tailGas g e ≤ g := by
  unfold tailGas; cases e with
  | none => exact Nat.le_refl _
  | some x => simp only; split <;> omega

theorem gasInv_finish (st : FState) (h : GasInv st) (k : CallKind) (c t : Addr) (gs : Nat) (tn dbg top : Bool) (sg : Nat)
    (r : Option Bytes) (g : Nat) (e : Option String) (w en sn : List Effect) (ran : Bool) (hg : g ≤ gs) :
    GasInv (finish st k c t gs tn dbg top sg r g e w en sn ran) := by
  refine ⟨h.1, ?_⟩
  intro x hx
  simp only [finish_results, List.mem_append, List.mem_singleton] at hx
  rcases hx with hx | hx
  · exact h.2 x hx
  · subst hx; exact hg

/-- **the callee starts with exactly what the pre join point left** (and with the supplied gas when no join point fires) -/
theorem c06_callee_start_gas (st : FState) (caller to : Addr) (value : Nat) (input : Bytes) (gas : Nat) (f : EnterFacts)
    (hr : reachesCode st.stack.length value f) :
    (f.jpEnabled = true → f.pre.err = none →
      (enterCall st caller to value input gas f).started = st.started ++ [(to, f.pre.gas)]) ∧
    (f.jpEnabled = false → (enterCall st caller to value input gas f).started = st.started ++ [(to, gas)]) := by
  obtain ⟨h1, h2, h3, h4, h5⟩ := hr
  unfold enterCall
  simp only
  rw [if_neg h1, if_neg h2, if_neg h3]
  simp only [h4, h5, Bool.false_eq_true, if_false]
  constructor
  · intro hj he; simp [hj, he]
  · intro hj; simp [hj]

theorem gasInv_enterCall (st : FState) (h : GasInv st) (caller to : Addr) (value : Nat) (input : Bytes) (gas : Nat) (f : EnterFacts)
    (hs : saneEv st (.enter .call caller to value input gas f)) : GasInv (enterCall st caller to value input gas f) := by
  obtain ⟨hpre, hpc⟩ := hs
  unfold enterCall
  simp only
  split
  · apply gasInv_finish
    · exact h
    · exact Nat.le_refl _
  · split
    · apply gasInv_finish
      · exact h
      · exact Nat.le_refl _
    · split
      · apply gasInv_finish
        · exact h
        · exact Nat.le_refl _
      · split
        · rename_i r g e hp
          apply gasInv_finish
          · exact h
          · exact Nat.le_trans (tailGas_le g e) (hpc r g e hp)
        · split
          · apply gasInv_finish
            · exact h
            · exact Nat.le_refl _
          · split
            · split
              · apply gasInv_finish
                · exact h
                · exact Nat.le_trans (tailGas_le _ _) hpre
              · refine ⟨?_, h.2⟩
                intro fr hfr
                simp only [List.mem_cons] at hfr
                rcases hfr with hfr | hfr
                · subst hfr; exact hpre
                · exact h.1 fr hfr
            · refine ⟨?_, h.2⟩
              intro fr hfr
              simp only [List.mem_cons] at hfr
              rcases hfr with hfr | hfr
              · subst hfr; exact Nat.le_refl _
              · exact h.1 fr hfr

theorem gasInv_enterOther (st : FState) (h : GasInv st) (kind : CallKind) (caller to : Addr) (value : Nat) (input : Bytes) (gas : Nat) (f : EnterFacts)
    (hs : saneEv st (.enter kind caller to value input gas f)) : GasInv (enterOther st kind caller to value input gas f) := by
  obtain ⟨_, hpc⟩ := hs
  unfold enterOther
  simp only
  split
  · apply gasInv_finish
    · exact h
    · exact Nat.le_refl _
  · split
    · apply gasInv_finish
      · exact h
      · exact Nat.le_refl _
    · split
      · rename_i r g e hp
        apply gasInv_finish
        · exact h
        · exact Nat.le_trans (tailGas_le g e) (hpc r g e hp)
      · split
        · apply gasInv_finish
          · exact h
          · exact Nat.le_refl _
        · refine ⟨?_, h.2⟩
          intro fr hfr
          simp only [List.mem_cons] at hfr
          rcases hfr with hfr | hfr
          · subst hfr; exact Nat.le_refl _
          · exact h.1 fr hfr

theorem gasInv_enterCreate (st : FState) (h : GasInv st) (kind : CallKind) (caller to : Addr) (value : Nat) (input : Bytes) (gas : Nat) (f : EnterFacts) :
    GasInv (enterCreate st kind caller to value input gas f) := by
  unfold enterCreate
  simp only
  split
  · apply gasInv_finish
    · exact h
    · exact Nat.le_refl _
  · split
    · apply gasInv_finish
      · exact h
      · exact Nat.le_refl _
    · split
      · apply gasInv_finish
        · exact h
        · exact Nat.le_refl _
      · split
        · apply gasInv_finish
          · exact h
          · exact Nat.zero_le _
        · refine ⟨?_, h.2⟩
          intro fr hfr
          simp only [List.mem_cons] at hfr
          rcases hfr with hfr | hfr
          · subst hfr; exact Nat.le_refl _
          · exact h.1 fr hfr

theorem createDeposit_gas_le (f : EnterFacts) (ret : Option Bytes) (err : Option String) (gasLeft : Nat) :
    (createDeposit f ret err gasLeft).2.1 ≤ gasLeft := by
  unfold createDeposit
  simp only
  repeat' split
  all_goals first | exact Nat.sub_le _ _ | exact Nat.le_refl _

theorem gasInv_halt (st : FState) (h : GasInv st) (fr : OpenFrame) (rest : List OpenFrame) (ret : Option Bytes) (err : Option String)
    (gasLeft : Nat) (post : JPResult) (hst : st.stack = fr :: rest) (hs : gasLeft ≤ fr.interpGas ∧ post.gas ≤ gasLeft) :
    GasInv (haltFrame st fr rest ret err gasLeft post) := by
  have hfr : fr.interpGas ≤ fr.gasSupplied := h.1 fr (by simp [hst])
  have hrest : ∀ x ∈ rest, x.interpGas ≤ x.gasSupplied := fun x hx => h.1 x (by simp [hst, hx])
  have hpost : (postJoinPoint ret err post).2.2 = post.gas := by
    unfold postJoinPoint; split <;> (try split) <;> rfl
  have hdep := createDeposit_gas_le fr.facts ret err gasLeft
  have ht1 := tailGas_le gasLeft err
  have ht2 := tailGas_le (postJoinPoint ret err post).2.2 (postJoinPoint ret err post).2.1
  rw [hpost] at ht2
  unfold haltFrame
  simp only
  split
  · split
    · apply gasInv_finish
      · exact ⟨hrest, h.2⟩
      · rw [hpost]; omega
    · apply gasInv_finish
      · exact ⟨hrest, h.2⟩
      · omega
  · apply gasInv_finish
    · exact ⟨hrest, h.2⟩
    · omega
  · apply gasInv_finish
    · exact ⟨hrest, h.2⟩
    · omega
  · apply gasInv_finish
    · exact ⟨hrest, h.2⟩
    · omega
  all_goals
    apply gasInv_finish
    · exact ⟨hrest, h.2⟩
    · split <;> omega

theorem gasInv_step (st : FState) (h : GasInv st) (ev : FEvent) (hs : saneEv st ev) : GasInv (Frame.step st ev) := by
  cases ev with
  | enter kind caller to value input gas f =>
    cases kind <;> simp only [Frame.step]
    · exact gasInv_enterCall st h caller to value input gas f hs
    · exact gasInv_enterOther st h _ caller to value input gas f hs
    · exact gasInv_enterOther st h _ caller to value input gas f hs
    · exact gasInv_enterOther st h _ caller to value input gas f hs
    · exact gasInv_enterCreate st h _ caller to value input gas f
    · exact gasInv_enterCreate st h _ caller to value input gas f
  | effect id => simp only [Frame.step]; split <;> exact h
  | jkey parent slot off ty pty name => simp only [Frame.step]; split <;> exact h
  | jchange slot off ty v => simp only [Frame.step]; split <;> exact h
  | halt ret err gasLeft post =>
    simp only [Frame.step]
    split
    · exact h
    · rename_i fr rest hst
      simp only [saneEv, hst] at hs
      exact gasInv_halt st h fr rest ret err gasLeft post hst hs

/-- **C06, every event sequence: no frame ever returns more gas than it was given** — provided no join point, precompile
    or interpreter run hands back more than it received -/
theorem c06_no_frame_creates_gas (evs : List FEvent) (hs : saneRun {} evs) :
    ∀ r ∈ (Frame.run {} evs).results, r.gas ≤ r.gasSupplied := by
  have gen : ∀ (evs : List FEvent) (st : FState), GasInv st → saneRun st evs → GasInv (Frame.run st evs) := by
    intro evs
    induction evs with
    | nil => intro st h _; exact h
    | cons e es ih =>
      intro st h hsr
      exact ih _ (gasInv_step st h e hsr.1) hsr.2
  exact (gen evs {} ⟨by simp, by simp⟩ hs).2

/-- non-vacuity: a call whose pre join point burns 100, whose code burns 500 and whose post join point burns 50 -/
example :
    let evs : List FEvent := [ .enter .call 0xca 0xc0 0 [] 1000 { jpEnabled := true, pre := ⟨none, 900, none⟩ },
                               .halt none none 400 ⟨none, 350, none⟩ ]
    saneRun {} evs ∧ (Frame.run {} evs).results.map (fun r => (r.gasSupplied, r.gas)) = [(1000, 350)] := by
  refine ⟨?_, by decide +kernel⟩
  simp [saneRun, saneEv, Frame.step, enterCall]

end Artela
