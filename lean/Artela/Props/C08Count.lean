import Artela.Props.C07Roots
/-
  C08 (counting form) — every CALL / CREATE / CREATE2 attempt appears exactly once: after ANY event sequence the number of
  recorded nodes equals the number of `Call` / `create` invocations made (refused ones included), and CallCode / DelegateCall
  / StaticCall invocations, epilogues, effects and journal instructions add none.
-/
namespace Artela
open Frame CallTree

def attempts : List FEvent → Nat
  | [] => 0
  | .enter k _ _ _ _ _ _ :: rest => (if k = .call ∨ k.isCreate then 1 else 0) + attempts rest
  | _ :: rest => attempts rest

@[simp] theorem finish_count (st : FState) (k : CallKind) (c t : Addr) (gs : Nat) (tn dbg top : Bool) (sg : Nat)
    (r : Option Bytes) (g : Nat) (e : Option String) (w en sn : List Effect) (ran : Bool) :
    (finish st k c t gs tn dbg top sg r g e w en sn ran).tracer.tree.count = st.tracer.tree.count := by
  have hx : ∀ (t : CallTree), (t.exit g r e).count = t.count := by
    intro t; unfold CallTree.exit
    split
    · rfl
    · split <;> rfl
  unfold finish; cases tn
  · rfl
  · simp [Tracer.exitCall, hx]

theorem enterCall_count (st : FState) (caller to : Addr) (value : Nat) (input : Bytes) (gas : Nat) (f : EnterFacts) :
    (enterCall st caller to value input gas f).tracer.tree.count = st.tracer.tree.count + 1 := by
  unfold enterCall
  simp only
  split
  · simp [Tracer.saveCall, CallTree.add]
  · split
    · simp [Tracer.saveCall, CallTree.add]
    · split
      · simp [Tracer.saveCall, CallTree.add]
      · split
        · simp [Tracer.saveCall, Tracer.transferRecord, CallTree.add]
        · split
          · simp [Tracer.saveCall, Tracer.transferRecord, CallTree.add]
          · split
            · split
              · simp [Tracer.saveCall, Tracer.transferRecord, CallTree.add]
              · simp [Tracer.saveCall, Tracer.transferRecord, CallTree.add]
            · simp [Tracer.saveCall, Tracer.transferRecord, CallTree.add]

theorem enterCreate_count (st : FState) (kind : CallKind) (caller to : Addr) (value : Nat) (input : Bytes) (gas : Nat) (f : EnterFacts) :
    (enterCreate st kind caller to value input gas f).tracer.tree.count = st.tracer.tree.count + 1 := by
  unfold enterCreate
  simp only
  split
  · simp [Tracer.saveCall, CallTree.add]
  · split
    · simp [Tracer.saveCall, CallTree.add]
    · split
      · simp [Tracer.saveCall, CallTree.add]
      · split
        · simp [Tracer.saveCall, CallTree.add]
        · simp [Tracer.saveCall, Tracer.transferRecord, CallTree.add]

theorem enterOther_count (st : FState) (kind : CallKind) (caller to : Addr) (value : Nat) (input : Bytes) (gas : Nat) (f : EnterFacts) :
    (enterOther st kind caller to value input gas f).tracer.tree.count = st.tracer.tree.count := by
  unfold enterOther
  simp only
  split
  · simp
  · split
    · simp
    · split
      · simp
      · split <;> simp

theorem haltFrame_count (st : FState) (fr : OpenFrame) (rest : List OpenFrame) (ret : Option Bytes) (err : Option String)
    (gasLeft : Nat) (post : JPResult) : (haltFrame st fr rest ret err gasLeft post).tracer.tree.count = st.tracer.tree.count := by
  unfold haltFrame
  split
  · split <;> simp
  all_goals simp

theorem step_count (st : FState) (ev : FEvent) : (Frame.step st ev).tracer.tree.count = st.tracer.tree.count + attempts [ev] := by
  cases ev with
  | enter kind caller to value input gas f =>
    cases kind <;> simp only [Frame.step, attempts, Nat.add_zero]
    · rw [enterCall_count]; simp
    · rw [enterOther_count]; simp [CallKind.isCreate]
    · rw [enterOther_count]; simp [CallKind.isCreate]
    · rw [enterOther_count]; simp [CallKind.isCreate]
    · rw [enterCreate_count]; simp [CallKind.isCreate]
    · rw [enterCreate_count]; simp [CallKind.isCreate]
  | effect id => simp only [Frame.step, attempts]; split <;> simp
  | jkey parent slot off ty pty name => simp only [Frame.step, attempts]; split <;> simp [Tracer.saveStateKey]
  | jchange slot off ty v => simp only [Frame.step, attempts]; split <;> simp [Tracer.saveStateChange]
  | halt ret err gasLeft post =>
    simp only [Frame.step, attempts]
    split
    · simp
    · simp [haltFrame_count]

theorem attempts_cons (e : FEvent) (es : List FEvent) : attempts (e :: es) = attempts [e] + attempts es := by
  cases e <;> simp [attempts]

/-- **every event sequence**: one node per CALL / CREATE / CREATE2 attempt, no node for anything else -/
theorem c08_one_node_per_attempt (evs : List FEvent) : (Frame.run {} evs).tracer.tree.count = attempts evs := by
  have gen : ∀ (evs : List FEvent) (st : FState), (Frame.run st evs).tracer.tree.count = st.tracer.tree.count + attempts evs := by
    intro evs
    induction evs with
    | nil => intro st; simp [Frame.run, attempts]
    | cons e es ih =>
      intro st
      have h1 := step_count st e
      have h2 := ih (Frame.step st e)
      simp only [Frame.run, List.foldl_cons] at h2 ⊢
      rw [h2, h1, attempts_cons e es]
      omega
  have := gen evs {}
  simpa using this

/-- … and they are dense: the arena holds exactly the indices 0 … count−1 (from the well-formedness invariant) -/
theorem c08_nodes_are_the_attempts (evs : List FEvent) : (Frame.run {} evs).tracer.tree.nodes.length = attempts evs := by
  have hwf := c07_tree_wf_always evs
  rw [← c08_one_node_per_attempt evs]
  exact hwf.1.symm

end Artela
