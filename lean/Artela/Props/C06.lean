import Artela.Proofs.FrameLocal
/-
  C06 — gas passes through join points without being created, lost or misreported.
  Statements about `EVM.Call`'s prologue (`enterCall`) and epilogue (`haltFrame`) in the frame machine, for every
  join-point outcome `(ret, gas, err)` and every interpreter result.
-/
namespace Artela
open Frame

/-- the common gas rule: success and revert keep the gas, every other error forfeits it -/
theorem c06_gas_rule (g : Nat) (e : String) :
    tailGas g none = g ∧ tailGas g (some errReverted) = g ∧ (e ≠ errReverted → tailGas g (some e) = 0) := by
  refine ⟨rfl, by simp [tailGas], fun h => by simp [tailGas, h]⟩

/-- **Returned gas.** After the callee's code ran, the caller gets back exactly what the post join point left if
    the final outcome is success or a revert, and nothing otherwise; without a join point the same holds for the
    interpreter's leftover. -/
theorem c06_returned_gas (st : FState) (fr : OpenFrame) (rest : List OpenFrame) (ret : Option Bytes) (err : Option String)
    (gasLeft : Nat) (post : JPResult) (hk : fr.kind = .call) :
    ∃ r, (haltFrame st fr rest ret err gasLeft post).results = st.results ++ [r] ∧
      (fr.jpFired = true → r.err = (postJoinPoint ret err post).2.1 ∧ r.gas = tailGas post.gas r.err) ∧
      (fr.jpFired = false → r.err = err ∧ r.gas = tailGas gasLeft err) := by
  obtain ⟨r, h1, _, h3⟩ := haltFrame_call_result st fr rest ret err gasLeft post hk
  refine ⟨r, h1, ?_, ?_⟩
  · intro hj
    simp only [hj, if_true, Prod.mk.injEq] at h3
    obtain ⟨_, he, hg⟩ := h3
    refine ⟨he, ?_⟩
    rw [hg, he]
    have : (postJoinPoint ret err post).2.2 = post.gas := by
      unfold postJoinPoint; split <;> (try split) <;> rfl
    rw [this]
  · intro hj
    simp only [hj, Bool.false_eq_true, if_false, Prod.mk.injEq] at h3
    exact ⟨h3.2.1, h3.2.2⟩

/-- **Out of gas is normalised.** A post join point that fails with the text "out of gas" makes the frame fail with
    the EVM's own out-of-gas error, keeps the callee's return data out of the way and returns no gas. -/
theorem c06_post_oog_normalised (ret : Option Bytes) (err : Option String) (pr : Option Bytes) (pg : Nat) :
    postJoinPoint ret err ⟨pr, pg, some "out of gas"⟩ = (ret, some errOutOfGas, pg) ∧ tailGas pg (some errOutOfGas) = 0 := by
  constructor
  · simp [postJoinPoint, errOutOfGas]
  · simp [tailGas, errOutOfGas, errReverted]

/-- any other post-join-point failure that is not a revert forfeits the frame's gas like an exceptional halt; a
    successful post join point leaves the interpreter's error in place -/
theorem c06_post_failure (ret : Option Bytes) (err : Option String) (pr : Option Bytes) (pg : Nat) (e : String)
    (h1 : e ≠ errOutOfGas) (h2 : e ≠ errReverted) :
    postJoinPoint ret err ⟨pr, pg, some e⟩ = (pr, some e, pg) ∧ tailGas pg (some e) = 0 ∧
    postJoinPoint ret err ⟨pr, pg, none⟩ = (ret, err, pg) := by
  refine ⟨by simp [postJoinPoint, h1], by simp [tailGas, h2], by simp [postJoinPoint]⟩

/-- **Pre join point.** A failing pre join point makes the frame fail (out-of-gas text normalised) with the gas rule
    applied: nothing is returned unless the failure is a revert. -/
theorem c06_pre_failure_gas (pg : Nat) (e : String) :
    normaliseOOG e = e ∧ (e ≠ errReverted → tailGas pg (some (normaliseOOG e)) = 0) ∧
    tailGas pg (some (normaliseOOG errReverted)) = pg := by
  have h : normaliseOOG e = e := by unfold normaliseOOG; split <;> simp_all
  refine ⟨h, fun hne => by rw [h]; simp [tailGas, hne], by simp [normaliseOOG, tailGas, errReverted, errOutOfGas]⟩

/-- **No gas is created.** What a frame returns never exceeds what the last party in the chain left:
    `tailGas g e ≤ g`; so if the join points and the interpreter do not create gas, neither does the frame. -/
theorem c06_no_gas_created (supplied preGas gasLeft postGas : Nat) (e : Option String)
    (h1 : preGas ≤ supplied) (h2 : gasLeft ≤ preGas) (h3 : postGas ≤ gasLeft) : tailGas postGas e ≤ supplied := by
  have : tailGas postGas e ≤ postGas := by
    unfold tailGas; cases e with
    | none => exact Nat.le_refl _
    | some x => simp only; split <;> omega
  omega

/-- non-vacuity: an Aspect burning 300 of 1000 in the post join point of a successful call -/
example : postJoinPoint (some [1]) none ⟨none, 700, none⟩ = (some [1], none, 700) ∧ tailGas 700 none = 700 := by decide

end Artela
