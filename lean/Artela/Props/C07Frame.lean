import Artela.Proofs.FrameTree
/-
  C07 (frame part) and C03 (v) — after any execution the call tree is well formed and no call is left open.

  `Frame.run {} evs` is the frame machine started on a fresh EVM and fed ANY sequence of interpreter events: any
  program, nesting depth, refusal (depth limit, balance, nonce, collision), exceptional halt, join-point failure,
  and any number of successive top-level invocations.
-/
namespace Artela
open Frame CallTree

/-- the recorded call tree is well formed after every prefix of every execution -/
theorem c07_tree_wf_always (evs : List FEvent) : WF (run {} evs).tracer.tree :=
  (run_tree none {} evs fullInv_init).1.1

/-- **No call is left open**: whenever every frame has returned (the interpreter stack is empty — in particular
    after each top-level call or create returns, normally or not), the call-tree cursor is at rest. -/
theorem c07_closed_when_stack_empty (evs : List FEvent) (h : (run {} evs).stack = []) :
    (run {} evs).tracer.tree.current = none := by
  have := (run_tree none {} evs fullInv_init).1.2.1
  rw [h] at this
  exact this

/-- while frames are open, the cursor is the node of the innermost CALL / CREATE frame in progress (this is the
    index under which journal entries are filed, C10) -/
theorem c07_cursor_is_innermost_node_frame (evs : List FEvent) :
    (run {} evs).tracer.tree.current = cursorOf (run {} evs).stack none :=
  (run_tree none {} evs fullInv_init).1.2.1

/-- C03 (v): call depth (the number of interpreter runs in progress) and the call-tree cursor are both back at
    rest together -/
theorem c03_bookkeeping_closed (evs : List FEvent) (h : (run {} evs).stack.length = 0) :
    (run {} evs).tracer.tree.current = none :=
  c07_closed_when_stack_empty evs (List.length_eq_zero_iff.mp h)

/-- non-vacuity: a create refused for collision inside a call, then a second top-level call — everything closed -/
example :
    let evs : List FEvent := [ .enter .call 0xca 0xc0 0 [] 1000 {}, .enter .create2 0xc0 0xdd 0 [0] 500 { collision := true },
                               .halt none none 100 ⟨none, 0, none⟩, .enter .call 0xca 0xc0 0 [] 1000 {}, .halt none (some "out of gas") 0 ⟨none, 0, none⟩ ]
    (run {} evs).stack.length = 0 ∧ (run {} evs).tracer.tree.count = 3 ∧ (run {} evs).tracer.tree.current = none := by decide +kernel

end Artela
