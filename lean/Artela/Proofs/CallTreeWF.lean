import Artela.Model.CallTree
/-
  Helper lemmas for C07: the well-formedness invariant of the call tree and its preservation
  by `add` and `exit`.
-/
namespace Artela
namespace CallTree

/-- Well-formedness of the recorded call tree (C07). -/
structure WF (t : CallTree) : Prop where
  /-- indices are dense: the counter is the number of nodes -/
  count_eq : t.count = t.nodes.length
  /-- looking a node up by index returns the node carrying that index -/
  index_eq : ∀ (i : Nat) (n : CallNode), t.nodes[i]? = some n → n.index = i
  /-- the cursor, if any, denotes a recorded node -/
  cur_lt : ∀ (c : Nat), t.current = some c → c < t.nodes.length
  /-- the root is the first node ever recorded -/
  root_def : t.root = if t.nodes.length = 0 then none else some 0
  /-- a parent has a smaller index … -/
  parent_lt : ∀ (i : Nat) (n : CallNode) (p : Nat), t.nodes[i]? = some n → n.parent = some p → p < i
  /-- … and lists the node among its children -/
  parent_lists : ∀ (i : Nat) (n : CallNode) (p : Nat), t.nodes[i]? = some n → n.parent = some p →
      ∃ pn, t.nodes[p]? = some pn ∧ i ∈ pn.children
  /-- every listed child is a recorded node whose parent is the lister (so the parent is unique) -/
  child_parent : ∀ (p : Nat) (pn : CallNode) (c : Nat), t.nodes[p]? = some pn → c ∈ pn.children →
      ∃ cn, t.nodes[c]? = some cn ∧ cn.parent = some p
  /-- children are listed in strictly increasing index order (hence exactly once) -/
  children_sorted : ∀ (p : Nat) (pn : CallNode), t.nodes[p]? = some pn → pn.children.Pairwise (· < ·)

theorem wf_empty : WF CallTree.empty := by
  refine ⟨rfl, ?_, ?_, rfl, ?_, ?_, ?_, ?_⟩ <;> simp [CallTree.empty]

/-- all listed children are below the node count -/
theorem WF.child_lt {t : CallTree} (h : WF t) {p : Nat} {pn : CallNode} {c : Nat}
    (hp : t.nodes[p]? = some pn) (hc : c ∈ pn.children) : c < t.nodes.length := by
  obtain ⟨cn, hcn, _⟩ := h.child_parent p pn c hp hc
  exact (List.getElem?_eq_some_iff.mp hcn).1

theorem pairwise_append_single {l : List Nat} {x : Nat} (hl : l.Pairwise (· < ·)) (hx : ∀ y ∈ l, y < x) :
    (l ++ [x]).Pairwise (· < ·) := by
  rw [List.pairwise_append]
  refine ⟨hl, by simp, ?_⟩
  intro a ha b hb
  simp at hb
  subst hb
  exact hx a ha

/-- lookups in the arena after `add` -/
theorem add_nodes (t : CallTree) (f : Addr) (to : Option Addr) (d : Bytes) (v g : Nat) (i : Nat) :
    (t.add f to d v g).nodes[i]? =
      if i < t.nodes.length then
        (t.nodes[i]?).map (fun n0 => if t.current = some i then pushChild t.count n0 else n0)
      else if i = t.nodes.length then some (mkNode f to d v g t.count t.current) else none := by
  unfold add
  simp only
  cases hcur : t.current with
  | none =>
    simp only [List.getElem?_append, List.getElem?_singleton]
    split
    · cases h0 : t.nodes[i]? <;> simp
    · split
      · rename_i h1 h2; have : i = t.nodes.length := by omega
        simp [this]
      · rename_i h1 h2; have : i ≠ t.nodes.length := by omega
        simp [this]
  | some cur =>
    simp only [List.getElem?_append, List.getElem?_singleton, List.length_modify, List.getElem?_modify]
    split
    · cases h0 : t.nodes[i]? with
      | none => simp
      | some n0 => by_cases hci : cur = i <;> simp [hci]
    · split
      · rename_i h1 h2; have : i = t.nodes.length := by omega
        simp [this]
      · rename_i h1 h2; have : i ≠ t.nodes.length := by omega
        simp [this]

theorem add_nodes_length (t : CallTree) (f : Addr) (to : Option Addr) (d : Bytes) (v g : Nat) :
    (t.add f to d v g).nodes.length = t.nodes.length + 1 := by
  unfold add; cases t.current <;> simp

/-- case analysis form of `add_nodes` -/
theorem add_nodes_cases {t : CallTree} {f : Addr} {to : Option Addr} {d : Bytes} {v g : Nat} {i : Nat} {n : CallNode}
    (hn : (t.add f to d v g).nodes[i]? = some n) :
    (∃ n0, t.nodes[i]? = some n0 ∧ n = (if t.current = some i then pushChild t.count n0 else n0)) ∨
    (i = t.nodes.length ∧ n = mkNode f to d v g t.count t.current) := by
  rw [add_nodes] at hn
  split at hn
  · cases h0 : t.nodes[i]? with
    | none => simp [h0] at hn
    | some n0 => left; refine ⟨n0, rfl, ?_⟩; simp [h0] at hn; exact hn.symm
  · split at hn
    · right; rename_i h; exact ⟨h, by simpa using hn.symm⟩
    · simp at hn

theorem add_nodes_old {t : CallTree} (f : Addr) (to : Option Addr) (d : Bytes) (v g : Nat) {i : Nat} {n0 : CallNode}
    (h0 : t.nodes[i]? = some n0) :
    (t.add f to d v g).nodes[i]? = some (if t.current = some i then pushChild t.count n0 else n0) := by
  rw [add_nodes, if_pos (List.getElem?_eq_some_iff.mp h0).1, h0]; rfl

theorem add_wf {t : CallTree} (h : WF t) (f : Addr) (to : Option Addr) (d : Bytes) (v g : Nat) :
    WF (t.add f to d v g) := by
  have hc := h.count_eq
  refine ⟨?_, ?_, ?_, ?_, ?_, ?_, ?_, ?_⟩
  · rw [add_nodes_length]; simp [add, hc]
  · intro i n hn
    rcases add_nodes_cases hn with ⟨n0, h0, rfl⟩ | ⟨rfl, rfl⟩
    · have := h.index_eq i n0 h0
      split <;> simpa [pushChild] using this
    · simp [mkNode, hc]
  · intro c hcc
    rw [add_nodes_length]
    simp [add] at hcc
    omega
  · rw [add_nodes_length]
    simp only [add, h.root_def]
    by_cases hz : t.nodes.length = 0
    · simp [hz, hc]
    · simp [hz]
  · intro i n p hn hp
    rcases add_nodes_cases hn with ⟨n0, h0, rfl⟩ | ⟨rfl, rfl⟩
    · have : n0.parent = some p := by split at hp <;> simpa [pushChild] using hp
      exact h.parent_lt i n0 p h0 this
    · simp only [mkNode] at hp
      exact h.cur_lt p hp
  · intro i n p hn hp
    rcases add_nodes_cases hn with ⟨n0, h0, rfl⟩ | ⟨rfl, rfl⟩
    · have hp0 : n0.parent = some p := by split at hp <;> simpa [pushChild] using hp
      obtain ⟨pn, hpn, hmem⟩ := h.parent_lists i n0 p h0 hp0
      refine ⟨_, add_nodes_old f to d v g hpn, ?_⟩
      split
      · simp [pushChild, hmem]
      · exact hmem
    · simp only [mkNode] at hp
      have hpl := h.cur_lt p hp
      obtain ⟨cn, hcn⟩ : ∃ cn, t.nodes[p]? = some cn := ⟨_, List.getElem?_eq_some_iff.mpr ⟨hpl, rfl⟩⟩
      refine ⟨_, add_nodes_old f to d v g hcn, ?_⟩
      simp [hp, pushChild, hc]
  · intro p pn c hp hcm
    rcases add_nodes_cases hp with ⟨n0, h0, rfl⟩ | ⟨rfl, rfl⟩
    · by_cases hcp : t.current = some p
      · simp only [hcp, if_true, pushChild, List.mem_append, List.mem_singleton] at hcm
        rcases hcm with hcm | hcm
        · obtain ⟨cn, hcn, hpar⟩ := h.child_parent p n0 c h0 hcm
          refine ⟨_, add_nodes_old f to d v g hcn, ?_⟩
          split <;> simpa [pushChild] using hpar
        · subst hcm
          refine ⟨mkNode f to d v g t.count t.current, ?_, by simp [mkNode, hcp]⟩
          rw [add_nodes, hc]; simp
      · simp only [hcp, if_false] at hcm
        obtain ⟨cn, hcn, hpar⟩ := h.child_parent p n0 c h0 hcm
        refine ⟨_, add_nodes_old f to d v g hcn, ?_⟩
        split <;> simpa [pushChild] using hpar
    · simp [mkNode] at hcm
  · intro p pn hp
    rcases add_nodes_cases hp with ⟨n0, h0, rfl⟩ | ⟨rfl, rfl⟩
    · have hs := h.children_sorted p n0 h0
      split
      · simp only [pushChild]
        apply pairwise_append_single hs
        intro y hy
        have := h.child_lt h0 hy
        omega
      · exact hs
    · simp [mkNode]

theorem exit_wf {t : CallTree} (h : WF t) (l : Nat) (r : Option Bytes) (e : Option String) :
    WF (t.exit l r e) := by
  unfold exit
  cases hcur : t.current with
  | none => simpa using h
  | some c =>
    simp only
    cases hn : t.nodes[c]? with
    | none => simpa using h
    | some n =>
      simp only
      have look : ∀ (i : Nat) (m : CallNode),
          (t.nodes.modify c (setResult l r e))[i]? = some m →
          ∃ m0, t.nodes[i]? = some m0 ∧ m.index = m0.index ∧ m.parent = m0.parent ∧ m.children = m0.children := by
        intro i m hm
        rw [List.getElem?_modify] at hm
        cases h0 : t.nodes[i]? with
        | none => simp [h0] at hm
        | some m0 =>
          simp [h0] at hm
          refine ⟨m0, rfl, ?_⟩
          subst hm
          split <;> simp [setResult]
      have look' : ∀ (i : Nat) (m0 : CallNode), t.nodes[i]? = some m0 →
          ∃ m, (t.nodes.modify c (setResult l r e))[i]? = some m ∧
            m.index = m0.index ∧ m.parent = m0.parent ∧ m.children = m0.children := by
        intro i m0 h0
        rw [List.getElem?_modify, h0]
        by_cases hci : c = i <;> simp [hci, setResult]
      refine ⟨?_, ?_, ?_, ?_, ?_, ?_, ?_, ?_⟩
      · simpa using h.count_eq
      · intro i m hm
        obtain ⟨m0, h0, hi, _, _⟩ := look i m hm
        rw [hi]; exact h.index_eq i m0 h0
      · intro c' hc'
        simp only [List.length_modify]
        have := h.parent_lt c n c' hn hc'
        have := h.cur_lt c hcur
        omega
      · simpa using h.root_def
      · intro i m p hm hp
        obtain ⟨m0, h0, _, hpar, _⟩ := look i m hm
        exact h.parent_lt i m0 p h0 (hpar ▸ hp)
      · intro i m p hm hp
        obtain ⟨m0, h0, _, hpar, _⟩ := look i m hm
        obtain ⟨pn, hpn, hmem⟩ := h.parent_lists i m0 p h0 (hpar ▸ hp)
        obtain ⟨pn', hpn', _, _, hch⟩ := look' p pn hpn
        exact ⟨pn', hpn', hch ▸ hmem⟩
      · intro p pn c' hp hcm
        obtain ⟨pn0, h0, _, _, hch⟩ := look p pn hp
        obtain ⟨cn, hcn, hpar⟩ := h.child_parent p pn0 c' h0 (hch ▸ hcm)
        obtain ⟨cn', hcn', _, hpar', _⟩ := look' c' cn hcn
        exact ⟨cn', hcn', hpar' ▸ hpar⟩
      · intro p pn hp
        obtain ⟨pn0, h0, _, _, hch⟩ := look p pn hp
        rw [hch]; exact h.children_sorted p pn0 h0

theorem step_wf {t : CallTree} (h : WF t) (op : Op) : WF (t.step op) := by
  cases op with
  | add f to d v g => exact add_wf h f to d v g
  | exit l r e => exact exit_wf h l r e

theorem run_wf {t : CallTree} (h : WF t) (ops : List Op) : WF (t.run ops) := by
  induction ops generalizing t with
  | nil => exact h
  | cons op ops ih => exact ih (step_wf h op)

end CallTree
end Artela
