import Artela.Generated.JumpTables
import Artela.Generated.Precompiles
import Artela.Generated.FuncIdentity
import Artela.Generated.SourceFacts
import Artela.Spec.Delta
/-
  Obligations over the tables regenerated from /repo on every run (`harness extract`).  All are closed by
  `decide +kernel` (kernel evaluation of a decidable proposition; no axioms): they are re-checked against what
  the code says now, and fail as soon as a table entry, a precompile set or the identity status of an inherited
  declaration changes.
-/
namespace Artela
open Artela.Gen

def isJournalOp (r : OpRow) : Bool := 0xe0 ≤ r.op && r.op ≤ 0xe7
def notJournal (r : OpRow) : Bool := !isJournalOp r

/-- the eight journal instructions as every table must list them: no constant gas, the flat-fee dynamic gas
    closure, no memory-size function, `minStack = arity`, `maxStack = 1024 + arity` (pops arity, pushes 0) -/
def journalRows : List OpRow := [
  ⟨0xe0, "opReferenceStateVarJournal", "makeGasJournal", "-", 0, 3, 1027⟩,
  ⟨0xe1, "opValueStateVarJournal", "makeGasJournal", "-", 0, 4, 1028⟩,
  ⟨0xe2, "opReferenceIndexValueStorageJournal", "makeGasJournal", "-", 0, 6, 1030⟩,
  ⟨0xe3, "opReferenceIndexReferenceStorageJournal", "makeGasJournal", "-", 0, 5, 1029⟩,
  ⟨0xe4, "opValueIndexValueStorageJournal", "makeGasJournal", "-", 0, 6, 1030⟩,
  ⟨0xe5, "opValueIndexReferenceStorageJournal", "makeGasJournal", "-", 0, 5, 1029⟩,
  ⟨0xe6, "opValueChangeJournal", "makeGasJournal", "-", 0, 4, 1028⟩,
  ⟨0xe7, "opReferenceChangeJournal", "makeGasJournal", "-", 0, 2, 1026⟩]

def cancunOps (r : OpRow) : Bool := r.op == 0x5c || r.op == 0x5d || r.op == 0x5e || r.op == 0xb3 || r.op == 0xb4

/-! ### C01/C02/C12/C18: outside 0xe0–0xe7 every fork table equals upstream's, entry by entry -/

theorem tables_agree_Frontier : forkFrontier.filter notJournal = upFrontier := by decide +kernel
theorem tables_agree_Homestead : forkHomestead.filter notJournal = upHomestead := by decide +kernel
theorem tables_agree_TangerineWhistle : forkTangerineWhistle.filter notJournal = upTangerineWhistle := by decide +kernel
theorem tables_agree_SpuriousDragon : forkSpuriousDragon.filter notJournal = upSpuriousDragon := by decide +kernel
theorem tables_agree_Byzantium : forkByzantium.filter notJournal = upByzantium := by decide +kernel
theorem tables_agree_Constantinople : forkConstantinople.filter notJournal = upConstantinople := by decide +kernel
theorem tables_agree_Petersburg : forkPetersburg.filter notJournal = upPetersburg := by decide +kernel
theorem tables_agree_Istanbul : forkIstanbul.filter notJournal = upIstanbul := by decide +kernel
theorem tables_agree_Berlin : forkBerlin.filter notJournal = upBerlin := by decide +kernel
theorem tables_agree_London : forkLondon.filter notJournal = upLondon := by decide +kernel
theorem tables_agree_Merge : forkMerge.filter notJournal = upMerge := by decide +kernel
theorem tables_agree_Shanghai : forkShanghai.filter notJournal = upShanghai := by decide +kernel

/-! ### C12: the journal instructions exist on every fork (and with every extra-EIP set) with the same entry -/
theorem journal_rows_Frontier : forkFrontier.filter isJournalOp = journalRows := by decide +kernel
theorem journal_rows_Homestead : forkHomestead.filter isJournalOp = journalRows := by decide +kernel
theorem journal_rows_TangerineWhistle : forkTangerineWhistle.filter isJournalOp = journalRows := by decide +kernel
theorem journal_rows_SpuriousDragon : forkSpuriousDragon.filter isJournalOp = journalRows := by decide +kernel
theorem journal_rows_Byzantium : forkByzantium.filter isJournalOp = journalRows := by decide +kernel
theorem journal_rows_Constantinople : forkConstantinople.filter isJournalOp = journalRows := by decide +kernel
theorem journal_rows_Petersburg : forkPetersburg.filter isJournalOp = journalRows := by decide +kernel
theorem journal_rows_Istanbul : forkIstanbul.filter isJournalOp = journalRows := by decide +kernel
theorem journal_rows_Berlin : forkBerlin.filter isJournalOp = journalRows := by decide +kernel
theorem journal_rows_London : forkLondon.filter isJournalOp = journalRows := by decide +kernel
theorem journal_rows_Merge : forkMerge.filter isJournalOp = journalRows := by decide +kernel
theorem journal_rows_Shanghai : forkShanghai.filter isJournalOp = journalRows := by decide +kernel
theorem journal_rows_Cancun : forkCancun.filter isJournalOp = journalRows := by decide +kernel
theorem journal_rows_IstanbulEip2929 : forkIstanbulEip2929.filter isJournalOp = journalRows := by decide +kernel
theorem journal_rows_BerlinEip3198 : forkBerlinEip3198.filter isJournalOp = journalRows := by decide +kernel
theorem journal_rows_LondonEip3855 : forkLondonEip3855.filter isJournalOp = journalRows := by decide +kernel
theorem journal_rows_LondonEip3860 : forkLondonEip3860.filter isJournalOp = journalRows := by decide +kernel
theorem journal_rows_ConstantinopleEip1344 : forkConstantinopleEip1344.filter isJournalOp = journalRows := by decide +kernel
theorem journal_rows_ConstantinopleEip1884 : forkConstantinopleEip1884.filter isJournalOp = journalRows := by decide +kernel
theorem journal_rows_ConstantinopleEip2200 : forkConstantinopleEip2200.filter isJournalOp = journalRows := by decide +kernel
theorem journal_rows_ShanghaiEip1153 : forkShanghaiEip1153.filter isJournalOp = journalRows := by decide +kernel
theorem journal_rows_ShanghaiEip5656 : forkShanghaiEip5656.filter isJournalOp = journalRows := by decide +kernel

/-! ### C15: TLOAD/TSTORE/MCOPY are defined exactly in the Cancun table (and by their activators), nowhere else -/
theorem cancun_rows : forkCancun.filter cancunOps = [
    ⟨0x5c, "opTload", "-", "-", 100, 1, 1024⟩,
    ⟨0x5d, "opTstore", "-", "-", 100, 2, 1026⟩,
    ⟨0x5e, "opMcopy", "memoryCopierGas", "memoryMcopy", 3, 3, 1027⟩] := by decide +kernel
/-- apart from those three entries the Cancun table is the Shanghai table -/
theorem cancun_is_shanghai_plus : forkCancun.filter (fun r => !cancunOps r) = forkShanghai := by decide +kernel
theorem pre_cancun_undefined_Frontier : forkFrontier.filter cancunOps = [] := by decide +kernel
theorem pre_cancun_undefined_Homestead : forkHomestead.filter cancunOps = [] := by decide +kernel
theorem pre_cancun_undefined_TangerineWhistle : forkTangerineWhistle.filter cancunOps = [] := by decide +kernel
theorem pre_cancun_undefined_SpuriousDragon : forkSpuriousDragon.filter cancunOps = [] := by decide +kernel
theorem pre_cancun_undefined_Byzantium : forkByzantium.filter cancunOps = [] := by decide +kernel
theorem pre_cancun_undefined_Constantinople : forkConstantinople.filter cancunOps = [] := by decide +kernel
theorem pre_cancun_undefined_Petersburg : forkPetersburg.filter cancunOps = [] := by decide +kernel
theorem pre_cancun_undefined_Istanbul : forkIstanbul.filter cancunOps = [] := by decide +kernel
theorem pre_cancun_undefined_Berlin : forkBerlin.filter cancunOps = [] := by decide +kernel
theorem pre_cancun_undefined_London : forkLondon.filter cancunOps = [] := by decide +kernel
theorem pre_cancun_undefined_Merge : forkMerge.filter cancunOps = [] := by decide +kernel
theorem pre_cancun_undefined_Shanghai : forkShanghai.filter cancunOps = [] := by decide +kernel
theorem eip1153_rows : forkShanghaiEip1153.filter cancunOps = [
    ⟨0x5c, "opTload", "-", "-", 100, 1, 1024⟩, ⟨0x5d, "opTstore", "-", "-", 100, 2, 1026⟩] := by decide +kernel
theorem eip5656_rows : forkShanghaiEip5656.filter cancunOps = [
    ⟨0x5e, "opMcopy", "memoryCopierGas", "memoryMcopy", 3, 3, 1027⟩] := by decide +kernel

/-! ### C14 / C01: precompile sets -/
theorem precompiles_agree_Homestead : forkPrecompilesHomestead = upPrecompilesHomestead := by decide +kernel
theorem precompiles_agree_Byzantium : forkPrecompilesByzantium = upPrecompilesByzantium := by decide +kernel
theorem precompiles_agree_Istanbul : forkPrecompilesIstanbul = upPrecompilesIstanbul := by decide +kernel
theorem precompiles_agree_BLS : forkPrecompilesBLS = upPrecompilesBLS := by decide +kernel
def isArtelaPrecompile (s : String) : Bool := s == "64=aspcontext" || s == "65=userOpSender" || s == "66=contextWriter"
/-- Berlin = upstream's Berlin set plus exactly the three Artela precompiles -/
theorem precompiles_berlin_delta :
    forkPrecompilesBerlin.filter (fun s => !isArtelaPrecompile s) = upPrecompilesBerlin ∧
    forkPrecompilesBerlin.filter isArtelaPrecompile = ["64=aspcontext", "65=userOpSender", "66=contextWriter"] := by decide +kernel
def isArtelaAddr (s : String) : Bool := s == "64" || s == "65" || s == "66"
/-- the Artela addresses are active precompiles exactly from Berlin on -/
theorem artela_active_from_berlin :
    (forkActiveBerlin.filter isArtelaAddr = ["64", "65", "66"]) ∧ (forkActiveLondon.filter isArtelaAddr = ["64", "65", "66"]) ∧
    (forkActiveMerge.filter isArtelaAddr = ["64", "65", "66"]) ∧ (forkActiveShanghai.filter isArtelaAddr = ["64", "65", "66"]) ∧
    (forkActiveCancun.filter isArtelaAddr = ["64", "65", "66"]) := by decide +kernel
theorem artela_inactive_before_berlin :
    forkActiveFrontier.filter isArtelaAddr = [] ∧ forkActiveHomestead.filter isArtelaAddr = [] ∧
    forkActiveTangerineWhistle.filter isArtelaAddr = [] ∧ forkActiveSpuriousDragon.filter isArtelaAddr = [] ∧
    forkActiveByzantium.filter isArtelaAddr = [] ∧ forkActiveConstantinople.filter isArtelaAddr = [] ∧
    forkActivePetersburg.filter isArtelaAddr = [] ∧ forkActiveIstanbul.filter isArtelaAddr = [] := by decide +kernel
theorem active_agree_Frontier : forkActiveFrontier.filter (fun s => !isArtelaAddr s) = upActiveFrontier := by decide +kernel
theorem active_agree_Homestead : forkActiveHomestead.filter (fun s => !isArtelaAddr s) = upActiveHomestead := by decide +kernel
theorem active_agree_TangerineWhistle : forkActiveTangerineWhistle.filter (fun s => !isArtelaAddr s) = upActiveTangerineWhistle := by decide +kernel
theorem active_agree_SpuriousDragon : forkActiveSpuriousDragon.filter (fun s => !isArtelaAddr s) = upActiveSpuriousDragon := by decide +kernel
theorem active_agree_Byzantium : forkActiveByzantium.filter (fun s => !isArtelaAddr s) = upActiveByzantium := by decide +kernel
theorem active_agree_Constantinople : forkActiveConstantinople.filter (fun s => !isArtelaAddr s) = upActiveConstantinople := by decide +kernel
theorem active_agree_Petersburg : forkActivePetersburg.filter (fun s => !isArtelaAddr s) = upActivePetersburg := by decide +kernel
theorem active_agree_Istanbul : forkActiveIstanbul.filter (fun s => !isArtelaAddr s) = upActiveIstanbul := by decide +kernel
theorem active_agree_Berlin : forkActiveBerlin.filter (fun s => !isArtelaAddr s) = upActiveBerlin := by decide +kernel
theorem active_agree_London : forkActiveLondon.filter (fun s => !isArtelaAddr s) = upActiveLondon := by decide +kernel
theorem active_agree_Merge : forkActiveMerge.filter (fun s => !isArtelaAddr s) = upActiveMerge := by decide +kernel
theorem active_agree_Shanghai : forkActiveShanghai.filter (fun s => !isArtelaAddr s) = upActiveShanghai := by decide +kernel
/-- fixed fee 5000 whatever the payload size (observed on sizes 0, 1, 32, 1000, 100000) -/
theorem artela_fees : artelaPrecompileFees =
    ["64/0=5000", "64/100000=5000", "64/1000=5000", "64/1=5000", "64/32=5000",
     "65/0=5000", "65/100000=5000", "65/1000=5000", "65/1=5000", "65/32=5000",
     "66/0=5000", "66/100000=5000", "66/1000=5000", "66/1=5000", "66/32=5000"] := by decide +kernel

/-! ### the fee functions are single constant returns -/
theorem fee_bodies : feeBodies = [
    "aspcontext.RequiredGas={return5000}",
    "contextWriter.RequiredGas={return5000}",
    "makeGasJournal={returnfunc(evm*EVM,contract*Contract,stack*Stack,mem*Memory,memorySizeuint64)(uint64,error){returnparams.SloadGasEIP2200,nil}}",
    "userOpSender.RequiredGas={return5000}"] := by decide +kernel

/-! ### C16/C17: no function of package vm writes a package-level variable after init, and the shared 256-bit
    constants are never the receiver of a mutating method, aliased-then-mutated, or have their address taken -/
theorem no_global_writes : globalWrites =
    ["stack.go:newstack:mutating-method:stackPool.Get", "stack.go:returnStack:mutating-method:stackPool.Put"] := by decide +kernel

/-! ### C01/C02/C18: every declaration that differs from go-ethereum v1.12.0 is in the modelled delta -/
theorem delta_is_modelled : declDelta.all (fun r => expectedDelta.contains r) = true := by decide +kernel

end Artela
