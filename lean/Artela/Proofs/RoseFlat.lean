/-
  Pre-order flattening of a labelled tree with trace addresses — the shape of `flatFromNested` / `flatAspectNested`
  (tracers/native/call_flat.go) once the children of a frame are listed in the order pre-Aspects, calls, post-Aspects.

  Proved for every tree: each entry's `sub` is its number of children; the address of the k-th child of an entry at
  `addr` is `addr ++ [k]`; addresses are pairwise distinct; and every non-root address has its parent address in the
  list (prefix-closed).
-/
namespace Artela

inductive Rose (α : Type) where
  | node : α → List (Rose α) → Rose α

structure FlatEntry (α : Type) where
  label : α
  addr : List Nat
  sub : Nat

namespace Rose
variable {α : Type}

mutual
def flat : Rose α → List Nat → List (FlatEntry α)
  | .node a cs, addr => ⟨a, addr, cs.length⟩ :: flatList cs addr 0
def flatList : List (Rose α) → List Nat → Nat → List (FlatEntry α)
  | [], _, _ => []
  | c :: cs, addr, i => flat c (addr ++ [i]) ++ flatList cs addr (i + 1)
end

mutual
def size : Rose α → Nat
  | .node _ cs => 1 + sizeList cs
def sizeList : List (Rose α) → Nat
  | [] => 0
  | c :: cs => size c + sizeList cs
end

/- every node is emitted exactly once: the flat list has as many entries as the tree has nodes -/
mutual
theorem flat_length : ∀ (t : Rose α) (addr : List Nat), (flat t addr).length = size t
  | .node a cs, addr => by simp [flat, size, flatList_length cs addr 0]; omega
theorem flatList_length : ∀ (cs : List (Rose α)) (addr : List Nat) (i : Nat), (flatList cs addr i).length = sizeList cs
  | [], _, _ => by simp [flatList, sizeList]
  | c :: cs, addr, i => by simp [flatList, sizeList, flat_length c, flatList_length cs]
end

/- every address emitted under `addr` extends `addr` -/
mutual
theorem flat_prefix : ∀ (t : Rose α) (addr : List Nat) (e : FlatEntry α), e ∈ flat t addr → addr <+: e.addr
  | .node a cs, addr, e, h => by
    simp only [flat, List.mem_cons] at h
    rcases h with h | h
    · subst h; exact List.prefix_refl _
    · obtain ⟨j, _, hj⟩ := flatList_prefix cs addr 0 e h
      exact List.IsPrefix.trans (List.prefix_append _ _) hj
theorem flatList_prefix : ∀ (cs : List (Rose α)) (addr : List Nat) (i : Nat) (e : FlatEntry α), e ∈ flatList cs addr i →
    ∃ j, i ≤ j ∧ (addr ++ [j]) <+: e.addr
  | [], _, _, _, h => by simp [flatList] at h
  | c :: cs, addr, i, e, h => by
    simp only [flatList, List.mem_append] at h
    rcases h with h | h
    · exact ⟨i, Nat.le_refl _, flat_prefix c (addr ++ [i]) e h⟩
    · obtain ⟨j, hj, hp⟩ := flatList_prefix cs addr (i + 1) e h
      exact ⟨j, by omega, hp⟩
end

theorem eq_of_nodup_map {β γ : Type} (f : β → γ) : ∀ (l : List β), (l.map f).Nodup → ∀ x ∈ l, ∀ y ∈ l, f x = f y → x = y
  | [], _, x, hx, _, _, _ => by simp at hx
  | a :: l, h, x, hx, y, hy, hxy => by
    simp only [List.map_cons, List.nodup_cons] at h
    simp only [List.mem_cons] at hx hy
    rcases hx with hx | hx <;> rcases hy with hy | hy
    · rw [hx, hy]
    · subst hx; exact absurd (List.mem_map.mpr ⟨y, hy, hxy.symm⟩) h.1
    · subst hy; exact absurd (List.mem_map.mpr ⟨x, hx, hxy⟩) h.1
    · exact eq_of_nodup_map f l h.2 x hx y hy hxy

theorem prefix_same_length {l1 l2 x : List Nat} (h1 : l1 <+: x) (h2 : l2 <+: x) (hl : l1.length = l2.length) : l1 = l2 := by
  obtain ⟨t1, ht1⟩ := h1
  obtain ⟨t2, ht2⟩ := h2
  have := ht1.trans ht2.symm
  exact (List.append_inj this hl).1

theorem snoc_prefix_ne {addr x : List Nat} {i j : Nat} (h1 : (addr ++ [i]) <+: x) (h2 : (addr ++ [j]) <+: x) : i = j := by
  have := prefix_same_length h1 h2 (by simp)
  have := List.append_cancel_left this
  simpa using this

/- addresses are pairwise distinct -/
mutual
theorem flat_nodup : ∀ (t : Rose α) (addr : List Nat), ((flat t addr).map (·.addr)).Nodup
  | .node a cs, addr => by
    simp only [flat, List.map_cons, List.nodup_cons]
    refine ⟨?_, flatList_nodup cs addr 0⟩
    intro hmem
    obtain ⟨e, he, hea⟩ := List.mem_map.mp hmem
    obtain ⟨j, _, hp⟩ := flatList_prefix cs addr 0 e he
    have := hp.length_le
    rw [hea] at this
    simp at this
    omega
theorem flatList_nodup : ∀ (cs : List (Rose α)) (addr : List Nat) (i : Nat), ((flatList cs addr i).map (·.addr)).Nodup
  | [], _, _ => by simp [flatList]
  | c :: cs, addr, i => by
    simp only [flatList, List.map_append]
    rw [List.nodup_append]
    refine ⟨flat_nodup c (addr ++ [i]), flatList_nodup cs addr (i + 1), ?_⟩
    intro x hx y hy hxy
    obtain ⟨e1, he1, h1⟩ := List.mem_map.mp hx
    obtain ⟨e2, he2, h2⟩ := List.mem_map.mp hy
    have p1 := flat_prefix c (addr ++ [i]) e1 he1
    obtain ⟨j, hj, p2⟩ := flatList_prefix cs addr (i + 1) e2 he2
    rw [h1] at p1; rw [h2, ← hxy] at p2
    have := snoc_prefix_ne p1 p2
    omega
end

/- every entry other than the root has its parent in the list: its address is the parent's address followed by an index
   below the parent's `sub` (prefix-closed, and no child index at or beyond `sub`) -/
mutual
theorem flat_parent : ∀ (t : Rose α) (addr : List Nat) (e : FlatEntry α), e ∈ flat t addr →
    e.addr = addr ∨ ∃ e' ∈ flat t addr, ∃ k, k < e'.sub ∧ e.addr = e'.addr ++ [k]
  | .node a cs, addr, e, h => by
    simp only [flat, List.mem_cons] at h
    rcases h with h | h
    · subst h; exact Or.inl rfl
    · right
      rcases flatList_parent cs addr 0 e h with ⟨k, _, hk, hek⟩ | ⟨e', he', k, hk, hek⟩
      · exact ⟨⟨a, addr, cs.length⟩, by simp [flat], k, by simpa using hk, hek⟩
      · exact ⟨e', by simp [flat, he'], k, hk, hek⟩
theorem flatList_parent : ∀ (cs : List (Rose α)) (addr : List Nat) (i : Nat) (e : FlatEntry α), e ∈ flatList cs addr i →
    (∃ k, i ≤ k ∧ k < i + cs.length ∧ e.addr = addr ++ [k]) ∨ ∃ e' ∈ flatList cs addr i, ∃ k, k < e'.sub ∧ e.addr = e'.addr ++ [k]
  | [], _, _, _, h => by simp [flatList] at h
  | c :: cs, addr, i, e, h => by
    simp only [flatList, List.mem_append] at h
    rcases h with h | h
    · rcases flat_parent c (addr ++ [i]) e h with h0 | ⟨e', he', k, hk, hek⟩
      · exact Or.inl ⟨i, Nat.le_refl _, by simp, h0⟩
      · exact Or.inr ⟨e', by simp [flatList, he'], k, hk, hek⟩
    · rcases flatList_parent cs addr (i + 1) e h with ⟨k, hk1, hk2, hek⟩ | ⟨e', he', k, hk, hek⟩
      · exact Or.inl ⟨k, by omega, by simp; omega, hek⟩
      · exact Or.inr ⟨e', by simp [flatList, he'], k, hk, hek⟩
end

/- the head entry of a flattened tree sits at the given address -/
theorem flat_head (t : Rose α) (addr : List Nat) : ∃ e ∈ flat t addr, e.addr = addr := by
  cases t with
  | node a cs => exact ⟨⟨a, addr, cs.length⟩, by simp [flat], rfl⟩

theorem flatList_heads : ∀ (cs : List (Rose α)) (addr : List Nat) (i k : Nat), i ≤ k → k < i + cs.length →
    ∃ e ∈ flatList cs addr i, e.addr = addr ++ [k]
  | [], _, _, _, h1, h2 => by simp at h2; omega
  | c :: cs, addr, i, k, h1, h2 => by
    by_cases hk : k = i
    · subst hk
      obtain ⟨e, he, hea⟩ := flat_head c (addr ++ [k])
      exact ⟨e, by simp [flatList, he], hea⟩
    · obtain ⟨e, he, hea⟩ := flatList_heads cs addr (i + 1) k (by omega) (by simp at h2; omega)
      exact ⟨e, by simp [flatList, he], hea⟩

/- every announced child is there: for each k below an entry's `sub` the list holds an entry at `addr ++ [k]` -/
mutual
theorem flat_children : ∀ (t : Rose α) (addr : List Nat) (e : FlatEntry α), e ∈ flat t addr → ∀ k, k < e.sub →
    ∃ e' ∈ flat t addr, e'.addr = e.addr ++ [k]
  | .node a cs, addr, e, h, k, hk => by
    simp only [flat, List.mem_cons] at h
    rcases h with h | h
    · subst h
      obtain ⟨e', he', hea⟩ := flatList_heads cs addr 0 k (Nat.zero_le _) (by simpa using hk)
      exact ⟨e', by simp [flat, he'], hea⟩
    · obtain ⟨e', he', hea⟩ := flatList_children cs addr 0 e h k hk
      exact ⟨e', by simp [flat, he'], hea⟩
theorem flatList_children : ∀ (cs : List (Rose α)) (addr : List Nat) (i : Nat) (e : FlatEntry α), e ∈ flatList cs addr i → ∀ k, k < e.sub →
    ∃ e' ∈ flatList cs addr i, e'.addr = e.addr ++ [k]
  | [], _, _, _, h, _, _ => by simp [flatList] at h
  | c :: cs, addr, i, e, h, k, hk => by
    simp only [flatList, List.mem_append] at h
    rcases h with h | h
    · obtain ⟨e', he', hea⟩ := flat_children c (addr ++ [i]) e h k hk
      exact ⟨e', by simp [flatList, he'], hea⟩
    · obtain ⟨e', he', hea⟩ := flatList_children cs addr (i + 1) e h k hk
      exact ⟨e', by simp [flatList, he'], hea⟩
end

/-- **the flat list is a faithful picture of the tree**: an entry at `p.addr ++ [k]` exists iff `k < p.sub` — so `sub` is
    exactly the number of emitted children, trace addresses are unique, and the set of addresses is prefix-closed -/
theorem flat_child_iff (t : Rose α) (addr : List Nat) (p : FlatEntry α) (hp : p ∈ flat t addr) (k : Nat) :
    (∃ e ∈ flat t addr, e.addr = p.addr ++ [k]) ↔ k < p.sub := by
  constructor
  · rintro ⟨e, he, hea⟩
    rcases flat_parent t addr e he with h0 | ⟨q, hq, k', hk', hek⟩
    · have := (flat_prefix t addr p hp).length_le
      rw [hea] at h0
      have hl : (p.addr ++ [k]).length = addr.length := by rw [h0]
      simp at hl; omega
    · rw [hea] at hek
      have hlen : p.addr.length = q.addr.length := by
        have := congrArg List.length hek; simp at this; exact this
      obtain ⟨h1, h2⟩ := List.append_inj hek hlen
      have hk : k = k' := by simpa using h2
      have hpq : p = q := by
        have hnd := flat_nodup t addr
        exact eq_of_nodup_map (·.addr) _ hnd p hp q hq h1
      subst hpq hk
      exact hk'
  · exact flat_children t addr p hp k

end Rose
end Artela
