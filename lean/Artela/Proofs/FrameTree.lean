import Artela.Model.Frame
import Artela.Proofs.CallTreeBalanced
/-
  The call tree under the frame machine: the cursor always denotes the innermost open frame that pushed a node, so
  when the last frame returns the cursor is back at rest (C07, C03 bookkeeping), for every event sequence.
-/
namespace Artela
namespace Frame
open CallTree

/-- the node the cursor must point at: the innermost open frame that pushed one, else where the cursor rested -/
def cursorOf : List OpenFrame → Option Nat → Option Nat
  | [], base => base
  | fr :: rest, base => if fr.treeNode then some fr.nodeIndex else cursorOf rest base

/-- every open frame that pushed a node still has it, and its parent is the frame below's node -/
def ChainOK (tree : CallTree) : List OpenFrame → Option Nat → Prop
  | [], _ => True
  | fr :: rest, base =>
    (fr.treeNode = true → ∃ n, tree.nodes[fr.nodeIndex]? = some n ∧ n.parent = cursorOf rest base) ∧ ChainOK tree rest base

def TreeInv (base : Option Nat) (st : FState) : Prop :=
  WF st.tracer.tree ∧ st.tracer.tree.current = cursorOf st.stack base ∧ ChainOK st.tracer.tree st.stack base

theorem chainOK_stable {t t' : CallTree} (hs : Stable t t') : ∀ (stack : List OpenFrame) (base : Option Nat),
    ChainOK t stack base → ChainOK t' stack base
  | [], _, _ => trivial
  | fr :: rest, base, ⟨h1, h2⟩ => by
    refine ⟨fun htn => ?_, chainOK_stable hs rest base h2⟩
    obtain ⟨n, hn, hp⟩ := h1 htn
    obtain ⟨n', hn', hp', _⟩ := hs _ n hn
    exact ⟨n', hn', hp'.trans hp⟩

@[simp] theorem transferRecord_tree (t : Tracer) (a b : Addr) (w x y z : Nat) : (t.transferRecord a b w x y z).tree = t.tree := rfl
@[simp] theorem saveCall_tree (t : Tracer) (f : Addr) (to : Option Addr) (d : Bytes) (v g : Nat) :
    (t.saveCall f to d v g).tree = t.tree.add f to d v g := rfl
@[simp] theorem exitCall_tree (t : Tracer) (l : Nat) (r : Option Bytes) (e : Option String) :
    (t.exitCall l r e).tree = t.tree.exit l r e := rfl

/-- entering and immediately leaving a call (refused, precompile, no code, failed pre join point): the cursor is
    back where it was and the open frames' nodes are untouched -/
theorem add_exit_inv (base : Option Nat) (stack : List OpenFrame) (t : CallTree) (hwf : WF t) (hc : t.current = cursorOf stack base)
    (hch : ChainOK t stack base) (f : Addr) (to : Option Addr) (d : Bytes) (v g l : Nat) (r : Option Bytes) (e : Option String) :
    WF ((t.add f to d v g).exit l r e) ∧ ((t.add f to d v g).exit l r e).current = cursorOf stack base ∧
    ChainOK ((t.add f to d v g).exit l r e) stack base := by
  have hb : Balanced [Op.add f to d v g, Op.exit l r e] := by
    have := Balanced.node f to d v g l r e [] Balanced.nil
    simpa using this
  have hrun : t.run [Op.add f to d v g, Op.exit l r e] = (t.add f to d v g).exit l r e := rfl
  refine ⟨?_, ?_, ?_⟩
  · rw [← hrun]; exact run_wf hwf _
  · rw [← hrun, balanced_current hb hwf]; exact hc
  · exact chainOK_stable ((add_stable t f to d v g).trans (exit_stable _ l r e)) stack base hch

/-- entering a call whose code will run: the new frame's node is the cursor, its parent the previous cursor -/
theorem add_push_inv (base : Option Nat) (stack : List OpenFrame) (t : CallTree) (hwf : WF t) (hc : t.current = cursorOf stack base)
    (hch : ChainOK t stack base) (f : Addr) (to : Option Addr) (d : Bytes) (v g : Nat) (fr : OpenFrame)
    (htn : fr.treeNode = true) (hidx : fr.nodeIndex = t.count) :
    WF (t.add f to d v g) ∧ (t.add f to d v g).current = cursorOf (fr :: stack) base ∧ ChainOK (t.add f to d v g) (fr :: stack) base := by
  refine ⟨add_wf hwf f to d v g, ?_, ?_, chainOK_stable (add_stable t f to d v g) stack base hch⟩
  · simp [cursorOf, htn, hidx, add]
  · intro _
    refine ⟨mkNode f to d v g t.count t.current, ?_, ?_⟩
    · rw [hidx, add_nodes, hwf.count_eq]; simp
    · simp [mkNode, hc]

/-- leaving the innermost frame that pushed a node -/
theorem exit_pop_inv (base : Option Nat) (fr : OpenFrame) (rest : List OpenFrame) (t : CallTree) (hwf : WF t)
    (hc : t.current = cursorOf (fr :: rest) base) (hch : ChainOK t (fr :: rest) base) (htn : fr.treeNode = true)
    (l : Nat) (r : Option Bytes) (e : Option String) :
    WF (t.exit l r e) ∧ (t.exit l r e).current = cursorOf rest base ∧ ChainOK (t.exit l r e) rest base := by
  refine ⟨exit_wf hwf l r e, ?_, chainOK_stable (exit_stable t l r e) rest base hch.2⟩
  obtain ⟨n, hn, hp⟩ := hch.1 htn
  have hcur : t.current = some fr.nodeIndex := by rw [hc]; simp [cursorOf, htn]
  unfold exit
  rw [hcur]
  simp only [hn]
  exact hp

/-- leaving a frame that pushed no node (CALLCODE / DELEGATECALL / STATICCALL) -/
theorem pop_nonode_inv (base : Option Nat) (fr : OpenFrame) (rest : List OpenFrame) (t : CallTree)
    (hc : t.current = cursorOf (fr :: rest) base) (hch : ChainOK t (fr :: rest) base) (htn : fr.treeNode = false) :
    t.current = cursorOf rest base ∧ ChainOK t rest base := by
  refine ⟨?_, hch.2⟩
  rw [hc]; simp [cursorOf, htn]

end Frame
end Artela

namespace Artela
namespace Frame
open CallTree

theorem treeInv_finish_true (base : Option Nat) (st : FState) (k : CallKind) (c t : Addr) (gs : Nat) (dbg top : Bool) (sg : Nat)
    (r : Option Bytes) (g : Nat) (e : Option String) (w en sn : List Effect) (ran : Bool)
    (h : WF (st.tracer.tree.exit g r e) ∧ (st.tracer.tree.exit g r e).current = cursorOf st.stack base ∧
         ChainOK (st.tracer.tree.exit g r e) st.stack base) :
    TreeInv base (finish st k c t gs true dbg top sg r g e w en sn ran) := h

theorem treeInv_finish_false (base : Option Nat) (st : FState) (k : CallKind) (c t : Addr) (gs : Nat) (dbg top : Bool) (sg : Nat)
    (r : Option Bytes) (g : Nat) (e : Option String) (w en sn : List Effect) (ran : Bool)
    (h : TreeInv base st) : TreeInv base (finish st k c t gs false dbg top sg r g e w en sn ran) := h

theorem enterCall_tree (base : Option Nat) (st : FState) (caller to : Addr) (value : Nat) (input : Bytes) (gas : Nat) (f : EnterFacts)
    (h : TreeInv base st) : TreeInv base (enterCall st caller to value input gas f) := by
  obtain ⟨hwf, hc, hch⟩ := h
  unfold enterCall
  simp only
  split
  · exact treeInv_finish_true base _ _ _ _ _ _ _ _ _ _ _ _ _ _ _ (add_exit_inv base st.stack st.tracer.tree hwf hc hch ..)
  · split
    · exact treeInv_finish_true base _ _ _ _ _ _ _ _ _ _ _ _ _ _ _ (add_exit_inv base st.stack st.tracer.tree hwf hc hch ..)
    · split
      · exact treeInv_finish_true base _ _ _ _ _ _ _ _ _ _ _ _ _ _ _ (add_exit_inv base st.stack st.tracer.tree hwf hc hch ..)
      · split
        · exact treeInv_finish_true base _ _ _ _ _ _ _ _ _ _ _ _ _ _ _ (add_exit_inv base st.stack st.tracer.tree hwf hc hch ..)
        · split
          · exact treeInv_finish_true base _ _ _ _ _ _ _ _ _ _ _ _ _ _ _ (add_exit_inv base st.stack st.tracer.tree hwf hc hch ..)
          · split
            · split
              · exact treeInv_finish_true base _ _ _ _ _ _ _ _ _ _ _ _ _ _ _ (add_exit_inv base st.stack st.tracer.tree hwf hc hch ..)
              · exact add_push_inv base st.stack st.tracer.tree hwf hc hch caller (some to) input value gas _ rfl rfl
            · exact add_push_inv base st.stack st.tracer.tree hwf hc hch caller (some to) input value gas _ rfl rfl

theorem enterOther_tree (base : Option Nat) (st : FState) (kind : CallKind) (caller to : Addr) (value : Nat) (input : Bytes) (gas : Nat)
    (f : EnterFacts) (h : TreeInv base st) : TreeInv base (enterOther st kind caller to value input gas f) := by
  unfold enterOther
  simp only
  split
  · exact h
  · split
    · exact h
    · split
      · exact h
      · split
        · exact h
        · obtain ⟨hwf, hc, hch⟩ := h
          exact ⟨hwf, by simpa [cursorOf] using hc, ⟨fun h => by simp at h, hch⟩⟩

theorem enterCreate_tree (base : Option Nat) (st : FState) (kind : CallKind) (caller to : Addr) (value : Nat) (input : Bytes) (gas : Nat)
    (f : EnterFacts) (h : TreeInv base st) : TreeInv base (enterCreate st kind caller to value input gas f) := by
  obtain ⟨hwf, hc, hch⟩ := h
  unfold enterCreate
  simp only
  split
  · exact treeInv_finish_true base _ _ _ _ _ _ _ _ _ _ _ _ _ _ _ (add_exit_inv base st.stack st.tracer.tree hwf hc hch ..)
  · split
    · exact treeInv_finish_true base _ _ _ _ _ _ _ _ _ _ _ _ _ _ _ (add_exit_inv base st.stack st.tracer.tree hwf hc hch ..)
    · split
      · exact treeInv_finish_true base _ _ _ _ _ _ _ _ _ _ _ _ _ _ _ (add_exit_inv base st.stack st.tracer.tree hwf hc hch ..)
      · split
        · exact treeInv_finish_true base _ _ _ _ _ _ _ _ _ _ _ _ _ _ _ (add_exit_inv base st.stack st.tracer.tree hwf hc hch ..)
        · exact add_push_inv base st.stack st.tracer.tree hwf hc hch caller none input value gas _ rfl rfl

end Frame
end Artela

namespace Artela
namespace Frame
open CallTree

/-- frames of the kinds that push a node carry `treeNode = true`, the others `false` -/
def KindsOK : List OpenFrame → Prop
  | [] => True
  | fr :: rest => (fr.treeNode = (fr.kind = .call ∨ fr.kind.isCreate = true)) ∧ KindsOK rest

theorem haltFrame_tree (base : Option Nat) (st : FState) (fr : OpenFrame) (rest : List OpenFrame) (ret : Option Bytes) (err : Option String)
    (gasLeft : Nat) (post : JPResult) (hs : st.stack = fr :: rest) (hk : KindsOK (fr :: rest)) (h : TreeInv base st) :
    TreeInv base (haltFrame st fr rest ret err gasLeft post) := by
  obtain ⟨hwf, hc, hch⟩ := h
  rw [hs] at hc hch
  have hkind := hk.1
  unfold haltFrame
  cases hkk : fr.kind with
  | call =>
    have htn : fr.treeNode = true := by rw [hkk] at hkind; simpa using hkind
    simp only
    split
    · exact treeInv_finish_true base _ _ _ _ _ _ _ _ _ _ _ _ _ _ _ (exit_pop_inv base fr rest st.tracer.tree hwf hc hch htn ..)
    · exact treeInv_finish_true base _ _ _ _ _ _ _ _ _ _ _ _ _ _ _ (exit_pop_inv base fr rest st.tracer.tree hwf hc hch htn ..)
  | callcode =>
    have htn : fr.treeNode = false := by rw [hkk] at hkind; simpa [CallKind.isCreate] using hkind
    obtain ⟨h1, h2⟩ := pop_nonode_inv base fr rest st.tracer.tree hc hch htn
    exact ⟨hwf, h1, h2⟩
  | delegatecall =>
    have htn : fr.treeNode = false := by rw [hkk] at hkind; simpa [CallKind.isCreate] using hkind
    obtain ⟨h1, h2⟩ := pop_nonode_inv base fr rest st.tracer.tree hc hch htn
    exact ⟨hwf, h1, h2⟩
  | staticcall =>
    have htn : fr.treeNode = false := by rw [hkk] at hkind; simpa [CallKind.isCreate] using hkind
    obtain ⟨h1, h2⟩ := pop_nonode_inv base fr rest st.tracer.tree hc hch htn
    exact ⟨hwf, h1, h2⟩
  | create =>
    have htn : fr.treeNode = true := by rw [hkk] at hkind; simpa [CallKind.isCreate] using hkind
    exact treeInv_finish_true base _ _ _ _ _ _ _ _ _ _ _ _ _ _ _ (exit_pop_inv base fr rest st.tracer.tree hwf hc hch htn ..)
  | create2 =>
    have htn : fr.treeNode = true := by rw [hkk] at hkind; simpa [CallKind.isCreate] using hkind
    exact treeInv_finish_true base _ _ _ _ _ _ _ _ _ _ _ _ _ _ _ (exit_pop_inv base fr rest st.tracer.tree hwf hc hch htn ..)

theorem kindsOK_enterCall (st : FState) (caller to : Addr) (value : Nat) (input : Bytes) (gas : Nat) (f : EnterFacts)
    (h : KindsOK st.stack) : KindsOK (enterCall st caller to value input gas f).stack := by
  unfold enterCall; simp only
  split
  · exact h
  · split
    · exact h
    · split
      · exact h
      · split
        · exact h
        · split
          · exact h
          · split
            · split
              · exact h
              · exact ⟨by simp, h⟩
            · exact ⟨by simp, h⟩

theorem kindsOK_enterOther (st : FState) (kind : CallKind) (hk : kind = .callcode ∨ kind = .delegatecall ∨ kind = .staticcall)
    (caller to : Addr) (value : Nat) (input : Bytes) (gas : Nat) (f : EnterFacts)
    (h : KindsOK st.stack) : KindsOK (enterOther st kind caller to value input gas f).stack := by
  unfold enterOther; simp only
  split
  · exact h
  · split
    · exact h
    · split
      · exact h
      · split
        · exact h
        · refine ⟨?_, h⟩
          rcases hk with hk | hk | hk <;> simp [hk, CallKind.isCreate]

theorem kindsOK_enterCreate (st : FState) (kind : CallKind) (hk : kind.isCreate = true) (caller to : Addr) (value : Nat) (input : Bytes)
    (gas : Nat) (f : EnterFacts) (h : KindsOK st.stack) : KindsOK (enterCreate st kind caller to value input gas f).stack := by
  unfold enterCreate; simp only
  split
  · exact h
  · split
    · exact h
    · split
      · exact h
      · split
        · exact h
        · exact ⟨by simp [hk], h⟩

theorem haltFrame_stack (st : FState) (fr : OpenFrame) (rest : List OpenFrame) (ret : Option Bytes) (err : Option String)
    (gasLeft : Nat) (post : JPResult) : (haltFrame st fr rest ret err gasLeft post).stack = rest := by
  unfold haltFrame
  cases fr.kind <;> simp only
  · split <;> rfl
  all_goals rfl

def FullInv (base : Option Nat) (st : FState) : Prop := TreeInv base st ∧ KindsOK st.stack

theorem step_tree (base : Option Nat) (st : FState) (ev : FEvent) (h : FullInv base st) : FullInv base (step st ev) := by
  obtain ⟨ht, hk⟩ := h
  cases ev with
  | enter kind caller to value input gas f =>
    cases kind with
    | call => exact ⟨enterCall_tree base st caller to value input gas f ht, kindsOK_enterCall st caller to value input gas f hk⟩
    | callcode => exact ⟨enterOther_tree base st _ caller to value input gas f ht, kindsOK_enterOther st _ (Or.inl rfl) caller to value input gas f hk⟩
    | delegatecall => exact ⟨enterOther_tree base st _ caller to value input gas f ht, kindsOK_enterOther st _ (Or.inr (Or.inl rfl)) caller to value input gas f hk⟩
    | staticcall => exact ⟨enterOther_tree base st _ caller to value input gas f ht, kindsOK_enterOther st _ (Or.inr (Or.inr rfl)) caller to value input gas f hk⟩
    | create => exact ⟨enterCreate_tree base st _ caller to value input gas f ht, kindsOK_enterCreate st _ rfl caller to value input gas f hk⟩
    | create2 => exact ⟨enterCreate_tree base st _ caller to value input gas f ht, kindsOK_enterCreate st _ rfl caller to value input gas f hk⟩
  | effect id =>
    simp only [step]
    split
    · exact ⟨ht, hk⟩
    · exact ⟨ht, hk⟩
  | jkey parent slot off ty pty name =>
    simp only [step]
    split
    · exact ⟨ht, hk⟩
    · exact ⟨ht, hk⟩
  | jchange slot off ty v =>
    simp only [step]
    split
    · exact ⟨ht, hk⟩
    · exact ⟨ht, hk⟩
  | halt ret err gasLeft post =>
    simp only [step]
    split
    · exact ⟨ht, hk⟩
    · rename_i fr rest hs
      rw [hs] at hk
      exact ⟨haltFrame_tree base st fr rest ret err gasLeft post hs hk ht, by rw [haltFrame_stack]; exact hk.2⟩

theorem run_tree (base : Option Nat) (st : FState) (evs : List FEvent) (h : FullInv base st) : FullInv base (run st evs) := by
  induction evs generalizing st with
  | nil => exact h
  | cons ev rest ih => exact ih (step st ev) (step_tree base st ev h)

theorem fullInv_init : FullInv none {} := ⟨⟨wf_empty, rfl, trivial⟩, trivial⟩

end Frame
end Artela
