import Artela.Model.Base
/-  Lemma kit for `beBytes` (fixed-width big-endian bytes) used by C09 / C14 / C15. -/
namespace Artela

theorem U64_eq : U64 = 18446744073709551616 := by decide
theorem W256_eq : W256 = 115792089237316195423570985008687907853269984665640564039457584007913129639936 := by decide

@[simp] theorem beBytes_length : ∀ (n x : Nat), (beBytes n x).length = n
  | 0, _ => rfl
  | n + 1, x => by simp [beBytes, beBytes_length n]

/-- only the low `8n` bits matter -/
theorem beBytes_mod : ∀ (n x : Nat), beBytes n (x % 256 ^ n) = beBytes n x
  | 0, _ => rfl
  | n + 1, x => by
    simp only [beBytes]
    have h1 : x % 256 ^ (n + 1) / 256 = (x / 256) % 256 ^ n := by
      rw [Nat.pow_succ, Nat.mul_comm, Nat.mod_mul_right_div_self]
    have h2 : x % 256 ^ (n + 1) % 256 = x % 256 := by
      rw [Nat.pow_succ]; exact Nat.mod_mul_left_mod x (256 ^ n) 256
    rw [h1, h2, beBytes_mod n (x / 256)]

/-- split into the high `a` bytes and the low `b` bytes -/
theorem beBytes_add : ∀ (a b x : Nat), beBytes (a + b) x = beBytes a (x / 256 ^ b) ++ beBytes b x
  | a, 0, x => by simp [beBytes]
  | a, b + 1, x => by
    have : a + (b + 1) = (a + b) + 1 := by omega
    rw [this]
    simp only [beBytes]
    rw [beBytes_add a b (x / 256), Nat.div_div_eq_div_mul, List.append_assoc]
    congr 2
    rw [Nat.pow_succ, Nat.mul_comm]

/-- the field `[lo, lo+w)` counted in bytes from the low-order end of a `lo+w+hi`-byte word -/
theorem beBytes_extract (hi w lo x : Nat) :
    (beBytes (hi + w + lo) x).extract hi (hi + w) = beBytes w ((x / 256 ^ lo) % 256 ^ w) := by
  rw [beBytes_add (hi + w) lo x, beBytes_add hi w (x / 256 ^ lo), beBytes_mod]
  rw [List.extract_eq_take_drop]
  have h1 : (beBytes hi (x / 256 ^ lo / 256 ^ w)).length = hi := beBytes_length _ _
  have h2 : (beBytes w (x / 256 ^ lo)).length = w := beBytes_length _ _
  rw [List.append_assoc, List.drop_append_of_le_length (by omega)]
  have h3 : List.drop hi (beBytes hi (x / 256 ^ lo / 256 ^ w)) = [] := by
    apply List.drop_eq_nil_of_le; omega
  rw [h3, List.nil_append, List.take_append_of_le_length (by omega)]
  have : hi + w - hi = w := by omega
  rw [this, List.take_of_length_le (by omega)]

/-- the first `k ≤ a` bytes ignore the low part -/
theorem beBytes_take_high (a b x k : Nat) (hk : k ≤ a) :
    (beBytes (a + b) x).take k = (beBytes a (x / 256 ^ b)).take k := by
  rw [beBytes_add, List.take_append_of_le_length (by simp [hk])]

theorem beNat_lt : ∀ (b : Bytes), beNat b < 256 ^ b.length
  | [] => by simp [beNat]
  | x :: xs => by
    simp only [beNat, List.length_cons, Nat.pow_succ]
    have := beNat_lt xs
    have hx : x.toNat < 256 := x.toNat_lt
    calc x.toNat * 256 ^ xs.length + beNat xs < x.toNat * 256 ^ xs.length + 256 ^ xs.length := by omega
      _ = (x.toNat + 1) * 256 ^ xs.length := by rw [Nat.add_mul, Nat.one_mul]
      _ ≤ 256 * 256 ^ xs.length := Nat.mul_le_mul_right _ (by omega)
      _ = 256 ^ xs.length * 256 := Nat.mul_comm _ _

end Artela
