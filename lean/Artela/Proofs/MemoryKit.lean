import Artela.Model.Memory
import Artela.Proofs.BytesKit
/-  Lemmas about `memCopyGo` (Go's `copy` on overlapping slices of one array) used by C15. -/
namespace Artela

/-- inside the allocated memory the copy succeeds and is "prefix ++ source range ++ suffix" -/
theorem memCopyGo_inside (s : Bytes) (dst src len : Nat) (hl : 0 < len)
    (hd : dst + len ≤ s.length) (hs : src + len ≤ s.length) (hU : s.length < U64) :
    memCopyGo s s.length dst src len = .ok (s.take dst ++ s.extract src (src + len) ++ s.drop (dst + len)) := by
  have h0 : ¬ (len = 0) := by omega
  have hm : (src + len) % U64 = src + len := Nat.mod_eq_of_lt (by omega)
  have hz : s ++ List.replicate (s.length - s.length) 0 = s := by simp
  have hg : goSlice s s.length src (src + len) = .ok (s.extract src (src + len)) := by
    unfold goSlice
    rw [if_pos ⟨by omega, by omega⟩, hz]
  have hel : (s.extract src (src + len)).length = len := by
    rw [List.extract_eq_take_drop]; simp; omega
  have hd' : ¬ (dst > s.length) := by omega
  have hn : min (s.length - dst) len = len := by omega
  unfold memCopyGo
  rw [if_neg h0, hm, hg]
  dsimp only
  rw [if_neg hd', hel, hn, List.take_of_length_le (l := s.extract src (src + len)) (by omega)]

/-- the result of such a copy, read pointwise: memmove -/
theorem memmove_pointwise (s : Bytes) (dst src len : Nat) (hd : dst + len ≤ s.length) (hs : src + len ≤ s.length) (i : Nat) :
    (s.take dst ++ s.extract src (src + len) ++ s.drop (dst + len))[i]? =
      if dst ≤ i ∧ i < dst + len then s[src + (i - dst)]? else s[i]? := by
  have hel : (s.extract src (src + len)).length = len := by
    rw [List.extract_eq_take_drop]; simp; omega
  have htl : (s.take dst).length = dst := by simp; omega
  by_cases h1 : i < dst
  · have c : ¬ (dst ≤ i ∧ i < dst + len) := by omega
    rw [if_neg c, List.append_assoc, List.getElem?_append_left (by omega), List.getElem?_take_of_lt h1]
  · by_cases h2 : i < dst + len
    · have c : (dst ≤ i ∧ i < dst + len) := by omega
      rw [if_pos c, List.getElem?_append_left (by simp; omega), List.getElem?_append_right (by omega), htl]
      rw [List.extract_eq_take_drop, List.getElem?_take_of_lt (by omega), List.getElem?_drop]
    · have c : ¬ (dst ≤ i ∧ i < dst + len) := by omega
      rw [if_neg c, List.getElem?_append_right (by simp; omega)]
      simp only [List.length_append, htl, hel, List.getElem?_drop]
      congr 1; omega

theorem memmove_length (s : Bytes) (dst src len : Nat) (hd : dst + len ≤ s.length) (hs : src + len ≤ s.length) :
    (s.take dst ++ s.extract src (src + len) ++ s.drop (dst + len)).length = s.length := by
  rw [List.extract_eq_take_drop]; simp; omega

end Artela
