import Artela.Model.StateChanges
/-  Laws of `ChangeMap.append` (tracer.go `StorageChanges.append`): per call index, append unless the value repeats the last entry. -/
namespace Artela

/-- specification of one journal step on a list -/
def appendDedup (l : List Bytes) (v : Bytes) : List Bytes := if l.getLast? = some v then l else l ++ [v]

/-- chronological list of journaled values with immediate repeats collapsed -/
def collapse (vs : List Bytes) : List Bytes := vs.foldl appendDedup []

theorem alookup_aset_same {κ ν} [DecidableEq κ] (k : κ) (v : ν) : ∀ (l : List (κ × ν)), alookup k (aset k v l) = some v
  | [] => by simp [aset, alookup]
  | (k', v') :: rest => by
    simp only [aset]
    by_cases c : k' = k
    · simp [c, alookup]
    · simp [c, alookup, alookup_aset_same k v rest]

theorem alookup_aset_other {κ ν} [DecidableEq κ] (k j : κ) (v : ν) (h : j ≠ k) :
    ∀ (l : List (κ × ν)), alookup j (aset k v l) = alookup j l
  | [] => by simp [aset, alookup]; intro e; exact absurd e.symm h
  | (k', v') :: rest => by
    simp only [aset]
    by_cases c : k' = k
    · subst c
      have : ¬ (k' = j) := fun e => h e.symm
      simp [alookup, this]
    · simp only [c, if_false, alookup]
      by_cases c2 : k' = j
      · simp [c2]
      · simp [c2, alookup_aset_other k j v h rest]

def ChangeMap.at (m : ChangeMap) (i : Nat) : List Bytes := (alookup i m).getD []

theorem changeMap_append_at (m : ChangeMap) (i : Nat) (v : Bytes) (hne : ∀ l, alookup i m = some l → l ≠ []) :
    (m.append i v).at i = appendDedup (m.at i) v := by
  unfold ChangeMap.append ChangeMap.at appendDedup
  cases h : alookup i m with
  | none => simp [alookup_aset_same]
  | some l =>
    simp only [Option.getD_some]
    by_cases c : l.getLast? = some v
    · simp [c, h]
    · simp [c, alookup_aset_same]

theorem changeMap_append_other (m : ChangeMap) (i j : Nat) (v : Bytes) (h : j ≠ i) : (m.append i v).at j = m.at j := by
  unfold ChangeMap.append ChangeMap.at
  cases h2 : alookup i m with
  | none => simp only; rw [alookup_aset_other i j _ h]
  | some l =>
    simp only
    by_cases c : l.getLast? = some v
    · simp [c]
    · simp only [c, if_false]; rw [alookup_aset_other i j _ h]

/-- every stored list is non-empty (so "last entry" is always defined): invariant of `append` -/
def ChangeMap.NonEmpty (m : ChangeMap) : Prop := ∀ i l, alookup i m = some l → l ≠ []

theorem changeMap_append_nonEmpty (m : ChangeMap) (i : Nat) (v : Bytes) (h : m.NonEmpty) : (m.append i v).NonEmpty := by
  intro j l hl
  unfold ChangeMap.append at hl
  cases h2 : alookup i m with
  | none =>
    simp only [h2] at hl
    by_cases c : j = i
    · subst c; rw [alookup_aset_same] at hl; injection hl with hl; subst hl; simp
    · rw [alookup_aset_other i j _ c] at hl; exact h j l hl
  | some l0 =>
    simp only [h2] at hl
    by_cases c : l0.getLast? = some v
    · simp only [c, if_true] at hl; exact h j l hl
    · simp only [c, if_false] at hl
      by_cases c2 : j = i
      · subst c2; rw [alookup_aset_same] at hl; injection hl with hl; subst hl; simp
      · rw [alookup_aset_other i j _ c2] at hl; exact h j l hl

end Artela
