import Artela.Model.Frame
/-  Projection lemmas of the frame functions: what each of them does to the join-point log, the stack and the tracer. -/
namespace Artela
namespace Frame

@[simp] theorem finish_jps (st : FState) (k : CallKind) (c t : Addr) (gs : Nat) (tn dbg top : Bool) (sg : Nat)
    (r : Option Bytes) (g : Nat) (e : Option String) (w en sn : List Effect) (ran : Bool) :
    (finish st k c t gs tn dbg top sg r g e w en sn ran).jps = st.jps := rfl

@[simp] theorem finish_stack' (st : FState) (k : CallKind) (c t : Addr) (gs : Nat) (tn dbg top : Bool) (sg : Nat)
    (r : Option Bytes) (g : Nat) (e : Option String) (w en sn : List Effect) (ran : Bool) :
    (finish st k c t gs tn dbg top sg r g e w en sn ran).stack = st.stack := rfl

@[simp] theorem finish_started (st : FState) (k : CallKind) (c t : Addr) (gs : Nat) (tn dbg top : Bool) (sg : Nat)
    (r : Option Bytes) (g : Nat) (e : Option String) (w en sn : List Effect) (ran : Bool) :
    (finish st k c t gs tn dbg top sg r g e w en sn ran).started = st.started := rfl

@[simp] theorem finish_results (st : FState) (k : CallKind) (c t : Addr) (gs : Nat) (tn dbg top : Bool) (sg : Nat)
    (r : Option Bytes) (g : Nat) (e : Option String) (w en sn : List Effect) (ran : Bool) :
    (finish st k c t gs tn dbg top sg r g e w en sn ran).results =
      st.results ++ [{ kind := k, caller := c, to := t, ret := r, gas := g, err := e, gasSupplied := gs, worldAtEntry := en,
                       worldAtSnapshot := sn, worldAfter := w, ranCode := ran }] := rfl

/-- the condition under which `EVM.Call` reaches the contract's code (and therefore its join points) -/
def reachesCode (depth : Nat) (value : Nat) (f : EnterFacts) : Prop :=
  ¬ depth > 1024 ∧ ¬ (value ≠ 0 ∧ ¬ f.canTransfer) ∧ ¬ (¬ f.exists_ ∧ f.precompile.isNone ∧ f.eip158 ∧ value = 0) ∧
  f.precompile = none ∧ f.codeEmpty = false

instance (depth value : Nat) (f : EnterFacts) : Decidable (reachesCode depth value f) := by unfold reachesCode; infer_instance

/-- the join-point log after `EVM.Call`'s prologue: exactly one pre record iff the call reaches code with join points on -/
theorem enterCall_jps (st : FState) (caller to : Addr) (value : Nat) (input : Bytes) (gas : Nat) (f : EnterFacts) :
    (enterCall st caller to value input gas f).jps =
      st.jps ++ (if reachesCode st.stack.length value f ∧ f.jpEnabled = true
                 then [JPRecord.pre caller to input value gas (st.tracer.saveCall caller (some to) input value gas).tree.currentIndex] else []) := by
  unfold enterCall reachesCode
  simp only
  split
  · rename_i h; simp [h]
  · rename_i h1
    split
    · rename_i h; simp [h1, h]
    · rename_i h2
      split
      · rename_i h; simp [h1, h2, h]
      · rename_i h3
        split
        · rename_i r g e hp; simp [h1, h2, h3, hp]
        · rename_i hp
          split
          · rename_i hc; simp [h1, h2, h3, hp, hc]
          · rename_i hc
            split
            · rename_i hj
              have hc' : f.codeEmpty = false := by simpa using hc
              have hA : (¬value = 0 → f.canTransfer = true) ∧ (f.exists_ = false → f.eip158 = true → ¬value = 0) := by
                refine ⟨fun hv => ?_, fun hex he158 hv0 => ?_⟩
                · by_cases c : f.canTransfer = true
                  · exact c
                  · exact absurd ⟨hv, c⟩ h2
                · exact h3 ⟨by simp [hex], by simp [hp], he158, hv0⟩
              split <;> (simp [h1, hp, hc', hj]; exact hA)
            · rename_i hj
              have hj' : f.jpEnabled = false := by simpa using hj
              simp [hj']

/-- if the pre join point fails, no frame is pushed: the callee's code does not run and no post join point is owed -/
theorem enterCall_pre_failed (st : FState) (caller to : Addr) (value : Nat) (input : Bytes) (gas : Nat) (f : EnterFacts) (e : String)
    (hj : f.jpEnabled = true) (he : f.pre.err = some e) : (enterCall st caller to value input gas f).stack = st.stack ∧
      (enterCall st caller to value input gas f).started = st.started := by
  unfold enterCall
  simp only
  split
  · exact ⟨rfl, rfl⟩
  · split
    · exact ⟨rfl, rfl⟩
    · split
      · exact ⟨rfl, rfl⟩
      · split
        · exact ⟨rfl, rfl⟩
        · split
          · exact ⟨rfl, rfl⟩
          · simp only [hj, if_true, he]
            exact ⟨rfl, rfl⟩

/-- the join-point log after a frame's interpreter returned: exactly one post record iff this is a contract call whose
    pre join point ran; it carries the interpreter's gas left, return data and error text -/
theorem haltFrame_jps (st : FState) (fr : OpenFrame) (rest : List OpenFrame) (ret : Option Bytes) (err : Option String) (gasLeft : Nat)
    (post : JPResult) :
    (haltFrame st fr rest ret err gasLeft post).jps =
      st.jps ++ (if fr.kind = .call ∧ fr.jpFired = true
                 then [JPRecord.post fr.caller fr.to fr.input fr.value gasLeft fr.nodeIndex ret (err.getD "")] else []) := by
  unfold haltFrame
  cases hk : fr.kind <;> simp only
  · split
    · rename_i h; simp [h]
    · rename_i h; simp [h]
  all_goals simp

/-- what a contract-call frame hands back after its interpreter returned -/
theorem haltFrame_call_result (st : FState) (fr : OpenFrame) (rest : List OpenFrame) (ret : Option Bytes) (err : Option String) (gasLeft : Nat)
    (post : JPResult) (hk : fr.kind = .call) :
    ∃ r, (haltFrame st fr rest ret err gasLeft post).results = st.results ++ [r] ∧
      (haltFrame st fr rest ret err gasLeft post).stack = rest ∧
      (r.ret, r.err, r.gas) =
        (if fr.jpFired then
           ((postJoinPoint ret err post).1, (postJoinPoint ret err post).2.1, tailGas (postJoinPoint ret err post).2.2 (postJoinPoint ret err post).2.1)
         else (ret, err, tailGas gasLeft err)) := by
  unfold haltFrame
  simp only [hk]
  split
  · rename_i h; exact ⟨_, rfl, rfl, by simp [h]⟩
  · rename_i h; exact ⟨_, rfl, rfl, by simp [h]⟩

end Frame
end Artela
