import Artela.Model.Frame
/-
  Invariants of the frame machine (Model/Frame.lean) over arbitrary event sequences.

  `WorldInv`: every open frame's snapshot still denotes the world as it was when the snapshot was taken — the
  world's prefix up to the snapshot is unchanged, and snapshots are ordered along the stack — so "revert to my
  snapshot" restores exactly that world (C04).
-/
namespace Artela
namespace Frame

/-- the snapshots of the open frames, innermost first, are all still valid prefixes of the world -/
def WorldInv (stack : List OpenFrame) (world : List Effect) : Prop :=
  match stack with
  | [] => True
  | fr :: rest =>
    fr.snapshot ≤ world.length ∧ world.take fr.snapshot = fr.worldAtSnapshot ∧
    WorldInv rest (world.take fr.snapshot) ∧ (fr.kind.isCreate = false → fr.worldAtEntry = fr.worldAtSnapshot)

theorem worldInv_append {stack : List OpenFrame} {world : List Effect} (h : WorldInv stack world) (l : List Effect) :
    WorldInv stack (world ++ l) := by
  cases stack with
  | nil => trivial
  | cons fr rest =>
    obtain ⟨h1, h2, h3, h4⟩ := h
    refine ⟨by simp; omega, ?_, ?_, h4⟩
    · rw [List.take_append_of_le_length h1]; exact h2
    · rw [List.take_append_of_le_length h1]; exact h3

/-- the world seen by the frames below the innermost one -/
theorem worldInv_tail {fr : OpenFrame} {rest : List OpenFrame} {world : List Effect} (h : WorldInv (fr :: rest) world) :
    WorldInv rest (world.take fr.snapshot) := h.2.2.1

/-- popping the innermost frame and keeping the world (success) -/
theorem worldInv_pop_keep {fr : OpenFrame} {rest : List OpenFrame} {world : List Effect} (h : WorldInv (fr :: rest) world) :
    WorldInv rest world := by
  have h3 := h.2.2.1
  have h1 := h.1
  have : world = world.take fr.snapshot ++ world.drop fr.snapshot := (List.take_append_drop _ _).symm
  rw [this]
  exact worldInv_append h3 _

/-- pushing a frame whose snapshot is the current world -/
theorem worldInv_push {stack : List OpenFrame} {world : List Effect} (h : WorldInv stack world) (fr : OpenFrame)
    (hs : fr.snapshot = world.length) (hw : fr.worldAtSnapshot = world)
    (he : fr.kind.isCreate = false → fr.worldAtEntry = fr.worldAtSnapshot) (l : List Effect) :
    WorldInv (fr :: stack) (world ++ l) := by
  refine ⟨by simp [hs], ?_, ?_, he⟩
  · rw [hs, List.take_append_of_le_length (Nat.le_refl _), List.take_length, hw]
  · rw [hs, List.take_append_of_le_length (Nat.le_refl _), List.take_length]; exact h

theorem tailWorld_cases (world : List Effect) (snap : Nat) (err : Option String) :
    tailWorld world snap err = world ∨ tailWorld world snap err = world.take snap := by
  unfold tailWorld; cases err <;> simp

/-- `finish` only sets the world and appends to logs; the stack is untouched -/
@[simp] theorem finish_stack (st : FState) (k : CallKind) (c t : Addr) (gs : Nat) (tn dbg top : Bool) (sg : Nat)
    (r : Option Bytes) (g : Nat) (e : Option String) (w en sn : List Effect) (ran : Bool) :
    (finish st k c t gs tn dbg top sg r g e w en sn ran).stack = st.stack := rfl

@[simp] theorem finish_world (st : FState) (k : CallKind) (c t : Addr) (gs : Nat) (tn dbg top : Bool) (sg : Nat)
    (r : Option Bytes) (g : Nat) (e : Option String) (w en sn : List Effect) (ran : Bool) :
    (finish st k c t gs tn dbg top sg r g e w en sn ran).world = w := rfl

/-- C04's statement about one finished invocation -/
def ResultOK (r : FrameResult) : Prop :=
  (r.kind.isCreate = false → r.err ≠ none → r.worldAfter = r.worldAtEntry) ∧
  (r.kind.isCreate = false → r.err = none → ∃ l, r.worldAfter = r.worldAtEntry ++ l) ∧
  (r.kind.isCreate = true → r.err ≠ none → r.err ≠ some errCodeStoreOOG → r.worldAfter = r.worldAtSnapshot)

def Inv (st : FState) : Prop := WorldInv st.stack st.world ∧ ∀ r ∈ st.results, ResultOK r

theorem inv_finish {st : FState} (hw : WorldInv st.stack w) (hr : ∀ r ∈ st.results, ResultOK r)
    (k : CallKind) (c t : Addr) (gs : Nat) (tn dbg top : Bool) (sg : Nat) (r : Option Bytes) (g : Nat) (e : Option String)
    (en sn : List Effect) (ran : Bool)
    (hok : ResultOK { kind := k, caller := c, to := t, ret := r, gas := g, err := e, gasSupplied := gs, worldAtEntry := en,
                      worldAtSnapshot := sn, worldAfter := w, ranCode := ran }) :
    Inv (finish st k c t gs tn dbg top sg r g e w en sn ran) := by
  refine ⟨hw, ?_⟩
  intro x hx
  simp only [finish, List.mem_append, List.mem_singleton] at hx
  rcases hx with hx | hx
  · exact hr x hx
  · rw [hx]; exact hok

theorem take_len_append (w l : List Effect) : (w ++ l).take w.length = w := by
  rw [List.take_append_of_le_length (Nat.le_refl _), List.take_length]

/-- nothing happened to the world: entry = snapshot = after -/
theorem resultOK_same (k : CallKind) (c t : Addr) (r : Option Bytes) (g : Nat) (e : Option String) (gs : Nat) (w : List Effect) (ran : Bool) :
    ResultOK { kind := k, caller := c, to := t, ret := r, gas := g, err := e, gasSupplied := gs, worldAtEntry := w,
               worldAtSnapshot := w, worldAfter := w, ranCode := ran } :=
  ⟨fun _ _ => rfl, fun _ _ => ⟨[], by simp⟩, fun _ _ _ => rfl⟩

theorem resultOK_tail (k : CallKind) (hk : k.isCreate = false) (c t : Addr) (r : Option Bytes) (g : Nat) (e : Option String) (gs : Nat)
    (w l sn : List Effect) (ran : Bool) :
    ResultOK { kind := k, caller := c, to := t, ret := r, gas := g, err := e, gasSupplied := gs, worldAtEntry := w,
               worldAtSnapshot := sn, worldAfter := tailWorld (w ++ l) w.length e, ranCode := ran } := by
  refine ⟨?_, ?_, fun h => by simp [hk] at h⟩
  · intro _ he
    cases e with
    | none => exact absurd rfl he
    | some x => simp only [tailWorld]; exact take_len_append w l
  · intro _ he
    subst he
    exact ⟨l, rfl⟩

theorem resultOK_ok (k : CallKind) (hk : k.isCreate = false) (c t : Addr) (r : Option Bytes) (g : Nat) (gs : Nat)
    (w l sn : List Effect) (ran : Bool) :
    ResultOK { kind := k, caller := c, to := t, ret := r, gas := g, err := none, gasSupplied := gs, worldAtEntry := w,
               worldAtSnapshot := sn, worldAfter := w ++ l, ranCode := ran } :=
  ⟨fun _ he => absurd rfl he, fun _ _ => ⟨l, rfl⟩, fun h => by simp [hk] at h⟩

theorem worldInv_tailWorld {stack : List OpenFrame} {w : List Effect} (h : WorldInv stack w) (l : List Effect) (e : Option String) :
    WorldInv stack (tailWorld (w ++ l) w.length e) := by
  cases e with
  | none => exact worldInv_append h l
  | some x => simp only [tailWorld, take_len_append]; exact h

theorem enterCall_inv (st : FState) (caller to : Addr) (value : Nat) (input : Bytes) (gas : Nat) (f : EnterFacts)
    (h : Inv st) : Inv (enterCall st caller to value input gas f) := by
  obtain ⟨hw, hr⟩ := h
  unfold enterCall
  simp only
  split
  · apply inv_finish
    · exact hw
    · exact hr
    · exact resultOK_same ..
  · split
    · apply inv_finish
      · exact hw
      · exact hr
      · exact resultOK_same ..
    · split
      · apply inv_finish
        · exact hw
        · exact hr
        · exact resultOK_same ..
      · split
        · apply inv_finish
          · exact worldInv_tailWorld hw _ _
          · exact hr
          · exact resultOK_tail _ rfl ..
        · split
          · apply inv_finish
            · exact worldInv_append hw _
            · exact hr
            · exact resultOK_ok _ rfl ..
          · split
            · split
              · apply inv_finish
                · rw [take_len_append]; exact hw
                · exact hr
                · rw [take_len_append]; exact ⟨fun _ _ => rfl, fun _ he => by simp at he, fun h => by simp [CallKind.isCreate] at h⟩
              · exact ⟨worldInv_push hw _ rfl rfl (fun _ => rfl) _, hr⟩
            · exact ⟨worldInv_push hw _ rfl rfl (fun _ => rfl) _, hr⟩

theorem enterOther_inv (st : FState) (kind : CallKind) (hk : kind.isCreate = false) (caller to : Addr) (value : Nat) (input : Bytes)
    (gas : Nat) (f : EnterFacts) (h : Inv st) : Inv (enterOther st kind caller to value input gas f) := by
  obtain ⟨hw, hr⟩ := h
  unfold enterOther
  simp only
  split
  · apply inv_finish
    · exact hw
    · exact hr
    · exact resultOK_same ..
  · split
    · apply inv_finish
      · exact hw
      · exact hr
      · exact resultOK_same ..
    · split
      · apply inv_finish
        · exact worldInv_tailWorld hw _ _
        · exact hr
        · exact resultOK_tail _ hk ..
      · split
        · apply inv_finish
          · exact worldInv_append hw _
          · exact hr
          · exact resultOK_ok _ hk ..
        · exact ⟨worldInv_push hw _ rfl rfl (fun _ => rfl) _, hr⟩

theorem enterCreate_inv (st : FState) (kind : CallKind) (hk : kind.isCreate = true) (caller to : Addr) (value : Nat) (input : Bytes)
    (gas : Nat) (f : EnterFacts) (h : Inv st) : Inv (enterCreate st kind caller to value input gas f) := by
  obtain ⟨hw, hr⟩ := h
  unfold enterCreate
  simp only
  split
  · apply inv_finish
    · exact hw
    · exact hr
    · exact resultOK_same ..
  · split
    · apply inv_finish
      · exact hw
      · exact hr
      · exact resultOK_same ..
    · split
      · apply inv_finish
        · exact hw
        · exact hr
        · exact resultOK_same ..
      · split
        · apply inv_finish
          · exact worldInv_append hw _
          · exact hr
          · exact ⟨fun h => by simp [hk] at h, fun h => by simp [hk] at h, fun _ _ _ => rfl⟩
        · refine ⟨?_, hr⟩
          have h1 := worldInv_append hw ([Effect.nonceBump caller] ++ (if f.berlin = true then [Effect.accessList to] else []))
          refine worldInv_push h1 _ rfl rfl ?_ _
          intro h; simp [hk] at h

/-- what a popped frame's snapshot gives back -/
theorem worldInv_pop_tail {fr : OpenFrame} {rest : List OpenFrame} {world : List Effect} (h : WorldInv (fr :: rest) world)
    (e : Option String) : WorldInv rest (tailWorld world fr.snapshot e) := by
  cases e with
  | none => exact worldInv_pop_keep h
  | some x => exact h.2.2.1

theorem resultOK_pop (fr : OpenFrame) (rest : List OpenFrame) (world : List Effect) (h : WorldInv (fr :: rest) world)
    (hk : fr.kind.isCreate = false) (c t : Addr) (r : Option Bytes) (g : Nat) (e : Option String) (gs : Nat) (ran : Bool) :
    ResultOK { kind := fr.kind, caller := c, to := t, ret := r, gas := g, err := e, gasSupplied := gs, worldAtEntry := fr.worldAtEntry,
               worldAtSnapshot := fr.worldAtSnapshot, worldAfter := tailWorld world fr.snapshot e, ranCode := ran } := by
  obtain ⟨h1, h2, _, h4⟩ := h
  have he := h4 hk
  refine ⟨?_, ?_, fun h => by simp [hk] at h⟩
  · intro _ hne
    cases e with
    | none => exact absurd rfl hne
    | some x => simp only [tailWorld]; rw [h2, he]
  · intro _ hn
    subst hn
    refine ⟨world.drop fr.snapshot, ?_⟩
    simp only [tailWorld]
    rw [he, ← h2, List.take_append_drop]

theorem create_world_inv {fr : OpenFrame} {rest : List OpenFrame} {w : List Effect} (h : WorldInv (fr :: rest) w)
    (dep : Bool) (x : Effect) (revert : Prop) [Decidable revert] :
    WorldInv rest (if revert then (if dep = true then w ++ [x] else w).take fr.snapshot else (if dep = true then w ++ [x] else w)) := by
  by_cases hr : revert <;> cases dep <;> simp only [hr, if_true, if_false, Bool.false_eq_true]
  · exact h.2.2.1
  · rw [List.take_append_of_le_length h.1]; exact h.2.2.1
  · exact worldInv_pop_keep h
  · exact worldInv_append (worldInv_pop_keep h) _

theorem create_world_take {fr : OpenFrame} {rest : List OpenFrame} {w : List Effect} (h : WorldInv (fr :: rest) w)
    (dep : Bool) (x : Effect) :
    (if dep = true then w ++ [x] else w).take fr.snapshot = fr.worldAtSnapshot := by
  cases dep <;> simp only [if_true, if_false, Bool.false_eq_true]
  · exact h.2.1
  · rw [List.take_append_of_le_length h.1]; exact h.2.1

theorem haltFrame_inv (st : FState) (fr : OpenFrame) (rest : List OpenFrame) (ret : Option Bytes) (err : Option String) (gasLeft : Nat)
    (post : JPResult) (hs : st.stack = fr :: rest) (h : Inv st) : Inv (haltFrame st fr rest ret err gasLeft post) := by
  obtain ⟨hw, hr⟩ := h
  rw [hs] at hw
  unfold haltFrame
  cases hk : fr.kind with
  | call =>
    simp only
    have hc : fr.kind.isCreate = false := by rw [hk]; rfl
    split
    · apply inv_finish
      · exact worldInv_pop_tail hw _
      · exact hr
      · have := resultOK_pop fr rest st.world hw hc fr.caller fr.to (postJoinPoint ret err post).1
          (tailGas (postJoinPoint ret err post).2.2 (postJoinPoint ret err post).2.1) (postJoinPoint ret err post).2.1 fr.gasSupplied true
        rw [hk] at this; exact this
    · apply inv_finish
      · exact worldInv_pop_tail hw _
      · exact hr
      · have := resultOK_pop fr rest st.world hw hc fr.caller fr.to ret (tailGas gasLeft err) err fr.gasSupplied true
        rw [hk] at this; exact this
  | callcode =>
    simp only
    have hc : fr.kind.isCreate = false := by rw [hk]; rfl
    apply inv_finish
    · exact worldInv_pop_tail hw _
    · exact hr
    · have := resultOK_pop fr rest st.world hw hc fr.caller fr.to ret (tailGas gasLeft err) err fr.gasSupplied true
      rw [hk] at this; exact this
  | delegatecall =>
    simp only
    have hc : fr.kind.isCreate = false := by rw [hk]; rfl
    apply inv_finish
    · exact worldInv_pop_tail hw _
    · exact hr
    · have := resultOK_pop fr rest st.world hw hc fr.caller fr.to ret (tailGas gasLeft err) err fr.gasSupplied true
      rw [hk] at this; exact this
  | staticcall =>
    simp only
    have hc : fr.kind.isCreate = false := by rw [hk]; rfl
    apply inv_finish
    · exact worldInv_pop_tail hw _
    · exact hr
    · have := resultOK_pop fr rest st.world hw hc fr.caller fr.to ret (tailGas gasLeft err) err fr.gasSupplied true
      rw [hk] at this; exact this
  | create =>
    simp only
    apply inv_finish
    · exact create_world_inv hw _ _ _
    · exact hr
    · refine ⟨fun h => by simp [CallKind.isCreate] at h, fun h => by simp [CallKind.isCreate] at h, ?_⟩
      intro _ hne hns
      have hrev : (createDeposit fr.facts ret err gasLeft).1.isSome = true ∧
          (fr.facts.homestead = true ∨ (createDeposit fr.facts ret err gasLeft).1 ≠ some errCodeStoreOOG) := by
        refine ⟨?_, Or.inr hns⟩
        cases hd : (createDeposit fr.facts ret err gasLeft).1 with
        | none => exact absurd hd hne
        | some x => rfl
      simp only [hrev, and_self, if_true]
      exact create_world_take hw _ _
  | create2 =>
    simp only
    apply inv_finish
    · exact create_world_inv hw _ _ _
    · exact hr
    · refine ⟨fun h => by simp [CallKind.isCreate] at h, fun h => by simp [CallKind.isCreate] at h, ?_⟩
      intro _ hne hns
      have hrev : (createDeposit fr.facts ret err gasLeft).1.isSome = true ∧
          (fr.facts.homestead = true ∨ (createDeposit fr.facts ret err gasLeft).1 ≠ some errCodeStoreOOG) := by
        refine ⟨?_, Or.inr hns⟩
        cases hd : (createDeposit fr.facts ret err gasLeft).1 with
        | none => exact absurd hd hne
        | some x => rfl
      simp only [hrev, and_self, if_true]
      exact create_world_take hw _ _

theorem step_inv (st : FState) (ev : FEvent) (h : Inv st) : Inv (step st ev) := by
  cases ev with
  | enter kind caller to value input gas f =>
    cases kind with
    | call => exact enterCall_inv st caller to value input gas f h
    | callcode => exact enterOther_inv st .callcode rfl caller to value input gas f h
    | delegatecall => exact enterOther_inv st .delegatecall rfl caller to value input gas f h
    | staticcall => exact enterOther_inv st .staticcall rfl caller to value input gas f h
    | create => exact enterCreate_inv st .create rfl caller to value input gas f h
    | create2 => exact enterCreate_inv st .create2 rfl caller to value input gas f h
  | effect id =>
    simp only [step]
    split
    · exact h
    · exact ⟨worldInv_append h.1 _, h.2⟩
  | jkey parent slot off ty pty name =>
    simp only [step]
    split
    · exact h
    · exact ⟨h.1, h.2⟩
  | jchange slot off ty v =>
    simp only [step]
    split
    · exact h
    · exact ⟨h.1, h.2⟩
  | halt ret err gasLeft post =>
    simp only [step]
    split
    · exact h
    · rename_i fr rest hs
      exact haltFrame_inv st fr rest ret err gasLeft post hs h

theorem run_inv (st : FState) (evs : List FEvent) (h : Inv st) : Inv (run st evs) := by
  induction evs generalizing st with
  | nil => exact h
  | cons ev rest ih => exact ih (step st ev) (step_inv st ev h)

theorem inv_init : Inv {} := ⟨trivial, fun r hr => by simp at hr⟩

end Frame
end Artela
