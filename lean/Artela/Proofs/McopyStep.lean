import Artela.Proofs.MemoryKit
/-  Case analysis of `mcopyStep` (one interpreter step on MCOPY). -/
namespace Artela

theorem toWordSize_small (n : Nat) (h : n ≤ maxU64 - 31) : toWordSize n = (n + 31) / 32 := by
  unfold toWordSize; rw [if_neg (by omega)]

theorem maxU64_eq : maxU64 = 18446744073709551615 := by decide

/-- zero length: nothing is expanded, nothing copied, cost 3 — whatever `dst` and `src` are -/
theorem mcopyStep_zero (m : MemState) (gas : Nat) (dst src : Word) :
    mcopyStep m gas dst src 0 = if gas < 3 then .err "out of gas" else .ok (m, 3) := by
  have hU := U64_eq
  have hM := maxU64_eq
  have h1 : memoryMcopy dst src 0 = (0, false) := by
    unfold memoryMcopy calcMemSize64; rw [if_neg (by omega), if_pos rfl]
  have h2 : toWordSize 0 = 0 := by rw [toWordSize_small 0 (by omega)]
  have h3 : gasMcopy m.store.length m.lastGasCost 0 0 = some (0, m.lastGasCost) := by
    unfold gasMcopy memoryGasCost
    rw [if_pos rfl]
    try dsimp only
    rw [if_neg (by omega), h2]
    try dsimp only
    rw [if_neg (by omega), if_neg (by omega)]
  unfold mcopyStep
  rw [h1]
  try dsimp only
  rw [if_neg (by simp), h2]
  try dsimp only
  rw [if_neg (by omega)]
  by_cases hg : gas < 3
  · rw [if_pos hg, if_pos hg]
  · rw [if_neg hg, if_neg hg, h3]
    try dsimp only
    rw [if_neg (by omega)]
    have : ¬ (0 > 0 ∧ m.store.length < 0) := by omega
    rw [if_neg this]
    have : memCopyGo m.store m.store.length (dst % U64) (src % U64) (0 % U64) = .ok m.store := by
      unfold memCopyGo; rw [if_pos (Nat.zero_mod _)]
    rw [this]

/-- the expanded memory the copy runs on -/
def expand (store : Bytes) (size : Nat) : Bytes :=
  if size > 0 ∧ store.length < size then store ++ List.replicate (size - store.length) 0 else store

theorem expand_length (store : Bytes) (size : Nat) : (expand store size).length = max store.length size := by
  unfold expand; split
  · simp; omega
  · omega

/-- positive length, all three operands and the end of the larger range inside 64 bits and inside the gas cap -/
theorem memFee_le {a b : Nat} (h : a ≤ b) : memFee a ≤ memFee b := by
  unfold memFee
  have : a * a / 512 ≤ b * b / 512 := Nat.div_le_div_right (Nat.mul_le_mul h h)
  omega

theorem mcopyStep_pos (m : MemState) (gas : Nat) (dst src len : Word) (hl : 0 < len)
    (hr : max dst src + len ≤ 0x1FFFFFFFE0) (hsm : m.store.length ≤ 0x1FFFFFFFE0)
    (hal : m.store.length % 32 = 0) (hfee0 : m.lastGasCost = memFee (m.store.length / 32)) :
    mcopyStep m gas dst src len =
      (let W := (max dst src + len + 31) / 32
       let fee := if W * 32 > m.store.length then memFee W - m.lastGasCost else 0
       let last' := if W * 32 > m.store.length then memFee W else m.lastGasCost
       let dyn := fee + (len + 31) / 32 * 3
       let s := expand m.store (W * 32)
       if gas < 3 then .err "out of gas"
       else if gas - 3 < dyn then .err "out of gas"
       else .ok ({ store := s.take dst ++ s.extract src (src + len) ++ s.drop (dst + len), lastGasCost := last' }, 3 + dyn)) := by
  have hU := U64_eq
  have hM := maxU64_eq
  have hmx : max dst src = if src > dst then src else dst := by
    by_cases c : src > dst
    · rw [if_pos c]; omega
    · rw [if_neg c]; omega
  have h1 : memoryMcopy dst src len = (max dst src + len, false) := by
    unfold memoryMcopy calcMemSize64
    rw [← hmx, if_neg (by omega), if_neg (by omega), if_neg (by omega)]
    have : (max dst src + len) % U64 = max dst src + len := Nat.mod_eq_of_lt (by omega)
    rw [this]
    simp only [Prod.mk.injEq, decide_eq_false_iff_not, true_and]
    omega
  have h2 : toWordSize (max dst src + len) = (max dst src + len + 31) / 32 := toWordSize_small _ (by omega)
  generalize hW : (max dst src + len + 31) / 32 = W at *
  have hWb : W * 32 ≤ 0x1FFFFFFFE0 + 31 := by omega
  have hW0 : 0 < W := by omega
  have h2' : toWordSize (W * 32) = W := by rw [toWordSize_small _ (by omega)]; omega
  have h2'' : toWordSize len = (len + 31) / 32 := toWordSize_small _ (by omega)
  have hcap : ¬ (W * 32 > 0x1FFFFFFFE0) := by omega
  have h3 : gasMcopy m.store.length m.lastGasCost (W * 32) len =
      some ((if W * 32 > m.store.length then memFee W - m.lastGasCost else 0) + (len + 31) / 32 * 3,
            if W * 32 > m.store.length then memFee W else m.lastGasCost) := by
    unfold gasMcopy memoryGasCost
    rw [if_neg (by omega), if_neg hcap, h2']
    try dsimp only
    have hfee : memFee W < 2 ^ 63 := by
      unfold memFee
      have : W ≤ 4294967296 := by omega
      have : W * W ≤ 4294967296 * 4294967296 := Nat.mul_le_mul this this
      omega
    by_cases c : W * 32 > m.store.length
    · rw [if_pos c, if_pos c, if_pos c]
      try dsimp only
      have hle : m.lastGasCost ≤ memFee W := by rw [hfee0]; exact memFee_le (by omega)
      have hwrap : (memFee W % U64 + U64 - m.lastGasCost % U64) % U64 = memFee W - m.lastGasCost := by
        have e1 : memFee W % U64 = memFee W := Nat.mod_eq_of_lt (by omega)
        have e2 : m.lastGasCost % U64 = m.lastGasCost := Nat.mod_eq_of_lt (by omega)
        rw [e1, e2, hU]
        omega
      rw [hwrap]
      rw [if_neg (by omega), h2'', if_neg (by omega), if_neg (by omega)]
    · rw [if_neg c, if_neg c, if_neg c]
      try dsimp only
      rw [if_neg (by omega), h2'', if_neg (by omega), if_neg (by omega)]
  unfold mcopyStep
  rw [h1]
  try dsimp only
  rw [if_neg (by simp), h2]
  rw [if_neg (by omega)]
  by_cases hg : gas < 3
  · rw [if_pos hg, if_pos hg]
  · rw [if_neg hg, if_neg hg, h3]
    try dsimp only
    by_cases hg2 : gas - 3 < (if W * 32 > m.store.length then memFee W - m.lastGasCost else 0) + (len + 31) / 32 * 3
    · rw [if_pos hg2, if_pos hg2]
    · rw [if_neg hg2, if_neg hg2]
      have hexp : (if W * 32 > 0 ∧ m.store.length < W * 32 then m.store ++ List.replicate (W * 32 - m.store.length) 0 else m.store)
          = expand m.store (W * 32) := rfl
      rw [hexp]
      have hel := expand_length m.store (W * 32)
      have hd : dst % U64 = dst := Nat.mod_eq_of_lt (by omega)
      have hs : src % U64 = src := Nat.mod_eq_of_lt (by omega)
      have hln : len % U64 = len := Nat.mod_eq_of_lt (by omega)
      rw [hd, hs, hln, memCopyGo_inside _ dst src len hl (by omega) (by omega) (by omega)]

end Artela

namespace Artela

/-- positive length reaching beyond what the gas schedule can pay for (in particular any operand ≥ 2^64 or a
    wrapping sum): the step fails in the out-of-gas class; nothing is copied, nothing panics -/
theorem mcopyStep_out_of_range (m : MemState) (gas : Nat) (dst src len : Word) (hl : 0 < len)
    (hr : max dst src + len > 0x1FFFFFFFE0) : ∃ e, mcopyStep m gas dst src len = .err e := by
  have hU := U64_eq
  have hM := maxU64_eq
  have hmx : (if src > dst then src else dst) = max dst src := by
    by_cases c : src > dst
    · rw [if_pos c]; omega
    · rw [if_neg c]; omega
  unfold mcopyStep memoryMcopy calcMemSize64
  rw [hmx]
  by_cases c1 : len ≥ U64
  · rw [if_pos c1]; exact ⟨_, rfl⟩
  · rw [if_neg c1, if_neg (by omega)]
    by_cases c2 : max dst src ≥ U64
    · rw [if_pos c2]; exact ⟨_, rfl⟩
    · rw [if_neg c2]
      dsimp only
      by_cases c3 : max dst src + len ≥ U64
      · have hw : (max dst src + len) % U64 < max dst src := by
          have h1 : (max dst src + len) % U64 = (max dst src + len - U64) % U64 := Nat.mod_eq_sub_mod c3
          have h2 : (max dst src + len - U64) % U64 = max dst src + len - U64 := Nat.mod_eq_of_lt (by omega)
          rw [h1, h2]; omega
        have : decide ((max dst src + len) % U64 < max dst src) = true := by simp [hw]
        rw [this]; exact ⟨_, rfl⟩
      · have hv : (max dst src + len) % U64 = max dst src + len := Nat.mod_eq_of_lt (by omega)
        rw [hv]
        have : decide (max dst src + len < max dst src) = false := by simp
        rw [this]
        rw [if_neg (by simp)]
        by_cases c4 : toWordSize (max dst src + len) * 32 ≥ U64
        · rw [if_pos c4]; exact ⟨_, rfl⟩
        · rw [if_neg c4]
          by_cases c5 : gas < 3
          · rw [if_pos c5]; exact ⟨_, rfl⟩
          · rw [if_neg c5]
            have hws : toWordSize (max dst src + len) * 32 ≥ max dst src + len := by
              unfold toWordSize; split <;> omega
            have : gasMcopy m.store.length m.lastGasCost (toWordSize (max dst src + len) * 32) len = none := by
              unfold gasMcopy memoryGasCost
              rw [if_neg (by omega), if_pos (by omega)]
            rw [this]; exact ⟨_, rfl⟩

end Artela
