import Artela.Model.Journal
import Artela.Proofs.BytesKit
/-  No journal instruction panics, and the work each performs is bounded as stated (C03, C20). -/
namespace Artela

theorem maxAlloc_eq : maxAlloc = 140737488355328 := by decide

theorem toInt64_small (x : Nat) (h : x < 2 ^ 63) : toInt64 x = (x : Int) := by
  have hU := U64_eq
  unfold toInt64
  have : x % U64 = x := Nat.mod_eq_of_lt (by omega)
  rw [this, if_pos h]

theorem addInt64_small (a b : Nat) (h : a + b < 2 ^ 63) : addInt64 (a : Int) (b : Int) = ((a + b : Nat) : Int) := by
  have hU := U64_eq
  unfold addInt64
  have e : ((a : Int) + (b : Int)) % (U64 : Int) = ((a + b : Nat) : Int) := by
    rw [hU]; omega
  rw [e, Int.toNat_natCast, toInt64_small _ h]

/-- `Memory.GetCopy` inside the allocated memory neither panics nor copies more than it was asked for -/
theorem memGetCopy_inside (mem : Bytes) (cap off size : Nat)
    (h1 : off + size ≤ mem.length) (h2 : mem.length ≤ cap) (h3 : mem.length ≤ maxAlloc) :
    ∃ r w, memGetCopy mem cap (off : Int) (size : Int) = (.ok r, w) ∧ w.reads = 0 ∧ w.copied ≤ size ∧ w.alloc ≤ size := by
  have hM := maxAlloc_eq
  unfold memGetCopy
  by_cases hs : size = 0
  · subst hs; exact ⟨none, {}, by simp, rfl, Nat.le_refl _, Nat.le_refl _⟩
  · have hs' : ¬ ((size : Int) = 0) := by omega
    rw [if_neg hs']
    by_cases hl : (mem.length : Int) > (off : Int)
    · rw [if_pos hl]
      have c1 : ¬ ((size : Int) < 0 ∨ (size : Int) > (maxAlloc : Int)) := by omega
      have c2 : ¬ ((off : Int) < 0) := by omega
      rw [if_neg c1, if_neg c2, addInt64_small off size (by omega)]
      have c3 : ¬ (((off + size : Nat) : Int) < 0) := by omega
      rw [if_neg c3]
      simp only [Int.toNat_natCast]
      unfold goSlice
      rw [if_pos ⟨by omega, by omega⟩]
      exact ⟨_, _, rfl, rfl, Nat.le_refl _, Nat.le_refl _⟩
    · rw [if_neg hl]; exact ⟨none, {}, rfl, rfl, Nat.zero_le _, Nat.zero_le _⟩

/-- `loadDataFromMem` (as repaired): for every pointer word and every memory content it returns data or an
    error, never panics, performs no storage read and copies at most `32 + |memory|` bytes. -/
theorem loadDataFromMem_safe (ptr : Word) (mem : Bytes) (cap : Nat)
    (h2 : mem.length ≤ cap) (h3 : mem.length ≤ maxAlloc) :
    (loadDataFromMem ptr mem cap).1.isPanic = false ∧ (loadDataFromMem ptr mem cap).2.reads = 0 ∧
    (loadDataFromMem ptr mem cap).2.copied ≤ 32 + mem.length ∧ (loadDataFromMem ptr mem cap).2.alloc ≤ 32 + mem.length := by
  have hM := maxAlloc_eq
  have hU := U64_eq
  unfold loadDataFromMem
  simp only
  split
  · exact ⟨rfl, rfl, Nat.zero_le _, Nat.zero_le _⟩
  · rename_i hc
    have hp : ptr < U64 := by omega
    have hpm : ptr % U64 = ptr := Nat.mod_eq_of_lt hp
    rw [hpm] at hc ⊢
    have ho : ptr ≤ mem.length := by omega
    have hr : 32 ≤ mem.length - ptr := by omega
    rw [toInt64_small ptr (by omega)]
    obtain ⟨r1, w1, e1, hr1, hc1, ha1⟩ := memGetCopy_inside mem cap ptr 32 (by omega) h2 h3
    have e1' : memGetCopy mem cap (ptr : Int) 32 = (.ok r1, w1) := e1
    rw [e1']
    simp only
    split
    · refine ⟨rfl, hr1, ?_, ?_⟩ <;> simp only <;> omega
    · rename_i hd
      have hd1 : setBytes (r1.getD []) < U64 := by omega
      have hdm : setBytes (r1.getD []) % U64 = setBytes (r1.getD []) := Nat.mod_eq_of_lt hd1
      rw [hdm] at hd ⊢
      have hd2 : setBytes (r1.getD []) ≤ mem.length - ptr - 32 := by omega
      have e32 : (ptr + 32) % U64 = ptr + 32 := Nat.mod_eq_of_lt (by omega)
      rw [e32, toInt64_small (ptr + 32) (by omega), toInt64_small (setBytes (r1.getD [])) (by omega)]
      obtain ⟨r2, w2, e2, hr2, hc2, ha2⟩ := memGetCopy_inside mem cap (ptr + 32) (setBytes (r1.getD [])) (by omega) h2 h3
      rw [e2]
      refine ⟨rfl, ?_, ?_, ?_⟩ <;> simp only [Work.add] <;> omega

theorem liftKey_not_panic (r : Tracer × Option String) : (liftKey r).isPanic = false := by
  unfold liftKey; split <;> rfl

theorem goSlice_ok (s : Bytes) (cap lo hi : Nat) (h : lo ≤ hi ∧ hi ≤ cap) : ∃ v, goSlice s cap lo hi = .ok v := by
  unfold goSlice; rw [if_pos h]; exact ⟨_, rfl⟩

/-- environment well-formedness: what Go guarantees about the memory slice and about `append` -/
structure JEnv.WF (env : JEnv) : Prop where
  cap     : env.mem.length ≤ env.memCap
  small   : env.mem.length ≤ maxAlloc          -- memory expansion gas caps memory far below 2^47
  appendC : ∀ n, n ≤ env.appendCap n

theorem readSlots_length (st : Word → Word) (k : Word) : ∀ n, (readSlots st k n).length = 32 * n
  | 0 => rfl
  | n + 1 => by simp [readSlots, readSlots_length st k n, bytes32]; omega

theorem len2 {α} (l : List α) (h : l.length = 2) : ∃ a b, l = [a, b] := by
  match l, h with | [a, b], _ => exact ⟨a, b, rfl⟩
theorem len3 {α} (l : List α) (h : l.length = 3) : ∃ a b c, l = [a, b, c] := by
  match l, h with | [a, b, c], _ => exact ⟨a, b, c, rfl⟩
theorem len4 {α} (l : List α) (h : l.length = 4) : ∃ a b c d, l = [a, b, c, d] := by
  match l, h with | [a, b, c, d], _ => exact ⟨a, b, c, d, rfl⟩
theorem len5 {α} (l : List α) (h : l.length = 5) : ∃ a b c d e, l = [a, b, c, d, e] := by
  match l, h with | [a, b, c, d, e], _ => exact ⟨a, b, c, d, e, rfl⟩
theorem len6 {α} (l : List α) (h : l.length = 6) : ∃ a b c d e f, l = [a, b, c, d, e, f] := by
  match l, h with | [a, b, c, d, e, f], _ => exact ⟨a, b, c, d, e, f, rfl⟩

/-- the shape shared by the four key-journal opcodes that read a name / index from memory -/
theorem keyFromMem_safe (ptr : Word) (env : JEnv) (hwf : env.WF) (f : Bytes → Tracer × Option String) :
    (keyFromMem ptr env f).1.isPanic = false ∧ (keyFromMem ptr env f).2.reads = 0 ∧
    (keyFromMem ptr env f).2.copied ≤ 32 + env.mem.length ∧ (keyFromMem ptr env f).2.alloc ≤ 32 + env.mem.length := by
  have := loadDataFromMem_safe ptr env.mem env.memCap hwf.cap hwf.small
  unfold keyFromMem
  generalize loadDataFromMem ptr env.mem env.memCap = r at this
  obtain ⟨r1, r2⟩ := r
  cases r1 with
  | ok v => exact ⟨liftKey_not_panic _, this.2⟩
  | err e => exact ⟨rfl, this.2⟩
  | panic p => simp [Res.isPanic] at this

def vvPost (r : Res Tracer × Work) : Prop :=
  r.1.isPanic = false ∧ r.2.reads ≤ 1 ∧ r.2.copied = 0 ∧ r.2.alloc = 0

theorem vv_safe (slot off width typeId : Word) (env : JEnv) (tr : Tracer) :
    vvPost (Journal.exec .vv [slot, off, width, typeId] env tr) := by
  have hU := U64_eq
  simp only [Journal.exec]
  split
  · exact ⟨rfl, Nat.zero_le _, rfl, rfl⟩
  · rename_i c1
    split
    · exact ⟨rfl, Nat.zero_le _, rfl, rfl⟩
    · rename_i c2
      have ho : off % U64 = off := Nat.mod_eq_of_lt (by omega)
      have hw : width % U64 = width := Nat.mod_eq_of_lt (by omega)
      rw [ho] at c1 c2 ⊢
      rw [hw] at c2 ⊢
      have e1 : (32 - off - width) % U64 = 32 - off - width := Nat.mod_eq_of_lt (by omega)
      have e2 : (32 - off) % U64 = 32 - off := Nat.mod_eq_of_lt (by omega)
      rw [e1, e2]
      obtain ⟨v, hv⟩ := goSlice_ok (bytes32 (env.storage slot)) 32 (32 - off - width) (32 - off) ⟨by omega, by omega⟩
      rw [hv]
      exact ⟨liftKey_not_panic _, Nat.le_refl _, rfl, rfl⟩

theorem extractStorageLen_odd (w : Nat) (h : w % 2 = 1) (hl : w / 2 ≤ U64 - 32) :
    extractStorageLen w = if w / 2 ≥ 32 then .ok (w / 2) else .error "storage encoding error" := by
  have hU := U64_eq
  unfold extractStorageLen
  simp only [h]
  by_cases c : w / 2 < 32
  · simp [c]
  · have : ¬ (w / 2 ≥ U64 ∨ w / 2 > U64 - 32) := by omega
    have c2 : w / 2 ≥ 32 := by omega
    simp [c, this, c2]

theorem extractStorageLen_even (w : Nat) (h : w % 2 = 0) :
    extractStorageLen w = if (w % 256) / 2 < 32 then .ok ((w % 256) / 2) else .error "storage encoding error" := by
  unfold extractStorageLen
  have e : w / 2 % 128 = w % 256 / 2 := by omega
  have hU := U64_eq
  simp only [h, e]
  by_cases c : w % 256 / 2 < 32
  · have : ¬ (w % 256 / 2 ≥ U64 ∨ w % 256 / 2 > U64 - 32) := by omega
    simp [c, this]
  · simp [c]

theorem extractStorageLen_huge (w : Nat) (h : w % 2 = 1) (hl : w / 2 > U64 - 32) :
    extractStorageLen w = .error "storage too large to load" := by
  have hU := U64_eq
  unfold extractStorageLen
  have h1 : ¬ (w / 2 < 32) := by omega
  have h2 : w / 2 ≥ U64 ∨ w / 2 > U64 - 32 := Or.inr hl
  simp [h, h1, h2]

theorem extractStorageLen_lt (w : Nat) (n : Nat) (h : extractStorageLen w = .ok n) :
    n ≤ U64 - 32 ∧ (n < 32 ∨ (n ≥ 32 ∧ n = w / 2)) := by
  have hU := U64_eq
  by_cases c : w % 2 = 0
  · rw [extractStorageLen_even w c] at h
    by_cases c2 : w % 256 / 2 < 32
    · rw [if_pos c2] at h
      injection h with h
      subst h
      exact ⟨by omega, Or.inl c2⟩
    · rw [if_neg c2] at h; cases h
  · have c' : w % 2 = 1 := by omega
    by_cases hl : w / 2 ≤ U64 - 32
    · rw [extractStorageLen_odd w c' hl] at h
      by_cases c2 : w / 2 ≥ 32
      · rw [if_pos c2] at h
        injection h with h
        subst h
        exact ⟨hl, Or.inr ⟨c2, rfl⟩⟩
      · rw [if_neg c2] at h; cases h
    · rw [extractStorageLen_huge w c' (by omega)] at h; cases h

theorem vr_safe (slot typeId : Word) (env : JEnv) (tr : Tracer) (hwf : env.WF) :
    (Journal.exec .vr [slot, typeId] env tr).1.isPanic = false ∧
    (Journal.exec .vr [slot, typeId] env tr).2.reads ≤ 1 + slotCount (env.storage slot / 2) ∧
    (Journal.exec .vr [slot, typeId] env tr).2.copied ≤ 32 * slotCount (env.storage slot / 2) := by
  simp only [Journal.exec]
  cases hx : extractStorageLen (env.storage slot) with
  | error e => exact ⟨rfl, by simp, by simp⟩
  | ok n =>
    obtain ⟨hn, hcase⟩ := extractStorageLen_lt _ _ hx
    simp only
    by_cases hlt : n < 32
    · simp only [if_pos hlt]
      obtain ⟨v, hv⟩ := goSlice_ok (bytes32 (env.storage slot - env.storage slot % 256)) 32 0 n ⟨by omega, by omega⟩
      simp only [hv]
      exact ⟨liftKey_not_panic _, by simp, by simp⟩
    · simp only [if_neg hlt]
      have hn2 : n = env.storage slot / 2 := by
        rcases hcase with h | h
        · omega
        · exact h.2
      have hU := U64_eq
      have hb := (show n ≤ 32 * slotCount n ∧ slotCount n ≤ n / 32 + 1 by
        unfold slotCount; rw [Nat.mod_eq_of_lt (by omega)]; omega)
      have hl := readSlots_length env.storage (env.keccak (bytes32 slot)) (slotCount n)
      obtain ⟨v, hv⟩ := goSlice_ok (readSlots env.storage (env.keccak (bytes32 slot)) (slotCount n))
        (env.appendCap (readSlots env.storage (env.keccak (bytes32 slot)) (slotCount n)).length) 0 n
        ⟨by omega, by have := hwf.appendC (readSlots env.storage (env.keccak (bytes32 slot)) (slotCount n)).length; omega⟩
      simp only [hv]
      subst hn2
      exact ⟨liftKey_not_panic _, Nat.le_refl _, Nat.le_refl _⟩

theorem vr_alloc (slot typeId : Word) (env : JEnv) (tr : Tracer) (hwf : env.WF) :
    (Journal.exec .vr [slot, typeId] env tr).2.alloc ≤ 32 * slotCount (env.storage slot / 2) := by
  simp only [Journal.exec]
  cases hx : extractStorageLen (env.storage slot) with
  | error e => simp
  | ok n =>
    obtain ⟨hn, hcase⟩ := extractStorageLen_lt _ _ hx
    simp only
    by_cases hlt : n < 32
    · simp only [if_pos hlt]
      split <;> simp
    · simp only [if_neg hlt]
      have hn2 : n = env.storage slot / 2 := by
        rcases hcase with h | h
        · omega
        · exact h.2
      subst hn2
      split <;> exact Nat.le_refl _

/-- **No journal instruction panics**: for every opcode, every operand tuple of the right arity, every memory
    content and capacity, every storage function and every keccak. -/
theorem journal_no_panic (op : JOp) (args : List Word) (env : JEnv) (tr : Tracer)
    (ha : args.length = op.arity) (hwf : env.WF) :
    (Journal.exec op args env tr).1.isPanic = false := by
  cases op <;> simp only [JOp.arity] at ha
  · obtain ⟨a, b, c, rfl⟩ := len3 args ha
    exact (keyFromMem_safe a env hwf _).1
  · obtain ⟨a, b, c, d, rfl⟩ := len4 args ha
    exact (keyFromMem_safe a env hwf _).1
  · obtain ⟨a, b, c, d, e, f, rfl⟩ := len6 args ha
    exact (keyFromMem_safe c env hwf _).1
  · obtain ⟨a, b, c, d, e, rfl⟩ := len5 args ha
    exact (keyFromMem_safe c env hwf _).1
  · obtain ⟨a, b, c, d, e, f, rfl⟩ := len6 args ha
    exact liftKey_not_panic _
  · obtain ⟨a, b, c, d, e, rfl⟩ := len5 args ha
    exact liftKey_not_panic _
  · obtain ⟨a, b, c, d, rfl⟩ := len4 args ha
    exact (vv_safe a b c d env tr).1
  · obtain ⟨a, b, rfl⟩ := len2 args ha
    exact (vr_safe a b env tr hwf).1

end Artela
