import Artela.Model.Base
/-  `bytesLE` (Go `bytes.Compare ≤ 0`, the order `sort.Strings` uses) is a total order on byte strings. -/
namespace Artela

theorem bytesLE_refl : ∀ (a : Bytes), bytesLE a a = true
  | [] => rfl
  | x :: xs => by
    simp only [bytesLE]
    have : ¬ x < x := by exact UInt8.lt_irrefl x
    simp [this, bytesLE_refl xs]

theorem bytesLE_total : ∀ (a b : Bytes), (bytesLE a b || bytesLE b a) = true
  | [], _ => by simp [bytesLE]
  | _ :: _, [] => by simp [bytesLE]
  | x :: xs, y :: ys => by
    simp only [bytesLE]
    by_cases h1 : x < y
    · simp [h1]
    · by_cases h2 : y < x
      · simp [h1, h2]
      · simp [h1, h2, bytesLE_total xs ys]

theorem bytesLE_antisymm : ∀ (a b : Bytes), bytesLE a b = true → bytesLE b a = true → a = b
  | [], [], _, _ => rfl
  | [], _ :: _, _, h => by simp [bytesLE] at h
  | _ :: _, [], h, _ => by simp [bytesLE] at h
  | x :: xs, y :: ys, h1, h2 => by
    simp only [bytesLE] at h1 h2
    by_cases hxy : x < y
    · have : ¬ y < x := fun h => absurd (UInt8.lt_trans hxy h) (UInt8.lt_irrefl x)
      simp [hxy, this] at h2
    · by_cases hyx : y < x
      · simp [hxy, hyx] at h1
      · simp [hxy, hyx] at h1 h2
        have hxy' : x = y := by
          have a1 : ¬ x.toNat < y.toNat := by simpa [UInt8.lt_iff_toNat_lt] using hxy
          have a2 : ¬ y.toNat < x.toNat := by simpa [UInt8.lt_iff_toNat_lt] using hyx
          exact UInt8.toNat_inj.mp (by omega)
        rw [hxy', bytesLE_antisymm xs ys h1 h2]

theorem bytesLE_trans : ∀ (a b c : Bytes), bytesLE a b = true → bytesLE b c = true → bytesLE a c = true
  | [], _, _, _, _ => by simp [bytesLE]
  | _ :: _, [], _, h, _ => by simp [bytesLE] at h
  | _ :: _, _ :: _, [], _, h => by simp [bytesLE] at h
  | x :: xs, y :: ys, z :: zs, h1, h2 => by
    simp only [bytesLE] at h1 h2 ⊢
    simp only [UInt8.lt_iff_toNat_lt] at h1 h2 ⊢
    by_cases hxy : x.toNat < y.toNat
    · by_cases hyz : y.toNat < z.toNat
      · have : x.toNat < z.toNat := by omega
        simp [this]
      · by_cases hzy : z.toNat < y.toNat
        · simp [hyz, hzy] at h2
        · have : x.toNat < z.toNat := by omega
          simp [this]
    · by_cases hyx : y.toNat < x.toNat
      · simp [hxy, hyx] at h1
      · simp [hxy, hyx] at h1
        have hxy' : x.toNat = y.toNat := by omega
        by_cases hyz : y.toNat < z.toNat
        · have : x.toNat < z.toNat := by omega
          simp [this]
        · by_cases hzy : z.toNat < y.toNat
          · simp [hyz, hzy] at h2
          · simp [hyz, hzy] at h2
            have a1 : ¬ x.toNat < z.toNat := by omega
            have a2 : ¬ z.toNat < x.toNat := by omega
            simp [a1, a2, bytesLE_trans xs ys zs h1 h2]

end Artela
