import Artela.Proofs.CallTreeWF
/-
  Helper lemmas for C07/C03: balanced `add`/`exit` sequences return the cursor to where it was.
-/
namespace Artela
namespace CallTree

/-- the shape of the tracer operations emitted by one top-level frame: `call ::= add call* exit` -/
inductive Balanced : List Op → Prop
  | nil : Balanced []
  | node (f : Addr) (to : Option Addr) (d : Bytes) (v g l : Nat) (r : Option Bytes) (e : Option String)
      (body : List Op) : Balanced body → Balanced (Op.add f to d v g :: (body ++ [Op.exit l r e]))
  | append (a b : List Op) : Balanced a → Balanced b → Balanced (a ++ b)

/-- nodes are never removed and their `parent`, `index` and recorded inputs never change -/
def Stable (t t' : CallTree) : Prop :=
  ∀ (i : Nat) (n : CallNode), t.nodes[i]? = some n →
    ∃ n', t'.nodes[i]? = some n' ∧ n'.parent = n.parent ∧ n'.index = n.index ∧
      n'.frm = n.frm ∧ n'.to = n.to ∧ n'.data = n.data ∧ n'.value = n.value ∧ n'.gas = n.gas

theorem Stable.refl (t : CallTree) : Stable t t := fun _ n h => ⟨n, h, rfl, rfl, rfl, rfl, rfl, rfl, rfl⟩

theorem Stable.trans {a b c : CallTree} (h1 : Stable a b) (h2 : Stable b c) : Stable a c := by
  intro i n hn
  obtain ⟨n1, h1n, p1, i1, f1, t1, d1, v1, g1⟩ := h1 i n hn
  obtain ⟨n2, h2n, p2, i2, f2, t2, d2, v2, g2⟩ := h2 i n1 h1n
  exact ⟨n2, h2n, p2.trans p1, i2.trans i1, f2.trans f1, t2.trans t1, d2.trans d1, v2.trans v1, g2.trans g1⟩

theorem add_stable (t : CallTree) (f : Addr) (to : Option Addr) (d : Bytes) (v g : Nat) :
    Stable t (t.add f to d v g) := by
  intro i n hn
  refine ⟨_, add_nodes_old f to d v g hn, ?_⟩
  split <;> simp [pushChild]

theorem exit_stable (t : CallTree) (l : Nat) (r : Option Bytes) (e : Option String) :
    Stable t (t.exit l r e) := by
  intro i n hn
  unfold exit
  cases t.current with
  | none => exact ⟨n, hn, rfl, rfl, rfl, rfl, rfl, rfl, rfl⟩
  | some c =>
    simp only
    cases t.nodes[c]? with
    | none => exact ⟨n, hn, rfl, rfl, rfl, rfl, rfl, rfl, rfl⟩
    | some m =>
      simp only [List.getElem?_modify, hn]
      by_cases hci : c = i <;> simp [hci, setResult]

theorem step_stable (t : CallTree) (op : Op) : Stable t (t.step op) := by
  cases op with
  | add f to d v g => exact add_stable t f to d v g
  | exit l r e => exact exit_stable t l r e

theorem run_stable (t : CallTree) (ops : List Op) : Stable t (t.run ops) := by
  induction ops generalizing t with
  | nil => exact Stable.refl t
  | cons op ops ih => exact (step_stable t op).trans (ih (t.step op))

theorem run_append (t : CallTree) (a b : List Op) : t.run (a ++ b) = (t.run a).run b := by
  simp [run, List.foldl_append]

theorem run_cons (t : CallTree) (op : Op) (ops : List Op) : t.run (op :: ops) = (t.step op).run ops := rfl

/-- a balanced sequence leaves the cursor where it found it -/
theorem balanced_current {ops : List Op} (hb : Balanced ops) :
    ∀ {t : CallTree}, WF t → (t.run ops).current = t.current := by
  induction hb with
  | nil => intro t _; rfl
  | node f to d v g l r e body _ ih =>
    intro t hwf
    rw [run_cons, run_append]
    have hwf1 : WF (t.step (Op.add f to d v g)) := step_wf hwf _
    have hcur1 : (t.step (Op.add f to d v g)).current = some t.count := by simp [step, add]
    have hnode1 : (t.step (Op.add f to d v g)).nodes[t.count]? = some (mkNode f to d v g t.count t.current) := by
      simp only [step]; rw [add_nodes, hwf.count_eq]; simp
    have hcur2 := ih hwf1
    obtain ⟨n', hn', hpar, _⟩ := run_stable _ body _ _ hnode1
    simp only [run, List.foldl_cons, List.foldl_nil, step]
    show (CallTree.exit (run (t.step (Op.add f to d v g)) body) l r e).current = t.current
    unfold exit
    rw [hcur2, hcur1]
    simp only [hn']
    simpa [mkNode] using hpar
  | append a b _ _ iha ihb =>
    intro t hwf
    rw [run_append, ihb (run_wf hwf a), iha hwf]

end CallTree
end Artela
