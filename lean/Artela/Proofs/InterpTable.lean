import Artela.Model.Interp
import Artela.Generated.JumpTables
/-
  The instruction tables extracted from the running code (`Generated/JumpTables.lean`) as the `table` parameter
  of the interpreter model.
-/
namespace Artela
namespace Interp

def toRow (r : Gen.OpRow) : Row := ⟨r.exec, r.dyn, r.mem, r.cgas, r.minStack, r.maxStack⟩

/-- the table function of a list of extracted rows (first row for an opcode wins; rows are unique per opcode) -/
def tableOf (rows : List Gen.OpRow) (op : Nat) : Option Row :=
  (rows.find? (fun r => r.op == op)).map toRow

end Interp
end Artela
