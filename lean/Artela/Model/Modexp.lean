import Artela.Model.Interp
/-
  M11 — the MODEXP precompile (address 0x05; vm/contracts.go `bigModExp.RequiredGas` / `Run`), inherited from
  go-ethereum v1.12.0, transcribed statement by statement.

  `math/big` values are `Nat`; `.Uint64()` is the low 64 bits; `getData` is the interpreter model's (uint64 sum, the
  clamps, right padding); `big.Int.Bytes()` is `natBytes`; `common.LeftPadBytes` is `leftPad`; `big.Int.Exp(x, y, m)`
  for m ≠ 0 is square-and-multiply (`powMod`), proved equal to x ^ y % m in Props/Modexp.lean.
  What is NOT modelled: the allocations `RightPadBytes` / `LeftPadBytes` make for a huge length (from about 2^48 bytes the Go
  runtime panics with `makeslice: len out of range`, the model returns the padded list). Such lengths are priced at MaxUint64,
  and `RunPrecompiledContract` refuses `suppliedGas < gasCost`, so `Run` is reached with them only by a call that supplies
  exactly 2^64-1 gas; go-ethereum v1.12.0 behaves identically (`S stdwork` measures what payable inputs allocate).
-/
namespace Artela
namespace Modexp
open Interp

/-- `big.Int.Bytes()`: minimal big-endian bytes, zero ↦ empty -/
def natBytes (n : Nat) : Bytes :=
  if _h : n = 0 then [] else natBytes (n / 256) ++ [UInt8.ofNat (n % 256)]
decreasing_by exact Nat.div_lt_self (Nat.pos_of_ne_zero _h) (by decide)

/-- `common.LeftPadBytes(b, n)` -/
def leftPad (b : Bytes) (n : Nat) : Bytes := if n ≤ b.length then b else List.replicate (n - b.length) 0 ++ b

/-- `common.LeftPadBytes(b, int(n))` for a uint64 `n`: from 2^63 on the `int` is negative and nothing is padded -/
def leftPadU64 (b : Bytes) (n : Nat) : Bytes := if n < 2 ^ 63 then leftPad b n else b

/-- `big.Int.BitLen()` -/
def bitLen (n : Nat) : Nat := if n = 0 then 0 else Nat.log2 n + 1

/-- `x.Exp(x, y, m)` for m ≠ 0: right-to-left binary exponentiation -/
def powMod (b e m : Nat) : Nat :=
  if h : e = 0 then 1 % m
  else
    let s := powMod b (e / 2) m
    let s := s * s % m
    if e % 2 = 1 then s * (b % m) % m else s
decreasing_by exact Nat.div_lt_self (Nat.pos_of_ne_zero h) (by decide)

/-- the three length words and the rest of the input -/
def lens (input : Bytes) : Res (Nat × Nat × Nat × Bytes) := do
  let b ← getData input 0 32
  let e ← getData input 32 32
  let m ← getData input 64 32
  pure (beNat b, beNat e, beNat m, if input.length > 96 then input.drop 96 else [])

/-- `modexpMultComplexity` (EIP-198) -/
def multComplexity (x : Nat) : Nat :=
  if x ≤ 64 then x * x
  else if x ≤ 1024 then x * x / 4 + 96 * x - 3072
  else x * x / 16 + 480 * x - 199680

/-- the head of the exponent (its leading 32 bytes at most), as far as the input reaches -/
def expHeadOf (rest : Bytes) (baseLen expLen : Nat) : Res Nat :=
  if rest.length ≤ baseLen then .ok 0
  else if expLen > 32 then (getData rest (baseLen % U64) 32).bind (fun d => .ok (beNat d))
  else (getData rest (baseLen % U64) (expLen % U64)).bind (fun d => .ok (beNat d))

/-- the end of the EIP-198 pricing: `if gas.BitLen() > 64 { return MaxUint64 }; return gas.Uint64()` -/
def cap64 (gas : Nat) : Nat := if bitLen gas > 64 then U64 - 1 else gas % U64

/-- the end of the EIP-2565 pricing: the same cut, then the minimum price -/
def cap2565 (gas : Nat) : Nat := if bitLen gas > 64 then U64 - 1 else if gas % U64 < 200 then 200 else gas % U64

/-- `adjExpLen` -/
def adjExpLen (expLen expHead : Nat) : Nat :=
  (if expLen > 32 then 8 * (expLen - 32) else 0) + (if bitLen expHead > 0 then bitLen expHead - 1 else 0)

/-- the price from the three lengths and the exponent head (big-integer arithmetic, cut to 64 bits at the end) -/
def priceOf (eip2565 : Bool) (baseLen expLen modLen expHead : Nat) : Nat :=
  if eip2565 then cap2565 ((max modLen baseLen + 7) / 8 * ((max modLen baseLen + 7) / 8) * max (adjExpLen expLen expHead) 1 / 3)
  else cap64 (multComplexity (max modLen baseLen) * max (adjExpLen expLen expHead) 1 / 20)

/-- `RequiredGas` -/
def requiredGas (eip2565 : Bool) (input : Bytes) : Res Nat :=
  (lens input).bind fun r => (expHeadOf r.2.2.2 r.1 r.2.1).bind fun hd => .ok (priceOf eip2565 r.1 r.2.1 r.2.2.1 hd)

/-- the operands `Run` reads -/
structure Operands where
  modLen : Nat
  base : Nat
  exp : Nat
  mod : Nat
  deriving DecidableEq, Repr

def operands (input : Bytes) : Res (Option Operands) := do
  let (baseLen, expLen, modLen, rest) ← lens input
  let baseLen := baseLen % U64
  let expLen := expLen % U64
  let modLen := modLen % U64
  if baseLen = 0 ∧ modLen = 0 then pure none
  else
    let b ← getData rest 0 baseLen
    let e ← getData rest baseLen expLen
    let m ← getData rest ((baseLen + expLen) % U64) modLen
    pure (some { modLen := modLen, base := beNat b, exp := beNat e, mod := beNat m })

/-- the value `Run` pads to the modulus length -/
def value (o : Operands) : Nat :=
  if o.mod = 0 then 0
  else if bitLen o.base = 1 then o.base % o.mod
  else powMod o.base o.exp o.mod

/-- `Run` -/
def run (input : Bytes) : Res Bytes := do
  match ← operands input with
  | none => pure []
  | some o => pure (leftPadU64 (natBytes (value o)) o.modLen)

end Modexp
end Artela
