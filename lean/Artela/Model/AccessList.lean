import Artela.Model.Base
/-
  M10 — the access-list tracer (tracers/logger/access_list_tracer.go), inherited from go-ethereum v1.12.0.

  The tracer's state is a set of excluded accounts and an accumulator account ↦ set of slots. The accumulator is modelled
  as an association list without duplicate accounts (Go: map of maps; the output order of a Go map is not defined, the
  harness and the driver sort). `init` is NewAccessListTracer, `capture` is CaptureState; every other callback is empty.
-/
namespace Artela.Acl

abbrev Slot := Nat
abbrev AList := List (Addr × List Slot)

def hasAddr (l : AList) (a : Addr) : Bool := l.any (fun e => e.1 == a)

def hasSlot (l : AList) (a : Addr) (s : Slot) : Bool := l.any (fun e => e.1 == a && e.2.contains s)

/-- accessList.addAddress -/
def addAddress (l : AList) (a : Addr) : AList := if hasAddr l a then l else l ++ [(a, [])]

def insertSlot (ks : List Slot) (s : Slot) : List Slot := if ks.contains s then ks else ks ++ [s]

/-- accessList.addSlot: the account comes along -/
def addSlot (l : AList) (a : Addr) (s : Slot) : AList :=
  if hasAddr l a then l.map (fun e => if e.1 == a then (e.1, insertSlot e.2 s) else e) else l ++ [(a, [s])]

structure St where
  excl : List Addr
  list : AList
  deriving Repr

/-- one tuple of the prior list: the bare address only when it is not excluded, its storage keys always -/
def initTuple (excl : List Addr) (l : AList) (t : Addr × List Slot) : AList :=
  t.2.foldl (fun acc s => addSlot acc t.1 s) (if excl.contains t.1 then l else addAddress l t.1)

/-- NewAccessListTracer(acl, from, to, precompiles) with excl = from :: to :: precompiles -/
def init (excl : List Addr) (prior : AList) : St := { excl := excl, list := prior.foldl (initTuple excl) [] }

def opSLOAD := 0x54
def opSSTORE := 0x55
def opBALANCE := 0x31
def opEXTCODESIZE := 0x3b
def opEXTCODECOPY := 0x3c
def opEXTCODEHASH := 0x3f
def opSELFDESTRUCT := 0xff
def opCALL := 0xf1
def opCALLCODE := 0xf2
def opDELEGATECALL := 0xf4
def opSTATICCALL := 0xfa

def isSlotOp (op : Nat) : Bool := op == opSLOAD || op == opSSTORE
def isAddrOp (op : Nat) : Bool :=
  op == opEXTCODECOPY || op == opEXTCODEHASH || op == opEXTCODESIZE || op == opBALANCE || op == opSELFDESTRUCT
def isCallOp (op : Nat) : Bool := op == opDELEGATECALL || op == opCALL || op == opSTATICCALL || op == opCALLCODE

def touch (st : St) (a : Addr) : St := if st.excl.contains a then st else { st with list := addAddress st.list a }

/-- low 20 bytes of a stack word -/
def addrOf (w : Nat) : Addr := w % 2 ^ 160

/-- CaptureState: `stack` is top first; the three tests are independent ifs over disjoint opcode sets -/
def capture (st : St) (op : Nat) (contract : Addr) (stack : List Nat) : St :=
  let st1 := if isSlotOp op then
      match stack with
      | top :: _ => { st with list := addSlot st.list contract top }
      | [] => st
    else st
  let st2 := if isAddrOp op then
      match stack with
      | top :: _ => touch st1 (addrOf top)
      | [] => st1
    else st1
  if isCallOp op && decide (5 ≤ stack.length) then
    match stack with
    | _ :: second :: _ => touch st2 (addrOf second)
    | _ => st2
  else st2

structure Ev where
  op : Nat
  contract : Addr
  stack : List Nat

def run (st : St) (evs : List Ev) : St := evs.foldl (fun s e => capture s e.op e.contract e.stack) st

end Artela.Acl
