import Artela.Model.Base
/-
  M4 — tracers/native/call.go `callTracer` and call_flat.go `flatCallTracer` as machines over the debug / Aspect
  callback stream (as repaired).  Call frames and Aspect frames live in arenas (ids = positions); Go's indexing is
  partial (`Res.panic`).  Logs (`withLog`) are not modelled.
-/
namespace Artela

structure TFrame where
  typ : String                -- CALL, STATICCALL, DELEGATECALL, CALLCODE, CREATE, CREATE2
  frm : Addr := 0
  to : Option Addr := none
  input : Bytes := []
  gas : Nat := 0
  gasUsed : Nat := 0
  value : Option Nat := none
  output : Bytes := []
  error : String := ""
  calls : List Nat := []      -- ids of child call frames, in order of return
  jps : List Nat := []        -- ids of Aspect frames, in order of entry
  curJP : Option Nat := none  -- join point type currently executing on this frame
  deriving Repr, DecidableEq

structure TAspect where
  jp : Nat                    -- join point type code
  aspect : Addr
  frm : Addr
  to : Addr
  input : Bytes
  gas : Nat
  gasUsed : Nat := 0
  value : Nat
  output : Bytes := []
  error : String := ""
  calls : List Nat := []
  deriving Repr, DecidableEq

inductive TEvent where
  | txStart (gasLimit : Nat)
  | txEnd (rest : Nat)
  | start (frm to : Addr) (create : Bool) (input : Bytes) (gas : Nat) (value : Option Nat)
  | end_ (output : Bytes) (gasUsed : Nat) (err : Option String)
  | enter (typ : String) (frm to : Addr) (input : Bytes) (gas : Nat) (value : Option Nat)
  | exit (output : Bytes) (gasUsed : Nat) (err : Option String)
  | aspectEnter (jp : Nat) (frm to aspect : Addr) (input : Bytes) (gas : Nat) (value : Option Nat)
  | aspectExit (jp : Nat) (gasLeft : Nat) (ret : Bytes) (err : Option String)
  deriving Repr

structure TState where
  frames : List TFrame := [{ typ := "" }]   -- arena; id 0 is the transaction's frame (`make([]callFrame, 1)`)
  aspects : List TAspect := []
  stack : List Nat := [0]                    -- callstack, innermost first
  gasLimit : Nat := 0
  onlyTop : Bool := false
  depth : Nat := 0                           -- nesting depth of the calls skipped in OnlyTopCall mode
  deriving Repr

namespace CallTracer

/-- `processOutput` of a call frame -/
def processCall (f : TFrame) (output : Bytes) (err : Option String) : TFrame :=
  match err with
  | none => { f with output := output }
  | some e =>
    let f := { f with error := e, to := if f.typ = "CREATE" ∨ f.typ = "CREATE2" then none else f.to }
    if e ≠ "execution reverted" ∨ output.isEmpty then f else { f with output := output }

/-- `processOutput` of an Aspect frame -/
def processAspect (a : TAspect) (output : Bytes) (err : Option String) : TAspect :=
  match err with
  | none => { a with output := output }
  | some e => if output.isEmpty then { a with error := e } else { a with error := e, output := output }

def step (st : TState) : TEvent → Res TState
  | .txStart g => .ok { st with gasLimit := g }
  | .txEnd rest => .ok { st with frames := st.frames.modify 0 (fun f => { f with gasUsed := (st.gasLimit % U64 + U64 - rest % U64) % U64 }) }
  | .start frm to create input _ value =>
    .ok { st with frames := st.frames.modify 0 (fun f => { f with frm := frm, to := some to, input := input, gas := st.gasLimit, value := value,
                                                                  typ := if create then "CREATE" else "CALL" }) }
  | .end_ output _ err => .ok { st with frames := st.frames.modify 0 (fun f => processCall f output err) }
  | .enter typ frm to input gas value =>
    if st.onlyTop then .ok { st with depth := st.depth + 1 }
    else
      let id := st.frames.length
      .ok { st with frames := st.frames ++ [{ typ := typ, frm := frm, to := some to, input := input, gas := gas, value := value }]
                    stack := id :: st.stack }
  | .exit output gasUsed err =>
    if st.onlyTop then .ok { st with depth := st.depth - 1 }
    else
      match st.stack with
      | [] => .panic "index out of range [-1]"
      | [_] => .ok st                                     -- size <= 1: return
      | c :: p :: rest =>
        let frames := st.frames.modify c (fun f => processCall { f with gasUsed := gasUsed } output err)
        match st.frames[p]? with
        | none => .panic "bad frame id"
        | some pf =>
          match pf.curJP with
          | some _ =>
            -- the call was initiated by the Aspect running on the parent: file it under that Aspect frame
            match pf.jps.getLast? with
            | none => .panic "index out of range [-1]"
            | some a => .ok { st with frames := frames, aspects := st.aspects.modify a (fun x => { x with calls := x.calls ++ [c] }), stack := p :: rest }
          | none => .ok { st with frames := frames.modify p (fun f => { f with calls := f.calls ++ [c] }), stack := p :: rest }
  | .aspectEnter jp frm to aspect input gas value =>
    if st.onlyTop ∧ st.depth > 0 then .ok st else
    match st.stack with
    | [] => .panic "index out of range [-1]"
    | last :: _ =>
      let id := st.aspects.length
      .ok { st with aspects := st.aspects ++ [{ jp := jp, aspect := aspect, frm := frm, to := to, input := input, gas := gas, value := value.getD 0 }]
                    frames := st.frames.modify last (fun f => { f with jps := f.jps ++ [id], curJP := if jp = 0 then none else some jp }) }   -- `joinPoint = joinpoint`; the code tests `!= JoinPointRunType_Unknown` (0)
  | .aspectExit _ gasLeft ret err =>
    if st.onlyTop ∧ st.depth > 0 then .ok st else
    match st.stack with
    | [] => .panic "index out of range [-1]"
    | last :: _ =>
      let frames := st.frames.modify last (fun f => { f with curJP := none })
      match (st.frames[last]?).bind (fun f => f.jps.getLast?) with
      | none => .ok { st with frames := frames }
      | some a => .ok { st with frames := frames, aspects := st.aspects.modify a (fun x => processAspect { x with gasUsed := (x.gas + U64 - gasLeft % U64) % U64 } ret err) }

def run (st : TState) : List TEvent → Res TState
  | [] => .ok st
  | ev :: rest =>
    match step st ev with
    | .ok st' => run st' rest
    | .err e => .err e
    | .panic p => .panic p

end CallTracer
end Artela
