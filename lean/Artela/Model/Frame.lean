import Artela.Model.Base
import Artela.Model.CallTree
import Artela.Model.StateChanges
/-
  M5 — the frame layer: `EVM.Call`, `CallCode`, `DelegateCall`, `StaticCall`, `create` (vm/evm.go), transcribed
  statement by statement as a machine over the sequence of things that happen *around* the inherited interpreter:

    enter   the interpreter (or the host) invokes one of the five frame functions
    effect  the running frame performs a journaled world effect (SSTORE, LOG, TSTORE, SELFDESTRUCT …), opaque here
    jkey / jchange   the running frame executes a journal instruction (its tracer call)
    halt    `interpreter.Run` of the running frame returns `(ret, err)` with `contract.Gas` left

  Everything the environment answers while a frame function runs (StateDB queries, chain rules, what a precompile
  returns, what a join point returns) is carried by the event (`EnterFacts`, `halt`'s `post`), so the machine is a
  total pure function and the inherited instruction semantics is universally quantified: every theorem holds for
  every event sequence, i.e. for every program, calldata and pre-state.  The world is the StateDB's journal of
  effects: `Snapshot` is its length, `RevertToSnapshot` truncates it.
-/
namespace Artela

def errReverted : String := "execution reverted"
def errOutOfGas : String := "out of gas"
def errDepth : String := "max call depth exceeded"
def errBalance : String := "insufficient balance for transfer"
def errCollision : String := "contract address collision"
def errNonce : String := "nonce uint64 overflow"
def errCodeStoreOOG : String := "contract creation code storage out of gas"
def errMaxCode : String := "max code size exceeded"
def errInvalidCode : String := "invalid code: must not begin with 0xef"

inductive CallKind where
  | call | callcode | delegatecall | staticcall | create | create2
  deriving Repr, DecidableEq

def CallKind.isCreate : CallKind → Bool
  | .create | .create2 => true
  | _ => false

structure JPResult where
  ret : Option Bytes
  gas : Nat
  err : Option String
  deriving Repr, DecidableEq

/-- what the environment answers while a frame function runs its prologue -/
structure EnterFacts where
  canTransfer : Bool := true          -- Context.CanTransfer(db, caller, value)
  exists_ : Bool := true              -- StateDB.Exist(addr)
  precompile : Option (Option Bytes × Nat × Option String) := none  -- RunPrecompiledContract's answer if addr is a precompile
  codeEmpty : Bool := false           -- len(GetCode(addr)) == 0
  jpEnabled : Bool := false           -- evm.IsExecuteJP
  pre : JPResult := ⟨none, 0, none⟩   -- what the pre-contract-call join point returns (consulted only if it fires)
  nonceOverflow : Bool := false       -- create: nonce+1 < nonce
  collision : Bool := false           -- create: address already has nonce or code
  eip158 : Bool := true
  homestead : Bool := true
  berlin : Bool := true
  london : Bool := true
  debug : Bool := true                -- a debug tracer is attached
  balFrom : Nat := 0                  -- the four balances TransferWithRecord reads
  balTo : Nat := 0
  balFromAfter : Nat := 0
  balToAfter : Nat := 0
  deriving Repr, DecidableEq

inductive FEvent where
  | enter (kind : CallKind) (caller to : Addr) (value : Nat) (input : Bytes) (gas : Nat) (facts : EnterFacts)
  | effect (id : Nat)
  | jkey (parent : Option Word) (slot : Word) (off : Option Word) (ty pty : Word) (name : Bytes)
  | jchange (slot : Word) (off : Option Word) (ty : Word) (v : Bytes)
  | halt (ret : Option Bytes) (err : Option String) (gasLeft : Nat) (post : JPResult)
  deriving Repr

/-- journaled world effects: opaque ids for the program's own effects, tagged constructors for the frame layer's -/
inductive Effect where
  | prog (id : Nat)
  | createAccount (a : Addr)
  | transfer (frm to : Addr) (v : Nat)
  | touch (a : Addr)
  | nonceBump (a : Addr)
  | accessList (a : Addr)
  | setNonce1 (a : Addr)
  | setCode (a : Addr) (code : Bytes)
  deriving Repr, DecidableEq

inductive DebugEvent where
  | start (frm to : Addr) (create : Bool) (input : Bytes) (gas value : Nat)
  | end_ (ret : Option Bytes) (gasUsed : Nat) (err : Option String)
  | enter (kind : CallKind) (frm to : Addr) (input : Bytes) (gas : Nat) (value : Option Nat)
  | exit (ret : Option Bytes) (gasUsed : Nat) (err : Option String)
  deriving Repr, DecidableEq

inductive JPRecord where
  | pre (caller to : Addr) (input : Bytes) (value gas index : Nat)
  | post (caller to : Addr) (input : Bytes) (value gas index : Nat) (ret : Option Bytes) (errMsg : String)
  deriving Repr, DecidableEq

/-- what a finished invocation handed back to its caller, and what happened to the world meanwhile -/
structure FrameResult where
  kind : CallKind
  caller : Addr
  to : Addr
  ret : Option Bytes
  gas : Nat
  err : Option String
  gasSupplied : Nat
  worldAtEntry : List Effect     -- the world when the frame function was invoked
  worldAtSnapshot : List Effect  -- … when it took its snapshot (differs from entry only for creates)
  worldAfter : List Effect
  ranCode : Bool
  deriving Repr

structure OpenFrame where
  kind : CallKind
  caller : Addr
  to : Addr
  value : Nat
  input : Bytes
  gasSupplied : Nat
  storageAddr : Addr
  snapshot : Nat
  startGas : Nat            -- `gas` when the debug Enter/Start was emitted
  top : Bool                -- evm.depth == 0 when the frame function was invoked
  treeNode : Bool           -- Call / create pushed a call-tree node
  nodeIndex : Nat           -- its index
  jpFired : Bool            -- the pre join point ran (and succeeded): a post join point is owed
  interpGas : Nat           -- gas the interpreter run started with
  facts : EnterFacts
  worldAtEntry : List Effect
  worldAtSnapshot : List Effect
  deriving Repr

structure FState where
  stack : List OpenFrame := []
  world : List Effect := []
  tracer : Tracer := {}
  events : List DebugEvent := []
  jps : List JPRecord := []
  results : List FrameResult := []
  started : List (Addr × Nat) := []     -- (code address, gas) of every interpreter run started, in order
  deriving Repr

namespace Frame

def normaliseOOG (e : String) : String := if e = errOutOfGas then errOutOfGas else e

/-- the common tail of the four call functions: revert on error, forfeit gas unless it is a revert -/
def tailGas (gas : Nat) (err : Option String) : Nat :=
  match err with
  | none => gas
  | some e => if e = errReverted then gas else 0

def tailWorld (world : List Effect) (snapshot : Nat) (err : Option String) : List Effect :=
  match err with
  | none => world
  | some _ => world.take snapshot

/-- deferred / terminal debug callback of a frame -/
def closeDebug (debug top : Bool) (ret : Option Bytes) (gasUsed : Nat) (err : Option String) : List DebugEvent :=
  if debug then (if top then [.end_ ret gasUsed err] else [.exit ret gasUsed err]) else []

/-- `a - b` on `uint64` (the debug callbacks report `startGas-gas`; nothing in the frame functions keeps a join point from
    handing back more gas than the frame was given — C06's theorems carry that as a hypothesis on the Aspect runtime) -/
def subU64 (a b : Nat) : Nat := (a % U64 + U64 - b % U64) % U64

def openDebug (debug top : Bool) (kind : CallKind) (frm to : Addr) (input : Bytes) (gas : Nat) (value : Option Nat) : List DebugEvent :=
  if debug then (if top then [.start frm to kind.isCreate input gas (value.getD 0)] else [.enter kind frm to input gas value]) else []

/-- an invocation returns to its caller: deferred debug callback (if one is owed), `ExitCall` (if a node was
    pushed), result recorded -/
def finish (st : FState) (kind : CallKind) (caller to : Addr) (gasSupplied : Nat) (treeNode debugOwed top : Bool)
    (startGas : Nat) (ret : Option Bytes) (gas : Nat) (err : Option String) (world : List Effect)
    (entry snap : List Effect) (ran : Bool) : FState :=
  { st with
    world := world
    events := st.events ++ (if debugOwed then closeDebug true top ret (subU64 startGas gas) err else [])
    tracer := if treeNode then st.tracer.exitCall gas ret err else st.tracer
    results := st.results ++ [{ kind, caller, to, ret, gas, err, gasSupplied, worldAtEntry := entry, worldAtSnapshot := snap,
                                worldAfter := world, ranCode := ran }] }

/-- `EVM.Call` up to (and excluding) `interpreter.Run` -/
def enterCall (st : FState) (caller to : Addr) (value : Nat) (input : Bytes) (gas : Nat) (f : EnterFacts) : FState :=
  let top := st.stack.isEmpty
  let entry := st.world
  -- tracer.SaveCall; defer ExitCall
  let tr1 := st.tracer.saveCall caller (some to) input value gas
  let idx := tr1.tree.currentIndex
  let st1 : FState := { st with tracer := tr1 }
  if st.stack.length > 1024 then finish st1 .call caller to gas true false top gas none gas (some errDepth) entry entry entry false
  else if value ≠ 0 ∧ ¬ f.canTransfer then finish st1 .call caller to gas true false top gas none gas (some errBalance) entry entry entry false
  else
    let snapshot := entry.length
    if ¬ f.exists_ ∧ f.precompile.isNone ∧ f.eip158 ∧ value = 0 then
      -- calling a non-existing account: nothing happens, the debug tracer is pinged
      finish { st1 with events := st.events ++ openDebug f.debug top .call caller to input gas (some value) ++ closeDebug f.debug top none 0 none }
        .call caller to gas true false top gas none gas none entry entry entry false
    else
      -- CreateAccount if needed, then TransferWithRecord
      let world := entry ++ ((if ¬ f.exists_ then [Effect.createAccount to] else []) ++ [Effect.transfer caller to value])
      let tr2 := tr1.transferRecord caller to f.balFrom f.balTo f.balFromAfter f.balToAfter
      let ev := st.events ++ openDebug f.debug top .call caller to input gas (some value)
      let st2 : FState := { st with tracer := tr2, world := world, events := ev }
      match f.precompile with
      | some (r, g, e) =>
        finish st2 .call caller to gas true f.debug top gas r (tailGas g e) e (tailWorld world snapshot e) entry entry false
      | none =>
        if f.codeEmpty then finish st2 .call caller to gas true f.debug top gas none gas none world entry entry false
        else
          let fr : OpenFrame := { kind := .call, caller, to, value, input, gasSupplied := gas, storageAddr := to, snapshot,
                                  startGas := gas, top, treeNode := true, nodeIndex := idx, jpFired := false, interpGas := gas,
                                  facts := f, worldAtEntry := entry, worldAtSnapshot := entry }
          if f.jpEnabled then
            let st3 : FState := { st2 with jps := st.jps ++ [.pre caller to input value gas idx] }
            match f.pre.err with
            | some e =>
              -- the pre join point failed: no code, no post join point; the frame fails like any other
              finish st3 .call caller to gas true f.debug top gas f.pre.ret (tailGas f.pre.gas (some (normaliseOOG e))) (some (normaliseOOG e))
                (world.take snapshot) entry entry false
            | none =>
              { st3 with stack := { fr with jpFired := true, interpGas := f.pre.gas } :: st.stack
                         started := st.started ++ [(to, f.pre.gas)] }
          else { st2 with stack := fr :: st.stack, started := st.started ++ [(to, gas)] }

/-- `CallCode` / `DelegateCall` / `StaticCall` up to `interpreter.Run` -/
def enterOther (st : FState) (kind : CallKind) (caller to : Addr) (value : Nat) (input : Bytes) (gas : Nat) (f : EnterFacts) : FState :=
  let top := st.stack.isEmpty
  let entry := st.world
  if st.stack.length > 1024 then finish st kind caller to gas false false top gas none gas (some errDepth) entry entry entry false
  else if kind = .callcode ∧ ¬ f.canTransfer then finish st kind caller to gas false false top gas none gas (some errBalance) entry entry entry false
  else
    let snapshot := entry.length
    let world := entry ++ (if kind = .staticcall then [Effect.touch to] else [])
    -- the debug tracer is told about every such frame (Enter, never Start: these are only reached from an opcode)
    let dbgValue : Option Nat := match kind with | .staticcall => none | _ => some value
    let ev := st.events ++ (if f.debug then [DebugEvent.enter kind caller to input gas dbgValue] else [])
    let st2 : FState := { st with world := world, events := ev }
    match f.precompile with
    | some (r, g, e) =>
      finish st2 kind caller to gas false f.debug false gas r (tailGas g e) e (tailWorld world snapshot e) entry entry false
    | none =>
      if f.codeEmpty then
        -- `interpreter.Run` returns (nil, nil) at once for empty code: no step, all gas back
        finish st2 kind caller to gas false f.debug false gas none gas none world entry entry false
      else
      let sAddr := match kind with | .staticcall => to | _ => caller
      { st2 with stack := { kind, caller, to, value, input, gasSupplied := gas, storageAddr := sAddr, snapshot, startGas := gas,
                            top := false, treeNode := false, nodeIndex := 0, jpFired := false, interpGas := gas, facts := f,
                            worldAtEntry := entry, worldAtSnapshot := entry } :: st.stack
                 started := st.started ++ [(to, gas)] }

/-- `create` up to `interpreter.Run`; `to` is the new contract's address, `input` the init code -/
def enterCreate (st : FState) (kind : CallKind) (caller to : Addr) (value : Nat) (input : Bytes) (gas : Nat) (f : EnterFacts) : FState :=
  let top := st.stack.isEmpty
  let entry := st.world
  let tr1 := st.tracer.saveCall caller none input value gas
  let idx := tr1.tree.currentIndex
  let st1 : FState := { st with tracer := tr1 }
  if st.stack.length > 1024 then finish st1 kind caller to gas true false top gas none gas (some errDepth) entry entry entry false
  else if ¬ f.canTransfer then finish st1 kind caller to gas true false top gas none gas (some errBalance) entry entry entry false
  else if f.nonceOverflow then finish st1 kind caller to gas true false top gas none gas (some errNonce) entry entry entry false
  else
    -- nonce bump and access-list addition happen before the snapshot and are deliberately not rolled back
    let snapWorld := entry ++ ([Effect.nonceBump caller] ++ (if f.berlin then [Effect.accessList to] else []))
    if f.collision then finish st1 kind caller to gas true false top gas none 0 (some errCollision) snapWorld entry snapWorld false
    else
      let snapshot := snapWorld.length
      let world := snapWorld ++ ([Effect.createAccount to] ++ (if f.eip158 then [Effect.setNonce1 to] else []) ++ [Effect.transfer caller to value])
      let tr2 := tr1.transferRecord caller to f.balFrom f.balTo f.balFromAfter f.balToAfter
      let ev := st.events ++ openDebug f.debug top kind caller to input gas (some value)
      { st with tracer := tr2, world := world, events := ev
                stack := { kind, caller, to, value, input, gasSupplied := gas, storageAddr := to, snapshot, startGas := gas, top,
                           treeNode := true, nodeIndex := idx, jpFired := false, interpGas := gas, facts := f,
                           worldAtEntry := entry, worldAtSnapshot := snapWorld } :: st.stack
                started := st.started ++ (if input.isEmpty then [] else [(to, gas)]) }

/-- what the post-contract-call join point makes of the interpreter's result -/
def postJoinPoint (ret : Option Bytes) (err : Option String) (post : JPResult) : Option Bytes × Option String × Nat :=
  match post.err with
  | some e => if e = errOutOfGas then (ret, some errOutOfGas, post.gas) else (post.ret, some e, post.gas)
  | none => (ret, err, post.gas)

/-- the code-deposit part of `create`: final error, gas left, whether the code is stored -/
def createDeposit (f : EnterFacts) (ret : Option Bytes) (err : Option String) (gasLeft : Nat) : Option String × Nat × Bool :=
  let retLen := (ret.getD []).length
  let err1 : Option String := if err.isNone ∧ f.eip158 ∧ retLen > 24576 then some errMaxCode else err
  let err2 : Option String :=
    if err1.isNone ∧ retLen ≥ 1 ∧ (ret.getD []).head? = some 0xEF ∧ f.london then some errInvalidCode else err1
  if err2.isNone then
    if gasLeft ≥ retLen * 200 then (none, gasLeft - retLen * 200, true) else (some errCodeStoreOOG, gasLeft, false)
  else (err2, gasLeft, false)

/-- `interpreter.Run` of the innermost frame returned: the epilogue of its frame function -/
def haltFrame (st : FState) (fr : OpenFrame) (rest : List OpenFrame) (ret : Option Bytes) (err : Option String) (gasLeft : Nat)
    (post : JPResult) : FState :=
  match fr.kind with
  | .call =>
    if fr.jpFired then
      let r := postJoinPoint ret err post
      finish { st with stack := rest, jps := st.jps ++ [.post fr.caller fr.to fr.input fr.value gasLeft fr.nodeIndex ret (err.getD "")] }
        .call fr.caller fr.to fr.gasSupplied true fr.facts.debug fr.top fr.startGas r.1 (tailGas r.2.2 r.2.1) r.2.1
        (tailWorld st.world fr.snapshot r.2.1) fr.worldAtEntry fr.worldAtSnapshot true
    else
      finish { st with stack := rest } .call fr.caller fr.to fr.gasSupplied true fr.facts.debug fr.top fr.startGas ret (tailGas gasLeft err) err
        (tailWorld st.world fr.snapshot err) fr.worldAtEntry fr.worldAtSnapshot true
  | .callcode | .delegatecall | .staticcall =>
    finish { st with stack := rest } fr.kind fr.caller fr.to fr.gasSupplied false fr.facts.debug false fr.startGas ret (tailGas gasLeft err) err
      (tailWorld st.world fr.snapshot err) fr.worldAtEntry fr.worldAtSnapshot true
  | .create | .create2 =>
    let d := createDeposit fr.facts ret err gasLeft
    let world := if d.2.2 then st.world ++ [Effect.setCode fr.to (ret.getD [])] else st.world
    let revert := d.1.isSome ∧ (fr.facts.homestead ∨ d.1 ≠ some errCodeStoreOOG)
    let world' := if revert then world.take fr.snapshot else world
    let gas' := if revert ∧ d.1 ≠ some errReverted then 0 else d.2.1
    -- the debug callback of `create` is not deferred: it is emitted here, before ExitCall runs
    finish { st with stack := rest, events := st.events ++ closeDebug fr.facts.debug fr.top ret (subU64 fr.startGas gas') d.1 }
      fr.kind fr.caller fr.to fr.gasSupplied true false fr.top fr.startGas ret gas' d.1 world'
      fr.worldAtEntry fr.worldAtSnapshot true

def step (st : FState) : FEvent → FState
  | .enter kind caller to value input gas f =>
    match kind with
    | .call => enterCall st caller to value input gas f
    | .create | .create2 => enterCreate st kind caller to value input gas f
    | _ => enterOther st kind caller to value input gas f
  | .effect id =>
    match st.stack with
    | [] => st
    | _ :: _ => { st with world := st.world ++ [Effect.prog id] }
  | .jkey parent slot off ty pty name =>
    match st.stack with
    | [] => st
    | fr :: _ => { st with tracer := (st.tracer.saveStateKey fr.storageAddr parent slot off ty pty name).1 }
  | .jchange slot off ty v =>
    match st.stack with
    | [] => st
    | fr :: _ => { st with tracer := (st.tracer.saveStateChange fr.storageAddr slot off ty v).1 }
  | .halt ret err gasLeft post =>
    match st.stack with
    | [] => st
    | fr :: rest => haltFrame st fr rest ret err gasLeft post

def run (st : FState) (evs : List FEvent) : FState := evs.foldl step st

end Frame
end Artela
