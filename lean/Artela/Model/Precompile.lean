import Artela.Model.Base
import Artela.Model.Journal
/-
  M3 — the Artela precompiles 0x64 (`aspcontext`), 0x65 (`userOpSender`), 0x66 (`contextWriter`),
  `loadParamBytes` (vm/contracts.go:1081–1195) and `RunPrecompiledContract`.

  The host callbacks (`GetAspectContext`, `JITSenderAspectByContext`, `SetAspectContext`) are parameters: a run
  yields the host call it makes (with its arguments) and turns the host's answer into the precompile's result.
-/
namespace Artela

inductive HostCall where
  | get (aspect : Addr) (key : Bytes)                 -- types.GetAspectContext(ctx, address, key)
  | jit (hash : Bytes)                                -- JITSenderAspectByContext(ctx, userOpHash) (32 bytes)
  | set (frm : Addr) (key : Bytes) (value : Bytes)     -- types.SetAspectContext(ctx, c.ctx.from, key, value)
  deriving Repr, DecidableEq

/-- what a precompile run does: refuse with an error, or make exactly one host call -/
inductive PRun where
  | reject (e : String)
  | call (c : HostCall)
  | panic (p : String)
  deriving Repr, DecidableEq

/-- big-endian 64-bit-checked word at `[lo, lo+32)` (`SetBytes32(...).Uint64WithOverflow()`) -/
def wordAt (input : Bytes) (lo : Nat) : Nat := beNat (input.extract lo (lo + 32))

/-- vm/contracts.go `loadParamBytes` (as repaired: bounds compared against the remaining length).
    `cap` is the capacity of the input slice (adversarial, ≥ length). -/
def loadParamBytes (input : Bytes) (cap : Nat) (index : Nat) : Res Bytes :=
  let lo := index * 32
  let hi := lo + 32
  if input.length < hi then .err "invalid input data length"
  else
    let dataOffset := wordAt input lo
    if dataOffset ≥ U64 then .err "invalid offset"
    else
      let n := input.length
      if dataOffset > n ∨ n - dataOffset < 32 then .err "invalid param length"
      else
        let start := dataOffset + 32
        let dataLen := wordAt input dataOffset
        if dataLen ≥ U64 then .err "invalid length"
        else if dataLen > n - start then .err "invalid param length"
        else goSlice input cap start (start + dataLen)

/-- the code before the repair: `dataOffset + 32` and `start + dataLen` computed in uint64 (wrapping) first -/
def loadParamBytesWrapping (input : Bytes) (cap : Nat) (index : Nat) : Res Bytes :=
  let lo := index * 32
  let hi := lo + 32
  if input.length < hi then .err "invalid input data length"
  else
    let dataOffset := wordAt input lo
    if dataOffset ≥ U64 then .err "invalid offset"
    else
      let start := (dataOffset + 32) % U64
      if start > input.length then .err "invalid param length"
      else
        match goSlice input cap dataOffset start with
        | .panic p => .panic p
        | .err e => .err e
        | .ok lw =>
          let dataLen := beNat lw
          if dataLen ≥ U64 then .err "invalid length"
          else
            let end_ := (start + dataLen) % U64
            if end_ > input.length then .err "invalid param length"
            else goSlice input cap start end_

/-- 0x64 `aspcontext.Run` -/
def run64 (input : Bytes) : PRun :=
  if input.length < 20 then .reject "invalid input data length"
  else .call (.get (beNat (input.take 20)) (input.drop 20))

/-- 0x65 `userOpSender.Run` -/
def run65 (input : Bytes) : PRun :=
  if input.length ≠ 32 then .reject "invalid input data length"
  else .call (.jit input)

/-- 0x66 `contextWriter.Run`; `ctxFrom = none` is the shared instance without execution context
    (reached through CALLCODE / DELEGATECALL / STATICCALL) -/
def run66 (ctxFrom : Option Addr) (input : Bytes) (cap : Nat) : PRun :=
  match ctxFrom with
  | none => .reject "aspect context write without execution context"
  | some frm =>
    match loadParamBytes input cap 0 with
    | .panic p => .panic p
    | .err e => .reject e
    | .ok key =>
      match loadParamBytes input cap 1 with
      | .panic p => .panic p
      | .err e => .reject e
      | .ok value => .call (.set frm key value)

def precompileRun (addr : Nat) (ctxFrom : Option Addr) (input : Bytes) (cap : Nat) : PRun :=
  if addr = 0x64 then run64 input
  else if addr = 0x65 then run65 input
  else run66 ctxFrom input cap

/-- fixed fee of the three precompiles -/
def artelaPrecompileGas : Nat := 5000

/-- what the precompile returns given the host's answer to its call -/
def precompileFinish (c : HostCall) (hostRet : Except String Bytes) : Except String Bytes :=
  match c, hostRet with
  | _, .error e => .error e
  | .get _ _, .ok v => .ok v
  | .jit _, .ok a => .ok (List.replicate (32 - a.length) 0 ++ a)      -- `aspectId.Hash().Bytes()`, `a` = 20-byte address
  | .set _ _ _, .ok _ => .ok []

/-- `RunPrecompiledContract` for an Artela precompile: fee first, then the run -/
def runPrecompiled (addr : Nat) (ctxFrom : Option Addr) (input : Bytes) (cap : Nat) (gas : Nat)
    (host : HostCall → Except String Bytes) : Res (Bytes × Nat) × Option HostCall :=
  if gas < artelaPrecompileGas then (.err "out of gas", none)
  else
    match precompileRun addr ctxFrom input cap with
    | .panic p => (.panic p, none)
    | .reject e => (.err e, none)
    | .call c =>
      match precompileFinish c (host c) with
      | .error e => (.err e, some c)
      | .ok v => (.ok (v, gas - artelaPrecompileGas), some c)

end Artela
