import Artela.Model.Base
/-
  M1a — vm/tracer.go `CallTree` (lines 373–498).

  Go nodes are heap objects linked by pointers (`Parent *Call`, `Children []*Call`) plus a
  `lookup map[uint64]*Call`.  Because `lookup[count] = newCall` with `count` incremented on every
  `add`, the map is exactly an arena indexed by `Index`; the model is that arena.
-/
namespace Artela

structure CallNode where
  frm      : Addr
  to       : Option Addr           -- nil for creates
  data     : Bytes
  value    : Nat
  gas      : Nat
  index    : Nat
  parent   : Option Nat
  children : List Nat
  ret      : Option Bytes := none  -- nil vs empty kept apart
  remGas   : Nat := 0
  err      : Option String := none
  deriving Repr, DecidableEq

structure CallTree where
  nodes   : List CallNode := []    -- lookup: index ↦ node
  current : Option Nat := none
  root    : Option Nat := none
  count   : Nat := 0
  deriving Repr, DecidableEq

namespace CallTree

def empty : CallTree := {}

def mkNode (frm : Addr) (to : Option Addr) (data : Bytes) (value gas idx : Nat) (parent : Option Nat) : CallNode :=
  { frm, to, data, value, gas, index := idx, parent := parent, children := [] }

def pushChild (idx : Nat) (c : CallNode) : CallNode := { c with children := c.children ++ [idx] }

def setResult (l : Nat) (r : Option Bytes) (e : Option String) (n : CallNode) : CallNode :=
  { n with remGas := l, ret := r, err := e }

/-- tracer.go:426 `add` -/
def add (t : CallTree) (frm : Addr) (to : Option Addr) (data : Bytes) (value gas : Nat) : CallTree :=
  let idx := t.count
  let n : CallNode := mkNode frm to data value gas idx t.current
  let nodes := match t.current with
    | some p => t.nodes.modify p (pushChild idx)
    | none => t.nodes
  { nodes := nodes ++ [n]
    current := some idx
    root := match t.root with | none => some idx | some r => some r
    count := t.count + 1 }

/-- tracer.go:453 `exit` -/
def exit (t : CallTree) (leftover : Nat) (ret : Option Bytes) (err : Option String) : CallTree :=
  match t.current with
  | none => t
  | some c =>
    match t.nodes[c]? with
    | none => t      -- unreachable under WF (current always denotes an arena node)
    | some n =>
      { t with
        nodes := t.nodes.modify c (setResult leftover ret err)
        current := n.parent }

def findCall (t : CallTree) (i : Nat) : Option CallNode := t.nodes[i]?
def parentOf (t : CallTree) (i : Nat) : Option Nat := (t.nodes[i]?).bind (·.parent)
def childrenOf (t : CallTree) (i : Nat) : Option (List Nat) := (t.nodes[i]?).map (·.children)
/-- tracer.go:560 `CurrentCallIndex` -/
def currentIndex (t : CallTree) : Nat := t.current.getD 0

inductive Op where
  | add (frm : Addr) (to : Option Addr) (data : Bytes) (value gas : Nat)
  | exit (leftover : Nat) (ret : Option Bytes) (err : Option String)
  deriving Repr, DecidableEq

def step (t : CallTree) : Op → CallTree
  | .add f to d v g => t.add f to d v g
  | .exit l r e => t.exit l r e

def run (t : CallTree) (ops : List Op) : CallTree := ops.foldl step t

end CallTree
end Artela
