/-
  Common vocabulary of the artela-evm model (core Lean only, no Mathlib).

  Bytes are `List UInt8`.  256-bit words, addresses and hashes are `Nat` (the code keeps them
  below 2^256 / 2^160; where a bound matters it is an explicit hypothesis or an explicit `%`).
  Go `uint64` arithmetic that may wrap is written with explicit `% 2^64`.
  Go panics are a separate outcome (`Res.panic`) that no theorem assumes away.
-/
namespace Artela

abbrev Byte  := UInt8
abbrev Bytes := List UInt8
-- `Word` (256-bit value: uint256.Int / common.Hash as a number) and `Addr` (160-bit address) are *notations* for
-- `Nat`, so that elaborated terms mention `Nat` itself and `omega` sees them.
notation "Word" => Nat
notation "Addr" => Nat

def W256 : Nat := 2 ^ 256
def U64  : Nat := 2 ^ 64

/-- Outcome of a Go function that may return an error or panic. -/
inductive Res (α : Type) where
  | ok    : α → Res α
  | err   : String → Res α
  | panic : String → Res α
  deriving Repr, DecidableEq

namespace Res
def isPanic {α} : Res α → Bool
  | panic _ => true
  | _ => false
def isOk {α} : Res α → Bool
  | ok _ => true
  | _ => false
def bind {α β} (r : Res α) (f : α → Res β) : Res β :=
  match r with
  | ok a => f a
  | err e => err e
  | panic p => panic p
instance : Monad Res where
  pure := Res.ok
  bind := Res.bind
end Res

/-- big-endian bytes of `x`, exactly `n` bytes (the low `8n` bits). -/
def beBytes : Nat → Nat → Bytes
  | 0,     _ => []
  | n + 1, x => beBytes n (x / 256) ++ [UInt8.ofNat (x % 256)]

/-- big-endian value of a byte string. -/
def beNat : Bytes → Nat
  | [] => 0
  | b :: bs => b.toNat * 256 ^ bs.length + beNat bs

/-- `uint256.Int.Bytes()`: minimal big-endian form (no leading zero bytes; zero ↦ empty). -/
def dropLeadingZeros : Bytes → Bytes
  | [] => []
  | b :: bs => if b = 0 then dropLeadingZeros bs else b :: bs

def minimalBytes (x : Nat) : Bytes := dropLeadingZeros (beBytes 32 x)

/-- `common.Hash` / `Bytes32()` of a word. -/
def bytes32 (x : Nat) : Bytes := beBytes 32 (x % W256)

/-- `new(uint256.Int).SetBytes(b)`: big-endian value of the **last** 32 bytes. -/
def setBytes (b : Bytes) : Nat := beNat (b.drop (b.length - 32))

/-- lexicographic order on byte strings (Go `bytes.Compare ≤ 0`). -/
def bytesLE : Bytes → Bytes → Bool
  | [], _ => true
  | _ :: _, [] => false
  | a :: as, b :: bs => if a < b then true else if b < a then false else bytesLE as bs

/-- association-list map with first-insert-wins semantics helper -/
def alookup {κ ν} [DecidableEq κ] (k : κ) : List (κ × ν) → Option ν
  | [] => none
  | (k', v) :: rest => if k' = k then some v else alookup k rest

/-- set / overwrite a key, preserving position if present, appending otherwise -/
def aset {κ ν} [DecidableEq κ] (k : κ) (v : ν) : List (κ × ν) → List (κ × ν)
  | [] => [(k, v)]
  | (k', v') :: rest => if k' = k then (k, v) :: rest else (k', v') :: aset k v rest

end Artela
