import Artela.Model.CallTracer
import Artela.Proofs.RoseFlat
/-
  M4b — `flatFromNested` / `flatAspectNested` (tracers/native/call_flat.go): the flat call tracer's conversion of the
  nested result into a list of entries with trace addresses and sub-trace counts, transcribed index for index:

    * a frame's own entry, `Subtraces = len(Calls) + len(JoinPoints)`;
    * then the pre-call Aspect frames, the i-th element of `JoinPoints` at child address `i`;
    * then the calls, the i-th at `i + (number of pre-call Aspect frames)`;
    * then the post-call Aspect frames, the i-th element of `JoinPoints` at `i + len(Calls)`;
    * an Aspect frame's entry has `Subtraces = len(Calls)` and its i-th call sits at child address `i`.

  Recursion is by fuel (ids grow from parent to child, so `frames.length + aspects.length + 1` is enough); an id that
  does not denote a node, or exhausted fuel, yields a leaf entry so that positions are never lost.
-/
namespace Artela

inductive FLabel where
  | frame (id : Nat)
  | aspect (id : Nat)
  deriving DecidableEq, Repr

/-- `Type.IsPreCall()`: preTxExecute (2) or preContractCall (4) -/
def isPreJP (st : TState) (a : Nat) : Bool :=
  match st.aspects[a]? with
  | some x => x.jp == 2 || x.jp == 4
  | none => false

/-- `for i, x := range l` -/
def enumFrom {β : Type} : Nat → List β → List (Nat × β)
  | _, [] => []
  | off, x :: xs => (off, x) :: enumFrom (off + 1) xs

mutual
def goFlatFrame : Nat → TState → Nat → List Nat → List (FlatEntry FLabel)
  | 0, _, id, addr => [⟨.frame id, addr, 0⟩]
  | fuel + 1, st, id, addr =>
    match st.frames[id]? with
    | none => [⟨.frame id, addr, 0⟩]
    | some f =>
      ⟨.frame id, addr, f.calls.length + f.jps.length⟩ ::
        ((enumFrom 0 f.jps).flatMap (fun p => if isPreJP st p.2 then goFlatAspect fuel st p.2 (addr ++ [p.1]) else []) ++
         (enumFrom 0 f.calls).flatMap (fun p => goFlatFrame fuel st p.2 (addr ++ [p.1 + (f.jps.filter (isPreJP st)).length])) ++
         (enumFrom 0 f.jps).flatMap (fun p => if isPreJP st p.2 then [] else goFlatAspect fuel st p.2 (addr ++ [p.1 + f.calls.length])))
def goFlatAspect : Nat → TState → Nat → List Nat → List (FlatEntry FLabel)
  | 0, _, a, addr => [⟨.aspect a, addr, 0⟩]
  | fuel + 1, st, a, addr =>
    match st.aspects[a]? with
    | none => [⟨.aspect a, addr, 0⟩]
    | some x => ⟨.aspect a, addr, x.calls.length⟩ :: (enumFrom 0 x.calls).flatMap (fun p => goFlatFrame fuel st p.2 (addr ++ [p.1]))
end

/- the tree the nested result denotes, children in the order pre-Aspects, calls, post-Aspects -/
mutual
def roseFrame : Nat → TState → Nat → Rose FLabel
  | 0, _, id => .node (.frame id) []
  | fuel + 1, st, id =>
    match st.frames[id]? with
    | none => .node (.frame id) []
    | some f =>
      .node (.frame id) ((f.jps.filter (isPreJP st)).map (roseAspect fuel st) ++ f.calls.map (roseFrame fuel st) ++
                         (f.jps.filter (fun a => !isPreJP st a)).map (roseAspect fuel st))
def roseAspect : Nat → TState → Nat → Rose FLabel
  | 0, _, a => .node (.aspect a) []
  | fuel + 1, st, a =>
    match st.aspects[a]? with
    | none => .node (.aspect a) []
    | some x => .node (.aspect a) (x.calls.map (roseFrame fuel st))
end

/-- the precompile addresses active from Istanbul on, Artela's three included (`vm.ActivePrecompiles(rules)` for those
    rules; the flat tracer takes the list for the block's rules at `CaptureStart`, so it is a parameter below) -/
def isPrecompileAddr (a : Nat) : Bool := (1 ≤ a && a ≤ 9) || (0x64 ≤ a && a ≤ 0x66)

/-- `flatCallTracer.CaptureExit` (call_flat.go, as repaired) after the inner tracer's `CaptureExit` has run, without
    `includePrecompiles`: it looks at the frame now on top of the call stack (the parent of the frame that just returned — or, when
    the inner tracer returned early because only the root was open, the root itself); unless an Aspect is running on it or its `Calls`
    are empty, a last call of type CALL / STATICCALL to a precompile is removed again (Parity traces do not list them).
    `before` is the inner tracer's state before its own step (only its configuration is looked at). -/
def flatAfterInnerExit (before after : TState) (isPre : Nat → Bool := isPrecompileAddr) : Res TState :=
  if before.onlyTop then .ok after else
  match after.stack with
  | [] => .panic "index out of range [-1]"
  | p :: _ =>
    match after.frames[p]? with
    | none => .ok after
    | some pf =>
      if pf.curJP.isSome || pf.calls.isEmpty then .ok after else
      match pf.calls.getLast? with
      | none => .ok after
      | some last =>
        match after.frames[last]? with
        | none => .ok after
        | some lf =>
          if (lf.typ == "CALL" || lf.typ == "STATICCALL") && isPre (lf.to.getD 0) then
            .ok { after with frames := after.frames.modify p (fun f => { f with calls := f.calls.dropLast }) }
          else .ok after

/-- executable form of `PreFirst` (Props/C19Flat.lean): on every frame `JoinPoints` is its pre-call part followed by its post-call part -/
def preFirstB (st : TState) : Bool :=
  st.frames.all (fun f => f.jps == f.jps.filter (isPreJP st) ++ f.jps.filter (fun a => !isPreJP st a))

/-- the flat tracer's output for a finished transaction -/
def flatOutput (st : TState) : List (FlatEntry FLabel) :=
  goFlatFrame (st.frames.length + st.aspects.length + 1) st 0 []

end Artela
