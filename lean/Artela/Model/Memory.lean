import Artela.Model.Base
import Artela.Model.Journal
/-
  M6 — Cancun additions: `Memory.Copy` (vm/memory.go), `memoryMcopy` (vm/memory_table.go), `calcMemSize64`,
  `toWordSize` (vm/common.go), `memoryGasCost`, `memoryCopierGas(2)` (vm/gas_table.go), `opMcopy` (vm/eips.go) and the
  interpreter's handling of an entry with a memory-size function; TLOAD / TSTORE against an abstract transient store.
  All uint64 arithmetic is explicit (`% U64`), overflow flags are computed as the code computes them.
-/
namespace Artela

def maxU64 : Nat := U64 - 1

/-- vm/common.go `toWordSize` -/
def toWordSize (size : Nat) : Nat :=
  if size > maxU64 - 31 then maxU64 / 32 + 1 else (size + 31) / 32

/-- vm/common.go `calcMemSize64` ∘ `calcMemSize64WithUint`: `(size, overflow)` -/
def calcMemSize64 (off len : Word) : Nat × Bool :=
  if len ≥ U64 then (0, true)
  else if len = 0 then (0, false)
  else if off ≥ U64 then (0, true)
  else
    let val := (off + len) % U64
    (val, val < off)

/-- vm/memory_table.go `memoryMcopy`: stack[0] dst, stack[1] src, stack[2] length -/
def memoryMcopy (dst src len : Word) : Nat × Bool :=
  calcMemSize64 (if src > dst then src else dst) len

/-- the quadratic memory fee for `w` words -/
def memFee (w : Nat) : Nat := w * 3 + w * w / 512

/-- vm/gas_table.go `memoryGasCost`: `none` = ErrGasUintOverflow; returns the fee and the new `lastGasCost` -/
def memoryGasCost (memLen lastGasCost newMemSize : Nat) : Option (Nat × Nat) :=
  if newMemSize = 0 then some (0, lastGasCost)
  else if newMemSize > 0x1FFFFFFFE0 then none
  else
    let words := toWordSize newMemSize
    -- `fee := newTotalFee - mem.lastGasCost` is a uint64 subtraction (it cannot wrap while `lastGasCost` is the fee of the
    -- current size, which `Resize` and this function maintain together; the model does not assume that)
    if words * 32 > memLen then some ((memFee words % U64 + U64 - lastGasCost % U64) % U64, memFee words)
    else some (0, lastGasCost)

/-- `memoryCopierGas(2)` for MCOPY: expansion fee plus 3 per word copied, with the overflow checks -/
def gasMcopy (memLen lastGasCost memorySize : Nat) (len : Word) : Option (Nat × Nat) :=
  match memoryGasCost memLen lastGasCost memorySize with
  | none => none
  | some (g, last') =>
    if len ≥ U64 then none
    else
      let words := toWordSize len * 3
      if words ≥ U64 then none
      else if g + words ≥ U64 then none
      else some (g + words, last')

/-- vm/memory.go `Copy(dst, src, len uint64)`: `copy(m.store[dst:], m.store[src:src+len])` with Go's partial slice
    expressions (`src+len` is a uint64 sum) and memmove semantics -/
def memCopyGo (store : Bytes) (cap : Nat) (dst src len : Nat) : Res Bytes :=
  if len = 0 then .ok store
  else
    match goSlice store cap src ((src + len) % U64) with
    | .panic p => .panic p
    | .err e => .err e
    | .ok srcBytes =>
      if dst > store.length then .panic "slice bounds out of range"
      else
        let n := min (store.length - dst) srcBytes.length
        .ok (store.take dst ++ srcBytes.take n ++ store.drop (dst + n))

structure MemState where
  store       : Bytes
  lastGasCost : Nat
  deriving Repr, DecidableEq

/-- One interpreter step on MCOPY (interpreter.go loop body for an entry with `memorySize` and `dynamicGas`):
    size function, `SafeMul(toWordSize(size), 32)`, dynamic gas, `UseGas`, `Resize`, `execute`.
    Returns the new memory and the total cost (constant 3 + dynamic); `.err` is the out-of-gas class. -/
def mcopyStep (m : MemState) (gas : Nat) (dst src len : Word) : Res (MemState × Nat) :=
  let (memSize, overflow) := memoryMcopy dst src len
  if overflow then .err "gas uint64 overflow"
  else
    let words := toWordSize memSize
    if words * 32 ≥ U64 then .err "gas uint64 overflow"
    else
      let memorySize := words * 32
      if gas < 3 then .err "out of gas"
      else
        match gasMcopy m.store.length m.lastGasCost memorySize len with
        | none => .err "gas uint64 overflow"
        | some (dyn, last') =>
          if gas - 3 < dyn then .err "out of gas"
          else
            let store' := if memorySize > 0 ∧ m.store.length < memorySize
                          then m.store ++ List.replicate (memorySize - m.store.length) 0 else m.store
            match memCopyGo store' store'.length (dst % U64) (src % U64) (len % U64) with
            | .ok s => .ok ({ store := s, lastGasCost := last' }, 3 + dyn)
            | .err e => .err e
            | .panic p => .panic p

/-! ### transient storage (EIP-1153) over an abstract store -/

abbrev Transient := List ((Addr × Word) × Word)

def tload (t : Transient) (addr : Addr) (key : Word) : Word := (alookup (addr, key) t).getD 0
def tstore (t : Transient) (readOnly : Bool) (addr : Addr) (key val : Word) : Except String Transient :=
  if readOnly then .error "write protection" else .ok (aset (addr, key) val t)

/-- a small frame language exercising transient storage with calls of every kind and reverts -/
inductive TKind where
  | call | delegate | callcode | static
  deriving Repr, DecidableEq

inductive TOp where
  | tstore (k v : Word)
  | tload (k : Word)
  | sub (kind : TKind) (target : Addr) (body : List TOp) (reverts : Bool)

/-- observable: values loaded and success flags of sub-calls, in execution order -/
inductive TObs where
  | loaded (v : Word)
  | flag (ok : Bool)
  deriving Repr, DecidableEq

/-- run the ops of one frame; the Boolean is `false` on an exceptional halt of this frame (static-context write);
    observations are steps the debug tracer sees, so they survive a revert -/
def runTOps (fuel : Nat) (storageAddr : Addr) (readOnly : Bool) : List TOp → Transient → List TObs → Bool × Transient × List TObs
  | [], t, obs => (true, t, obs)
  | op :: rest, t, obs =>
    match fuel with
    | 0 => (false, t, obs)
    | fuel + 1 =>
      match op with
      | .tstore k v =>
        match tstore t readOnly storageAddr k v with
        | .error _ => (false, t, obs)
        | .ok t' => runTOps fuel storageAddr readOnly rest t' obs
      | .tload k => runTOps fuel storageAddr readOnly rest t (obs ++ [.loaded (tload t storageAddr k)])
      | .sub kind target body reverts =>
        let sAddr := match kind with | .call | .static => target | .delegate | .callcode => storageAddr
        let ro := readOnly || (kind == .static)
        match runTOps fuel sAddr ro body t obs with
        | (false, _, obs') => runTOps fuel storageAddr readOnly rest t (obs' ++ [.flag false])   -- exceptional halt: state restored
        | (true, t', obs') =>
          if reverts then runTOps fuel storageAddr readOnly rest t (obs' ++ [.flag false])       -- REVERT: state restored
          else runTOps fuel storageAddr readOnly rest t' (obs' ++ [.flag true])

end Artela
