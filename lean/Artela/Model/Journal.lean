import Artela.Model.Base
import Artela.Model.StateChanges
/-
  M2 — the eight journal instructions 0xe0–0xe7 (vm/instructions.go:926–1131) and `loadDataFromMem`.

  Go's partial operations are partial here too: slicing (`goSlice`), `Memory.GetCopy`
  (`make` + slice), so "never panics" is a theorem about the guards, not an assumption.
  A work counter records storage reads, bytes copied and bytes allocated (C20).
-/
namespace Artela

structure Work where
  reads  : Nat := 0     -- StateDB.GetState calls
  copied : Nat := 0     -- bytes copied
  alloc  : Nat := 0     -- bytes allocated
  deriving Repr, DecidableEq

def Work.add (a b : Work) : Work := ⟨a.reads + b.reads, a.copied + b.copied, a.alloc + b.alloc⟩

/-- Go `s[lo:hi]` for a slice with `len = s.length` and capacity `cap`.  Bytes between `len` and `cap`
    exist in the backing array (stale content, modelled as zeros; no proved-safe path reads them). -/
def goSlice (s : Bytes) (cap lo hi : Nat) : Res Bytes :=
  if lo ≤ hi ∧ hi ≤ cap then .ok ((s ++ List.replicate (cap - s.length) 0).extract lo hi)
  else .panic "slice bounds out of range"

/-- two's-complement reading of a `uint64` as `int64` -/
def toInt64 (x : Nat) : Int := if x % U64 < 2 ^ 63 then (x % U64 : Nat) else ((x % U64 : Nat) : Int) - (U64 : Int)

/-- `int64` addition with wrap-around -/
def addInt64 (a b : Int) : Int := toInt64 ((a + b) % (U64 : Int)).toNat

/-- largest `make([]byte, n)` the Go runtime accepts on a 64-bit platform (2^47 is already refused) -/
def maxAlloc : Nat := 2 ^ 47

/-- vm/memory.go `GetCopy(offset, size int64)`; `none` is a nil slice -/
def memGetCopy (mem : Bytes) (cap : Nat) (offset size : Int) : Res (Option Bytes) × Work :=
  if size = 0 then (.ok none, {})
  else if (mem.length : Int) > offset then
    if size < 0 ∨ size > (maxAlloc : Int) then (.panic "makeslice: len out of range", {})
    else if offset < 0 then (.panic "slice bounds out of range", {})
    else
      let hi := addInt64 offset size
      if hi < 0 then (.panic "slice bounds out of range", {})
      else match goSlice mem cap offset.toNat hi.toNat with
        | .ok b => (.ok (some b), { copied := size.toNat, alloc := size.toNat })
        | .err e => (.err e, {})
        | .panic p => (.panic p, {})
  else (.ok none, {})

/-- `Uint64WithOverflow` -/
def u64WithOverflow (x : Word) : Nat × Bool := (x % U64, x ≥ U64)

/-- vm/instructions.go `loadDataFromMem` (as repaired): returns the bytes (nil ↦ `[]`) -/
def loadDataFromMem (ptr : Word) (mem : Bytes) (cap : Nat) : Res Bytes × Work :=
  let memLen := mem.length
  let offset := ptr % U64                 -- `Uint64WithOverflow`: low 64 bits, overflow iff ptr ≥ 2^64
  if ptr ≥ U64 ∨ offset > memLen ∨ memLen - offset < 32 then (.err "mem data out of range", {})
  else
    match memGetCopy mem cap (toInt64 offset) 32 with
    | (.panic p, w) => (.panic p, w)
    | (.err e, w) => (.err e, w)
    | (.ok lenBytes, w1) =>
      let lenWord := setBytes (lenBytes.getD [])
      let dataLen := lenWord % U64
      if lenWord ≥ U64 ∨ dataLen > memLen - offset - 32 then (.err "mem data too long", w1)
      else
        match memGetCopy mem cap (toInt64 ((offset + 32) % U64)) (toInt64 dataLen) with
        | (.panic p, w) => (.panic p, w1.add w)
        | (.err e, w) => (.err e, w1.add w)
        | (.ok d, w2) => (.ok (d.getD []), w1.add w2)

/-- vm/instructions.go:928 `extractStorageLen` -/
def extractStorageLen (w : Word) : Except String Nat :=
  let oop := w % 2
  let length := if oop = 0 then (w / 2) % 128 else w / 2
  let isLess := if length < 32 then 1 else 0
  if oop = isLess then .error "storage encoding error"
  else if length ≥ U64 ∨ length > U64 - 32 then .error "storage too large to load"   -- `!IsUint64() || > MaxUint64-31`
  else .ok length

/-- number of 32-byte data slots read for a long string: `u64Ceiling(length, 32) = (length + 31) / 32` in uint64
    arithmetic — the sum wraps for a length above 2^64 - 32, which is why `extractStorageLen` refuses those (repair D21) -/
def slotCount (length : Nat) : Nat := ((length + 31) % U64) / 32

/-- the data area of a long string: `n` consecutive slots from `k` (slot arithmetic wraps mod 2^256) -/
def readSlots (st : Word → Word) (k : Word) : Nat → Bytes
  | 0 => []
  | n + 1 => readSlots st k n ++ bytes32 (st ((k + n) % W256))

inductive JOp where
  | rsv | vsv | irvv | irvr | ivvv | ivvr | vv | vr
  deriving Repr, DecidableEq

def JOp.arity : JOp → Nat
  | .rsv => 3 | .vsv => 4 | .irvv => 6 | .irvr => 5 | .ivvv => 6 | .ivvr => 5 | .vv => 4 | .vr => 2

def JOp.code : JOp → Nat
  | .rsv => 0xe0 | .vsv => 0xe1 | .irvv => 0xe2 | .irvr => 0xe3 | .ivvv => 0xe4 | .ivvr => 0xe5 | .vv => 0xe6 | .vr => 0xe7

/-- the flat fee of `makeGasJournal` (params.SloadGasEIP2200) -/
def journalFee : Nat := 800

structure JEnv where
  contract : Addr
  mem      : Bytes
  memCap   : Nat                 -- adversarial, ≥ mem.length
  storage  : Word → Word         -- StateDB.GetState(contract, ·)
  keccak   : Bytes → Word
  appendCap : Nat → Nat := id    -- capacity Go's `append` happened to give a slice of that length (≥ length)

def liftKey (r : Tracer × Option String) : Res Tracer :=
  match r.2 with
  | none => .ok r.1
  | some e => .err e

/-- the shape shared by the four key-journal opcodes that read a name / index key from memory -/
def keyFromMem (ptr : Word) (env : JEnv) (f : Bytes → Tracer × Option String) : Res Tracer × Work :=
  match loadDataFromMem ptr env.mem env.memCap with
  | (.ok name, w) => (liftKey (f name), w)
  | (.err e, w) => (.err e, w)
  | (.panic p, w) => (.panic p, w)

/-- one journal instruction; `args` are the popped operands, first popped first -/
def Journal.exec (op : JOp) (args : List Word) (env : JEnv) (tr : Tracer) : Res Tracer × Work :=
  match op, args with
  | .vv, [slot, offset, typeSize, typeId] =>
    let offU := offset % U64
    if offset ≥ U64 ∨ offU > 31 then (.err "offset out of range", {})
    else
      let szU := typeSize % U64
      if typeSize ≥ U64 ∨ szU > 32 - offU then (.err "type size out of range", {})
      else
        let w := env.storage slot
        match goSlice (bytes32 w) 32 ((32 - offU - szU) % U64) ((32 - offU) % U64) with
        | .ok v => (liftKey (tr.saveStateChange env.contract slot (some offset) typeId v), { reads := 1 })
        | .err e => (.err e, { reads := 1 })
        | .panic p => (.panic p, { reads := 1 })
  | .vr, [slot, typeId] =>
    let raw := env.storage slot
    match extractStorageLen raw with
    | .error e => (.err e, { reads := 1 })
    | .ok length =>
      if length < 32 then
        match goSlice (bytes32 (raw - raw % 256)) 32 0 length with
        | .ok v => (liftKey (tr.saveStateChange env.contract slot none typeId v), { reads := 1 })
        | .err e => (.err e, { reads := 1 })
        | .panic p => (.panic p, { reads := 1 })
      else
        let k := env.keccak (bytes32 slot)
        let n := slotCount length
        let data := readSlots env.storage k n
        match goSlice data (env.appendCap data.length) 0 length with
        | .ok v => (liftKey (tr.saveStateChange env.contract slot none typeId v),
                    { reads := 1 + n, copied := 32 * n, alloc := 32 * n })
        | .err e => (.err e, { reads := 1 + n, copied := 32 * n, alloc := 32 * n })
        | .panic p => (.panic p, { reads := 1 + n, copied := 32 * n, alloc := 32 * n })
  | .rsv, [ptr, slot, typeId] =>
    keyFromMem ptr env (fun name => tr.saveStateKey env.contract none slot none typeId 0 name)
  | .vsv, [ptr, slot, offset, typeId] =>
    keyFromMem ptr env (fun name => tr.saveStateKey env.contract none slot (some offset) typeId 0 name)
  | .irvv, [base, slot, keyPtr, offset, typeId, parentTypeId] =>
    keyFromMem keyPtr env (fun ix => tr.saveStateKey env.contract (some base) slot (some offset) typeId parentTypeId ix)
  | .irvr, [base, slot, keyPtr, typeId, parentTypeId] =>
    keyFromMem keyPtr env (fun ix => tr.saveStateKey env.contract (some base) slot none typeId parentTypeId ix)
  | .ivvv, [base, slot, keyValue, offset, typeId, parentTypeId] =>
    (liftKey (tr.saveStateKey env.contract (some base) slot (some offset) typeId parentTypeId (bytes32 keyValue)), {})
  | .ivvr, [base, slot, keyValue, typeId, parentTypeId] =>
    (liftKey (tr.saveStateKey env.contract (some base) slot none typeId parentTypeId (bytes32 keyValue)), {})
  | _, _ => (.panic "stack underflow (excluded by the jump table's minStack)", {})

end Artela

namespace Artela

/-- the part of the interpreter's machine state a contract can observe, plus the Artela tracer -/
structure JMachine (World : Type) where
  stack    : List Word          -- top first
  mem      : Bytes
  pc       : Nat
  gas      : Nat
  rdata    : Bytes              -- return-data buffer
  readOnly : Bool
  world    : World              -- balances, storage, logs, … (opaque)
  tr       : Tracer

/-- One interpreter step executing journal instruction `op` (interpreter.go `Run` loop body for these table
    entries: stack check from `minStack`, dynamic gas `makeGasJournal`, no memory-size function, `execute`,
    `pc++`).  `mkEnv` builds the read-only view the opcode takes of the world (storage of the executing contract). -/
def Journal.step {World : Type} (op : JOp) (mkEnv : World → Bytes → JEnv) (m : JMachine World) : Res (JMachine World) :=
  if m.stack.length < op.arity then .err "stack underflow"
  else if m.gas < journalFee then .err "out of gas"
  else
    match (Journal.exec op (m.stack.take op.arity) (mkEnv m.world m.mem) m.tr).1 with
    | .ok tr' => .ok { m with stack := m.stack.drop op.arity, pc := m.pc + 1, gas := m.gas - journalFee, tr := tr' }
    | .err e => .err e
    | .panic p => .panic p

end Artela
