import Artela.Model.Base
import Artela.Model.CallTree
/-
  M1b — vm/tracer.go `StorageChanges`, `StorageKey`, `StateChanges`, `Tracer` (lines 11–371, 500–566).

  Go `StorageKey`s are heap objects shared between the per-account key tree (`children`,
  `childrenIndex`) and the flat index (`StateChanges.index`).  The model keeps them in an arena
  (`keys`, ids = positions); every Go map is an association list in insertion order (Go maps
  never delete here), so "first registration wins" is `alookup` + append-if-absent.
-/
namespace Artela

inductive NodeType where
  | root | branch | data
  deriving Repr, DecidableEq

/-- `StorageChanges.changes : map[uint64][][]byte` -/
abbrev ChangeMap := List (Nat × List Bytes)

/-- tracer.go:30 `StorageChanges.append` -/
def ChangeMap.append (m : ChangeMap) (callIdx : Nat) (v : Bytes) : ChangeMap :=
  match alookup callIdx m with
  | none => aset callIdx [v] m
  | some l =>
    if l.getLast? = some v then m else aset callIdx (l ++ [v]) m

structure KeyNode where
  slot          : Option Word := none          -- nil for the root key
  offset        : Nat := 0
  children      : List ((Word × Nat) × Nat) := []   -- map[slot]map[offset]*StorageKey
  childrenIndex : List (Bytes × Nat) := []          -- map[string]*StorageKey
  changes       : Option ChangeMap := none
  data          : Bytes := []
  typeId        : Word := 0
  nodeType      : NodeType := .branch
  deriving Repr, DecidableEq

/-- tracer.go:149 `StorageKey.JournalChanges` -/
def KeyNode.journal (k : KeyNode) (callIdx : Nat) (v : Bytes) : KeyNode :=
  match k.changes with
  | none =>
    { k with nodeType := if k.nodeType = .root then .root else .data
             changes := some (ChangeMap.append [] callIdx v) }
  | some m => { k with changes := some (m.append callIdx v) }

structure StateChanges where
  keys  : List KeyNode := []                                  -- arena
  roots : List (Addr × Nat) := []                             -- map[Address]*StorageKey
  index : List ((Addr × Word × Nat × Word) × Nat) := []       -- account→slot→offset→typeId→key
  raw   : List ((Addr × Word × Nat) × Word) := []
  deriving Repr, DecidableEq

namespace StateChanges

def empty : StateChanges := {}

/-- get-or-create the root key of an account; returns the new state and the root id -/
def ensureRoot (s : StateChanges) (account : Addr) : StateChanges × Nat :=
  match alookup account s.roots with
  | some r => (s, r)
  | none =>
    let id := s.keys.length
    ({ s with keys := s.keys ++ [{ nodeType := .root }], roots := s.roots ++ [(account, id)] }, id)

/-- tracer.go:278 `findKey` -/
def findKey (s : StateChanges) (account : Addr) (slot : Word) (offset : Nat) (typeId : Word) : Option Nat :=
  alookup (account, slot, offset, typeId) s.index

/-- tracer.go:261 `addKey` (first registration wins) -/
def addKey (s : StateChanges) (account : Addr) (slot : Word) (offset : Nat) (typeId : Word) (id : Nat) : StateChanges :=
  match alookup (account, slot, offset, typeId) s.index with
  | some _ => s
  | none => { s with index := s.index ++ [((account, slot, offset, typeId), id)] }

/-- tracer.go:180 `saveBalance` -/
def saveBalance (s : StateChanges) (account : Addr) (bal : Nat) (callIdx : Nat) : StateChanges :=
  let (s1, r) := s.ensureRoot account
  { s1 with keys := s1.keys.modify r (fun k => k.journal callIdx (minimalBytes bal)) }

/-- tracer.go:190 `saveRawStateChange` -/
def saveRaw (s : StateChanges) (account : Addr) (slot : Word) (callIdx : Nat) (v : Word) : StateChanges :=
  { s with raw := aset (account, slot, callIdx) v s.raw }

/-- the offset validation shared by saveKey / saveChange / Slot (tracer.go:202–209) -/
def checkOffset (offset : Option Word) : Option Nat :=
  match offset with
  | none => some 0
  | some o => if o > 31 then none else some o

/-- tracer.go:124 `AddChild` applied to parent `p` with a freshly allocated child `cid`.
    Returns the new arena and the id of the key that `AddChild` returns. -/
def addChild (keys : List KeyNode) (p cid : Nat) (slot : Word) (offset : Nat) (name : Bytes) : List KeyNode × Nat :=
  match keys[p]? with
  | none => (keys, cid)            -- unreachable: p is always an arena id
  | some pk =>
    let ci := match alookup name pk.childrenIndex with
      | some _ => pk.childrenIndex
      | none => pk.childrenIndex ++ [(name, cid)]
    match alookup (slot, offset) pk.children with
    | some ex => (keys.modify p (fun k => { k with childrenIndex := ci }), ex)
    | none =>
      (keys.modify p (fun k => { k with childrenIndex := ci, children := k.children ++ [((slot, offset), cid)] }), cid)

/-- tracer.go:201 `saveKey`.  `parent = none` registers a top-level state variable. -/
def saveKey (s : StateChanges) (account : Addr) (parent : Option Word) (self : Word) (offset : Option Word)
    (typeId parentTypeId : Word) (name : Bytes) : StateChanges × Option String :=
  match checkOffset offset with
  | none => (s, some "offset overflow")
  | some off =>
    let parentId : Option (StateChanges × Nat) :=
      match parent with
      | none => some (s.ensureRoot account)
      | some p => (s.findKey account p 0 parentTypeId).map (fun id => (s, id))
    match parentId with
    | none => (s, some "parent key not found")
    | some (s1, pid) =>
      -- NewBranchKey allocates a node whether or not it ends up reachable
      let cid := s1.keys.length
      let child : KeyNode := { slot := some self, offset := off, data := name, typeId := typeId, nodeType := .branch }
      let (keys2, rid) := addChild (s1.keys ++ [child]) pid cid self off name
      let s2 := { s1 with keys := keys2 }
      -- addKey(account, child.Slot(), child.Offset(), child) with child := the returned key
      match keys2[rid]? with
      | none => (s2, none)       -- unreachable
      | some rk => (s2.addKey account (rk.slot.getD 0) rk.offset rk.typeId rid, none)

/-- tracer.go:237 `saveChange` -/
def saveChange (s : StateChanges) (account : Addr) (self : Word) (offset : Option Word) (typeId : Word)
    (callIdx : Nat) (v : Bytes) : StateChanges × Option String :=
  match checkOffset offset with
  | none => (s, some "offset overflow")
  | some off =>
    match alookup account s.roots with
    | none => (s, some "unknown account")
    | some _ =>
      match s.findKey account self off typeId with
      | none => (s, some "storage key node not found")
      | some id => ({ s with keys := s.keys.modify id (fun k => k.journal callIdx v) }, none)

/-- tracer.go:302 `FindKeyIndices` -/
def findKeyIndices (s : StateChanges) (account : Addr) (name : Bytes) (indices : List Bytes) : Option Nat :=
  match alookup account s.roots with
  | none => none
  | some r =>
    let step (cur : Option Nat) (ix : Bytes) : Option Nat :=
      cur.bind (fun c => (s.keys[c]?).bind (fun k => alookup ix k.childrenIndex))
    (name :: indices).foldl step (some r)

/-- tracer.go:324 `Variable`; outer `none` = nil key, inner = the key's (possibly nil) change set -/
def variableQ (s : StateChanges) (account : Addr) (name : Bytes) (indices : List Bytes) : Option (Option ChangeMap) :=
  (s.findKeyIndices account name indices).bind (fun id => (s.keys[id]?).map (·.changes))

/-- tracer.go:334 `Slot` (slot non-nil) -/
def slotQ (s : StateChanges) (account : Addr) (slot : Word) (offset : Option Word) (typeId : Word) :
    Except String (Option (Option ChangeMap)) :=
  match checkOffset offset with
  | none => .error "offset overflow"
  | some off => .ok ((s.findKey account slot off typeId).bind (fun id => (s.keys[id]?).map (·.changes)))

/-- tracer.go:293 `Balance` -/
def balance (s : StateChanges) (account : Addr) : Option (Option ChangeMap) :=
  (alookup account s.roots).bind (fun r => (s.keys[r]?).map (·.changes))

/-- insertion sort of byte strings (Go `sort.Slice` with `bytes.Compare`; keys are distinct) -/
def sortBytes (l : List Bytes) : List Bytes := l.mergeSort (fun a b => bytesLE a b)

/-- tracer.go:98 / 357 `ChildrenIndices` / `IndicesOfChanges`.  The Go code ranges over a map:
    `π` is the (adversarial) iteration order, a permutation of the registered names. -/
def childrenIndicesRaw (k : KeyNode) : List Bytes := k.childrenIndex.map (·.1)

def indicesOfChanges (s : StateChanges) (account : Addr) (name : Bytes) (indices : List Bytes) : Option (List Bytes) :=
  (s.findKeyIndices account name indices).bind (fun id => (s.keys[id]?).map (fun k => sortBytes (childrenIndicesRaw k)))

end StateChanges

/-- vm/tracer.go `Tracer` -/
structure Tracer where
  states : StateChanges := {}
  tree   : CallTree := {}
  deriving Repr, DecidableEq

namespace Tracer
def empty : Tracer := {}
def saveCall (t : Tracer) (frm : Addr) (to : Option Addr) (data : Bytes) (value gas : Nat) : Tracer :=
  { t with tree := t.tree.add frm to data value gas }
def exitCall (t : Tracer) (leftover : Nat) (ret : Option Bytes) (err : Option String) : Tracer :=
  { t with tree := t.tree.exit leftover ret err }
def saveStateKey (t : Tracer) (account : Addr) (parent : Option Word) (self : Word) (offset : Option Word)
    (typeId parentTypeId : Word) (name : Bytes) : Tracer × Option String :=
  let (s, e) := t.states.saveKey account parent self offset typeId parentTypeId name
  ({ t with states := s }, e)
def saveStateChange (t : Tracer) (account : Addr) (slot : Word) (offset : Option Word) (typeId : Word) (v : Bytes) :
    Tracer × Option String :=
  let (s, e) := t.states.saveChange account slot offset typeId t.tree.currentIndex v
  ({ t with states := s }, e)
def saveRaw (t : Tracer) (account : Addr) (slot : Word) (v : Word) : Tracer :=
  { t with states := t.states.saveRaw account slot t.tree.currentIndex v }
/-- tracer.go:550 `TransferWithRecord`, given the four balances it reads -/
def transferRecord (t : Tracer) (frm to : Addr) (bf bt af at_ : Nat) : Tracer :=
  let i := t.tree.currentIndex
  { t with states := (((t.states.saveBalance frm bf i).saveBalance to bt i).saveBalance frm af i).saveBalance to at_ i }
end Tracer

end Artela
