import Artela.Model.Base
import Artela.Model.Journal
import Artela.Model.Memory
/-
  M9 — the interpreter loop (vm/interpreter.go `EVMInterpreter.Run`) and the frame-local instructions it
  dispatches to (vm/instructions.go, vm/gas_table.go, vm/memory_table.go, vm/memory.go, vm/common.go,
  vm/analysis.go, vm/contract.go `validJumpdest`).

  The loop body is transcribed statement by statement: table lookup, stack bounds from the table row, constant
  gas, memory-size function (only when the row has a dynamic-gas function), `SafeMul(toWordSize(size), 32)`,
  dynamic gas, `Resize`, `execute`, `pc++`.  *Which* function a row dispatches to is read from the row (the
  function names extracted from the running code's tables), so a table that wires an opcode differently behaves
  differently in the model as well.

  Instructions that touch the world (SLOAD/SSTORE, BALANCE, EXT*, LOG, CALL*, CREATE*, SELFDESTRUCT,
  BLOCKHASH, SELFBALANCE) are outside this layer: a run that reaches one ends with
  `Halt.unmodelled`, and the frame machine (M5) models what happens around nested frames.
  The journal instructions 0xe0–0xe7 dispatch to `Journal.exec` (M2).

  Go's partial operations are partial: `Stack.pop/peek/Back/dup/swap` on a short stack, `Memory.Set/Set32`
  beyond the store, slice expressions.  That they are never reached is a theorem (Props/Interp.lean), not an
  assumption.  uint64 arithmetic is explicit.
-/
namespace Artela
namespace Interp

/-! ### 256-bit word operations (holiman/uint256 as used by instructions.go) -/

def half : Nat := 2 ^ 255

def wneg (x : Word) : Word := (W256 - x) % W256
def wabs (x : Word) : Word := if x < half then x else W256 - x

def wadd (a b : Word) : Word := (a + b) % W256
def wmul (a b : Word) : Word := (a * b) % W256
def wsub (a b : Word) : Word := (a + (W256 - b % W256)) % W256
def wdiv (a b : Word) : Word := if b = 0 then 0 else a / b
def wmod (a b : Word) : Word := if b = 0 then 0 else a % b
def wsdiv (a b : Word) : Word :=
  if b = 0 then 0
  else
    let q := wabs a / wabs b
    if (decide (a < half)) = (decide (b < half)) then q % W256 else wneg q
def wsmod (a b : Word) : Word :=
  if b = 0 then 0
  else
    let r := wabs a % wabs b
    if a < half then r else wneg r
def waddmod (a b m : Word) : Word := if m = 0 then 0 else (a + b) % m
def wmulmod (a b m : Word) : Word := if m = 0 then 0 else (a * b) % m

/-- square-and-multiply modulo 2^256 (`uint256.Exp`) -/
def powAux : Nat → Word → Word → Word → Word
  | 0, _, _, acc => acc
  | f + 1, b, e, acc =>
    if e = 0 then acc
    else powAux f (b * b % W256) (e / 2) (if e % 2 = 1 then acc * b % W256 else acc)
def wexp (a b : Word) : Word := powAux 256 a b 1

/-- `ExtendSign(num, back)` -/
def wsignext (back num : Word) : Word :=
  if back > 30 then num
  else
    let bit := 8 * back + 7
    let low := num % 2 ^ (bit + 1)
    if low ≥ 2 ^ bit then low + (W256 - 2 ^ (bit + 1)) else low

def b2w (b : Bool) : Word := if b then 1 else 0
def wslt (a b : Word) : Bool := (a + half) % W256 < (b + half) % W256
def wnot (a : Word) : Word := W256 - 1 - a % W256
def wbyte (th val : Word) : Word := if th < 32 then (val / 256 ^ (31 - th)) % 256 else 0
def wshl (shift val : Word) : Word := if shift < 256 then (val * 2 ^ shift) % W256 else 0
def wshr (shift val : Word) : Word := if shift < 256 then val / 2 ^ shift else 0
/-- `opSAR`: a shift above 256 fills with the sign; otherwise `SRsh` -/
def wsar (shift val : Word) : Word :=
  if val < half then (if shift < 256 then val / 2 ^ shift else 0)
  else (if shift < 256 then W256 - 1 - (W256 - 1 - val) / 2 ^ shift else W256 - 1)

inductive BinOp where
  | add | mul | sub | div | sdiv | mod | smod | signextend | lt | gt | slt | sgt | eq
  | and | or | xor | byte | shl | shr | sar
  deriving Repr, DecidableEq

/-- `x` is the popped top of stack, `y` the peeked second item that receives the result -/
def BinOp.eval : BinOp → Word → Word → Word
  | .add, x, y => wadd x y
  | .mul, x, y => wmul x y
  | .sub, x, y => wsub x y
  | .div, x, y => wdiv x y
  | .sdiv, x, y => wsdiv x y
  | .mod, x, y => wmod x y
  | .smod, x, y => wsmod x y
  | .signextend, x, y => wsignext x y
  | .lt, x, y => b2w (x < y)
  | .gt, x, y => b2w (x > y)
  | .slt, x, y => b2w (wslt x y)
  | .sgt, x, y => b2w (wslt y x)
  | .eq, x, y => b2w (x = y)
  | .and, x, y => x &&& y
  | .or, x, y => x ||| y
  | .xor, x, y => x ^^^ y
  | .byte, x, y => wbyte x y
  | .shl, x, y => wshl x y
  | .shr, x, y => wshr x y
  | .sar, x, y => wsar x y

/-- frame constants an instruction may push -/
inductive EnvVal where
  | address | origin | caller | callvalue | calldatasize | codesize | gasprice
  | coinbase | timestamp | number | difficulty | gaslimit | chainid | basefee
  deriving Repr, DecidableEq

inductive Instr where
  | stop
  | bin (f : BinOp)
  | iszero | not
  | addmod | mulmod
  | exp
  | env (e : EnvVal)
  | calldataload | calldatacopy | codecopy | returndatasize | returndatacopy
  | pop | mload | mstore | mstore8
  | jump | jumpi | pc | msize | gas | jumpdest
  | mcopy
  | keccak
  | tload | tstore
  | push (n : Nat)            -- PUSH0 … PUSH32
  | dup (n : Nat) | swap (n : Nat)
  | ret | revert
  | journal (j : JOp)
  deriving Repr, DecidableEq

/-- the execute function a table row names; `none`: outside this layer -/
def decode (exec : String) (op : Nat) : Option Instr :=
  if exec = "opStop" then some .stop
  else if exec = "opAdd" then some (.bin .add)
  else if exec = "opMul" then some (.bin .mul)
  else if exec = "opSub" then some (.bin .sub)
  else if exec = "opDiv" then some (.bin .div)
  else if exec = "opSdiv" then some (.bin .sdiv)
  else if exec = "opMod" then some (.bin .mod)
  else if exec = "opSmod" then some (.bin .smod)
  else if exec = "opAddmod" then some .addmod
  else if exec = "opMulmod" then some .mulmod
  else if exec = "opExp" then some .exp
  else if exec = "opSignExtend" then some (.bin .signextend)
  else if exec = "opLt" then some (.bin .lt)
  else if exec = "opGt" then some (.bin .gt)
  else if exec = "opSlt" then some (.bin .slt)
  else if exec = "opSgt" then some (.bin .sgt)
  else if exec = "opEq" then some (.bin .eq)
  else if exec = "opIszero" then some .iszero
  else if exec = "opAnd" then some (.bin .and)
  else if exec = "opOr" then some (.bin .or)
  else if exec = "opXor" then some (.bin .xor)
  else if exec = "opNot" then some .not
  else if exec = "opByte" then some (.bin .byte)
  else if exec = "opSHL" then some (.bin .shl)
  else if exec = "opSHR" then some (.bin .shr)
  else if exec = "opSAR" then some (.bin .sar)
  else if exec = "opAddress" then some (.env .address)
  else if exec = "opOrigin" then some (.env .origin)
  else if exec = "opCaller" then some (.env .caller)
  else if exec = "opCallValue" then some (.env .callvalue)
  else if exec = "opCallDataLoad" then some .calldataload
  else if exec = "opCallDataSize" then some (.env .calldatasize)
  else if exec = "opCallDataCopy" then some .calldatacopy
  else if exec = "opCodeSize" then some (.env .codesize)
  else if exec = "opCodeCopy" then some .codecopy
  else if exec = "opGasprice" then some (.env .gasprice)
  else if exec = "opReturnDataSize" then some .returndatasize
  else if exec = "opReturnDataCopy" then some .returndatacopy
  else if exec = "opCoinbase" then some (.env .coinbase)
  else if exec = "opTimestamp" then some (.env .timestamp)
  else if exec = "opNumber" then some (.env .number)
  else if exec = "opDifficulty" then some (.env .difficulty)
  else if exec = "opRandom" then some (.env .difficulty)
  else if exec = "opGasLimit" then some (.env .gaslimit)
  else if exec = "opChainID" then some (.env .chainid)
  else if exec = "opBaseFee" then some (.env .basefee)
  else if exec = "opPop" then some .pop
  else if exec = "opMload" then some .mload
  else if exec = "opMstore" then some .mstore
  else if exec = "opMstore8" then some .mstore8
  else if exec = "opJump" then some .jump
  else if exec = "opJumpi" then some .jumpi
  else if exec = "opPc" then some .pc
  else if exec = "opMsize" then some .msize
  else if exec = "opGas" then some .gas
  else if exec = "opJumpdest" then some .jumpdest
  else if exec = "opMcopy" then some .mcopy
  else if exec = "opKeccak256" then some .keccak
  else if exec = "opTload" then some .tload
  else if exec = "opTstore" then some .tstore
  else if exec = "opPush0" then some (.push 0)
  else if exec = "opPush1" then some (.push 1)
  else if exec = "makePush" then some (.push (op - 0x5f))
  else if exec = "makeDup" then some (.dup (op - 0x7f))
  else if exec = "makeSwap" then some (.swap (op - 0x8f))
  else if exec = "opReturn" then some .ret
  else if exec = "opRevert" then some .revert
  else if exec = "opReferenceStateVarJournal" then some (.journal .rsv)
  else if exec = "opValueStateVarJournal" then some (.journal .vsv)
  else if exec = "opReferenceIndexValueStorageJournal" then some (.journal .irvv)
  else if exec = "opReferenceIndexReferenceStorageJournal" then some (.journal .irvr)
  else if exec = "opValueIndexValueStorageJournal" then some (.journal .ivvv)
  else if exec = "opValueIndexReferenceStorageJournal" then some (.journal .ivvr)
  else if exec = "opValueChangeJournal" then some (.journal .vv)
  else if exec = "opReferenceChangeJournal" then some (.journal .vr)
  else none

/-! ### table rows, state, environment, outcomes -/

/-- one row of a jump table as extracted from the running code -/
structure Row where
  exec : String
  dyn  : String            -- "-" : no dynamic-gas function
  mem  : String            -- "-" : no memory-size function
  cgas : Nat
  minStack : Nat
  maxStack : Nat
  deriving Repr, DecidableEq

/-- interpreter state of one frame: what `JMachine` has, plus `Memory.lastGasCost` -/
structure IState (World : Type) extends JMachine World where
  last : Nat

structure IEnv (World : Type) where
  code  : Bytes
  input : Bytes
  vals  : EnvVal → Word              -- address, caller, call value, block context … (constants of the frame)
  abort : Bool                       -- `evm.abort` as seen by this step
  table : Nat → Option Row           -- the fork's instruction table (undefined opcodes: `none`)
  mkEnv : World → Bytes → JEnv       -- the view a journal instruction takes of the world
  keccak : Bytes → Word := fun _ => 0 -- keccak-256, uninterpreted
  tget : World → Word → Word := fun _ _ => 0          -- transient storage of the executing contract (EIP-1153), part of the world
  tset : World → Word → Word → World := fun w _ _ => w

inductive Halt where
  | stop
  | ret (data : Bytes)
  | revert (data : Bytes)
  | err (e : String)                 -- exceptional halt
  | unmodelled (op : Nat)            -- an instruction outside this layer
  deriving Repr, DecidableEq

/-- result of one loop iteration; `halt` carries `contract.Gas` at that moment -/
inductive Out (σ : Type) where
  | next (s : σ)
  | halt (h : Halt) (gas : Nat)
  | panic (msg : String)

/-- what the frame hands back to `evm.Call`: every error but a revert forfeits the gas -/
def frameGas : Halt → Nat → Nat
  | .err _, _ => 0
  | _, g => g

/-! ### code access and jump-destination analysis -/

/-- `Contract.GetOp` -/
def opAt (code : Bytes) (pc : Nat) : Nat := (code.getD pc 0).toNat

def pushLen (b : Nat) : Nat := if 0x60 ≤ b ∧ b ≤ 0x7f then b - 0x5f else 0

/-- `codeBitmap` + `codeSegment`: is `target` the position of an instruction (not PUSH data)?  Walks the
    instruction boundaries from `pc`. -/
def isCodeFrom (code : Bytes) (target : Nat) : Nat → Nat → Bool
  | 0, _ => false
  | fuel + 1, pc =>
    if pc = target then true
    else if pc > target then false
    else isCodeFrom code target fuel (pc + 1 + pushLen (opAt code pc))

/-- `Contract.validJumpdest` -/
def validJumpdest (code : Bytes) (dest : Word) : Bool :=
  decide (dest < U64) && decide (dest < code.length) && decide (opAt code dest = 0x5b)
    && isCodeFrom code dest (dest + 1) 0

/-! ### memory primitives (vm/memory.go, vm/common.go) -/

/-- `copy(store[off:off+room], value)` for an in-bounds destination -/
def writeAt (store : Bytes) (off room : Nat) (value : Bytes) : Bytes :=
  let n := min room value.length
  store.take off ++ value.take n ++ store.drop (off + n)

/-- `Memory.Set(offset, size uint64, value)` -/
def memSet (store : Bytes) (off size : Nat) (value : Bytes) : Res Bytes :=
  if size = 0 then .ok store
  else if (off + size) % U64 > store.length then .panic "invalid memory: store empty"
  else if off > (off + size) % U64 then .panic "slice bounds out of range"
  else .ok (writeAt store off size value)

/-- `Memory.Set32(offset uint64, val)` -/
def memSet32 (store : Bytes) (off : Nat) (val : Word) : Res Bytes :=
  if (off + 32) % U64 > store.length then .panic "invalid memory: store empty"
  else if off > store.length then .panic "slice bounds out of range"
  else .ok (writeAt store off (store.length - off) (bytes32 val))

/-- `Memory.GetPtr(offset, size int64)`; a nil result is `[]` -/
def memGetPtr (store : Bytes) (off size : Nat) : Res Bytes :=
  let o := toInt64 off
  let z := toInt64 size
  if z = 0 then .ok []
  else if (store.length : Int) > o then
    if o < 0 then .panic "slice bounds out of range"
    else
      let hi := addInt64 o z
      if hi < 0 then .panic "slice bounds out of range"
      else goSlice store store.length o.toNat hi.toNat
  else .ok []

/-- `Memory.Resize` -/
def memResize (store : Bytes) (size : Nat) : Bytes :=
  if store.length < size then store ++ List.replicate (size - store.length) 0 else store

def rightPad (b : Bytes) (n : Nat) : Bytes := if n ≤ b.length then b else b ++ List.replicate (n - b.length) 0

/-- vm/common.go `getData(data, start, size uint64)`, overflow included (`end := start + size` is a uint64 sum);
    `RightPadBytes(·, int(size))` with a negative `int(size)` returns the slice unchanged -/
def getData (data : Bytes) (start size : Nat) : Res Bytes :=
  let length := data.length
  let start := if start > length then length else start
  let e := (start + size) % U64
  let e := if e > length then length else e
  match goSlice data length start e with
  | .ok sl => .ok (if size < 2 ^ 63 then rightPad sl size else sl)
  | .err x => .err x
  | .panic p => .panic p

/-! ### the loop body -/

/-- `Stack.Back(n)` -/
def back (st : List Word) (n : Nat) : Option Word := st[n]?

/-- memory-size functions of vm/memory_table.go by name: `none` — not a modelled name;
    `some none` — Go would index outside the stack (panic); `some (some (size, overflow))` -/
def memSizeOf (name : String) (st : List Word) : Option (Option (Nat × Bool)) :=
  if name = "memoryMLoad" ∨ name = "memoryMStore" then
    some ((back st 0).map (fun off => calcMemSize64 off 32))
  else if name = "memoryMStore8" then
    some ((back st 0).map (fun off => calcMemSize64 off 1))
  else if name = "memoryCallDataCopy" ∨ name = "memoryCodeCopy" ∨ name = "memoryReturnDataCopy" then
    some (match back st 0, back st 2 with
          | some off, some len => some (calcMemSize64 off len)
          | _, _ => none)
  else if name = "memoryReturn" ∨ name = "memoryRevert" ∨ name = "memoryKeccak256" then
    some (match back st 0, back st 1 with
          | some off, some len => some (calcMemSize64 off len)
          | _, _ => none)
  else if name = "memoryMcopy" then
    some (match back st 0, back st 1, back st 2 with
          | some dst, some src, some len => some (memoryMcopy dst src len)
          | _, _, _ => none)
  else none

/-- byte length of a word (`BitLen()+7)/8`) -/
def byteLen : Nat → Nat → Nat
  | 0, _ => 0
  | f + 1, x => if x = 0 then 0 else 1 + byteLen f (x / 256)

inductive Dyn where
  | cost (c : Nat) (last : Nat)      -- dynamic cost and the new `lastGasCost`
  | overflow                         -- the gas function returned an error
  | stackPanic
  | unmodelled

/-- dynamic-gas functions of vm/gas_table.go by name -/
def dynGasOf (name : String) (st : List Word) (memLen last memorySize : Nat) : Dyn :=
  if name = "pureMemoryGascost" then
    match memoryGasCost memLen last memorySize with
    | some (g, l) => .cost g l
    | none => .overflow
  else if name = "memoryCopierGas" then
    -- `memoryCopierGas(2)`: the modelled copy instructions all keep their length at stack position 2
    match back st 2 with
    | none => .stackPanic
    | some len =>
      match gasMcopy memLen last memorySize len with
      | some (g, l) => .cost g l
      | none => .overflow
  else if name = "gasKeccak256" then
    -- memory fee plus `Keccak256WordGas` (6) per word hashed; the length is at stack position 1
    match back st 1 with
    | none => .stackPanic
    | some len =>
      match memoryGasCost memLen last memorySize with
      | none => .overflow
      | some (g, l) =>
        if len ≥ U64 then .overflow
        else if toWordSize len * 6 ≥ U64 then .overflow
        else if g + toWordSize len * 6 ≥ U64 then .overflow
        else .cost (g + toWordSize len * 6) l
  else if name = "gasExpFrontier" then
    match back st 1 with
    | none => .stackPanic
    | some e => .cost (byteLen 32 e * 10 + 10) last
  else if name = "gasExpEIP158" then
    match back st 1 with
    | none => .stackPanic
    | some e => .cost (byteLen 32 e * 50 + 10) last
  else if name = "makeGasJournal" then .cost journalFee last
  else .unmodelled

variable {World : Type}

/-- continue with a new stack / memory, `pc` advanced by `1 + skip` -/
def IState.cont (s : IState World) (stack : List Word) (skip : Nat := 0) : Out (IState World) :=
  .next { s with stack := stack, pc := s.pc + 1 + skip }

def stackPanic : Out (IState World) := .panic "index out of range (stack)"

/-- `operation.execute` for a decoded instruction.  Operand order is the order of the `pop()` calls. -/
def exec (env : IEnv World) (i : Instr) (s : IState World) : Out (IState World) :=
  match i with
  | .stop => .halt .stop s.gas
  | .bin f =>
    match s.stack with
    | x :: y :: r => s.cont (f.eval x y :: r)
    | _ => stackPanic
  | .iszero =>
    match s.stack with
    | x :: r => s.cont (b2w (x = 0) :: r)
    | _ => stackPanic
  | .not =>
    match s.stack with
    | x :: r => s.cont (wnot x :: r)
    | _ => stackPanic
  | .addmod =>
    match s.stack with
    | x :: y :: z :: r => s.cont (waddmod x y z :: r)
    | _ => stackPanic
  | .mulmod =>
    match s.stack with
    | x :: y :: z :: r => s.cont (wmulmod x y z :: r)
    | _ => stackPanic
  | .exp =>
    match s.stack with
    | b :: e :: r => s.cont (wexp b e :: r)
    | _ => stackPanic
  | .env e => s.cont (env.vals e :: s.stack)
  | .calldataload =>
    match s.stack with
    | x :: r =>
      if x ≥ U64 then s.cont (0 :: r)
      else match getData env.input x 32 with
        | .ok d => s.cont (setBytes d :: r)
        | .err e => .panic e
        | .panic p => .panic p
    | _ => stackPanic
  | .calldatacopy =>
    match s.stack with
    | memOff :: dataOff :: len :: r =>
      let d64 := if dataOff ≥ U64 then U64 - 1 else dataOff
      match getData env.input d64 (len % U64) with
      | .ok d =>
        match memSet s.mem (memOff % U64) (len % U64) d with
        | .ok m => .next { s with stack := r, mem := m, pc := s.pc + 1 }
        | .err e => .panic e
        | .panic p => .panic p
      | .err e => .panic e
      | .panic p => .panic p
    | _ => stackPanic
  | .codecopy =>
    match s.stack with
    | memOff :: codeOff :: len :: r =>
      let c64 := if codeOff ≥ U64 then U64 - 1 else codeOff
      match getData env.code c64 (len % U64) with
      | .ok d =>
        match memSet s.mem (memOff % U64) (len % U64) d with
        | .ok m => .next { s with stack := r, mem := m, pc := s.pc + 1 }
        | .err e => .panic e
        | .panic p => .panic p
      | .err e => .panic e
      | .panic p => .panic p
    | _ => stackPanic
  | .returndatasize => s.cont (s.rdata.length :: s.stack)
  | .returndatacopy =>
    match s.stack with
    | memOff :: dataOff :: len :: r =>
      if dataOff ≥ U64 then .halt (.err "return data out of bounds") s.gas
      else
        let e := (dataOff + len) % W256
        if e ≥ U64 ∨ s.rdata.length < e then .halt (.err "return data out of bounds") s.gas
        else
          match goSlice s.rdata s.rdata.length dataOff e with
          | .ok d =>
            match memSet s.mem (memOff % U64) (len % U64) d with
            | .ok m => .next { s with stack := r, mem := m, pc := s.pc + 1 }
            | .err x => .panic x
            | .panic p => .panic p
          | .err x => .panic x
          | .panic p => .panic p
    | _ => stackPanic
  | .pop =>
    match s.stack with
    | _ :: r => s.cont r
    | _ => stackPanic
  | .mload =>
    match s.stack with
    | off :: r =>
      match memGetPtr s.mem (off % U64) 32 with
      | .ok d => s.cont (setBytes d :: r)
      | .err e => .panic e
      | .panic p => .panic p
    | _ => stackPanic
  | .mstore =>
    match s.stack with
    | off :: val :: r =>
      match memSet32 s.mem (off % U64) val with
      | .ok m => .next { s with stack := r, mem := m, pc := s.pc + 1 }
      | .err e => .panic e
      | .panic p => .panic p
    | _ => stackPanic
  | .mstore8 =>
    match s.stack with
    | off :: val :: r =>
      -- `scope.Memory.store[off.Uint64()] = byte(val.Uint64())`
      if off % U64 < s.mem.length then
        .next { s with stack := r, mem := s.mem.set (off % U64) (UInt8.ofNat (val % 256)), pc := s.pc + 1 }
      else .panic "index out of range (memory)"
    | _ => stackPanic
  | .jump =>
    if env.abort then .halt .stop s.gas
    else
      match s.stack with
      | pos :: r =>
        if validJumpdest env.code pos then .next { s with stack := r, pc := pos }
        else .halt (.err "invalid jump destination") s.gas
      | _ => stackPanic
  | .jumpi =>
    if env.abort then .halt .stop s.gas
    else
      match s.stack with
      | pos :: cond :: r =>
        if cond ≠ 0 then
          if validJumpdest env.code pos then .next { s with stack := r, pc := pos }
          else .halt (.err "invalid jump destination") s.gas
        else s.cont r
      | _ => stackPanic
  | .pc => s.cont (s.pc :: s.stack)
  | .msize => s.cont (s.mem.length :: s.stack)
  | .gas => s.cont (s.gas :: s.stack)
  | .jumpdest => s.cont s.stack
  | .mcopy =>
    match s.stack with
    | dst :: src :: len :: r =>
      match memCopyGo s.mem s.mem.length (dst % U64) (src % U64) (len % U64) with
      | .ok m => .next { s with stack := r, mem := m, pc := s.pc + 1 }
      | .err e => .panic e
      | .panic p => .panic p
    | _ => stackPanic
  | .keccak =>
    match s.stack with
    | off :: size :: r =>
      match memGetPtr s.mem (off % U64) (size % U64) with
      | .ok d => s.cont (env.keccak d % W256 :: r)
      | .err e => .panic e
      | .panic p => .panic p
    | _ => stackPanic
  | .tload =>
    match s.stack with
    | loc :: r => s.cont (env.tget s.world loc % W256 :: r)
    | _ => stackPanic
  | .tstore =>
    -- `if interpreter.readOnly { return nil, ErrWriteProtection }` comes before the pops
    if s.readOnly then .halt (.err "write protection") s.gas
    else
      match s.stack with
      | loc :: val :: r => .next { s with stack := r, pc := s.pc + 1, world := env.tset s.world loc val }
      | _ => stackPanic
  | .push n =>
    let data := (env.code.drop (s.pc + 1)).take n
    s.cont (beNat (rightPad data n) :: s.stack) n
  | .dup n =>
    match n, back s.stack (n - 1) with
    | 0, _ => stackPanic
    | _ + 1, some v => s.cont (v :: s.stack)
    | _ + 1, none => stackPanic
  | .swap n =>
    match s.stack, back s.stack n with
    | top :: r, some v =>
      if n = 0 then stackPanic else s.cont (v :: (r.set (n - 1) top))
    | _, _ => stackPanic
  | .ret =>
    match s.stack with
    | off :: size :: _ =>
      match memGetPtr s.mem (off % U64) (size % U64) with
      | .ok d => .halt (.ret d) s.gas
      | .err e => .panic e
      | .panic p => .panic p
    | _ => stackPanic
  | .revert =>
    match s.stack with
    | off :: size :: _ =>
      match memGetPtr s.mem (off % U64) (size % U64) with
      | .ok d => .halt (.revert d) s.gas
      | .err e => .panic e
      | .panic p => .panic p
    | _ => stackPanic
  | .journal j =>
    if s.stack.length < j.arity then stackPanic
    else
      match (Journal.exec j (s.stack.take j.arity) (env.mkEnv s.world s.mem) s.tr).1 with
      | .ok tr' => .next { s with stack := s.stack.drop j.arity, pc := s.pc + 1, tr := tr' }
      | .err e => .halt (.err e) s.gas
      | .panic p => .panic p

/-- `if operation.memorySize != nil { … }`: the memory size the row asks for, rounded up to words
    (`SafeMul(toWordSize(memSize), 32)`); 0 when the row has no memory-size function -/
def memPart (op : Nat) (row : Row) (s : IState World) : Out Nat :=
  if row.mem = "-" then .next 0
  else
    match memSizeOf row.mem s.stack with
    | none => .halt (.unmodelled op) s.gas
    | some none => .panic "index out of range (stack)"
    | some (some (memSize, overflow)) =>
      if overflow then .halt (.err "gas uint64 overflow") s.gas
      else if toWordSize memSize * 32 ≥ U64 then .halt (.err "gas uint64 overflow") s.gas
      else .next (toWordSize memSize * 32)

/-- dynamic gas, `UseGas`, `Resize` -/
def gasPart (op : Nat) (row : Row) (s : IState World) (memorySize : Nat) : Out (IState World) :=
  match dynGasOf row.dyn s.stack s.mem.length s.last memorySize with
  | .unmodelled => .halt (.unmodelled op) s.gas
  | .stackPanic => .panic "index out of range (stack)"
  | .overflow => .halt (.err "out of gas") s.gas
  | .cost c last' =>
    if s.gas < c then .halt (.err "out of gas") s.gas
    else
      .next { s with gas := s.gas - c, last := last',
                     mem := if memorySize > 0 then memResize s.mem memorySize else s.mem }

/-- the part of the loop body between the constant gas and `execute` (`if operation.dynamicGas != nil { … }`).
    Entered with the constant gas already deducted. -/
def dynPart (op : Nat) (row : Row) (s : IState World) : Out (IState World) :=
  if row.dyn = "-" then .next s
  else
    match memPart op row s with
    | .halt h g => .halt h g
    | .panic p => .panic p
    | .next memorySize => gasPart op row s memorySize

/-- one iteration of the `for` loop of `EVMInterpreter.Run`, up to (not including) `operation.execute`: table lookup,
    stack bounds, constant gas, memory size, dynamic gas, `Resize`.  A row whose execute function is outside this layer
    ends the modelled run at once (before the row's stack and gas checks: nothing about such an instruction is claimed). -/
def pre (env : IEnv World) (s : IState World) : Out (Instr × IState World) :=
  let op := opAt env.code s.pc
  match env.table op with
  | none => .halt (.err "invalid opcode") s.gas
  | some row =>
    match decode row.exec op with
    | none => .halt (.unmodelled op) s.gas
    | some i =>
      if s.stack.length < row.minStack then .halt (.err "stack underflow") s.gas
      else if s.stack.length > row.maxStack then .halt (.err "stack limit reached") s.gas
      else if s.gas < row.cgas then .halt (.err "out of gas") s.gas
      else
        match dynPart op row { s with gas := s.gas - row.cgas } with
        | .next s1 => .next (i, s1)
        | .halt h g => .halt h g
        | .panic p => .panic p

/-- the iteration with `ex` as the execute functions (`exec` for the code as it is; the specification side of C12
    replaces the journal instructions' execute functions by operand pops) -/
def stepWith (ex : IEnv World → Instr → IState World → Out (IState World)) (env : IEnv World) (s : IState World) :
    Out (IState World) :=
  match pre env s with
  | .next (i, s1) => ex env i s1
  | .halt h g => .halt h g
  | .panic p => .panic p

/-- one iteration of the `for` loop of `EVMInterpreter.Run` -/
def step (env : IEnv World) (s : IState World) : Out (IState World) := stepWith exec env s

/-- the loop, at most `fuel` iterations; `next` means the fuel ran out first -/
def run (env : IEnv World) : Nat → IState World → Out (IState World)
  | 0, s => .next s
  | fuel + 1, s =>
    match step env s with
    | .next s' => run env fuel s'
    | o => o

end Interp
end Artela
