import Driver.Codec
import Artela.Model.Frame
/-  Driver handlers for the M5 frame layer: `F …` events and the `Q` queries on the frame machine. -/
namespace Driver
open Artela Artela.Codec

def parseKindF : String → Option CallKind
  | "call" => some .call | "callcode" => some .callcode | "delegatecall" => some .delegatecall
  | "staticcall" => some .staticcall | "create" => some .create | "create2" => some .create2
  | _ => none

def showKindF : CallKind → String
  | .call => "call" | .callcode => "callcode" | .delegatecall => "delegatecall" | .staticcall => "staticcall"
  | .create => "create" | .create2 => "create2"

/-- error texts travel with `_` for spaces -/
def parseErr (s : String) : Option String := if s = "-" then none else some (s.replace "_" " ")

def parseTriple (s : String) : Option (Option Bytes × Nat × Option String) :=
  match s.splitOn "/" with
  | [r, g, e] => do pure (← parseOptBytes r, ← parseHexNat g, parseErr e)
  | _ => none

def factOf (kvs : List (String × String)) (k : String) : Option String := alookup k kvs

def parseFacts (s : String) : Option EnterFacts := do
  let kvs ← (s.splitOn ",").mapM (fun kv => match kv.splitOn "=" with | [k, v] => some (k, v) | _ => none)
  let b := fun k d => match factOf kvs k with | some "1" => true | some "0" => false | _ => d
  let n := fun k => ((factOf kvs k).bind parseHexNat).getD 0
  let pc ← match factOf kvs "pc" with
    | none => some none
    | some "-" => some none
    | some t => (parseTriple t).map some
  let pre ← match factOf kvs "pre" with
    | none => some (⟨none, 0, none⟩ : JPResult)
    | some t => (parseTriple t).map (fun (r, g, e) => (⟨r, g, e⟩ : JPResult))
  pure { canTransfer := b "ct" true, exists_ := b "ex" true, precompile := pc, codeEmpty := b "ce" false, jpEnabled := b "jp" false,
         pre := pre, nonceOverflow := b "no" false, collision := b "co" false, eip158 := b "e158" true, homestead := b "hs" true,
         berlin := b "ber" true, london := b "lon" true, debug := b "dbg" true,
         balFrom := n "bf", balTo := n "bt", balFromAfter := n "bfa", balToAfter := n "bta" }

def parseFEvent (toks : List String) : Option FEvent :=
  match toks with
  | ["enter", kind, caller, to, value, input, gas, facts] => do
    pure (.enter (← parseKindF kind) (← parseHexNat caller) (← parseHexNat to) (← parseHexNat value) (← parseBytes input)
            (← parseHexNat gas) (← parseFacts facts))
  | ["effect", id] => do pure (.effect (← parseHexNat id))
  | ["jkey", p, s, o, t, pt, n] => do
    pure (.jkey (← parseOptNat p) (← parseHexNat s) (← parseOptNat o) (← parseHexNat t) (← parseHexNat pt) (← parseBytes n))
  | ["jchange", s, o, t, v] => do
    pure (.jchange (← parseHexNat s) (← parseOptNat o) (← parseHexNat t) (← parseBytes v))
  | ["halt", r, e, g, post] => do
    let (pr, pg, pe) ← parseTriple post
    pure (.halt (← parseOptBytes r) (parseErr e) (← parseHexNat g) ⟨pr, pg, pe⟩)
  | _ => none

def bytesOrX : Option Bytes → String
  | none => "x"
  | some b => hexBytes b

def showDebugEvent : DebugEvent → String
  | .start f t c i g v => s!"start({hexNat f},{hexNat t},{if c then "create" else "call"},{hexBytes i},{hexNat g},{hexNat v})"
  | .end_ r g e => s!"end({bytesOrX r},{hexNat g},{optStr e})"
  | .enter k f t i g v => s!"enter({showKindF k},{hexNat f},{hexNat t},{hexBytes i},{hexNat g},{optNat v})"
  | .exit r g e => s!"exit({bytesOrX r},{hexNat g},{optStr e})"

def showJP : JPRecord → String
  | .pre c t i v g ix => s!"pre({hexNat c},{hexNat t},{hexBytes i},{hexNat v},{hexNat g},{hexNat ix})"
  | .post c t i v g ix r e => s!"post({hexNat c},{hexNat t},{hexBytes i},{hexNat v},{hexNat g},{hexNat ix},{bytesOrX r},{if e = "" then "-" else e.replace " " "_"})"

def progIds (w : List Effect) : List Nat :=
  w.filterMap (fun e => match e with | .prog id => some id | _ => none)

def frameQuery (st : FState) (toks : List String) : Option String :=
  match toks with
  | ["events"] => some (listStr (st.events.map showDebugEvent))
  | ["jps"] => some (listStr (st.jps.map showJP))
  | ["started"] => some (listStr (st.started.map (fun (a, g) => s!"{hexNat a}:{hexNat g}")))
  | ["world"] => some (listStr ((((progIds st.world).eraseDups).mergeSort (· ≤ ·)).map hexNat))
  | ["depth"] => some (hexNat st.stack.length)
  | ["results"] => some (listStr (st.results.map (fun r =>
      s!"{showKindF r.kind}:{hexNat r.to}:{bytesOrX r.ret}:{hexNat r.gas}:{optStr r.err}")))
  | _ => none

end Driver
