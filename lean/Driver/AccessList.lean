import Driver.Codec
import Artela.Model.AccessList
/-
  `AL <excluded,…> <prior> <events>`: the access-list tracer model built from the prior list and fed the recorded steps.
  prior: `addr:key,key;addr:;…` or `.`; events: `op/contract/stackLen/top/second;…` or `.`; answer: the list, accounts
  and keys sorted numerically.
-/
namespace Driver
open Artela Artela.Codec Artela.Acl

def parseTuple (s : String) : Option (Nat × List Nat) :=
  match s.splitOn ":" with
  | [a, ks] => do
    let a ← parseHexNat a
    let ks ← if ks.isEmpty then some [] else (ks.splitOn ",").mapM parseHexNat
    pure (a, ks)
  | _ => none

def parseAclEv (s : String) : Option Ev :=
  match s.splitOn "/" with
  | [op, c, n, top, second] => do
    let op ← parseHexNat op; let c ← parseHexNat c; let n ← parseHexNat n
    let top ← parseHexNat top; let second ← parseHexNat second
    let stack := match n with
      | 0 => []
      | 1 => [top]
      | n + 2 => top :: second :: List.replicate n 0
    pure { op := op, contract := c, stack := stack }
  | _ => none

def showAcl (l : AList) : String :=
  if l.isEmpty then "." else
  let sorted := l.mergeSort (fun a b => a.1 ≤ b.1)
  ";".intercalate (sorted.map (fun (a, ks) => hexNat a ++ ":" ++ ",".intercalate ((ks.mergeSort (· ≤ ·)).map hexNat)))

def aclLine (toks : List String) : String :=
  match toks with
  | [excl, prior, evs] =>
    match (excl.splitOn ",").mapM parseHexNat,
          (if prior = "." then some [] else (prior.splitOn ";").mapM parseTuple),
          (if evs = "." then some [] else (evs.splitOn ";").mapM parseAclEv) with
    | some excl, some prior, some evs => showAcl (run (init excl prior) evs).list
    | _, _, _ => "bad-op"
  | _ => "bad-op"

end Driver
