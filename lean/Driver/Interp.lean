import Driver.Codec
import Driver.Journal
import Artela.Model.Interp
import Artela.Proofs.InterpTable
/-  Driver handler for the M9 interpreter layer (`IX`). -/
namespace Driver
open Artela Artela.Codec Artela.Interp

def envValOf (l : List Nat) (code input : Bytes) : EnvVal → Nat
  | .address => l.getD 0 0
  | .origin => l.getD 1 0
  | .caller => l.getD 2 0
  | .callvalue => l.getD 3 0
  | .gasprice => l.getD 4 0
  | .coinbase => l.getD 5 0
  | .timestamp => l.getD 6 0
  | .number => l.getD 7 0
  | .difficulty => l.getD 8 0
  | .gaslimit => l.getD 9 0
  | .chainid => l.getD 10 0
  | .basefee => l.getD 11 0
  | .calldatasize => input.length
  | .codesize => code.length

def knownErr (e : String) : String :=
  if e = "out of gas" ∨ e = "gas uint64 overflow" ∨ e = "stack underflow" ∨ e = "stack limit reached"
     ∨ e = "invalid jump destination" ∨ e = "invalid opcode" ∨ e = "return data out of bounds"
  then e.replace " " "_" else "err"

def showHalt (h : Halt) (gas : Nat) : String :=
  match h with
  | .stop => s!"halt:ok:{hexNat gas}:x"
  | .ret d => s!"halt:ok:{hexNat gas}:{hexBytes d}"
  | .revert d => s!"halt:execution_reverted:{hexNat gas}:{hexBytes d}"
  | .err e => s!"halt:{knownErr e}:0:x"
  | .unmodelled op => s!"unmodelled:{hexNat op}"

def showStep (code : Bytes) (s : IState JState) : String :=
  let top := match s.stack with
    | [] => "-"
    | [a] => hexNat a
    | a :: b :: _ => hexNat a ++ "," ++ hexNat b
  s!"{hexNat s.pc}.{hexNat (opAt code s.pc)}.{hexNat s.gas}.{hexNat s.stack.length}.{top}.{hexNat s.mem.length}"

/-- run to the end (at most `fuel` iterations), rendering the first `shown` steps; returns the last state's tracer -/
def interpLoop (env : IEnv JState) (shown : Nat) : Nat → IState JState → Nat → Array String → Tracer × Array String × String
  | 0, s, _, acc => (s.tr, acc, "fuel")
  | fuel + 1, s, k, acc =>
    let acc := if k < shown then acc.push (showStep env.code s) else acc
    match step env s with
    | .next s' => interpLoop env shown fuel s' (k + 1) acc
    | .halt h g => (s.tr, acc, showHalt h (frameGas h g))
    | .panic _ => (s.tr, acc, "panic")

def interpLine (j : JState) (tr : Tracer) (toks : List String) : Tracer × String :=
  match toks with
  | [fork, gas, vals, code, input, shown] =>
    match parseHexNat gas, (vals.splitOn ",").mapM parseHexNat, parseBytes code, parseBytes input, shown.toNat? with
    | some gas, some vals, some code, some input, some shown =>
      let rows := Gen.tableByName fork
      let arr : Array (Option Row) := (Array.range 256).map (fun op => tableOf rows op)
      let env : IEnv JState :=
        { code := code, input := input, vals := envValOf vals code input, abort := false,
          table := fun op => (arr.getD op none),
          mkEnv := fun w mem => { w.env with mem := mem, memCap := mem.length },
          keccak := fun b => (alookup b j.kmap).getD 0,
          tget := fun w loc => (alookup loc w.transient).getD 0,
          tset := fun w loc val => { w with transient := aset loc val w.transient } }
      let s0 : IState JState :=
        { stack := [], mem := [], pc := 0, gas := gas, rdata := [], readOnly := false, world := j, tr := tr, last := 0 }
      if code.isEmpty then (tr, s!"|halt:ok:{hexNat gas}:x")
      else
        let (tr', acc, fin) := interpLoop env shown 3000000 s0 0 #[]
        (tr', ";".intercalate acc.toList ++ "|" ++ fin)
    | _, _, _, _, _ => (tr, "bad-op")
  | _ => (tr, "bad-op")

end Driver
