import Driver.Codec
import Artela.Model.CallTracer
import Artela.Model.FlatTracer
/-  Driver handlers for the M4 call-tracer layer: `E …` callback events, `Q ctnested`, `Q ctflat`. -/
namespace Driver
open Artela Artela.Codec Artela.CallTracer

structure CTState where
  st : TState := {}
  panicked : Bool := false
  includePrecompiles : Bool := false
  flatPanicked : Bool := false
  parity : Bool := false        -- convertParityErrors
  precompiles : Option (List Nat) := none   -- `t.activePrecompiles` as the tracer computed it at CaptureStart (none: Istanbul+ set)
  started : Bool := false                   -- `CaptureStart` seen: before it the flat tracer's precompile list is empty

def perr (s : String) : Option String := if s = "-" then none else some (s.replace "_" " ")

def parseTEvent (toks : List String) : Option TEvent :=
  match toks with
  | ["txstart", g] => do pure (.txStart (← parseHexNat g))
  | ["txend", g] => do pure (.txEnd (← parseHexNat g))
  | ["start", f, t, c, i, g, v] => do pure (.start (← parseHexNat f) (← parseHexNat t) (c == "1") (← parseBytes i) (← parseHexNat g) (← parseOptNat v))
  | ["end", o, g, e] => do pure (.end_ (← parseBytes o) (← parseHexNat g) (perr e))
  | ["enter", ty, f, t, i, g, v] => do pure (.enter ty (← parseHexNat f) (← parseHexNat t) (← parseBytes i) (← parseHexNat g) (← parseOptNat v))
  | ["exit", o, g, e] => do pure (.exit (← parseBytes o) (← parseHexNat g) (perr e))
  | ["aenter", jp, f, t, a, i, g, v] => do
    pure (.aspectEnter (← parseHexNat jp) (← parseHexNat f) (← parseHexNat t) (← parseHexNat a) (← parseBytes i) (← parseHexNat g) (← parseOptNat v))
  | ["aexit", jp, g, r, e] => do pure (.aspectExit (← parseHexNat jp) (← parseHexNat g) (← parseBytes r) (perr e))
  | _ => none

/-- `flatCallTracer.CaptureExit` after the inner tracer's (model: `flatAfterInnerExit`) -/
def flatAfterExit (c : CTState) (before : TState) : CTState :=
  if c.includePrecompiles then c else
  match flatAfterInnerExit before c.st
      (if !c.started then fun _ => false else match c.precompiles with | none => isPrecompileAddr | some l => fun a => l.contains a) with
  | .ok st' => { c with st := st' }
  | _ => { c with flatPanicked := true }

def ctEvent (c : CTState) (flat : Bool) (toks : List String) : CTState × String :=
  match parseTEvent toks with
  | none => (c, "bad-op")
  | some ev =>
    -- flatCallTracer.CaptureEnter: child calls must have a value, even if it is zero
    let ev := match ev with
      | .enter ty f t i g none => if flat then TEvent.enter ty f t i g (some 0) else ev
      | _ => ev
    if c.panicked then (c, "ok") else
    match CallTracer.step c.st ev with
    | .ok st' =>
      let c' := { c with st := st', started := c.started || (match ev with | .start .. => true | _ => false) }
      let c' := match ev with
        | .exit _ _ _ => if flat then flatAfterExit c' c.st else c'
        | _ => c'
      (c', "ok")
    | _ => ({ c with panicked := true }, "ok")

def errOrDash (s : String) : String := if s = "" then "-" else s.replace " " "_"

def jpName (n : Nat) : String :=
  if n = 1 then "verifyTx" else if n = 2 then "preTxExecute" else if n = 4 then "preContractCall"
  else if n = 8 then "postContractCall" else if n = 16 then "postTxExecute" else if n = 0 then "unknown" else ""

partial def showFrame (st : TState) (id : Nat) : String :=
  match st.frames[id]? with
  | none => "?"
  | some f =>
    let js := f.jps.map (fun a => match st.aspects[a]? with
      | none => "?"
      | some x => s!"A({jpName x.jp},{hexNat x.aspect},{hexNat x.frm},{hexNat x.to},{hexNat x.gas},{hexNat x.gasUsed},{hexBytes x.input},{hexNat x.value},{hexBytes x.output},{errOrDash x.error};C{listStr (x.calls.map (showFrame st))})")
    s!"F({f.typ},{hexNat f.frm},{optNat f.to},{hexBytes f.input},{hexNat f.gas},{hexNat f.gasUsed},{optNat f.value},{hexBytes f.output},{errOrDash f.error};J{listStr js};C{listStr (f.calls.map (showFrame st))})"

/-- `convertErrorToParity`: exact-match table first, then the two prefixes -/
def parityError (e : String) : String :=
  if e = "contract creation code storage out of gas" ∨ e = "out of gas" ∨ e = "gas uint64 overflow" ∨ e = "max code size exceeded" then "Out of gas"
  else if e = "invalid jump destination" then "Bad jump destination"
  else if e = "execution reverted" then "Reverted"
  else if e = "return data out of bounds" then "Out of bounds"
  else if e = "stack limit reached 1024 (1023)" then "Out of stack"
  else if e = "precompiled failed" ∨ e = "invalid input length" then "Built-in failed"
  else if e.startsWith "invalid opcode:" then "Bad instruction"
  else if e.startsWith "stack underflow" then "Stack underflow"
  else e

def shownErr (parity : Bool) (e : String) : String := errOrDash (if parity then parityError e else e)

def showAddr (a : List Nat) : String := "/" ++ "/".intercalate (a.map toString)

/-- one entry of the flat output, rendered canonically (fields of the frame / Aspect frame the entry stands for; trace
    address and sub-trace count as computed by the model's `goFlatFrame`) -/
def renderEntry (par : Bool) (st : TState) (e : FlatEntry FLabel) : String :=
  match e.label with
  | .frame id =>
    match st.frames[id]? with
    | none => "?"
    | some f =>
      let isCreate := f.typ == "CREATE" || f.typ == "CREATE2"
      let dropResult := f.error != "" && f.error != "execution reverted"
      -- `newFlatSuicide`: the self-destructed account, the beneficiary and the balance; never a result
      if f.typ == "SELFDESTRUCT" then
        s!"suicide:{hexNat f.frm}:{optNat f.to}:{optNat f.value}:{shownErr par f.error}:sub={e.sub}:at={showAddr e.addr}"
      else
      s!"{if isCreate then "create" else "call"}:{if isCreate then "create" else f.typ.toLower}:{hexNat f.frm}:{optNat f.to}:{hexNat f.gas}:{hexBytes f.input}:{optNat f.value}:{if dropResult then "noresult" else hexNat f.gasUsed ++ "/" ++ hexBytes f.output}:{shownErr par f.error}:sub={e.sub}:at={showAddr e.addr}"
  | .aspect a =>
    match st.aspects[a]? with
    | none => "?"
    | some x =>
      let dropResult := x.error != "" && x.error != "execution reverted"
      s!"aspect:{(jpName x.jp).toLower}:{hexNat x.aspect}:{hexNat x.frm}:{hexNat x.to}:{hexNat x.gas}:{hexBytes x.input}:{hexNat x.value}:{if dropResult then "noresult" else hexNat x.gasUsed ++ "/" ++ hexBytes x.output}:{shownErr par x.error}:sub={e.sub}:at={showAddr e.addr}"

def ctQuery (c : CTState) (toks : List String) : Option String :=
  match toks with
  | ["ctnested"] =>
    some (if c.panicked then "panic" else if c.st.stack.length != 1 then "err:incorrect_number_of_top-level_calls" else showFrame c.st 0)
  | ["ctflat"] =>
    some (if c.panicked || c.flatPanicked then "panic" else listStr ((flatOutput c.st).map (renderEntry c.parity c.st)))
  | _ => none

end Driver
