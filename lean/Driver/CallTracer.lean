import Driver.Codec
import Artela.Model.CallTracer
/-  Driver handlers for the M4 call-tracer layer: `E …` callback events, `Q ctnested`, `Q ctflat`. -/
namespace Driver
open Artela Artela.Codec Artela.CallTracer

structure CTState where
  st : TState := {}
  panicked : Bool := false
  includePrecompiles : Bool := false
  flatPanicked : Bool := false

def perr (s : String) : Option String := if s = "-" then none else some (s.replace "_" " ")

def parseTEvent (toks : List String) : Option TEvent :=
  match toks with
  | ["txstart", g] => do pure (.txStart (← parseHexNat g))
  | ["txend", g] => do pure (.txEnd (← parseHexNat g))
  | ["start", f, t, c, i, g, v] => do pure (.start (← parseHexNat f) (← parseHexNat t) (c == "1") (← parseBytes i) (← parseHexNat g) (← parseOptNat v))
  | ["end", o, g, e] => do pure (.end_ (← parseBytes o) (← parseHexNat g) (perr e))
  | ["enter", ty, f, t, i, g, v] => do pure (.enter ty (← parseHexNat f) (← parseHexNat t) (← parseBytes i) (← parseHexNat g) (← parseOptNat v))
  | ["exit", o, g, e] => do pure (.exit (← parseBytes o) (← parseHexNat g) (perr e))
  | ["aenter", jp, f, t, a, i, g, v] => do
    pure (.aspectEnter (← parseHexNat jp) (← parseHexNat f) (← parseHexNat t) (← parseHexNat a) (← parseBytes i) (← parseHexNat g) (← parseOptNat v))
  | ["aexit", jp, g, r, e] => do pure (.aspectExit (← parseHexNat jp) (← parseHexNat g) (← parseBytes r) (perr e))
  | _ => none

def isPrecompileAddr (a : Nat) : Bool := (1 ≤ a && a ≤ 9) || (0x64 ≤ a && a ≤ 0x66)

/-- `flatCallTracer.CaptureExit` after the inner tracer's: drop CALL / STATICCALL frames to precompiles issued by an EVM frame -/
def flatAfterExit (c : CTState) (before : TState) : CTState :=
  if c.includePrecompiles || before.onlyTop then c else
  match before.stack, c.st.stack with
  | _ :: _ :: _, p :: _ =>
    match c.st.frames[p]? with
    | none => c
    | some pf =>
      if pf.curJP.isSome || pf.calls.isEmpty then c else
      match pf.calls.getLast? with
      | none => c
      | some last =>
        match c.st.frames[last]? with
        | none => c
        | some lf =>
          if (lf.typ == "CALL" || lf.typ == "STATICCALL") && isPrecompileAddr (lf.to.getD 0) then
            { c with st := { c.st with frames := c.st.frames.modify p (fun f => { f with calls := f.calls.dropLast }) } }
          else c
  | [_], _ =>
    -- inner returned early (size <= 1); the flat tracer then indexes parent.Calls[len-1]
    match c.st.frames[0]? with
    | some f0 => if f0.calls.isEmpty && f0.curJP.isNone then { c with flatPanicked := true } else c
    | none => c
  | _, _ => c

def ctEvent (c : CTState) (flat : Bool) (toks : List String) : CTState × String :=
  match parseTEvent toks with
  | none => (c, "bad-op")
  | some ev =>
    -- flatCallTracer.CaptureEnter: child calls must have a value, even if it is zero
    let ev := match ev with
      | .enter ty f t i g none => if flat then TEvent.enter ty f t i g (some 0) else ev
      | _ => ev
    if c.panicked then (c, "ok") else
    match CallTracer.step c.st ev with
    | .ok st' =>
      let c' := { c with st := st' }
      let c' := match ev with
        | .exit _ _ _ => if flat then flatAfterExit c' c.st else c'
        | _ => c'
      (c', "ok")
    | _ => ({ c with panicked := true }, "ok")

def errOrDash (s : String) : String := if s = "" then "-" else s.replace " " "_"

def jpName (n : Nat) : String :=
  if n = 1 then "verifyTx" else if n = 2 then "preTxExecute" else if n = 4 then "preContractCall"
  else if n = 8 then "postContractCall" else if n = 16 then "postTxExecute" else "unknown"

partial def showFrame (st : TState) (id : Nat) : String :=
  match st.frames[id]? with
  | none => "?"
  | some f =>
    let js := f.jps.map (fun a => match st.aspects[a]? with
      | none => "?"
      | some x => s!"A({jpName x.jp},{hexNat x.aspect},{hexNat x.frm},{hexNat x.to},{hexNat x.gas},{hexNat x.gasUsed},{hexBytes x.input},{hexNat x.value},{hexBytes x.output},{errOrDash x.error};C{listStr (x.calls.map (showFrame st))})")
    s!"F({f.typ},{hexNat f.frm},{optNat f.to},{hexBytes f.input},{hexNat f.gas},{hexNat f.gasUsed},{optNat f.value},{hexBytes f.output},{errOrDash f.error};J{listStr js};C{listStr (f.calls.map (showFrame st))})"

def showAddr (a : List Nat) : String := "/" ++ "/".intercalate (a.map toString)

mutual
/-- `flatFromNested` -/
partial def flatFrame (st : TState) (id : Nat) (addr : List Nat) : List String :=
  match st.frames[id]? with
  | none => ["?"]
  | some f =>
    let pre := f.jps.filter (fun a => match st.aspects[a]? with | some x => x.jp == 2 || x.jp == 4 | none => false)
    let isCreate := f.typ == "CREATE" || f.typ == "CREATE2"
    let dropResult := f.error != "" && f.error != "execution reverted"
    let head := s!"{if isCreate then "create" else "call"}:{if isCreate then "create" else f.typ.toLower}:{hexNat f.frm}:{optNat f.to}:{hexNat f.gas}:{hexBytes f.input}:{optNat f.value}:{if dropResult then "noresult" else hexNat f.gasUsed ++ "/" ++ hexBytes f.output}:{errOrDash f.error}:sub={f.calls.length + f.jps.length}:at={showAddr addr}"
    let preParts := ((List.range f.jps.length).zip f.jps).flatMap (fun (i, a) =>
      match st.aspects[a]? with
      | some x => if x.jp == 2 || x.jp == 4 then flatAspect st a (addr ++ [i]) else []
      | none => [])
    let callParts := ((List.range f.calls.length).zip f.calls).flatMap (fun (i, c) => flatFrame st c (addr ++ [i + pre.length]))
    let postParts := ((List.range f.jps.length).zip f.jps).flatMap (fun (i, a) =>
      match st.aspects[a]? with
      | some x => if x.jp == 2 || x.jp == 4 then [] else flatAspect st a (addr ++ [i + f.calls.length])
      | none => [])
    [head] ++ preParts ++ callParts ++ postParts

/-- `flatAspectNested` -/
partial def flatAspect (st : TState) (a : Nat) (addr : List Nat) : List String :=
  match st.aspects[a]? with
  | none => ["?"]
  | some x =>
    let dropResult := x.error != "" && x.error != "execution reverted"
    let head := s!"aspect:{(jpName x.jp).toLower}:{hexNat x.aspect}:{hexNat x.frm}:{hexNat x.to}:{hexNat x.gas}:{hexBytes x.input}:{hexNat x.value}:{if dropResult then "noresult" else hexNat x.gasUsed ++ "/" ++ hexBytes x.output}:{errOrDash x.error}:sub={x.calls.length}:at={showAddr addr}"
    [head] ++ ((List.range x.calls.length).zip x.calls).flatMap (fun (i, c) => flatFrame st c (addr ++ [i]))
end

def ctQuery (c : CTState) (toks : List String) : Option String :=
  match toks with
  | ["ctnested"] =>
    some (if c.panicked then "panic" else if c.st.stack.length != 1 then "err:incorrect_number_of_top-level_calls" else showFrame c.st 0)
  | ["ctflat"] =>
    some (if c.panicked || c.flatPanicked then "panic" else listStr (flatFrame c.st 0 []))
  | _ => none

end Driver
