import Driver.Codec
/-  Driver handlers for the M1 tracer layer (`T …` operations and `Q …` queries). -/
namespace Driver
open Artela Artela.Codec

def errStr : Option String → String
  | none => "ok"
  | some e => "err:" ++ e.replace " " "_"

def tracerOp (tr : Tracer) (toks : List String) : Tracer × String :=
  let bad := (tr, "bad-op")
  match toks with
  | ["call", f, to, d, v, g] =>
    match parseHexNat f, parseOptNat to, parseBytes d, parseHexNat v, parseHexNat g with
    | some f, some to, some d, some v, some g => (tr.saveCall f to d v g, "ok")
    | _, _, _, _, _ => bad
  | ["exit", g, r, e] =>
    match parseHexNat g, parseOptBytes r with
    | some g, some r => (tr.exitCall g r (parseOptStr e), "ok")
    | _, _ => bad
  | ["key", a, p, s, o, t, pt, n] =>
    match parseHexNat a, parseOptNat p, parseHexNat s, parseOptNat o, parseHexNat t, parseHexNat pt, parseBytes n with
    | some a, some p, some s, some o, some t, some pt, some n =>
      let (tr', e) := tr.saveStateKey a p s o t pt n
      (tr', errStr e)
    | _, _, _, _, _, _, _ => bad
  | ["change", a, s, o, t, v] =>
    match parseHexNat a, parseHexNat s, parseOptNat o, parseHexNat t, parseBytes v with
    | some a, some s, some o, some t, some v =>
      let (tr', e) := tr.saveStateChange a s o t v
      (tr', errStr e)
    | _, _, _, _, _ => bad
  | ["raw", a, s, v] =>
    match parseHexNat a, parseHexNat s, parseHexNat v with
    | some a, some s, some v => (tr.saveRaw a s v, "ok")
    | _, _, _ => bad
  | ["transfer", f, t, bf, bt, af, at_] =>
    match parseHexNat f, parseHexNat t, parseHexNat bf, parseHexNat bt, parseHexNat af, parseHexNat at_ with
    | some f, some t, some bf, some bt, some af, some at_ => (tr.transferRecord f t bf bt af at_, "ok")
    | _, _, _, _, _, _ => bad
  | _ => bad

def showKeyNode (s : StateChanges) (k : KeyNode) (sorted : Bool := false) : String :=
  let nt := match k.nodeType with | .root => "root" | .branch => "branch" | .data => "data"
  -- Children()/ChildrenIndices(): sorted by index bytes
  let names := StateChanges.sortBytes (StateChanges.childrenIndicesRaw k)
  let kids := names.map (fun n =>
    match (alookup n k.childrenIndex).bind (fun id => s.keys[id]?) with
    | some c => s!"{optNat c.slot}/{hexNat c.offset}"
    | none => "?")
  if sorted then
    s!"slot={optNat k.slot} off={hexNat k.offset} type={nt} idx={listStr (names.map hexBytes)} kidset={listStr (kids.mergeSort (fun a b => a ≤ b))} changes={showChanges (some k.changes)}"
  else
  s!"slot={optNat k.slot} off={hexNat k.offset} type={nt} idx={listStr (names.map hexBytes)} kids={listStr kids} changes={showChanges (some k.changes)}"

/-- `Slot` / `Balance` return a nil `*StorageChanges` both for a missing key and for a key
    without changes; the two are one observation. -/
def showChangesFlat : Option (Option ChangeMap) → String
  | some (some m) => showChangeMap m
  | _ => "nil-or-nokey"

partial def tracerQuery (tr : Tracer) (toks : List String) : String :=
  match toks with
  | ["tree"] => showTree tr.tree
  | ["var", a, n, p] =>
    match parseHexNat a, parseBytes n, parseBytesList p with
    | some a, some n, some p => showChanges (tr.states.variableQ a n p)
    | _, _, _ => "bad-op"
  | ["slot", a, s, o, t] =>
    match parseHexNat a, parseHexNat s, parseOptNat o, parseHexNat t with
    | some a, some s, some o, some t =>
      match tr.states.slotQ a s o t with
      | .error e => "err:" ++ e.replace " " "_"
      | .ok r => showChangesFlat r
    | _, _, _, _ => "bad-op"
  | ["bal", a] =>
    match parseHexNat a with
    | some a => showChangesFlat (tr.states.balance a)
    | none => "bad-op"
  | ["nodes", a, n, p] =>
    match parseHexNat a, parseBytes n, parseBytesList p with
    | some a, some n, some p =>
      match (tr.states.findKeyIndices a n p).bind (fun id => tr.states.keys[id]?) with
      | none => "nokey"
      | some k => showKeyNode tr.states k true
    | _, _, _ => "bad-op"
  | ["idxs", a, n, p] => tracerQuery tr ["idx", a, n, p]
  | ["idx", a, n, p] =>
    match parseHexNat a, parseBytes n, parseBytesList p with
    | some a, some n, some p =>
      match tr.states.indicesOfChanges a n p with
      | none => "nokey"
      | some l => listStr (l.map hexBytes)
    | _, _, _ => "bad-op"
  | ["node", a, n, p] =>
    match parseHexNat a, parseBytes n, parseBytesList p with
    | some a, some n, some p =>
      match (tr.states.findKeyIndices a n p).bind (fun id => tr.states.keys[id]?) with
      | none => "nokey"
      | some k => showKeyNode tr.states k
    | _, _, _ => "bad-op"
  | ["raw", a, s, i] =>
    match parseHexNat a, parseHexNat s, parseHexNat i with
    | some a, some s, some i => optNat (alookup (a, s, i) tr.states.raw)
    | _, _, _ => "bad-op"
  | _ => "bad-op"

end Driver
