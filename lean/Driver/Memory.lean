import Driver.Codec
import Artela.Model.Memory
/-  Driver handlers for the M6 layer: `M mcopy`, `S memmove`, `TX` (transient-storage frame programs), `S gate`. -/
namespace Driver
open Artela Artela.Codec

def showMcopy : Res (MemState × Nat) → String
  | .ok (m, c) => s!"ok cost={hexNat c} mem={hexBytes m.store}"
  | .err _ => "err"
  | .panic _ => "panic"

def mcopyLine (toks : List String) : String :=
  match toks with
  | [mem, gas, dst, src, len] =>
    match parseBytes mem, parseHexNat gas, parseHexNat dst, parseHexNat src, parseHexNat len with
    | some mem, some gas, some dst, some src, some len =>
      showMcopy (mcopyStep { store := mem, lastGasCost := memFee (mem.length / 32) } gas dst src len)
    | _, _, _, _, _ => "bad-op"
  | _ => "bad-op"

/-- EIP-5656 evaluated directly (no machine arithmetic): size, memmove, gas; out-of-gas when the cost exceeds `gas`
    or the new size exceeds what any gas can pay (2^32 words) -/
def specMemmove (toks : List String) : String :=
  match toks with
  | [mem, gas, dst, src, len] =>
    match parseBytes mem, parseHexNat gas, parseHexNat dst, parseHexNat src, parseHexNat len with
    | some mem, some gas, some dst, some src, some len =>
      if len = 0 then (if gas < 3 then "err" else s!"ok cost=3 mem={hexBytes mem}") else
      let need := ((if dst > src then dst else src) + len + 31) / 32 * 32
      if need > 0x1FFFFFFFE0 + 31 then "err" else
      let newLen := if need > mem.length then need else mem.length
      let cost := 3 + 3 * ((len + 31) / 32) + (memFee (newLen / 32) - memFee (mem.length / 32))
      if gas < cost then "err" else
      let ext := mem ++ List.replicate (newLen - mem.length) 0
      let out := (List.range newLen).map (fun i => if dst ≤ i ∧ i < dst + len then ext.getD (src + (i - dst)) 0 else ext.getD i 0)
      s!"ok cost={hexNat cost} mem={hexBytes out}"
    | _, _, _, _, _ => "bad-op"
  | _ => "bad-op"

def parseKind : String → Option TKind
  | "call" => some .call | "delegate" => some .delegate | "callcode" => some .callcode | "static" => some .static
  | _ => none

/-- prefix notation: `S k v` | `L k` | `C kind target rev n <n ops>`; returns the ops and the remaining tokens -/
partial def parseTOps (n : Nat) (toks : List String) : Option (List TOp × List String) :=
  if n = 0 then some ([], toks) else
  match toks with
  | "S" :: k :: v :: rest => do
    let k ← parseHexNat k; let v ← parseHexNat v
    let (ops, rest') ← parseTOps (n - 1) rest
    pure (.tstore k v :: ops, rest')
  | "L" :: k :: rest => do
    let k ← parseHexNat k
    let (ops, rest') ← parseTOps (n - 1) rest
    pure (.tload k :: ops, rest')
  | "C" :: kind :: target :: rev :: cnt :: rest => do
    let kind ← parseKind kind; let target ← parseHexNat target; let cnt ← parseHexNat cnt
    let (body, rest1) ← parseTOps cnt rest
    let (ops, rest2) ← parseTOps (n - 1) rest1
    pure (.sub kind target body (rev == "1") :: ops, rest2)
  | _ => none

def showObs : TObs → String
  | .loaded v => "l:" ++ hexNat v
  | .flag b => if b then "f:1" else "f:0"

/-- `TX <storageAddr> <n> <ops…>` -/
def transientLine (toks : List String) : String :=
  match toks with
  | sa :: n :: rest =>
    match parseHexNat sa, parseHexNat n with
    | some sa, some n =>
      match parseTOps n rest with
      | some (ops, []) =>
        let (ok, _, obs) := runTOps 100000 sa false ops [] []
        (if ok then "ok " else "halt ") ++ listStr (obs.map showObs)
      | _ => "bad-op"
    | _, _ => "bad-op"
  | _ => "bad-op"

end Driver
