import Driver.Codec
import Driver.Tracer
import Driver.Journal
import Driver.Precompile
import Driver.Memory
import Driver.Frame
import Driver.CallTracer
import Driver.Interp
import Driver.AccessList
import Driver.Modexp
/-
  Model driver: one input line ↦ one output line (see DESIGN.md §2.6).
-/
open Artela Artela.Codec

structure DState where
  tr : Tracer := {}
  j : Driver.JState := {}
  f : FState := {}
  ct : Driver.CTState := {}
  ctFlat : Bool := false

def dispatch (st : DState) (toks : List String) : DState × String :=
  match toks with
  | ["R"] => ({}, "ok")
  | "R" :: _ => ({}, "ok")
  | "T" :: rest =>
    let (tr, out) := Driver.tracerOp st.tr rest
    ({ st with tr := tr }, out)
  | ["EC", flat, onlyTop, incl] =>
    ({ st with ctFlat := flat == "1", ct := { st := { onlyTop := onlyTop == "1" }, includePrecompiles := incl == "1" } }, "ok")
  | ["EC", flat, onlyTop, incl, parity] =>
    ({ st with ctFlat := flat == "1", ct := { st := { onlyTop := onlyTop == "1" }, includePrecompiles := incl == "1", parity := parity == "1" } }, "ok")
  | ["EC", flat, onlyTop, incl, parity, pcs] =>
    let l := if pcs = "." then some [] else (pcs.splitOn ",").mapM parseHexNat
    ({ st with ctFlat := flat == "1", ct := { st := { onlyTop := onlyTop == "1" }, includePrecompiles := incl == "1", parity := parity == "1", precompiles := l } }, "ok")
  | "E" :: rest =>
    let (c, out) := Driver.ctEvent st.ct st.ctFlat rest
    ({ st with ct := c }, out)
  | "F" :: rest =>
    match Driver.parseFEvent rest with
    | some ev =>
      -- the frame machine owns the tracer while frame events are replayed
      let f := Frame.step { st.f with tracer := st.tr } ev
      ({ st with f := f, tr := f.tracer }, "ok")
    | none => (st, "bad-op")
  | "Q" :: rest =>
    match Driver.ctQuery st.ct rest with
    | some out => (st, out)
    | none =>
    match Driver.frameQuery st.f rest with
    | some out => (st, out)
    | none => (st, Driver.tracerQuery st.tr rest)
  | "JE" :: rest =>
    match Driver.journalEnv rest with
    | some j => ({ st with j := j }, "ok")
    | none => (st, "bad-op")
  | "J" :: rest =>
    let (j, tr, out) := Driver.journalOp st.j st.tr rest
    ({ st with j := j, tr := tr }, out)
  | "AL" :: rest => (st, Driver.aclLine rest)
  | "MX" :: rest => (st, Driver.modexpLine rest)
  | "IX" :: rest =>
    let (tr, out) := Driver.interpLine st.j st.tr rest
    ({ st with tr := tr }, out)
  | "M" :: "mcopy" :: rest => (st, Driver.mcopyLine rest)
  | "S" :: "memmove" :: rest => (st, Driver.specMemmove rest)
  | "TX" :: rest => (st, Driver.transientLine rest)
  | ["S", "gate", fork, _] => (st, if fork = "Cancun" then "valid" else "invalid")
  | ["S", "depth-at-rest"] => (st, "0")
  | ["S", "flatfee", op, g] =>
    -- EIP-1153: TLOAD / TSTORE cost 100 gas flat; the test programs push one / two operands first (3 gas each)
    match parseHexNat op, parseHexNat g with
    | some op, some g =>
      let need := if op = 0x5c then 103 else 106
      (st, if g < need then "err:out_of_gas" else s!"ok:{hexNat (g - need)}")
    | _, _ => (st, "bad-op")
  | ["S", "stackbounds", op, h] =>
    -- EIP-1153 / EIP-5656 arities: TLOAD 1 → 1, TSTORE 2 → 0, MCOPY 3 → 0; the stack holds at most 1024 items
    match parseHexNat op, parseHexNat h with
    | some op, some h =>
      let ar : Option (Nat × Nat) := if op = 0x5c then some (1, 1) else if op = 0x5d then some (2, 0) else if op = 0x5e then some (3, 0) else none
      match ar with
      | some (pops, pushes) => (st, if h < pops then "underflow" else if h - pops + pushes > 1024 then "overflow" else "ok")
      | none => (st, "bad-op")
    | _, _ => (st, "bad-op")
  | "P" :: rest => (st, Driver.precompileLine true rest)
  | "PB" :: rest => (st, Driver.precompileLine false rest)
  | "S" :: "abibytes" :: rest => (st, Driver.specAbiBytes rest)
  | "S" :: "abipair" :: rest => (st, Driver.specAbiPair rest)
  | ["W"] => (st, s!"reads={st.j.work.reads}")
  | ["S", "jeffect", op] => (st, Driver.specJEffect op)
  | "S" :: "solpacked" :: rest => (st, Driver.specSolPacked rest)
  | "S" :: "solstring" :: rest => (st, Driver.specSolString rest)
  | ["S", "cursor-at-rest"] => (st, "-")
  -- C11 specification: a change journaled for a registered key is visible through both lookups
  | ["S", "both-see", _] => (st, "both")
  | ["S", "parent-known"] => (st, "ok")
  | ["S", "balshadow"] => (st, "match")
  | ["S", "static-same"] => (st, "same")
  | ["S", "atomic"] => (st, "ok")
  | ["S", "atomic-accounts"] => (st, "ok")
  | ["S", "atomic-nonces"] => (st, "ok")
  | "S" :: "path-resolves" :: _ => (st, "ok")
  | ["S", "conc-same"] => (st, "same")
  | ["S", "conc-artela-same"] => (st, "same")
  | ["S", "cancel-safe"] => (st, "ok")
  -- C01/C02/C18 specification: the fork behaves exactly like go-ethereum v1.12.0 on standard programs
  | "S" :: "upstream-same" :: _ => (st, "same")
  | "S" :: "upstream-same-gas-sweep" :: _ => (st, "same")
  | "S" :: "tracer-same" :: _ => (st, "same")
  | "S" :: "tracer-no-panic" :: _ => (st, "ok")
  | "S" :: "tracer-same-tree" :: _ => (st, "same")
  | "S" :: "tracer-same-spine" :: _ => (st, "same")
  | ["S", "ctrender"] => (st, "ok")
  | ["S", "ctflatinv"] => (st, if preFirstB st.ct.st then "ok" else "join_points_not_pre_first:theorems_do_not_apply")
  | ["S", "ctflatown"] => (st, "ok")
  | ["S", "attributed"] => (st, "ok")
  | ["S", "jran"] => (st, "ok")
  | ["S", "halt-no-data"] => (st, "ok")
  | ["S", "jattr"] => (st, "ok")
  | ["S", "det-interleaved"] => (st, "same")
  | ["S", "recorded-stable"] => (st, "same")
  | ["S", "conc-journal"] => (st, "same")
  | ["S", "wf-any-history"] => (st, "ok")
  | ["S", "solstring-sequence"] => (st, "ok")
  | ["S", "pops-same"] => (st, "same")
  | ["S", "tstore-static"] => (st, "ok")
  | "S" :: "stdwork" :: _ => (st, "ok")
  | "S" :: "stdgas" :: _ => (st, "ok")
  | "S" :: "stdrun" :: _ => (st, "same")
  | ["S", "jp"] => (st, "ok")
  | ["S", "gas"] => (st, "ok")
  | ["S", "node"] => (st, "ok")
  | ["S", "balanced"] => (st, "ok")
  | ["S", "wf"] => (st, "ok")
  | ["S", "attribution", _] => (st, "ok")
  -- C20 specification: every instruction's work stays within the fixed multiple of its fee
  | ["S", "workbound", _] => (st, "ok")
  -- C16 specification: repeated runs of one history give identical answers (the model is a function)
  | ["S", "det"] => (st, "same")
  | _ => (st, "bad-op")

partial def loop (h : IO.FS.Stream) (out : IO.FS.Stream) (st : DState) : IO Unit := do
  let line ← h.getLine
  if line.isEmpty then return ()
  let l := (line.dropEndWhile (fun c => c == '\n' || c == '\r')).toString
  let (st', o) := dispatch st (l.splitOn " ")
  out.putStrLn o
  loop h out st'

def main : IO Unit := do
  let out ← IO.getStdout
  loop (← IO.getStdin) out {}
  out.flush
