import Driver.Codec
import Driver.Tracer
/-
  Model driver: one input line ↦ one output line (see DESIGN.md §2.6).
-/
open Artela Artela.Codec

structure DState where
  tr : Tracer := {}

def dispatch (st : DState) (toks : List String) : DState × String :=
  match toks with
  | ["R"] => ({}, "ok")
  | "R" :: _ => ({}, "ok")
  | "T" :: rest =>
    let (tr, out) := Driver.tracerOp st.tr rest
    ({ st with tr := tr }, out)
  | "Q" :: rest => (st, Driver.tracerQuery st.tr rest)
  -- C16 specification: repeated runs of one history give identical answers (the model is a function)
  | ["S", "det"] => (st, "same")
  | _ => (st, "bad-op")

partial def loop (h : IO.FS.Stream) (out : IO.FS.Stream) (st : DState) : IO Unit := do
  let line ← h.getLine
  if line.isEmpty then return ()
  let l := (line.dropEndWhile (fun c => c == '\n' || c == '\r')).toString
  let (st', o) := dispatch st (l.splitOn " ")
  out.putStrLn o
  loop h out st'

def main : IO Unit := do
  let out ← IO.getStdout
  loop (← IO.getStdin) out {}
  out.flush
