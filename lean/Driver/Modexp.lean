import Driver.Codec
import Artela.Model.Modexp
/-
  `MX <eip2565: 0|1> <input>`: price and, when the price is at most 3 000 000 (the harness's rule for running it), the
  output of the MODEXP model.
-/
namespace Driver
open Artela Artela.Codec Artela.Modexp

def modexpLine (toks : List String) : String :=
  match toks with
  | [eip, input] =>
    match parseBytes input with
    | some inp =>
      match requiredGas (eip == "1") inp with
      | .ok g =>
        let out := if g ≤ 3000000 then
            match run inp with
            | .ok o => hexBytes o
            | .err e => "err:" ++ e
            | .panic _ => "panic"
          else "-"
        s!"gas={hexNat g} out={out}"
      | .err e => "err:" ++ e
      | .panic _ => "panic"
    | none => "bad-op"
  | _ => "bad-op"

end Driver
