import Artela.Model.Base
import Artela.Model.CallTree
import Artela.Model.StateChanges
/-
  Line-protocol codecs shared by the driver: tokens are separated by single spaces;
  numbers are lower-case hex without prefix; byte strings are `x` followed by hex; `-` is nil.
-/
namespace Artela.Codec
open Artela

def hexVal (c : Char) : Option Nat :=
  if '0' ≤ c ∧ c ≤ '9' then some (c.toNat - '0'.toNat)
  else if 'a' ≤ c ∧ c ≤ 'f' then some (c.toNat - 'a'.toNat + 10)
  else none

def parseHexNat (s : String) : Option Nat :=
  if s.isEmpty then none else
  s.toList.foldl (fun acc c => do let a ← acc; let v ← hexVal c; pure (a * 16 + v)) (some 0)

def parseBytesAux : List Char → Option Bytes
  | [] => some []
  | [_] => none
  | a :: b :: rest => do
    let x ← hexVal a; let y ← hexVal b; let r ← parseBytesAux rest
    pure (UInt8.ofNat (x * 16 + y) :: r)

/-- `x0a0b` ↦ bytes -/
def parseBytes (s : String) : Option Bytes :=
  match s.toList with
  | 'x' :: rest => parseBytesAux rest
  | _ => none

def parseOptBytes (s : String) : Option (Option Bytes) :=
  if s = "-" then some none else (parseBytes s).map some

def parseOptNat (s : String) : Option (Option Nat) :=
  if s = "-" then some none else (parseHexNat s).map some

def parseOptStr (s : String) : Option String := if s = "-" then none else some s

def hexDigit (n : Nat) : Char :=
  if n < 10 then Char.ofNat ('0'.toNat + n) else Char.ofNat ('a'.toNat + (n - 10))

partial def hexNatAux (n : Nat) (acc : List Char) : List Char :=
  if n < 16 then hexDigit n :: acc else hexNatAux (n / 16) (hexDigit (n % 16) :: acc)

def hexNat (n : Nat) : String := String.ofList (hexNatAux n [])

def hexBytes (b : Bytes) : String :=
  String.ofList ('x' :: b.flatMap (fun x => [hexDigit (x.toNat / 16), hexDigit (x.toNat % 16)]))

def optBytes : Option Bytes → String
  | none => "-"
  | some b => hexBytes b

def optNat : Option Nat → String
  | none => "-"
  | some n => hexNat n

def optStr : Option String → String
  | none => "-"
  | some s => s.replace " " "_"

def listStr (l : List String) : String := "[" ++ ",".intercalate l ++ "]"

/-- comma-separated list of byte strings; `.` is the empty list -/
def parseBytesList (s : String) : Option (List Bytes) :=
  if s = "." then some [] else (s.splitOn ",").mapM parseBytes

def showNode (n : CallNode) : String :=
  s!"call i={hexNat n.index} from={hexNat n.frm} to={optNat n.to} data={hexBytes n.data} value={hexNat n.value} gas={hexNat n.gas} parent={optNat n.parent} children={listStr (n.children.map hexNat)} ret={optBytes n.ret} rem={hexNat n.remGas} err={optStr n.err}"

def showTree (t : CallTree) : String :=
  s!"count={hexNat t.count} cur={optNat t.current} root={optNat t.root} :: " ++ " | ".intercalate (t.nodes.map showNode)

def showChangeMap (m : ChangeMap) : String :=
  let sorted := m.mergeSort (fun a b => a.1 ≤ b.1)
  "{" ++ ";".intercalate (sorted.map (fun (i, l) => hexNat i ++ ":" ++ listStr (l.map hexBytes))) ++ "}"

def showChanges : Option (Option ChangeMap) → String
  | none => "nokey"
  | some none => "nil"
  | some (some m) => showChangeMap m

end Artela.Codec
