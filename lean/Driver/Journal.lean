import Driver.Codec
import Artela.Model.Journal
import Artela.Spec.Solidity
/-  Driver handlers for the M2 journal layer (`JE`, `J`, `W`, and the C09/C12 specification lines). -/
namespace Driver
open Artela Artela.Codec

structure JState where
  contract : Addr := 0
  mem : Bytes := []
  storage : List (Word × Word) := []
  kmap : List (Bytes × Word) := []
  work : Work := {}
  transient : List (Word × Word) := []   -- EIP-1153 store of the executing contract (interp layer)

def parsePairs (s : String) : Option (List (String × String)) :=
  if s = "." then some [] else
  (s.splitOn ",").mapM (fun kv => match kv.splitOn "=" with | [k, v] => some (k, v) | _ => none)

def parseStorage (s : String) : Option (List (Word × Word)) := do
  let ps ← parsePairs s
  ps.mapM (fun (k, v) => do pure (← parseHexNat k, ← parseHexNat v))

def parseKmap (s : String) : Option (List (Bytes × Word)) := do
  let ps ← parsePairs s
  ps.mapM (fun (k, v) => do pure (← parseBytes k, ← parseHexNat v))

def JState.env (j : JState) : JEnv :=
  { contract := j.contract, mem := j.mem, memCap := j.mem.length,
    storage := fun s => (alookup s j.storage).getD 0,
    keccak := fun b => (alookup b j.kmap).getD 0 }

def parseJOp : String → Option JOp
  | "rsv" => some .rsv | "vsv" => some .vsv | "irvv" => some .irvv | "irvr" => some .irvr
  | "ivvv" => some .ivvv | "ivvr" => some .ivvr | "vv" => some .vv | "vr" => some .vr
  | _ => none

def journalEnv (toks : List String) : Option JState :=
  match toks with
  | [c, m, st, km] => do
    pure { contract := ← parseHexNat c, mem := ← parseBytes m, storage := ← parseStorage st, kmap := ← parseKmap km }
  | _ => none

def journalOp (j : JState) (tr : Tracer) (toks : List String) : JState × Tracer × String :=
  match toks with
  | [op, args] =>
    match parseJOp op, (args.splitOn ",").mapM parseHexNat with
    | some op, some args =>
      -- every long-string preimage the model hashes must have been supplied by the harness
      match Journal.exec op args j.env tr with
      | (.ok tr', w) => ({ j with work := w }, tr', "ok")
      | (.err _, w) => ({ j with work := w }, tr, "err")
      | (.panic _, w) => ({ j with work := w }, tr, "panic")
    | _, _ => (j, tr, "bad-op")
  | _ => (j, tr, "bad-op")

def specJEffect (op : String) : String :=
  match parseJOp op with
  | some o => s!"pops={o.arity} memdelta=0 cost={journalFee} pcdelta=1 rdata=true"
  | none => "bad-op"

def specSolPacked (toks : List String) : String :=
  match toks with
  | [w, off, size] =>
    match parseHexNat w, parseHexNat off, parseHexNat size with
    | some w, some off, some size =>
      if validPacked off size then hexBytes (solPacked w off size) else "reject"
    | _, _, _ => "bad-op"
  | _ => "bad-op"

def specSolString (toks : List String) : String :=
  match toks with
  | [slot, st, km] =>
    match parseHexNat slot, parseStorage st, parseKmap km with
    | some slot, some st, some km =>
      let stf := fun s => (alookup s st).getD 0
      -- lengths above 2^64 - 32 cannot be loaded and are rejected by the code ("storage too large"): guard of c09_string_exact
      if ((stf slot) - 1) / 2 > U64 - 32 ∧ (stf slot) % 2 = 1 then "reject" else
      match solString stf (fun b => (alookup b km).getD 0) slot with
      | some b => hexBytes b
      | none => "reject"
    | _, _, _ => "bad-op"
  | _ => "bad-op"

end Driver
