import Driver.Codec
import Artela.Model.Precompile
import Artela.Spec.Abi
/-  Driver handlers for the M3 precompile layer (`P`, `PB` lines, `S abibytes`). -/
namespace Driver
open Artela Artela.Codec

def showHostCall : Option HostCall → String
  | none => "none"
  | some (.get a k) => s!"get_{hexNat a}_{hexBytes k}"
  | some (.jit h) => s!"jit_{hexBytes h}"
  | some (.set f k v) => s!"set_{hexNat f}_{hexBytes k}_{hexBytes v}"

def hostOf (ret : Option Bytes) (err : Option String) : HostCall → Except String Bytes :=
  fun _ => match err with
    | some e => .error e
    | none => .ok (ret.getD [])

/-- `P addr active ctxFrom hostRet hostErr gas input` (direct) -/
def precompileLine (withGas : Bool) (toks : List String) : String :=
  match toks with
  | [addr, active, ctx, hret, herr, gas, input] =>
    match parseHexNat addr, parseOptNat ctx, parseOptBytes hret, parseHexNat gas, parseBytes input with
    | some addr, some ctx, some hret, some gas, some input =>
      if active = "0" then "host=none res=ok:x" else
      let (r, c) := runPrecompiled addr ctx input input.length gas (hostOf hret (parseOptStr herr))
      match r with
      | .ok (v, g) => s!"host={showHostCall c} res=ok:{hexBytes v}" ++ (if withGas then s!" gas={hexNat g}" else "")
      | .err _ => s!"host={showHostCall c} res=err" ++ (if withGas then " gas=-" else "")
      | .panic _ => "panic"
    | _, _, _, _, _ => "bad-op"
  | _ => "bad-op"

def specAbiBytes (toks : List String) : String :=
  match toks with
  | [input, i] =>
    match parseBytes input, parseHexNat i with
    | some input, some i =>
      match abiBytes input i with
      | some b => hexBytes b
      | none => "reject"
    | _, _ => "bad-op"
  | _ => "bad-op"

def specAbiPair (toks : List String) : String :=
  match toks with
  | [input] =>
    match parseBytes input with
    | some input =>
      match abiBytes input 0, abiBytes input 1 with
      | some k, some v => hexBytes k ++ "," ++ hexBytes v
      | _, _ => "reject"
    | none => "bad-op"
  | _ => "bad-op"

end Driver
