import Artela.Model.Base
import Artela.Model.CallTree
import Artela.Model.StateChanges
