import Artela.Model.Base
import Artela.Model.CallTree
import Artela.Model.StateChanges
import Artela.Props.C07
import Artela.Props.C16
