"""Per-property registry: Lean modules holding the property theorems, correspondence runs, trusted base."""

LAYER_DEFAULTS = {
    'tracer': {'quick': {'n': 60, 'size': 40, 'shards': 2}, 'thorough': {'n': 400, 'size': 120, 'shards': 16}},
    'conc': {'quick': {'n': 4, 'size': 20, 'shards': 1}, 'thorough': {'n': 40, 'size': 25, 'shards': 2}},
    'diff': {'quick': {'n': 250, 'size': 20, 'shards': 4}, 'thorough': {'n': 1200, 'size': 30, 'shards': 16}},
    'calltracer': {'quick': {'n': 100, 'size': 10, 'shards': 2}, 'thorough': {'n': 2000, 'size': 10, 'shards': 16}},
    'frame': {'quick': {'n': 150, 'size': 10, 'shards': 2}, 'thorough': {'n': 700, 'size': 10, 'shards': 16}},
    'cancun': {'quick': {'n': 150, 'size': 20, 'shards': 2}, 'thorough': {'n': 3000, 'size': 20, 'shards': 16}},
    'precompile': {'quick': {'n': 150, 'size': 20, 'shards': 2}, 'thorough': {'n': 3000, 'size': 20, 'shards': 16}},
    'journal': {'quick': {'n': 60, 'size': 20, 'shards': 2}, 'thorough': {'n': 400, 'size': 100, 'shards': 16}},
    'interp': {'quick': {'n': 400, 'size': 30, 'shards': 4}, 'thorough': {'n': 3000, 'size': 40, 'shards': 16}},
}

TB_M1 = ['vm/tracer.go is modelled by hand (Artela/Model/CallTree.lean, StateChanges.lean); Go maps as insertion-ordered '
         'association lists, pointers as arena ids; tied by the op-sequence correspondence through the exported Tracer API']

TB_M2 = ['vm/instructions.go journal opcodes 0xe0-0xe7 and loadDataFromMem are modelled by hand (Artela/Model/Journal.lean); '
         'tied by executing real bytecode on the real interpreter (every fork, static and non-static) and comparing every '
         'instruction outcome and every tracer query with the model',
         'keccak-256 is an uninterpreted function; the harness supplies digest/preimage pairs and the model fixes the preimage shape',
         'holiman/uint256 and Go slice semantics as modelled in Model/Base.lean and Model/Journal.lean (goSlice, memGetCopy)']

TB_GEN = ['fact extractor (go/extract.go): instruction tables and precompile maps read from the running code by reflection, '
          'declaration identity fork vs go-ethereum v1.12.0 by normalised go/ast; obligations over the regenerated tables closed by decide +kernel']

TB_M3 = ['vm/contracts.go aspcontext/userOpSender/contextWriter/loadParamBytes and RunPrecompiledContract are modelled by hand '
         '(Artela/Model/Precompile.lean); tied by running the exported table entries directly (with and without CloneWithCtx) and through real '
         'CALL/CALLCODE/DELEGATECALL/STATICCALL bytecode at depth 1-3 on forks either side of Berlin, host callbacks logging their arguments',
         'ABI dynamic-bytes encoding as written in Artela/Spec/Abi.lean (abiBytes), and independently in the Go harness (abiEncode2)']

TB_M6 = ['vm/eips.go opMcopy/opTload/opTstore, vm/memory.go Copy, vm/memory_table.go memoryMcopy, vm/common.go calcMemSize64/toWordSize, '
         'vm/gas_table.go memoryGasCost/memoryCopierGas and the interpreter loop for an entry with memorySize are modelled by hand '
         '(Artela/Model/Memory.lean, exact uint64 arithmetic); tied by executing MCOPY / TLOAD / TSTORE in real bytecode on a Cancun '
         'configuration and comparing memory, MSIZE, step cost, loaded values and call flags',
         'EIP-5656 / EIP-1153 as written in Props/C15.lean (memmoveSpec, mcopyNewLen, mcopyCost) and in Driver/Memory.lean (specMemmove)']

TB_M5 = ['vm/evm.go Call/CallCode/DelegateCall/StaticCall/create are modelled by hand as a machine over interpreter events '
         '(Artela/Model/Frame.lean); the inherited interpreter is NOT modelled: the harness EVMLogger turns the real run into the event stream '
         '(enter with the environment\'s answers, effect, journal, halt with contract.Gas), the model predicts call tree, debug callbacks, '
         'join-point invocations, interpreter start gas, surviving effects, balance journal and journal attribution',
         'mock Aspects seeded into aspect-core\'s runtime pool (no WASM); errors are compared as Go compares them (the revert sentinel by identity)',
         'the StateDB is go-ethereum\'s state.StateDB; in the model it is its journal of effects (Snapshot = length, Revert = truncate)']

TB_M9 = ['vm/interpreter.go Run (the loop body) and the frame-local instructions of vm/instructions.go (arithmetic, comparison, bitwise, '
         'stack, memory, copy, jump, push/dup/swap, environment pushes, RETURN/REVERT/STOP), vm/gas_table.go memory/copy/EXP gas, '
         'vm/memory.go, vm/common.go getData, vm/analysis.go jump-destination analysis are modelled by hand (Artela/Model/Interp.lean); which function a '
         'table row dispatches to is read from the extracted tables; tied by running generated programs on the real interpreter on every fork and '
         'comparing pc, opcode, gas, stack height and top, memory size at every step and the frame result (interp layer)',
         'instructions that touch the world (SLOAD/SSTORE, BALANCE, EXT*, LOG, CALL*, CREATE*, SELFDESTRUCT, KECCAK256, BLOCKHASH, SELFBALANCE, TLOAD/TSTORE) '
         'end a modelled run (Halt.unmodelled); what happens around nested frames is the frame machine\'s business']

def frame_prop(mods, extra_runs=(), partial=None):
    d = {'modules': mods, 'runs': [{'layer': 'frame'}] + [{'layer': l} for l in extra_runs],
         'trusted_base': TB_M1 + TB_M5, 'assumptions': ['StateDB revision contract (RevertToSnapshot restores all journaled state)', 'one Aspect bound per contract in the generated cases',
                                                          'the join-point switch EVM.IsExecuteJP does not change while a frame is open: evm.go reads it before the pre join point and again after the interpreter run, the model reads it once (an audit of the model against the code pointed this out; the properties quantify over executions with the switch fixed)',
                                                          'likewise chain rules and the debug tracer are not replaced while a create frame is open']}
    if partial:
        d['partial'] = partial
    return d

TB_DIFF = ['go-ethereum v1.12.0 core/vm and eth/tracers (the module /repo itself depends on) run in the same process as the reference; '
           'the inherited instruction semantics is not modelled: identity of every inherited declaration is a regenerated fact '
           '(delta_is_modelled), behaviour is compared by differential execution']
TB_M4 = ['tracers/native/call.go and call_flat.go are modelled by hand (Artela/Model/CallTracer.lean, logs not modelled); tied by feeding '
         'callback streams generated from the call/Aspect tree grammar to the real tracers and comparing GetResult()']

TB_M10 = ['tracers/logger/access_list_tracer.go (NewAccessListTracer, CaptureState, the accumulator) is modelled by hand '
          '(Artela/Model/AccessList.lean; Go maps as duplicate-free association lists, output sorted on both sides); tied by recording what the '
          'real tracer is shown at each step of generated executions (opcode, executing contract, stack height, two top words) with random prior '
          'lists naming the sender, the recipient, precompiles, strangers, with and without storage keys, and replaying the record in the model; '
          'the same tracer is also run against go-ethereum v1.12.0\'s on the same executions, like the JSON logger, the mux and noop tracers']

TB_M11 = ['vm/contracts.go bigModExp.RequiredGas and Run (MODEXP, 0x05) are modelled by hand (Artela/Model/Modexp.lean: math/big as Nat, Uint64() as '
          'mod 2^64, getData from the interpreter model, big.Int.Exp as square-and-multiply proved equal to x^y mod m); tied by calling the '
          'table entries of Byzantium/Istanbul/Berlin on structured inputs (edge operands 0/1/2/all-ones, truncated inputs, header-only inputs whose price '
          'is near a multiple of 2^64) and comparing price and, up to a price of 3 000 000, output; the other standard precompiles are compared '
          'with go-ethereum v1.12.0 only (price: S stdgas, result: S stdrun)',
          'the allocations RightPadBytes / LeftPadBytes make for a length of about 2^48 bytes or more are not modelled (Go panics with makeslice: len out of '
          'range, the model returns the padded list); such lengths are priced at MaxUint64 and reach Run only in a call that supplies exactly 2^64-1 gas; '
          'go-ethereum v1.12.0 behaves identically. An independent audit compared model and code on about 100 000 inputs (length words up to 2^256, truncated '
          'inputs) and found one difference, since corrected: LeftPadBytes with int(modLen) negative pads nothing (run_unpadded)']

PROPS = {
    'C01': {
        'modules': ['Artela.Props.C01', 'Artela.Proofs.GenFacts', 'Artela.Props.InterpJournal', 'Artela.Props.InterpTables', 'Artela.Props.Modexp'],
        'runs': [{'layer': 'diff'}, {'layer': 'frame'}, {'layer': 'precompile'}],
        'trusted_base': TB_DIFF + TB_M5 + TB_GEN + TB_M11,
        'assumptions': ['bytes 0xe0-0xe7 and calls to 0x64-0x66 are excluded (they are not standard); opcode NAMES of 0x5c-0x5e/0xb3/0xb4 differ (known finding D18)'],
        'partial': 'inherited instruction bodies are identity-checked and differentially executed, not modelled; the proved part is the frame-layer refinement (unbound join points and the tracer are invisible)',
    },
    'C02': {
        'modules': ['Artela.Props.C01', 'Artela.Props.C06', 'Artela.Proofs.GenFacts', 'Artela.Props.InterpGas', 'Artela.Props.Modexp'],
        'runs': [{'layer': 'diff'}, {'layer': 'interp'}, {'layer': 'precompile'}],
        'trusted_base': TB_DIFF + TB_M5 + TB_GEN + TB_M9 + TB_M11,
        'assumptions': ['gas schedule functions are inherited (identity table) and compared step by step, including a gas-limit sweep'],
        'partial': 'as C01',
    },
    'C18': {
        'modules': ['Artela.Props.C18', 'Artela.Proofs.GenFacts', 'Artela.Props.C18Acl'],
        'runs': [{'layer': 'diff'}, {'layer': 'calltracer'}, {'layer': 'frame'}],
        'trusted_base': TB_DIFF + TB_M4 + TB_M5 + TB_GEN + TB_M10,
        'assumptions': [],
        'partial': 'as C01; withLog log collection of the call tracer is compared with upstream but not modelled',
    },
    'C17': {
        'modules': ['Artela.Props.C17', 'Artela.Proofs.GenFacts', 'Artela.Props.C07Frame', 'Artela.Props.InterpAbort', 'Artela.Props.InterpTables'],
        'runs': [{'layer': 'conc'}],
        'trusted_base': TB_GEN + ['Go memory model, sync.Pool, atomic.Bool and map reads are NOT modelled; the race detector (thorough tier) and '
                                  'parallel/sequential comparison are search support only',
                                  'syntactic global-write table: assignments, element assignments, mutating uint256 methods (also through a local alias), address-of'],
        'assumptions': ['the Aspect runtime pool of aspect-core is outside /repo', 'a write to shared data that is not one of the extracted syntactic forms would escape the table'],
        'partial': 'PARTIAL: data-race freedom is a runtime property no executable model exhibits; proved: projection under no-shared-writes (regenerated facts), copy-on-write of tables, cancellation stops without back edges and closes bookkeeping',
    },
    'C19': {
        'modules': ['Artela.Props.C19', 'Artela.Props.C19Once', 'Artela.Props.C19Flat', 'Artela.Proofs.RoseFlat'],
        'runs': [{'layer': 'calltracer'}, {'layer': 'frame'}],
        'trusted_base': TB_M4,
        'assumptions': ['streams are generated from the tree grammar (depth <= 5, width <= 4, 0-3 Aspects per join point, 0-2 calls per Aspect)'],
        'partial': 'PARTIAL: proved for the nested tracer over all callback sequences (no panic, exactly-once accounting, filing rule, own result per Aspect); the flat conversion (trace addresses unique and prefix-closed, subtraces = emitted children, one entry per node) proved under PreFirst (pre-call Aspect frames precede post-call ones on every frame - necessary, witness proved; checked by the driver on every stream); the JSON rendering and the precompile filtering of the flat tracer are tied by correspondence (S ctrender, S ctflatinv, S ctflatown)',
    },
    'C04': frame_prop(['Artela.Props.C04']),
    'C05': frame_prop(['Artela.Props.C05', 'Artela.Props.C05Nest']),
    'C06': frame_prop(['Artela.Props.C06', 'Artela.Props.C06Run', 'Artela.Props.InterpGas']),
    'C08': frame_prop(['Artela.Props.C08', 'Artela.Props.C08Count'], ['tracer']),
    'C09': {
        'modules': ['Artela.Props.C09'],
        'runs': [{'layer': 'journal'}, {'layer': 'frame'}],
        'trusted_base': TB_M1 + TB_M2 + ['Solidity storage layout as written in Artela/Spec/Solidity.lean (solPacked, solString) and, independently, in the Go harness (putString)'],
        'assumptions': ['storage words are < 2^256 (common.Hash)', 'Go append returns capacity >= length'],
    },
    'C11': {
        'modules': ['Artela.Props.C11', 'Artela.Props.C11Global'],
        'runs': [{'layer': 'tracer'}],
        'trusted_base': TB_M1 + ['harness-side bookkeeping of accepted registrations (conflict classes, paths) computed from the history alone'],
        'assumptions': [],
        'partial': 'c11_full is FALSE for the current code (c11_full_is_false; witnesses c11_witness_*): known finding D14 (conflicting registrations). '
                   'Proved: agreement of the two lookups as a global invariant over ALL conflict-free histories (c11_conflict_free_agree); for every state '
                   'refusals pure, change goes to the indexed node, child names exact.',
    },
    'C10': {
        'modules': ['Artela.Props.C10', 'Artela.Props.C10Frame', 'Artela.Props.C13Frame'],
        'runs': [{'layer': 'tracer'}, {'layer': 'journal'}, {'layer': 'frame'}],
        'trusted_base': TB_M1 + TB_M2 + TB_M5,
        'assumptions': ['the opcodes pass scope.Contract.Address(), which the frame model calls the frame\'s storage address (tied by the frame and journal layers)'],
    },
    'C13': {
        'modules': ['Artela.Props.C13', 'Artela.Props.C13Frame', 'Artela.Props.C13Only'],
        'runs': [{'layer': 'tracer'}, {'layer': 'frame'}],
        'trusted_base': TB_M1 + TB_M5 + ['the four balances of a transfer are read by the harness from the real StateDB before and after a real Transfer and handed to the model'],
        'assumptions': ['"equal to the real state balances" is by construction of TransferWithRecord (it reads the StateDB around the host Transfer); checked on the implementation by S balshadow'],
    },
    'C15': {
        'modules': ['Artela.Props.C15', 'Artela.Proofs.GenFacts'],
        'runs': [{'layer': 'cancun'}],
        'trusted_base': TB_M6 + TB_GEN,
        'assumptions': ['interpreter memory invariant: word-aligned length, lastGasCost = fee(length/32), length <= 0x1FFFFFFFE0 (inherited Resize/memoryGasCost, identical to upstream)',
                        'StateDB contract: transient storage is journaled and emptied by Prepare (go-ethereum state.StateDB)'],
    },
    'C14': {
        'modules': ['Artela.Props.C14', 'Artela.Proofs.GenFacts'],
        'runs': [{'layer': 'precompile'}],
        'trusted_base': TB_M3 + TB_GEN,
        'assumptions': ['a Go slice is shorter than 2^63 bytes', 'host callbacks are arbitrary functions of their arguments (scripted in the harness)'],
    },
    'C12': {
        'modules': ['Artela.Props.C12', 'Artela.Proofs.GenFacts', 'Artela.Props.InterpJournal'],
        'runs': [{'layer': 'journal'}, {'layer': 'interp'}],
        'trusted_base': TB_M1 + TB_M2 + TB_GEN + TB_M9,
        'assumptions': ['the interpreter loop performs exactly stack check, dynamic gas, execute, pc++ for a table entry without memorySize (inherited, identical to upstream: generated identity table)'],
    },
    'C20': {
        'modules': ['Artela.Props.C20', 'Artela.Proofs.GenFacts', 'Artela.Props.InterpHalts', 'Artela.Props.InterpWork', 'Artela.Props.InterpTables', 'Artela.Props.Modexp'],
        'runs': [{'layer': 'journal'}, {'layer': 'precompile'}, {'layer': 'cancun'}, {'layer': 'interp'}],
        'trusted_base': TB_M1 + TB_M2 + TB_GEN + TB_M9 + TB_M11 + ['work is counted as 32 units per StateDB read + 1 per byte copied/allocated; the search uses the fixed multiple K=16 (go/layer_journal.go workK)'],
        'assumptions': ['standard instructions and precompiles 1-9: bounded by upstream gas schedule (identity-checked, not modelled)'],
        'partial': 'c20_full is FALSE for the current code (c20_witness_reference_unbounded); proved: c20_partial, c20_value_journal, c20_value_key_journals, c20_key_journal_partial, c20_reference_journal_partial. Known findings D5 (VRJNAL) and D7 (memory-keyed registrations).',
    },
    'C03': {
        'modules': ['Artela.Props.C03', 'Artela.Props.C14', 'Artela.Props.C15', 'Artela.Props.C07Frame', 'Artela.Proofs.GenFacts',
                    'Artela.Props.InterpSafe', 'Artela.Props.InterpTables'],
        'runs': [{'layer': 'journal'}, {'layer': 'precompile'}, {'layer': 'cancun'}, {'layer': 'frame'}, {'layer': 'interp'}, {'layer': 'diff'}],
        'trusted_base': TB_M1 + TB_M2 + TB_M3 + TB_M6 + TB_M9,
        'assumptions': ['inherited instructions OUTSIDE the modelled subset (the world-touching ones: SLOAD/SSTORE, BALANCE, EXT*, LOG, CALL*, CREATE*, SELFDESTRUCT, KECCAK256, BLOCKHASH) are panic-free on an initialised host (identity-checked against go-ethereum v1.12.0 and differentially executed, not modelled)',
                        'Go slices (code, calldata) are shorter than 2^62 bytes',
                        'memory length <= 2^47 (memory expansion gas caps it at 0x1FFFFFFFE0 words)'],
        'partial': 'c03_partial: Artela-added code AND the interpreter loop with its frame-local instructions are modelled and proved panic-free on every extracted table (interp_never_panics); world-touching inherited instructions assumed',
    },
    'C16': {
        'modules': ['Artela.Props.C16', 'Artela.Proofs.GenFacts'],
        'runs': [{'layer': 'tracer'}, {'layer': 'journal'}, {'layer': 'conc'}, {'layer': 'frame'}],
        'trusted_base': TB_M1 + ['Go map iteration order is an explicit adversarial permutation argument of every query that ranges over a map'],
        'assumptions': ['NewEVM allocates a fresh tracer per EVM (generated fact) and no package-level tracer state exists'],
    },
    'C07': {
        'modules': ['Artela.Props.C07', 'Artela.Props.C07Frame', 'Artela.Props.C07Roots'],
        'runs': [{'layer': 'tracer'}, {'layer': 'frame'}],
        'trusted_base': TB_M1,
        'assumptions': ['the frame layer performs no call-tree operation other than SaveCall on entry and the deferred ExitCall'],
    },
}
