"""Per-property registry: Lean modules holding the property theorems, correspondence runs, trusted base."""

LAYER_DEFAULTS = {
    'tracer': {'quick': {'n': 60, 'size': 40, 'shards': 2}, 'thorough': {'n': 400, 'size': 120, 'shards': 16}},
    'journal': {'quick': {'n': 60, 'size': 20, 'shards': 2}, 'thorough': {'n': 400, 'size': 100, 'shards': 16}},
}

TB_M1 = ['vm/tracer.go is modelled by hand (Artela/Model/CallTree.lean, StateChanges.lean); Go maps as insertion-ordered '
         'association lists, pointers as arena ids; tied by the op-sequence correspondence through the exported Tracer API']

TB_M2 = ['vm/instructions.go journal opcodes 0xe0-0xe7 and loadDataFromMem are modelled by hand (Artela/Model/Journal.lean); '
         'tied by executing real bytecode on the real interpreter (every fork, static and non-static) and comparing every '
         'instruction outcome and every tracer query with the model',
         'keccak-256 is an uninterpreted function; the harness supplies digest/preimage pairs and the model fixes the preimage shape',
         'holiman/uint256 and Go slice semantics as modelled in Model/Base.lean and Model/Journal.lean (goSlice, memGetCopy)']

PROPS = {
    'C09': {
        'modules': ['Artela.Props.C09'],
        'runs': [{'layer': 'journal'}],
        'trusted_base': TB_M1 + TB_M2 + ['Solidity storage layout as written in Artela/Spec/Solidity.lean (solPacked, solString) and, independently, in the Go harness (putString)'],
        'assumptions': ['storage words are < 2^256 (common.Hash)', 'Go append returns capacity >= length'],
    },
    'C16': {
        'modules': ['Artela.Props.C16'],
        'runs': [{'layer': 'tracer'}],
        'trusted_base': TB_M1 + ['Go map iteration order is an explicit adversarial permutation argument of every query that ranges over a map'],
        'assumptions': ['NewEVM allocates a fresh tracer per EVM (generated fact) and no package-level tracer state exists'],
    },
    'C07': {
        'modules': ['Artela.Props.C07'],
        'runs': [{'layer': 'tracer'}],
        'trusted_base': TB_M1,
        'assumptions': ['the frame layer performs no call-tree operation other than SaveCall on entry and the deferred ExitCall'],
    },
}
