"""Per-property registry: Lean modules holding the property theorems, correspondence runs, trusted base."""

LAYER_DEFAULTS = {
    'tracer': {'quick': {'n': 60, 'size': 40, 'shards': 2}, 'thorough': {'n': 400, 'size': 120, 'shards': 16}},
}

TB_M1 = ['vm/tracer.go is modelled by hand (Artela/Model/CallTree.lean, StateChanges.lean); Go maps as insertion-ordered '
         'association lists, pointers as arena ids; tied by the op-sequence correspondence through the exported Tracer API']

PROPS = {
    'C16': {
        'modules': ['Artela.Props.C16'],
        'runs': [{'layer': 'tracer'}],
        'trusted_base': TB_M1 + ['Go map iteration order is an explicit adversarial permutation argument of every query that ranges over a map'],
        'assumptions': ['NewEVM allocates a fresh tracer per EVM (generated fact) and no package-level tracer state exists'],
    },
    'C07': {
        'modules': ['Artela.Props.C07'],
        'runs': [{'layer': 'tracer'}],
        'trusted_base': TB_M1,
        'assumptions': ['the frame layer performs no call-tree operation other than SaveCall on entry and the deferred ExitCall'],
    },
}
