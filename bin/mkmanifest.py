#!/usr/bin/env python3
"""Regenerate MANIFEST.json from bin/registry.py + bin/manifest_text.py (kept valid at all times)."""
import json, os, sys
V = os.path.dirname(os.path.dirname(os.path.abspath(__file__)))
sys.path.insert(0, os.path.join(V, 'bin'))
from registry import PROPS
from manifest_text import TEXT, NOT_YET
ids = [json.loads(l)['id'] for l in open(os.path.join(V, 'properties.jsonl'))]
checks, na = [], []
for i in ids:
    if i in PROPS and i in TEXT:
        t = TEXT[i]
        checks.append({
            'property_id': i,
            'quick_cmd': f'bin/check {i} quick',
            'thorough_cmd': f'bin/check {i} thorough',
            'evidence_file': f'/verif/evidence/{i}.json',
            'replay_cmd_template': 'bin/check replay {path}',
            'engine': 'lean4-proof+correspondence',
            'level_claimed': {'category': 'proof', 'text': t['text'], 'design_ref': t.get('ref', 'DESIGN.md §4 ' + i)},
            'level_note': t['note'],
            'technique': t['technique'],
        })
    else:
        na.append({'property_id': i, 'reason': NOT_YET.get(i, 'machinery for this property is not built yet in this revision; see DESIGN.md §4 for the plan')})
m = {
    'version': 1,
    'setup_cmd': 'bin/setup',
    'hooks': {'guard': 'verif', 'enable': 'go build -tags verif (no hook files are needed at present; the tag is reserved)',
              'baseline_off_cmd': 'cd /repo && go test -mod=mod -json -vet=off -count=1 -timeout 25m ./...',
              'source_commits': [], 'add_only': True},
    'engines': [{'name': 'lean4-proof+correspondence', 'path': 'bin/check',
                 'serves_properties': [c['property_id'] for c in checks],
                 'kind_free_text': 'Lean 4 theorems over a hand-written executable model (lean/Artela), tied to /repo on every run by a '
                                   'correspondence check (Go harness in-process vs core-only Lean driver over a line protocol) and by '
                                   'regenerated fact tables closed by decide'}],
    'checks': checks,
    'not_applicable': na,
    'notes': 'See DESIGN.md. known_findings.jsonl lists genuine defects recorded rather than repaired and the fix: commits made.',
}
json.dump(m, open(os.path.join(V, 'MANIFEST.json'), 'w'), indent=1)
print('checks:', len(checks), 'not_applicable:', len(na))
