TEXT = {
 'C09': {
  'text': 'Lean 4 theorems: for EVERY storage word, slot, offset and width the value journal records exactly solPacked (Solidity packed '
          'layout) when (offset,width) is a valid field and rejects otherwise; for EVERY storage function, slot and keccak the reference '
          'journal records exactly solString (any length, any content incl. leading zeros, 31/32 boundary, multi-slot) when the length '
          'word is a valid encoding and rejects otherwise (incl. lengths >= 2^64). The model of the two opcodes is tied to '
          'vm/instructions.go on every run by executing them inside real bytecode and comparing outcome + tracer queries, and the '
          'implementation is additionally compared with the specification functions directly (S solpacked / S solstring lines).',
  'note': 'Trusted: Lean kernel + propext/Classical.choice/Quot.sound; hand-written model of the opcodes (Model/Journal.lean) validated by '
          'correspondence; keccak uninterpreted (digest/preimage pairs supplied by the harness); uint256/Go-slice semantics as modelled.',
  'technique': 'Lean 4 proof of model = Solidity-layout specification for all inputs + model/implementation correspondence on real bytecode',
 },
 'C16': {
  'text': 'Lean 4 proof that every tracer query that ranges over a Go map returns a list independent of the iteration order '
          '(iteration order is an explicit adversarial permutation argument); all other answers are pure functions of the operation '
          'history in the model. Tied to the code by the correspondence check, which keeps the returned order of every list.',
  'note': 'Trusted: Lean kernel + standard axioms; the M1 model of vm/tracer.go; Go randomises map iteration per range statement, '
          'which is what lets repeated correspondence runs expose an order dependence.',
  'technique': 'Lean 4 proof of permutation-invariance (sorting under a total order) + order-preserving correspondence',
 },
 'C07': {
  'text': 'Machine-checked Lean 4 proof that the call-tree well-formedness invariant (dense indices, lookup=index, unique smaller '
          'parent listing each child once in increasing order) holds after EVERY finite history of SaveCall/ExitCall, balanced or '
          'not, and that balanced histories (what a frame emits) close the cursor; the model is tied to vm/tracer.go by an '
          'op-sequence correspondence through the exported API on every run.',
  'note': 'Trusted: Lean kernel; propext/Classical.choice/Quot.sound; the hand-written model of vm/tracer.go CallTree and the '
          'correspondence harness; that the frame layer only calls SaveCall/ExitCall in bracketed form (frame model, C04 run).',
  'technique': 'Lean 4 invariant proof by induction over operation histories + model/implementation correspondence',
 },
}
NOT_YET = {}
