TEXT = {
 'C17': {
  'text': 'PARTIAL proof. Decided by theorem + regenerated facts: (1) no function of package vm writes a package-level variable after init, '
          'mutates a shared 256-bit constant (also through an alias) or takes its address; EnableEIP only ever acts on a deep copy of a table; '
          'stacks are truncated before being pooled; opJump/opJumpi test the abort flag first (all extracted from the source on every run, closed '
          'by decide +kernel); (2) c17_projection: for ANY number of instances and ANY schedule each instance ends in the state it reaches alone; '
          '(3) after Cancel no jump is taken, so every open frame halts within |code|-pc+1 instructions through the ordinary halt path, whose '
          'bookkeeping closure is proved over all event sequences (C07/C03). Search support on every run: 8 goroutines x 3 generated programs on '
          'separate state databases compared with the sequential run (results and full step traces), a goroutine cancelling a looping execution '
          '(top level and nested) at a random moment; thorough tier runs this under the Go race detector.',
  'note': 'What cannot be exhibited by a model and is therefore NOT proved: absence of data races in the Go memory-model sense, behaviour of '
          'sync.Pool / atomic.Bool, concurrent map reads, the Aspect runtime pool of aspect-core. A shared write in a syntactic form the '
          'extractor does not know would escape (1).',
  'technique': 'Lean interleaving theorem + regenerated sharing facts (decide +kernel) + cancellation model; race detector as search support',
 },
 'C01': {
  'text': 'Relational claim decided in three parts. (1) Regenerated facts closed by decide +kernel: every instruction table Frontier..Shanghai '
          'equals go-ethereum v1.12.0\'s outside 0xe0-0xe7 (execute/dynamic-gas/memory-size function names, constant gas, stack bounds), '
          'precompile sets agree outside 0x64-0x66, and every declaration of vm, core/evm.go, tracers/** that is not identical to upstream '
          '(normalised go/ast) is in the hand-modelled delta. (2) Lean theorems on the frame model: the frame functions never read the Artela '
          'tracer or join-point log (replacing them changes nothing else), and a join point with nothing bound leaves gas, return data, error, '
          'world and callbacks exactly as with join points off. (3) Differential execution on every run: generated standard programs '
          '(multi-contract, every call kind, creates, raw bytes, extra EIPs) on fork and upstream EVMs in one process, comparing result, error, '
          'leftover gas, refund, state root, logs and the full step trace.',
  'note': 'Partial: inherited instruction bodies are not modelled (identity-checked + differentially executed). Known finding D18: opcode '
          'names of bytes 0x5c-0x5e/0xb3/0xb4 differ, so the invalid-opcode error text differs for programs executing them before Cancun.',
  'technique': 'regenerated identity/table facts (decide +kernel) + Lean refinement lemmas on the frame delta + differential execution vs go-ethereum',
 },
 'C02': {
  'text': 'Same machinery as C01 with the gas projection: the step trace compared with upstream carries gas before and cost of every '
          'instruction, gas handed to and returned by every frame (enter/exit callbacks), refund and leftover; each case is re-run at gas limits '
          'one below, exactly on and one above sampled intermediate gas values (S upstream-same-gas-sweep). The Lean part proves the frame '
          'functions\' gas rule (tailGas) and that unbound join points hand gas through unchanged; gas functions of instructions are inherited '
          '(identity table).',
  'note': 'Partial as C01: the gas schedule itself is upstream source, identity-checked and differentially executed, not modelled.',
  'technique': 'differential execution with gas-limit sweep + regenerated table facts + Lean gas-rule lemmas',
 },
 'C18': {
  'text': 'Lean: the debug callbacks emitted by the five frame functions are balanced against the open frames after EVERY event sequence - on '
          'every path including refusals and join-point aborts - and all closed once every frame has returned (c18_run_balanced, '
          'c18_all_closed); they do not depend on the Artela tracer and are unchanged by unbound join points (C01 lemmas); without Aspect events '
          'the fork call tracer never creates an Aspect frame (its remaining code is upstream\'s); every inherited tracer declaration is '
          'identical to upstream (regenerated identity table). Runs: full callback streams fork vs upstream on generated programs; call, '
          'flat-call, 4byte, prestate (plain/diff) tracers and the struct logger of both sides on the same executions compared byte for byte, '
          'also on structured call trees with logs at every level (S tracer-same-tree); S balanced on call-tree programs with failing join points.',
  'note': 'Partial: equality of the callback stream and of the inherited tracers\' output with upstream rests on the identity table plus '
          'differential runs (the inherited code is not modelled); log collection of the call tracer is compared with upstream but not '
          'modelled. Known finding D18 (opcode names).',
  'technique': 'Lean invariant on the callback stream over all event sequences + regenerated identity facts + paired tracers on paired implementations',
 },
 'C19': {
  'text': 'Lean 4 theorems on the call-tracer machine (callbacks as events, Go indexing partial): for EVERY event sequence, in either '
          'configuration, the nested tracer never panics (invariant: non-empty stack, valid ids, a frame with a running join point has an Aspect '
          'frame); in the default configuration an accounting invariant holds after every callback sequence (c19_accounting): each call frame is '
          'either on the call stack or listed in exactly one calls list - of a call frame or of an Aspect frame, never both, never twice - and '
          'each Aspect frame is listed under exactly one call frame, so that once all calls have returned every frame and every Aspect '
          'execution appears exactly once (c19_every_frame_exactly_once); a returning call is filed under the Aspect frame running on its '
          'parent if any, else under the parent; an Aspect exit is recorded on the Aspect frame entered last on the current call with its own '
          'gas used, output and error. Flat tracer: flatFromNested/flatAspectNested are transcribed index for index (Model/FlatTracer.lean) and proved '
          'equal to the pre-order flattening of the tree with children ordered pre-Aspects, calls, post-Aspects whenever on every frame the '
          'pre-call Aspect frames precede the post-call ones (goFlat_eq_flat; the hypothesis is necessary - a two-Aspect witness with '
          'colliding addresses is proved - and the driver evaluates it on every stream); hence one entry per node, pairwise distinct and '
          'prefix-closed trace addresses, subtraces = number of emitted children (c19_flat_*). Every run feeds streams '
          'generated from the property\'s tree grammar (several Aspects per join point, calls from inside Aspects, all frame kinds, precompile '
          'targets) to the real callTracer and flatCallTracer (onlyTopCall, includePrecompiles) and compares GetResult() with the model, with the '
          'rendering of the generating tree (S ctrender) and with the flat invariants: subtraces = emitted children, addresses unique and '
          'prefix-closed (S ctflatinv).',
  'note': 'Partial: the JSON rendering, parity error conversion and the precompile filtering of the flat tracer are modelled and compared (also against the generating tree: S ctrender, S ctflatinv, S ctflatown) but carry no theorem of their own; the exactly-once accounting is proved for the default configuration (onlyTopCall skips nested frames by design). Fixed defects D13a-c, D17.',
  'technique': 'Lean no-panic and exactly-once accounting invariants over all callback sequences + tree-grammar correspondence with independent rendering',
 },
 'C04': {
  'text': 'Lean 4 theorem over the frame machine (a statement-by-statement model of EVM.Call/CallCode/DelegateCall/StaticCall/create run on an '
          'ARBITRARY sequence of interpreter events, environment answers and join-point outcomes): every call frame that ends in an error leaves '
          'the world (the StateDB journal of effects) exactly as at its entry; a failed create leaves it as at its snapshot; effects made before a '
          'frame survive it; the snapshots of all open frames stay valid prefixes (invariant proved by induction over events). Tied by running '
          'generated call-tree programs (all call kinds, creates, value transfers, reverts, INVALID, mock Aspects failing at every position, repeated '
          'top-level calls) on the real EVM: the harness logger turns the run into the event stream, the model predicts tree, callbacks, surviving '
          'effects; an independent S atomic check compares final storage and balances with the effects of frames that succeeded all the way up.',
  'note': 'Trusted: Lean kernel + standard axioms; hand-written frame model validated by correspondence; the StateDB revision contract; the '
          'inherited interpreter (not modelled - it is the event source). Fixed defect D1 (pre-join-point failure skipped the revert).',
  'technique': 'Lean 4 invariant proof by induction over interpreter-event histories + call-tree program correspondence',
 },
 'C05': {
  'text': 'Lean 4 theorems on the frame model: EVM.Call appends exactly one pre record iff the call passes the checks, targets code (not a '
          'precompile, not code-less) and join points are on - with this call\'s caller, callee, calldata (any length incl. empty), value, supplied '
          'gas and the index of the node pushed for this call; a failing pre join point opens no frame (no code, no post); when a frame\'s '
          'interpreter returns exactly one post record is appended iff it is a contract call whose pre ran, carrying the interpreter\'s gas, return '
          'data and error text; other frame kinds never touch the log. Tied by mock Aspects that decode the protobuf request they receive; an '
          'independent S jp check verifies order relative to the callee\'s first/last instruction.',
  'note': 'Reading: a message call that runs contract code = EVM.Call reaching non-empty code of a non-precompile. Global LIFO nesting follows '
          'from the stack discipline of the machine (posts are emitted when the innermost frame is popped) and is checked on real runs, not '
          'stated as one global theorem. Fixed defect D16 (empty calldata made the join-point request unmarshalable).',
  'technique': 'Lean 4 exact characterisation of the join-point log per frame function + correspondence with request-decoding mock Aspects',
 },
 'C06': {
  'text': 'Lean 4 theorems on the frame model: the caller gets back tailGas(post.gas, final error) - exactly what the post join point left on '
          'success or revert, nothing otherwise; an out-of-gas join-point failure becomes the EVM\'s own out-of-gas error with no gas; any other '
          'non-revert failure forfeits the gas; a failing pre join point is subject to the same rule; the callee\'s interpreter starts '
          'with exactly what the pre join point left (c06_callee_start_gas); for EVERY event sequence in which no join point, precompile or '
          'interpreter run hands back more gas than it received, every invocation of every frame function returns at most the gas it was '
          'supplied with (c06_no_frame_creates_gas, invariant by induction over events). Tied by mock Aspects burning 0/1/777/5000/all gas and '
          'failing in four ways at both join points; S gas checks callee start gas, returned gas and error against the join-point log.',
  'note': 'An Aspect revert produced by the real runtime is aspect-core\'s own error value, not the EVM sentinel, so the code treats it as a '
          'generic failure (gas forfeited); model and harness compare errors as Go does (identity). Fixed defect D1.',
  'technique': 'Lean 4 proof of the gas equations of prologue/epilogue for all join-point outcomes + gas-burning mock correspondence',
 },
 'C08': {
  'text': 'Lean 4 theorems: every Call/create invocation - refused or not - pushes exactly one node at the next index with the inputs as '
          'made, and after EVERY event sequence the number of recorded nodes equals the number of Call/create invocations made - '
          'CallCode/DelegateCall/StaticCall, epilogues, effects and journal instructions add none (c08_one_node_per_attempt); no later tracer operation alters a node\'s inputs, index or parent (Stable, for every continuation); the exit writes exactly the '
          'triple handed back to the caller on the cursor node and on no other; the parent of a new node is the node of the innermost CALL/CREATE '
          'frame in progress (from the cursor invariant proved over all event sequences). Tied by call-tree programs that overwrite the argument '
          'area after calls; S node compares every node after the whole transaction with bytes captured at the moment of the call.',
  'note': 'That the implementation stores a copy of the calldata rather than a view of caller memory is a property of Go slices checked by the '
          'correspondence (fixed defect D11), not expressible in the value-based model.',
  'technique': 'Lean 4 invariant (cursor = innermost node frame) + immutability lemmas + post-transaction node comparison',
 },
 'C11': {
  'text': 'Lean 4 theorems on the model of the key tree + flat index exactly as coded. For EVERY history in which no registration '
          'conflicts with an earlier one (top-level and nested registrations under any registered parent, exact re-registrations, refused registrations, change '
          'journals; conflict-freedom is an explicit predicate with a sound executable test) a global invariant holds '
          '(c11_conflict_free_agree): every flat-index entry denotes a node carrying that (slot, offset, type) and reachable by a name '
          'path from its account\'s root, every node reachable by a name path is its account\'s index entry for its own coordinates, '
          'and no node belongs to two accounts - so lookup by path and lookup by slot reach the same record and return the same change set '
          '(c11_by_path_then_by_slot, c11_by_slot_then_by_path, c11_same_changes). For every state: a refused registration/change leaves '
          'the state equal; an accepted change modifies exactly the node the slot lookup returns with the append-unless-repeat law; child '
          'names are exactly those registered. The full property is kept as c11_full and its NEGATION is proved (three-operation '
          'witnesses for each conflict class): known finding D14. Every run replays random histories over a small alphabet through the '
          'exported API, compares every accessor with the model, and probes each accepted registration (S both-see): non-conflicting ones '
          'must be seen by both lookups.',
  'note': 'Partial because the property is false as stated (D14): agreement is proved for all conflict-free histories; an exact re-registration is proved '
          'idempotent (c11_reregistration_idempotent: no lookup changes its answer); the conflict classes '
          '(same name/other key, shared slot+offset/other type, same key/other path, child of a conflicted parent) are reported as '
          'KNOWN-FINDING D14, any other disagreement is a violation.',
  'technique': 'Lean 4 global invariant over all conflict-free histories + proved negation witnesses + op-sequence correspondence with per-registration probes',
 },
 'C10': {
  'text': 'Lean 4 theorems. Tracer: a change is filed under the call-tree cursor and the account passed in; it modifies exactly one key '
          'node, leaving every other node, the flat index and the roots untouched; the list of a record per call is the chronological '
          'sequence with immediate repeats collapsed (c10_list_is_collapsed_history), other calls\' lists untouched, nothing removed. Frame '
          'machine, every event sequence: the frame opened by Call/StaticCall/create runs in the callee\'s / new contract\'s storage '
          'context, CallCode/DelegateCall frames in the CALLER\'s, and a journal instruction passes exactly that address '
          '(c10_*_frame_account, c10_journal_passes_frame_account); the entry is filed under the node of the innermost CALL/CREATE frame in '
          'progress however many node-less frames sit on top (c10_filed_under_innermost_node_frame); no epilogue - also of a failing frame - '
          'touches recorded entries (c13_halt_silent). Tied by op-sequence correspondence on the exported tracer API, journal opcodes in '
          'real frames, call-tree programs with journal instructions in every frame kind, and S attributed (the list law checked on the '
          'implementation alone around every accepted change).',
  'note': 'Trusted: Lean kernel + standard axioms; tracer, journal and frame models validated by correspondence; that the opcodes pass '
          'scope.Contract.Address() is what the frame model calls the storage address of the frame (compared on every frame-layer run).',
  'technique': 'Lean 4 proofs: list law by induction over journaled values, account/index attribution over all event sequences of the frame machine + correspondence',
 },
 'C13': {
  'text': 'Lean 4 theorems. Tracer: TransferWithRecord files before-from, before-to, after-from, after-to in that order under the cursor '
          'index, each touching only the root record of that account with the append-unless-repeat law (self-transfers and zero values '
          'collapse as stated); roots stay roots. Frame machine, every event sequence: EVM.Call files exactly one such bracket - under the '
          'index of the node pushed for this very call - iff it gets past the depth check, the balance check and the non-existing-account '
          'shortcut (also when the callee is a precompile, code-less, or its pre join point then fails); create iff it gets past depth, '
          'balance, nonce and collision checks; CallCode/DelegateCall/StaticCall, every epilogue (also of a frame that reverts) and every '
          'world effect leave the balance journal untouched (c13_call_records_once, c13_create_records_once, c13_other_kinds_silent, '
          'c13_halt_silent, c13_effect_silent). Tied by real transfers on a real StateDB through the exported API and by call-tree programs; '
          'S balshadow (tracer and frame layers) compares the journal with what the harness\' own Transfer wrapper observed.',
  'note': 'Trusted: Lean kernel + standard axioms; tracer and frame models validated by correspondence. "Equal to the real state balances" '
          'holds by construction of TransferWithRecord (it reads the StateDB around the host Transfer) and is checked on the implementation '
          'by S balshadow; SELFDESTRUCT moves funds without a call frame and is outside the property\'s "on entering a CALL or CREATE frame".',
  'technique': 'Lean 4 proofs: order/index/list law of the bracket + exactly-the-transfers over all event sequences of the frame machine + correspondence with independently observed balances',
 },
 'C15': {
  'text': 'Lean 4 theorems over mcopyStep (one interpreter step on MCOPY with exact uint64 arithmetic): whenever the step succeeds, for EVERY '
          '(dst, src, len) the new memory size is EIP-5656\'s, every byte is the overlap-safe memmove of the zero-extended old memory, the cost '
          'is 3 + 3*ceil(len/32) + expansion, and the interpreter invariant is kept; zero length is a no-op with any offsets; operands >= 2^64 '
          'or wrapping sums fail in the out-of-gas class; the step never panics. TSTORE is refused in static context before touching the store, '
          'a store is read back at the same (address,key) only, a failing frame leaves transient storage as at entry. The opcode bytes are '
          'defined exactly in the Cancun table (regenerated, decide +kernel). Tied by real bytecode on a Cancun configuration.',
  'note': 'Trusted: Lean kernel + standard axioms; hand-written model of the listed functions validated by correspondence; extractor; the '
          'StateDB contract for transient storage (journaled, emptied by Prepare) - exercised through go-ethereum\'s state.StateDB.',
  'technique': 'Lean 4 proof of model = EIP specification for all operands (exact uint64 arithmetic) + instruction-level correspondence',
 },
 'C14': {
  'text': 'Lean 4 theorems: loadParamBytes returns exactly the ABI bytes value (abiBytes, written without machine arithmetic) for EVERY '
          'payload, head and length word (incl. >= 2^63, >= 2^64-32, 2^256-1) and an error otherwise - never a panic; 0x66 calls the host with '
          'exactly (ctx.from, key, value) or rejects without host call; without execution context (CALLCODE/DELEGATECALL/STATICCALL) it is '
          'refused; a write can only be made under ctx.from (c14_attribution); 0x64/0x65 pass exactly (address,key) / the 32-byte hash; fee '
          '5000 charged first. Fork gate, table membership and fee are regenerated from the running code and closed by decide +kernel. '
          'Tied by direct runs of the exported table entries and by real bytecode with every call kind at depth 1-3 around Berlin.',
  'note': 'Trusted: Lean kernel + standard axioms; hand-written model of the three precompiles validated by correspondence; extractor; '
          'the mapping scenario -> expected ctx.from (storage address of the frame issuing the CALL) is computed by the harness from the '
          'scenario definition. Frame-level attribution inside EVM.Call (CloneWithCtx arguments) is covered by the bytecode runs.',
  'technique': 'Lean 4 proof of decoder = ABI specification for all byte strings + host-call correspondence through every call kind',
 },
 'C12': {
  'text': 'Lean 4 theorems over the one-step machine Journal.step: with well-formed operands the successor state is the old state with '
          'arity operands popped, pc+1, fee 800 deducted, tracer updated and memory, return data, static flag and world EQUAL; the step never '
          'reads the static flag; malformed operands halt. The entries 0xe0-0xe7 of all 13 instruction tables and 9 extra-EIP variants '
          'are regenerated from the running code on every run and proved equal to the expected rows (constantGas 0, flat-fee closure, '
          'no memorySize, min/max stack = pops arity) by decide +kernel; the closure body is extracted and proved to be a single constant '
          'return. Tied by executing the opcodes in real bytecode on every fork, static and non-static, and comparing pops, memory size, '
          'cost, pc and return-data buffer per step.',
  'note': 'Trusted: Lean kernel + standard axioms; model of the opcodes; extractor; that the inherited interpreter loop is upstream\'s '
          '(generated identity table). Program-level pair runs (journal op vs POPs) are not built; the per-step statement is what is proved.',
  'technique': 'Lean 4 proof over a one-step machine model + regenerated instruction-table facts (decide +kernel) + per-step correspondence',
 },
 'C20': {
  'text': 'Lean 4 model with a work counter (storage reads, bytes copied, bytes allocated). Proved for all inputs: value journal <= 1 read; '
          'value-keyed registrations do no work; memory-keyed registrations copy <= 32+|memory|; reference journal reads 1+ceil(len/32) '
          'slots. The full property (work <= K*fee for a fixed K) is kept as c20_full and its NEGATION is proved (witness: one storage '
          'word, any K < 2^48): known findings D5/D7. The implementation\'s read counts are compared with the model\'s on every run and '
          'large length fields (2^10..2^20) are run against the K=16 bound.',
  'note': 'Partial: inherited instructions and precompiles 1-9 are bounded by upstream\'s gas schedule (not modelled). Known findings D5 '
          '(VRJNAL unbounded reads for a flat fee) and D7 (key journals copy attacker-sized memory for a flat fee) are reported as KNOWN-FINDING.',
  'technique': 'Lean 4 proof of work bounds on a cost-instrumented model + negation witness + counting-StateDB correspondence',
 },
 'C03': {
  'text': 'Lean 4 theorem: for every journal opcode, operand tuple, memory content/capacity, storage function and keccak the modelled '
          'instruction returns a result or an error, never the panic outcome (all Go partial operations - slice expressions, make, '
          'Memory.GetCopy - are partial in the model). Tied by running the opcodes in real bytecode under recover() with boundary-driven '
          'operands (0, 31/32/33, 2^63, 2^64-32, 2^64, 2^256-1) and comparing the outcome class with the model; the call-tree cursor is '
          'checked at rest after every run.',
  'note': 'Partial (c03_partial): Artela-added code is modelled; inherited instruction bodies are identity-checked against go-ethereum '
          'v1.12.0 and assumed panic-free on an initialised host. Precompile, MCOPY, call-tracer and frame-bookkeeping parts are added as '
          'their model layers land (see registry).',
  'technique': 'Lean 4 proof of panic-freedom on a model with partial Go operations + outcome-class correspondence under recover()',
 },
 'C09': {
  'text': 'Lean 4 theorems: for EVERY storage word, slot, offset and width the value journal records exactly solPacked (Solidity packed '
          'layout) when (offset,width) is a valid field and rejects otherwise; for EVERY storage function, slot and keccak the reference '
          'journal records exactly solString (any length, any content incl. leading zeros, 31/32 boundary, multi-slot) when the length '
          'word is a valid encoding and rejects otherwise (incl. lengths >= 2^64). The model of the two opcodes is tied to '
          'vm/instructions.go on every run by executing them inside real bytecode and comparing outcome + tracer queries, and the '
          'implementation is additionally compared with the specification functions directly (S solpacked / S solstring lines).',
  'note': 'Trusted: Lean kernel + propext/Classical.choice/Quot.sound; hand-written model of the opcodes (Model/Journal.lean) validated by '
          'correspondence; keccak uninterpreted (digest/preimage pairs supplied by the harness); uint256/Go-slice semantics as modelled.',
  'technique': 'Lean 4 proof of model = Solidity-layout specification for all inputs + model/implementation correspondence on real bytecode',
 },
 'C16': {
  'text': 'Lean 4 proof that every tracer query that ranges over a Go map returns a list independent of the iteration order '
          '(iteration order is an explicit adversarial permutation argument); all other answers are pure functions of the operation '
          'history in the model. Tied to the code by the correspondence check, which keeps the returned order of every list.',
  'note': 'Trusted: Lean kernel + standard axioms; the M1 model of vm/tracer.go; Go randomises map iteration per range statement, '
          'which is what lets repeated correspondence runs expose an order dependence.',
  'technique': 'Lean 4 proof of permutation-invariance (sorting under a total order) + order-preserving correspondence',
 },
 'C07': {
  'text': 'Machine-checked Lean 4 proofs. Tracer: the call-tree well-formedness invariant (dense indices, lookup=index, unique smaller '
          'parent listing each child once in increasing order) holds after EVERY finite history of SaveCall/ExitCall, balanced or not; '
          'balanced histories close the cursor. Frame machine, every event sequence (any program, refusal, exceptional halt, join-point '
          'failure, any number of successive top-level invocations): the recorded tree is well formed after every prefix, the cursor is '
          'the node of the innermost CALL/CREATE frame in progress and is at rest whenever every frame has returned '
          '(c07_tree_wf_always, c07_cursor_is_innermost_node_frame, c07_closed_when_stack_empty), and the parentless nodes are exactly '
          'the invocations made while no CALL/CREATE frame was open (c07_roots_are_top_level). Tied to vm/tracer.go by op-sequence '
          'correspondence through the exported API and to vm/evm.go by call-tree programs; S wf checks the property\'s conditions, '
          'including the number of parentless nodes, on the real structure after every run.',
  'note': 'Trusted: Lean kernel; propext/Classical.choice/Quot.sound; the hand-written models of vm/tracer.go CallTree and of the frame '
          'functions of vm/evm.go, validated by correspondence.',
  'technique': 'Lean 4 invariant proofs by induction over operation histories and over event sequences of the frame machine + correspondence',
 },
}
NOT_YET = {}

# additions made when specification lines were added (kept as appends so that the long literals above stay untouched)
TEXT['C12']['text'] += (' Program level: S pops-same runs every program whose journal instructions all succeed against the same program with POPs in '
                        'their place (same end, memory size, return data; gas differs by exactly (800 - 2 x operands) per instruction); S jran runs '
                        'programs just below the stack limit (a journal instruction never fails on a stack bound and every one of them is reached).')
TEXT['C12']['note'] = TEXT['C12']['note'].replace('Program-level pair runs (journal op vs POPs) are not built; the per-step statement is what is proved.',
                                                    'The per-step statement is what is proved; the program-level pair runs are specification lines.')
TEXT['C09']['text'] += (' S solstring-sequence journals several string variables in one frame, the longest first, and requires every record to still hold '
                        'what its variable held when it was journaled.')
TEXT['C15']['text'] += (' S memmove compares with the memmove specification, S tstore-static states the static-context rule on the step trace (also for '
                        'stores of the value a slot already holds), S gate the fork gate.')
TEXT['C20']['text'] += (' S workbound charges storage reads, bytes copied into the tracer and memory the instruction makes the frame allocate against the '
                        'K=16 bound (length fields 2^10..2^20, far pointers 2^14..2^24) and names the cause in its verdict, so that the recorded findings '
                        'D5/D7 do not cover a different cause; S stdwork measures the bytes each inherited precompile allocates against the gas it must be '
                        'paid (search support).')
TEXT['C13']['text'] += (' "No balance entry exists that does not correspond to such an observation": over every event sequence of the frame machine the '
                        'invariant RootsApart holds (roots are root-typed arena nodes; neither the flat index nor any children map names a root-typed '
                        'node), hence no journal instruction - registration or change, accepted or refused, conflicting or not - alters any '
                        'account\'s balance record (c13_journal_never_touches_balances), and only the two transferring prologues write them '
                        '(c13_only_transfers_write_balances).')
TEXT['C19']['text'] += (' In the frame layer a real callTracer / flatCallTracer rides along every single-transaction execution with mock Aspects: it '
                        'receives the debug callbacks and the Aspect callbacks that aspect-core itself emits, and its result is compared with the '
                        'call-tracer machine run on the same callbacks (this is how D19 was found).')
TEXT['C08']['text'] += (' S node also reads the leftover gas of every attempt made by an instruction - accepted or refused up front - off the ISSUING '
                        'frame\'s own gas around the instruction and requires the node to record exactly that.')
TEXT['C16']['text'] += (' Search support on every run: S det replays every tracer history six times and every fifth call-tree program (calls of all '
                        'kinds, creates, mock Aspects, real call tracer attached) on a fresh EVM and state, comparing all emitted lines; S det-interleaved '
                        'runs one subject execution between every sequence of one or two unrelated executions that share its chain configuration value, '
                        'height and time; the global-write table (regenerated, decide +kernel) lists every write to a package-level variable, including '
                        'state-changing methods of sync/atomic types.')

# additions for the interpreter-loop layer M9 (Model/Interp.lean) and the interp correspondence layer
TEXT['C03']['text'] += (' Interpreter loop: EVMInterpreter.Run and the frame-local instructions (arithmetic, comparison, bitwise, stack, memory, copy, '
                        'jump, push/dup/swap, environment pushes, RETURN/REVERT/STOP, MCOPY) are modelled with Go\'s partial operations partial '
                        '(Stack.pop/Back/dup/swap on a short stack, Memory.Set/Set32/GetPtr beyond the store, slice expressions, getData); theorem '
                        'interp_never_panics: on every one of the 22 instruction tables extracted from the running code, for every program, calldata, '
                        'stack, gas, memory content and run length, no iteration panics (the stack floors of the table cover every operand the execute, '
                        'dynamic-gas and memory-size functions touch; a memory instruction runs only after Resize has covered its range; memory stays '
                        'below the 0x1FFFFFFFE0 ceiling). Tied by the interp layer: generated programs on the real loop on every fork, compared step by '
                        'step (pc, opcode, gas, stack height and top two words, memory size) and by result. Tracers: S tracer-no-panic runs the native '
                        'tracers on generated executions under recover().')
TEXT['C12']['text'] += (' Theorem over whole runs (run_pops_same): for every program, table, input, world and number of iterations, the run with journal '
                        'instructions and the run in which each journal instruction only pops its operands (and pays the fee) go through states that '
                        'agree in stack, memory, pc, gas, return data and world, and reach the same stop/return/revert with the same gas and data; the '
                        'pops run never touches the tracer (runPops_tr). The interp layer runs journal programs (registrations and change journals over '
                        'prepared storage and memory, followed by ordinary code) on the real loop against this model.')
TEXT['C20']['text'] += (' Interpreter loop (interp_work_bounded_by_gas): on every extracted table every continuing iteration costs at least one unit of gas '
                        '(constant fee >= 1, or EXP\'s floor of 10, or the journal fee), hence a frame given g gas executes at most g+1 instructions.')
TEXT['C17']['text'] += (' Interpreter loop (interp_cancel_stops): on every extracted table, with the abort flag set the program counter strictly increases '
                        'at every continuing iteration (JUMP/JUMPI test the flag first), so the frame stops within |code| - pc + 1 instructions whatever '
                        'the program, stack, memory and gas.')
TEXT['C02']['text'] += (' The loop model (Model/Interp.lean) reproduces gas before every instruction and the leftover gas of the frame for the frame-local '
                        'instruction set on every fork (interp layer, compared step by step); theorem run_gas: no iteration and no run leaves more gas than '
                        'it found.')
TEXT['C06']['text'] += (' Inside a frame (run_gas): the interpreter loop over the frame-local instruction set never ends or continues with more gas than it '
                        'started with, for every program and table.')
TEXT['C20']['text'] += (' Work of the frame-local instructions (interp_work_per_gas, Props/InterpWork.lean): with work counted in 32-byte words - memory '
                        'an iteration makes the frame allocate and zero, bytes copied by CALLDATACOPY/CODECOPY (twice: padded source and copy), '
                        'RETURNDATACOPY and MCOPY, the word multiplications of EXP (16 per exponent byte), one or two words for everything else - every '
                        'iteration does at most 2 x (gas charged) + 1 word operations on every extracted table (a copy instruction must be wired to the '
                        'copier gas function, EXP to an EXP gas function: rowWork, decided over all 22 tables), hence a frame given g gas does at most '
                        '2g + n over n iterations, at most 3g + 1 in all. The memory invariant used (whole words, lastGasCost = fee of the current size) is '
                        'proved preserved. Inherited precompiles: S stdgas compares RequiredGas of every standard precompile with go-ethereum v1.12.0\'s on '
                        'structured inputs (MODEXP exponents with zero / one-bit / all-ones heads and long tails, BLAKE2F round counts, hash lengths either '
                        'side of a word): what they do is go-ethereum\'s (identity fact), so asking go-ethereum\'s price bounds it.')
TEXT['C03']['text'] += (' The reference journal refuses a string length above 2^64 - 32 (repair D21): the model computes the slot count as the code does, '
                        '(length + 31) / 32 in uint64 arithmetic (c09_slotcount_wraps shows the wrap the guard excludes).')
TEXT['C09']['text'] += (' "At the moment of journaling" across frames: in the frame layer the variables are written before they are journaled, by nested '
                        'frames with the same storage context (CALLCODE / DELEGATECALL / re-entrant CALL) that succeed or are rolled back, and S jattr '
                        'requires every recorded value to be the word the real StateDB held when the instruction executed.')
TEXT['C10']['text'] += (' S jattr (frame layer): from the enter/halt callbacks alone the harness computes, for every journaled change, the index of the '
                        'innermost CALL/CREATE frame executing at that moment (refused attempts count as nodes; CALLCODE / DELEGATECALL / STATICCALL frames '
                        'do not) and the account whose storage the code operates on, and requires the recorded map to be exactly that.')
TEXT['C04']['text'] += (' S atomic-accounts: accounts that exist empty before the transaction (at the precompile addresses the programs call) and to which no '
                        'frame that succeeded all the way up was addressed must survive the end-of-transaction clean-up of touched empty accounts; '
                        'creations that succeed up to returning 0xEF code under London rules, and precompile frames failing for want of gas, are frequent '
                        'in the generated programs.')
TEXT['C06']['text'] += (' S gas also requires an out-of-gas join point to surface as the EVM\'s own error VALUE (vm.ErrOutOfGas), not merely as an error '
                        'with that text: the mock runtime reports gas exhaustion with a value of its own, as the real runtime does.')
TEXT['C17']['text'] += (' Cancellation is exercised on a loop in the top-level frame, one call down, in the init code of a nested CREATE and in a top-level '
                        'creation, with a counting debug tracer attached: after Cancel the depth is 0, the call tree is closed and start/end, enter/exit '
                        'callbacks are balanced.')
TEXT['C14']['text'] += (' Payloads include valid encodings whose byte strings are not padded to whole words (every length modulo 32) and canonical encodings '
                        'behind a few stray bytes.')
TEXT['C19']['text'] += (' SELFDESTRUCT frames (suicide entries of the flat tracer) are leaves of the generated trees.')
TEXT['C01']['text'] += (' Interpreter loop (interp_tracer_invisible, Props/InterpJournal.lean + InterpTables.lean): on every instruction table of '
                        'go-ethereum v1.12.0 - to which the fork\'s tables are equal outside 0xe0-0xe7 - a run of the loop model from two states that differ '
                        'in the Artela tracer only gives, for every program, input and iteration count, results that differ in the tracer only: over the '
                        'standard instruction set the state-change tracer and call-tree recorder cannot influence execution.')
TEXT['C04']['text'] += (' S atomic-nonces: the nonce increment of a creation belongs to the frame that issued it (the host, for a top-level creation) and '
                        'shares that frame\'s fate, not the creation\'s; the expected nonce of every pre-existing account is computed from the callbacks.')
TEXT['C12']['text'] += (' S halt-no-data: a journal program that halts exceptionally hands no return data back.')
TEXT['C15']['text'] += (' In the loop model (M9) TLOAD / TSTORE read and write a transient store that is part of the world, with the static-context test '
                        'before the pops; the interp layer runs stores and loads of equal and different keys on every fork (undefined bytes before Cancun).')
TEXT['C18']['text'] += (' Access-list tracer (M10, Props/C18Acl.lean): NewAccessListTracer and CaptureState are modelled; for every exclusion set, '
                        'prior list and run every storage key of the prior list is in the result (acl_prior_slots_final), nothing is ever removed '
                        '(acl_run_mono), an excluded account is listed only with one of its slots (acl_excluded_only_by_slot), accounts are listed once '
                        '(acl_nodup). The real tracer is built from random prior lists (sender, recipient, precompiles, with and without keys), a recorder '
                        'notes what each CaptureState is shown and the model replays it (AL lines); the same runs compare it, the JSON logger (every '
                        'configuration switch), muxTracer and noopTracer with go-ethereum v1.12.0\'s. Call spines 4-10 levels deep with sibling calls at '
                        'every level are run under the call and flat-call tracers (S tracer-same-spine).')
TEXT['C01']['text'] += (' Standard precompiles: MODEXP is modelled (M11, Props/Modexp.lean: run_spec - the output is base^exp mod m in exactly modLen '
                        'bytes, 0 for a zero modulus; powMod_eq) and compared with the table entries of Byzantium/Istanbul/Berlin (MX lines); the results of all '
                        'precompiles 1-9 are compared with go-ethereum\'s on structured inputs whenever the price is payable (S stdrun).')
TEXT['C02']['text'] += (' MODEXP\'s price is modelled in big-integer arithmetic with the 64-bit cut and the EIP-2565 minimum (M11: requiredGas_total, '
                        'cap2565_ge, cap64_ge, priceOf_min) and compared with the code on inputs that include header-only length words whose price is a '
                        'power of two or just above a multiple of 2^64. Differential cases start 15 % of the time with a self-destruct series (refund '
                        'rules of Istanbul/Berlin/London).')
TEXT['C20']['text'] += (' MODEXP (M11): the 64-bit cut of the big-integer price charges at least min(price, 2^64-1) (cap2565_ge, cap64_ge), so a price is '
                        'never sold for its low bits; MX lines compare the modelled price with the code.')
TEXT['C17']['text'] += (' Artela precompiles under concurrency: 24 instances (own state database, own sender, own forwarder addresses) call 0x64-0x66 '
                        'through CALL/CALLCODE/DELEGATECALL/STATICCALL chains with 4999, 5000 or ample gas at the same time, three rounds; every '
                        'instance is compared with the precompile model (PB lines: result, host call, attribution) and with its sequential run '
                        '(S conc-artela-same). The host mock\'s answers and log travel in the call\'s context.Context.')
TEXT['C15']['text'] += (' S stackbounds: TLOAD / TSTORE / MCOPY at stack heights 0-4 and 1021-1024 must underflow, run or overflow as their arities '
                        '(1->1, 2->0, 3->0) say - the loop model takes its bounds from the regenerated rows and cannot notice a wrong row.')
TEXT['C11']['text'] += (' S path-resolves: a name/index path resolves only if a registration with exactly that path was accepted (computed from the '
                        'history); the alphabet has paths whose byte concatenations coincide ("a"+"b" / "ab", ""+{1} / {1}, an empty index key).')
TEXT['C10']['text'] += (' S solstring-sequence (journal layer): after several reference journals in one frame every record still holds what was '
                        'journaled for it (a later journal must not alter an earlier record).')
TEXT['C09']['text'] += (' VVJNAL operands of the form 2^64*m + small (a valid low half under an invalid word) are generated for offset and width.')
TEXT['C18']['text'] += (' The access-list tracer is characterised exactly: acl_spec_slots / acl_spec_addrs state which slots and accounts are listed '
                        'after construction from any prior list and any run, as an iff.')
TEXT['C16']['text'] += (' S recorded-stable (concurrency layer): the call tree (calldata, return data, remaining gas, error of every call) and the bytes '
                        'returned to the embedder by a finished instance are rendered, other instances run on their own state databases, and the '
                        'rendering must not have changed.')
TEXT['C04']['text'] += (' A failure returned by the (mock) Aspect at the post-call join point counts as a failure of that frame in S atomic, whatever '
                        'error the frame itself reported: its effects must be gone and the caller must have seen a failure.')
TEXT['C06']['text'] += (' Top-level gas limits of 2^63-1, 2^63, 2^63+12345, 2^64-8 and 2^64-1 are drawn 12 % of the time (the Aspect runtime meters in int64).')
TEXT['C10']['text'] += (' Creations with EMPTY init code (the interpreter returns at once) followed by a journaled change of the creating frame are generated.')
TEXT['C03']['text'] += (' Interp programs end, 20 % of the time, in a PUSH opcode without operand bytes at a chosen code length modulo 8, and 30 % start '
                        'with a taken jump, so that the jump-destination analysis (lazy, with slack bytes for a trailing PUSH32) runs on them.')
TEXT['C02']['text'] += (' Differential programs call one of the precompiles 1-4 (absent from the pre-state) first with too little gas and then with enough: '
                        'before EIP-158 the second call must still pay for creating the account.')
TEXT['C15']['text'] += (' S flatfee: TLOAD / TSTORE after their operand pushes under gas limits either side of the fee and either side of the 2300 '
                        'stipend - 100 gas flat, no sentry (EIP-1153).')
TEXT['C01']['text'] += (' The differential pre-state keeps one account that exists empty; it is a call target and 12 % of cases begin with zero-value '
                        'calls to it followed by a short program, so that its deletion (EIP-161 touch) shows in the state root.')
TEXT['C14']['text'] += (' A payload class puts 2^64 - k (k up to the start of the data + 8) into the key or value LENGTH word.')
TEXT['C03']['text'] += (' S depth-at-rest: when the step callbacks and the frames seen disagree about the depth, the EVM\'s own depth counter is read '
                        'and must be 0 after the transaction. MODEXP pricing never panics (requiredGas_total).')
TEXT['C17']['text'] += (' S conc-journal: 8 instances journal 2-3 strings of 32-100 bytes 150 times each, alone and then together; every instance '
                        'must record what its own storage holds.')
