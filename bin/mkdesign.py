#!/usr/bin/env python3
"""Assemble /verif/DESIGN.md from docs/*.md and from the registry, manifest texts, theorem names and seeded results,
so that the per-property section (§4) and the seeded-change table (§7) cannot drift from what is built."""
import glob
import json
import os
import re
import sys

HERE = os.path.dirname(os.path.abspath(__file__))
VERIF = os.path.dirname(HERE)
sys.path.insert(0, HERE)
import registry  # noqa: E402
import manifest_text  # noqa: E402


def frag(name):
    return open(os.path.join(VERIF, 'docs', name)).read().rstrip('\n') + '\n\n'


def strip_comments(s):
    s = re.sub(r'/-.*?-/', '', s, flags=re.S)
    return re.sub(r'--.*', '', s)


def theorems(mod):
    p = os.path.join(VERIF, 'lean', mod.replace('.', '/') + '.lean')
    src = strip_comments(open(p).read())
    return re.findall(r'^theorem\s+([A-Za-z0-9_.\']+)', src, flags=re.M)


def spec_lines():
    """tag -> set of (layer file, S line) from the harness sources"""
    out = {}
    for f in glob.glob(os.path.join(VERIF, 'go', 'layer_*.go')):
        layer = os.path.basename(f)[6:-3]
        for tags, op in re.findall(r'em\.Op\("([^"]*)",\s*(?:fmt\.Sprintf\()?"(S [a-z-]+)', open(f).read()):
            for t in tags.split(','):
                out.setdefault(t, set()).add((layer, op))
    return out


def main():
    props = [json.loads(l) for l in open(os.path.join(VERIF, 'properties.jsonl')) if l.strip()]
    specs = spec_lines()
    seeded = {}
    rp = os.path.join(VERIF, 'seeded', 'RESULTS.json')
    results = json.load(open(rp)) if os.path.exists(rp) else []
    for r in results:
        seeded.setdefault(r['property'], []).append(r)
    known = [json.loads(l) for l in open(os.path.join(VERIF, 'known_findings.jsonl')) if l.startswith('{')]

    out = frag('00_head.md') + frag('00b_repo.md') + frag('01_technique.md') + frag('02_architecture.md') + frag('03_trusted.md')

    out += '## 4. Per-property status\n\n'
    out += ('Generated from `bin/registry.py`, `bin/manifest_text.py`, the theorem names in `lean/Artela/Props`, the `S` lines in '
            '`go/layer_*.go`, `known_findings.jsonl` and `seeded/RESULTS.json`. "Theorems" lists every theorem of the modules '
            'registered for the property (all are audited with `#print axioms` on every run); helper modules shared between '
            'properties (`Proofs.GenFacts`) are listed once here:\n\n')
    out += '`Proofs.GenFacts`: ' + ', '.join('`%s`' % t for t in theorems('Artela.Proofs.GenFacts')) + '\n\n'
    out += '| id | level | layers run | partial? | known findings | fixed defects |\n|---|---|---|---|---|---|\n'
    for p in props:
        P = registry.PROPS.get(p['id'])
        if not P:
            out += '| %s | not claimed | | | | |\n' % p['id']
            continue
        kf = sorted({k['id'] for k in known if k['property'] == p['id'] and k['status'] == 'known'})
        fx = sorted({k['id'] for k in known if k['status'] == 'fixed' and (k['property'] == p['id'] or p['id'] in k['what'].split('(')[-1])})
        out += '| %s | proof | %s | %s | %s | %s |\n' % (p['id'], ', '.join(r['layer'] for r in P.get('runs', [])), 'partial' if P.get('partial') else 'full',
                                                     ' '.join(kf), ' '.join(fx))
    out += '\n'
    for p in props:
        pid = p['id']
        P = registry.PROPS.get(pid)
        T = manifest_text.TEXT.get(pid, {})
        out += '### %s — %s\n\n' % (pid, p['title'])
        if not P:
            out += 'Not claimed.\n\n'
            continue
        out += '*What is decided and how.* ' + T.get('text', '') + '\n\n'
        if T.get('note'):
            out += '*Scope / trusted.* ' + T['note'] + '\n\n'
        if P.get('partial'):
            out += '*' + P['partial'] + '*\n\n'
        out += '*Theorems.* '
        for m in P['modules']:
            if m == 'Artela.Proofs.GenFacts':
                out += '`Proofs.GenFacts` (above); '
                continue
            out += '`%s`: ' % m.replace('Artela.', '') + ', '.join('`%s`' % t for t in theorems(m)) + '; '
        out = out.rstrip('; ') + '.\n\n'
        sl = sorted(specs.get(pid, []))
        out += '*Tie.* layers ' + ', '.join('`%s`' % r['layer'] for r in P.get('runs', [])) + ' (correspondence on every line tagged %s)' % pid
        if sl:
            out += '; specification lines: ' + ', '.join('`%s` (%s)' % (op, layer) for layer, op in sl)
        out += '.\n\n'
        if P.get('assumptions'):
            out += '*Assumptions.* ' + '; '.join(P['assumptions']) + '.\n\n'
        if pid in seeded:
            out += '*Seeded changes.* ' + '; '.join('%s → %s%s' % (r['id'], 'caught by ' + r.get('by', '?') if r['caught'] else '**missed**',
                                                              ' (no concrete input)' if r.get('no_failing_input_found') else '') for r in seeded[pid]) + '.\n\n'

    out += frag('05_defects.md') + frag('06_false_alarms.md')

    out += '## 7. Seeded changes: which check catches which\n\n'
    out += ('Each change was written by a fresh sub-agent that was given only the property text and a scratch worktree of `/repo` '
            '(nothing from `/verif`), asked for a subtle change that breaks the property, still compiles and keeps the pinned suite '
            'passing, with a demo test that fails with the change and passes without. I confirmed both directions and the suite '
            '(1125/1125) myself before keeping it under `seeded/` (patch, demo, notes, meta). `bin/seedtest` applies a patch to '
            '`/repo` with `git apply`, runs the quick check of the property, and undoes it with `git checkout -- .`; '
            '`bin/seedall` does so for all and writes `seeded/RESULTS.json`, from which this table is generated. None was ever '
            'committed to `/repo`.\n\n')
    out += '| seeded change | breaks | needs to manifest | caught by (quick tier) |\n|---|---|---|---|\n'
    for r in results:
        m = json.load(open(os.path.join(VERIF, 'seeded', r['id'], 'meta.json')))
        by = (r.get('by', '') if r['caught'] else '**missed**').replace('|', '/')
        if r.get('no_failing_input_found'):
            by += ' (obligation broken; no concrete input found)'
        out += '| %s | %s | %s | %s |\n' % (r['id'], r['property'], m.get('needs_to_manifest', '').replace('|', '/'), by[:220])
    out += '\n' + frag('07_seeded_notes.md')
    out += frag('08_layout.md') + frag('09_tooling.md')
    open(os.path.join(VERIF, 'DESIGN.md'), 'w').write(out.rstrip('\n') + '\n')
    print('DESIGN.md', len(out.split('\n')), 'lines')


if __name__ == '__main__':
    main()
