package main

// Differential layer (C01 C02 C18): the same standard program (no journal opcodes, no Artela precompiles, no Aspect
// bound) on equal pre-state is run on the fork's EVM and on go-ethereum v1.12.0's EVM in this process, on every fork
// rule set Frontier..Shanghai, with join points on (nothing bound) or off, with a gas-limit sweep around the
// intermediate gas values. Compared: return data, error, leftover gas, refund, state root, logs and the complete
// debug-tracer callback stream (every step with pc, op, gas, cost, depth, stack, memory size, return data, error).
// Also: the native tracers of both sides (call, flat call, 4byte, prestate, struct logger) on the same executions.

import (
	"bytes"
	"context"
	"encoding/json"
	"fmt"
	"math/big"
	"strings"

	"github.com/artela-network/artela-evm/tracers"
	"github.com/artela-network/artela-evm/tracers/logger"
	"github.com/artela-network/artela-evm/vm"
	atypes "github.com/artela-network/aspect-core/types"
	"github.com/ethereum/go-ethereum/common"
	"github.com/ethereum/go-ethereum/core/state"
	upvm "github.com/ethereum/go-ethereum/core/vm"
	"github.com/ethereum/go-ethereum/crypto"
	uptracers "github.com/ethereum/go-ethereum/eth/tracers"
	uplogger "github.com/ethereum/go-ethereum/eth/tracers/logger"
	_ "github.com/ethereum/go-ethereum/eth/tracers/native"
	"github.com/holiman/uint256"
)

// ---- recording loggers for both implementations, writing the same canonical lines

type recLog struct{ lines []string }

func (r *recLog) add(f string, a ...interface{}) { r.lines = append(r.lines, fmt.Sprintf(f, a...)) }

func stackStr(d []uint256.Int) string {
	n := len(d)
	parts := []string{}
	for i := n - 1; i >= 0 && i >= n-4; i-- {
		parts = append(parts, d[i].Hex())
	}
	return fmt.Sprintf("%d:%s", n, strings.Join(parts, ","))
}

type forkRec struct{ r *recLog }

func (l forkRec) CaptureTxStart(g uint64) { l.r.add("txstart %d", g) }
func (l forkRec) CaptureTxEnd(g uint64)   { l.r.add("txend %d", g) }
func (l forkRec) CaptureStart(env *vm.EVM, from, to common.Address, create bool, input []byte, gas uint64, value *big.Int) {
	l.r.add("start %x %x %v %x %d %v", from, to, create, input, gas, value)
}
func (l forkRec) CaptureEnd(out []byte, used uint64, err error) {
	l.r.add("end %x %d %v", out, used, err)
}
func (l forkRec) CaptureEnter(typ vm.OpCode, from, to common.Address, input []byte, gas uint64, value *big.Int) {
	l.r.add("enter %s %x %x %x %d %v", typ, from, to, input, gas, value)
}
func (l forkRec) CaptureExit(out []byte, used uint64, err error) {
	l.r.add("exit %x %d %v", out, used, err)
}
func (l forkRec) CaptureState(pc uint64, op vm.OpCode, gas, cost uint64, s *vm.ScopeContext, rData []byte, depth int, err error) {
	l.r.add("step %d op%02x %d %d %d %s mem=%d rd=%x %v", pc, byte(op), gas, cost, depth, stackStr(s.Stack.Data()), s.Memory.Len(), rData, err)
}
func (l forkRec) CaptureFault(pc uint64, op vm.OpCode, gas, cost uint64, s *vm.ScopeContext, depth int, err error) {
	l.r.add("fault %d op%02x %d %d %d %v", pc, byte(op), gas, cost, depth, err)
}

type upRec struct{ r *recLog }

func (l upRec) CaptureTxStart(g uint64) { l.r.add("txstart %d", g) }
func (l upRec) CaptureTxEnd(g uint64)   { l.r.add("txend %d", g) }
func (l upRec) CaptureStart(env *upvm.EVM, from, to common.Address, create bool, input []byte, gas uint64, value *big.Int) {
	l.r.add("start %x %x %v %x %d %v", from, to, create, input, gas, value)
}
func (l upRec) CaptureEnd(out []byte, used uint64, err error) {
	l.r.add("end %x %d %v", out, used, err)
}
func (l upRec) CaptureEnter(typ upvm.OpCode, from, to common.Address, input []byte, gas uint64, value *big.Int) {
	l.r.add("enter %s %x %x %x %d %v", typ, from, to, input, gas, value)
}
func (l upRec) CaptureExit(out []byte, used uint64, err error) {
	l.r.add("exit %x %d %v", out, used, err)
}
func (l upRec) CaptureState(pc uint64, op upvm.OpCode, gas, cost uint64, s *upvm.ScopeContext, rData []byte, depth int, err error) {
	l.r.add("step %d op%02x %d %d %d %s mem=%d rd=%x %v", pc, byte(op), gas, cost, depth, stackStr(s.Stack.Data()), s.Memory.Len(), rData, err)
}
func (l upRec) CaptureFault(pc uint64, op upvm.OpCode, gas, cost uint64, s *upvm.ScopeContext, depth int, err error) {
	l.r.add("fault %d op%02x %d %d %d %v", pc, byte(op), gas, cost, depth, err)
}

// ---- program generation: standard opcodes only

var stdOps = []byte{0x01, 0x02, 0x03, 0x04, 0x05, 0x06, 0x07, 0x08, 0x09, 0x0a, 0x0b, 0x10, 0x11, 0x12, 0x13, 0x14, 0x15, 0x16, 0x17, 0x18, 0x19, 0x1a,
	0x1b, 0x1c, 0x1d, 0x20, 0x30, 0x31, 0x32, 0x33, 0x34, 0x35, 0x36, 0x37, 0x38, 0x39, 0x3a, 0x3b, 0x3c, 0x3d, 0x3e, 0x3f, 0x40, 0x41, 0x42, 0x43, 0x44, 0x45,
	0x46, 0x47, 0x48, 0x50, 0x51, 0x52, 0x53, 0x54, 0x55, 0x56, 0x57, 0x58, 0x59, 0x5a, 0x5b, 0x5f, 0x80, 0x81, 0x82, 0x90, 0x91, 0xa0, 0xa1, 0xa2,
	0xf0, 0xf1, 0xf2, 0xf3, 0xf4, 0xf5, 0xfa, 0xfd, 0xfe, 0xff}

// randomCode: mostly stack-balanced snippets from the standard opcode set with small pushed operands, plus raw bytes
// tameGen: no raw random bytes and no operand-less random instructions (half of the differential cases: a state difference
// shows only in a transaction that is not rolled back, and most wild programs end in an exceptional halt)
var tameGen bool

func randomCode(r *Rng, n int, targets []common.Address) []byte {
	return randomCodeFrom(&Asm{}, r, n, targets)
}

func randomCodeFrom(a *Asm, r *Rng, n int, targets []common.Address) []byte {
	for i := 0; i < n; i++ {
		switch k := r.Intn(100); {
		case k < 30: // push small values then a binary/unary op
			if tameGen {
				a.PushU(uint64(1 + r.Intn(9))) // a third operand for ADDMOD / MULMOD
			}
			a.PushU(uint64(r.Intn(300))).PushU(uint64(r.Intn(70))).Op(stdOps[r.Intn(29)])
		case k < 42: // memory
			a.PushU(r.Next() % 1000).PushU(uint64(r.Intn(200))).Op(opMSTORE)
			a.PushU(uint64(r.Intn(260))).Op(opMLOAD, opPOP)
		case k < 56: // storage
			a.PushU(uint64(r.Intn(4))).PushU(uint64(r.Intn(6))).Op(opSSTORE)
			a.PushU(uint64(r.Intn(6))).Op(opSLOAD, opPOP)
		case k < 62: // log
			a.PushU(uint64(r.Intn(3))).PushU(uint64(r.Intn(64))).PushU(0).Op(0xa1)
		case k < 78 && len(targets) > 0: // a call of some kind to another contract / precompile / nobody
			if r.Chance(15) {
				// one of the oldest precompiles (an account that does not exist in the pre-state), first with too little gas for it and
				// then with enough: what a CALL to an account that does not exist costs (before EIP-158: 25000 for creating it)
				// depends on whether the earlier, failed call left it behind
				pt := common.BytesToAddress([]byte{byte(1 + r.Intn(4))})
				for _, g := range []uint64{[]uint64{0, 10, 100}[r.Intn(3)], 100000} {
					a.PushU(0).PushU(0).PushU(uint64(r.Intn(40))).PushU(0).PushU(0).PushBytes(pt[:]).PushU(g).Op(opCALL, opPOP)
				}
			}
			t := targets[r.Intn(len(targets))]
			kind := []byte{opCALL, opCALL, opCALLCODE, opDELEGATECALL, opSTATICCALL}[r.Intn(5)]
			a.PushU(uint64(r.Intn(64))).PushU(uint64(r.Intn(64))).PushU(uint64(r.Intn(70))).PushU(uint64(r.Intn(64)))
			if kind == opCALL || kind == opCALLCODE {
				a.PushU(uint64([]int{0, 0, 1, 5000}[r.Intn(4)]))
			}
			a.PushBytes(t[:])
			if tameGen && r.Chance(75) {
				// a bounded allowance: with "all gas" the mutual recursion of the generated contracts burns the transaction's gas
				a.PushU(uint64([]int{700, 2300, 30000, 60000}[r.Intn(4)]))
			} else if r.Chance(55) {
				a.Op(opGAS)
			} else if r.Chance(25) {
				// a gas operand that does not fit 64 bits (all-ones is what compilers emit for "all gas"; the others have small low halves)
				big := new(uint256.Int).Lsh(uint256.NewInt(1), uint([]int{64, 64, 128, 255}[r.Intn(4)]))
				switch r.Intn(3) {
				case 0:
					big.Add(big, uint256.NewInt(uint64(r.Intn(50000))))
				case 1:
					big.SetAllOne()
				}
				a.Push(big)
			} else {
				a.PushU(uint64([]int{0, 700, 2300, 50000}[r.Intn(4)]))
			}
			a.Op(kind, opPOP)
			if r.Chance(40) {
				rdc := r.Intn(4)
				if tameGen {
					rdc = 0 // the other windows end the frame (EIP-211) more often than not
				}
				switch rdc {
				case 0:
					a.Op(0x3d, opPUSH1, 0, opPUSH1, 0, 0x3e) // RETURNDATASIZE 0 0 RETURNDATACOPY
				case 1: // nothing to copy, from just behind / far behind the end of the buffer (EIP-211: out of bounds all the same)
					a.Op(opPUSH1, 0).Op(0x3d, opPUSH1, byte(r.Intn(3)), 0x01).Op(opPUSH1, 0, 0x3e)
				case 2: // one byte too many
					a.Op(0x3d, opPUSH1, 1, 0x01).Op(opPUSH1, 0, opPUSH1, 0, 0x3e)
				default: // an arbitrary window
					a.PushU(uint64(r.Intn(40))).PushU(uint64(r.Intn(40))).PushU(uint64(r.Intn(64))).Op(0x3e)
				}
			}
			if r.Chance(35) {
				// the account just touched (it may now exist but be empty): look at it, or call it again with value
				switch r.Intn(5) {
				case 0:
					a.PushBytes(t[:]).Op(0x3f, opPOP) // EXTCODEHASH
				case 1:
					a.PushBytes(t[:]).Op(0x3b, opPOP) // EXTCODESIZE
				case 2:
					a.PushBytes(t[:]).Op(0x31, opPOP) // BALANCE
				default:
					a.PushU(0).PushU(0).PushU(0).PushU(0).PushU(1).PushBytes(t[:]).Op(opGAS, opCALL, opPOP) // CALL with value 1
				}
			}
		case k < 82: // create
			init := []byte{opPUSH1, byte(r.Intn(3)), opPUSH1, 0, opSSTORE, opPUSH1, 1, opPUSH1, 0, opRETURN}
			switch r.Intn(6) {
			case 0: // init code that jumps to a real JUMPDEST
				init = []byte{opPUSH1, 4, opJUMP, opSTOP, opJUMPDEST, opSTOP}
			case 1: // … and one of the same length whose target is the data byte of a PUSH (0x5b inside push data)
				init = []byte{opPUSH1, 4, opJUMP, opPUSH1, opJUMPDEST, opSTOP}
			case 2: // a longer one with the JUMPDEST further out, then a store and a one-byte runtime
				init = []byte{opPUSH1, 7, opJUMP, opPUSH1, opJUMPDEST, opSTOP, opSTOP, opJUMPDEST, opPUSH1, 1, opPUSH1, 0, opSSTORE, opPUSH1, 1, opPUSH1, 0, opRETURN}
			}
			for j, b := range init {
				a.Op(opPUSH1, b).PushU(uint64(j)).Op(0x53)
			}
			// the init-code range may reach beyond the memory expanded so far (zeros = STOPs follow the code): the instruction
			// expands memory itself, but a tracer sees the step before that happens
			size, off := uint64(len(init)), uint64(0)
			if r.Chance(30) {
				size += uint64(32 * (1 + r.Intn(6)))
				if r.Chance(30) {
					off = uint64(r.Intn(40))
				}
			}
			if r.Bool() {
				a.PushU(uint64(r.Intn(2))).PushU(size).PushU(off).PushU(0).Op(opCREATE2, opPOP)
			} else {
				a.PushU(size).PushU(off).PushU(uint64(r.Intn(2))).Op(opCREATE, opPOP)
			}
		case k < 90: // environment / block ops
			eop := stdOps[29+r.Intn(22)]
			if tameGen {
				a.PushU(uint64(r.Intn(40))) // an operand for those that take one (BALANCE, CALLDATALOAD, BLOCKHASH, EXTCODESIZE, …)
				if eop == 0x37 || eop == 0x39 || eop == 0x3c || eop == 0x3e {
					// the copy instructions take their sizes from whatever is on the stack: give them small ones
					a.PushU(uint64(r.Intn(40))).PushU(uint64(r.Intn(40))).PushU(uint64(r.Intn(40)))
					if eop == 0x3e {
						eop = 0x39 // (RETURNDATACOPY windows are generated after calls)
					}
				}
			}
			a.Op(eop)
			if r.Chance(70) {
				a.Op(opPOP)
			}
		case k < 94: // a forward jump over a few bytes
			dest := a.Len() + 35
			a.PushU(uint64(dest)).Op(opJUMP)
			for a.Len() < dest {
				a.Op(opINVALID)
			}
			a.Op(opJUMPDEST)
		case k < 97 && !tameGen: // raw random byte (undefined opcodes, stack underflows, …), never a journal opcode
			b := byte(r.Next())
			if b >= 0xe0 && b <= 0xe7 {
				b = 0xfe
			}
			a.Op(b)
		case !tameGen:
			a.Op(stdOps[r.Intn(len(stdOps))])
		default: // tame programs: another storage access instead of a byte that most likely ends the frame
			a.PushU(uint64(r.Intn(4))).PushU(uint64(r.Intn(6))).Op(opSSTORE)
		}
	}
	switch r.Intn(5) {
	case 0:
		a.PushU(uint64(r.Intn(64))).PushU(0).Op(opREVERT)
	case 1:
		a.PushU(uint64(r.Intn(64))).PushU(0).Op(opRETURN)
	case 2:
		a.PushBytes(callerAddr[:]).Op(opSELFDESTRUCT)
	default:
		a.Op(opSTOP)
	}
	return a.Bytes()
}

// createThenTouch: a creation at the start of the root contract (nonce 0, so the new address is known) whose init code succeeds,
// reverts, hits an invalid opcode, underflows, or returns 0xEF code, possibly onto an occupied address, followed by accesses to the
// would-be address — what EIP-2929 charges for those depends on whether the address stayed warm.
func createThenTouch(r *Rng, c *diffCase, a *Asm) {
	inits := [][]byte{
		{opPUSH1, 1, opPUSH1, 0, opRETURN},
		{opPUSH1, 0, opPUSH1, 0, opREVERT},
		{opINVALID},
		{opPOP},
		{opPUSH1, 0xef, opPUSH1, 0, 0x53, opPUSH1, 1, opPUSH1, 0, opRETURN},
		{opPUSH1, 1, opPUSH1, 1, opSSTORE, opPUSH1, 0, opPUSH1, 0, opREVERT},
	}
	init := inits[r.Intn(len(inits))]
	for j, b := range init {
		a.Op(opPUSH1, b).PushU(uint64(j)).Op(0x53)
	}
	var derived common.Address
	if r.Bool() {
		salt := uint64(r.Intn(3))
		a.PushU(salt).PushU(uint64(len(init))).PushU(0).PushU(0).Op(opCREATE2, opPOP)
		derived = crypto.CreateAddress2(c.root, common.BigToHash(new(big.Int).SetUint64(salt)), crypto.Keccak256(init))
	} else {
		a.PushU(uint64(len(init))).PushU(0).PushU(0).Op(opCREATE, opPOP)
		derived = crypto.CreateAddress(c.root, 0)
	}
	if r.Chance(20) {
		c.codes[derived] = []byte{opSTOP} // occupied: the creation collides
	}
	for k := 1 + r.Intn(2); k > 0; k-- {
		switch r.Intn(4) {
		case 0:
			a.PushBytes(derived[:]).Op(0x31, opPOP)
		case 1:
			a.PushBytes(derived[:]).Op(0x3b, opPOP)
		case 2:
			a.PushBytes(derived[:]).Op(0x3f, opPOP)
		default:
			a.PushU(0).PushU(0).PushU(0).PushU(0).PushU(0).PushBytes(derived[:]).Op(opGAS, opCALL, opPOP)
		}
	}
}

// selfdestructSeries: two contracts that destroy themselves in favour of each other, of themselves, of the sender or of a
// stranger, called several times in one transaction from the start of the root contract — the refund (before London) is due
// once per destroyed contract, whoever the beneficiary is and whatever happened to the beneficiary before. The fork is moved to
// one of the rule sets whose SELFDESTRUCT pricing differs (Istanbul, Berlin, London) half of the time.
func selfdestructSeries(r *Rng, c *diffCase, a *Asm) {
	if r.Bool() {
		c.fork = []string{"Istanbul", "Berlin", "Berlin", "London"}[r.Intn(4)]
	}
	d := []common.Address{common.BytesToAddress([]byte{0xc0, 0xdd, 1}), common.BytesToAddress([]byte{0xc0, 0xdd, 2})}
	bens := []common.Address{d[0], d[1], callerAddr, common.BytesToAddress([]byte{0xd8, 0x01}), c.root}
	for _, x := range d {
		b := bens[r.Intn(len(bens))]
		code := &Asm{}
		if r.Chance(30) {
			code.PushU(1).PushU(uint64(r.Intn(3))).Op(opSSTORE)
		}
		code.PushBytes(b[:]).Op(opSELFDESTRUCT)
		c.codes[x] = code.Bytes()
	}
	for k := 2 + r.Intn(3); k > 0; k-- {
		t := d[r.Intn(2)]
		a.PushU(0).PushU(0).PushU(0).PushU(0).PushU(uint64([]int{0, 0, 1}[r.Intn(3)])).PushBytes(t[:]).Op(opGAS, opCALL, opPOP)
	}
}

var emptyAcct = common.BytesToAddress([]byte{0xda, 0x01})

type diffCase struct {
	fork     string
	codes    map[common.Address][]byte
	root     common.Address
	input    []byte
	value    *big.Int
	create   bool
	jpOn     bool
	extraEip []int
}

func setupState(c *diffCase) *state.StateDB {
	sdb := newStateDB()
	for a, code := range c.codes {
		sdb.CreateAccount(a)
		sdb.SetCode(a, code)
		sdb.AddBalance(a, big.NewInt(10_000))
		sdb.SetState(a, common.Hash{31: 1}, common.Hash{31: 7})
	}
	sdb.AddBalance(callerAddr, big.NewInt(1_000_000))
	// an account that exists and is empty (nonce 0, no balance, no code): from Spurious Dragon on it is deleted at the end of a
	// transaction that touched it (also by a zero-value call) and survives one that did not
	sdb.CreateAccount(emptyAcct)
	sdb.Finalise(false) // original storage values = what was just set, like a committed pre-state; empty accounts are kept
	return sdb
}

type runOut struct {
	summary string
	trace   []string
}

func runFork(c *diffCase, gas uint64, withTracer bool) runOut {
	sdb := setupState(c)
	rec := &recLog{}
	var tr vm.EVMLogger
	if withTracer {
		tr = forkRec{rec}
	}
	env := newEnv(c.fork, tr, c.extraEip, sdb, nil)
	if env.rules.IsBerlin {
		sdb.AddAddressToAccessList(c.root)
	}
	if c.jpOn {
		env.evm.AspectCall()
	} else {
		env.evm.CloseAspectCall()
	}
	var ret []byte
	var left uint64
	var err error
	var created common.Address
	func() {
		defer func() {
			if x := recover(); x != nil {
				err = fmt.Errorf("PANIC: %v", x)
			}
		}()
		if c.create {
			ret, created, left, err = env.evm.Create(context.Background(), vm.AccountRef(callerAddr), c.codes[c.root], gas, c.value)
		} else {
			ret, left, err = env.evm.Call(context.Background(), vm.AccountRef(callerAddr), c.root, c.input, gas, c.value)
		}
	}()
	logs := []string{}
	for _, l := range sdb.Logs() {
		logs = append(logs, fmt.Sprintf("%x/%x/%x", l.Address, l.Topics, l.Data))
	}
	return runOut{fmt.Sprintf("ret=%x left=%d err=%v created=%x refund=%d root=%x logs=%v eips=%v", ret, left, err, created, sdb.GetRefund(), sdb.IntermediateRoot(true), logs, env.evm.Config.ExtraEips), rec.lines}
}

func runUpstream(c *diffCase, gas uint64, withTracer bool) runOut {
	sdb := setupState(c)
	rec := &recLog{}
	cfg, merge := forkConfig(c.fork)
	var random *common.Hash
	if merge {
		h := common.Hash{1}
		random = &h
	}
	bctx := upvm.BlockContext{
		CanTransfer: func(db upvm.StateDB, a common.Address, amt *big.Int) bool { return db.GetBalance(a).Cmp(amt) >= 0 },
		Transfer: func(db upvm.StateDB, s, r common.Address, amt *big.Int) {
			db.SubBalance(s, amt)
			db.AddBalance(r, amt)
		},
		GetHash:  func(n uint64) common.Hash { return common.BigToHash(new(big.Int).SetUint64(n)) },
		Coinbase: common.BytesToAddress([]byte{0xc0}), GasLimit: 30_000_000, BlockNumber: big.NewInt(1), Time: 1, Difficulty: big.NewInt(1),
		BaseFee: big.NewInt(7), Random: random,
	}
	tctx := upvm.TxContext{Origin: common.BytesToAddress([]byte{0xee}), GasPrice: big.NewInt(1)}
	vcfg := upvm.Config{ExtraEips: c.extraEip}
	if withTracer {
		vcfg.Tracer = upRec{rec}
	}
	evm := upvm.NewEVM(bctx, tctx, sdb, cfg, vcfg)
	rules := cfg.Rules(bctx.BlockNumber, random != nil, bctx.Time)
	if rules.IsBerlin {
		sdb.Prepare(rules, tctx.Origin, bctx.Coinbase, nil, upvm.ActivePrecompiles(rules), nil)
		sdb.AddAddressToAccessList(c.root)
	}
	var ret []byte
	var left uint64
	var err error
	var created common.Address
	func() {
		defer func() {
			if x := recover(); x != nil {
				err = fmt.Errorf("PANIC: %v", x)
			}
		}()
		if c.create {
			ret, created, left, err = evm.Create(upvm.AccountRef(callerAddr), c.codes[c.root], gas, c.value)
		} else {
			ret, left, err = evm.Call(upvm.AccountRef(callerAddr), c.root, c.input, gas, c.value)
		}
	}()
	logs := []string{}
	for _, l := range sdb.Logs() {
		logs = append(logs, fmt.Sprintf("%x/%x/%x", l.Address, l.Topics, l.Data))
	}
	return runOut{fmt.Sprintf("ret=%x left=%d err=%v created=%x refund=%d root=%x logs=%v eips=%v", ret, left, err, created, sdb.GetRefund(), sdb.IntermediateRoot(true), logs, evm.Config.ExtraEips), rec.lines}
}

func firstDiff(a, b []string) string {
	for i := 0; i < len(a) && i < len(b); i++ {
		if a[i] != b[i] {
			return fmt.Sprintf("callback_%d:fork=%s|upstream=%s", i, strings.ReplaceAll(a[i], " ", "_"), strings.ReplaceAll(b[i], " ", "_"))
		}
	}
	if len(a) != len(b) {
		return fmt.Sprintf("callback_count:fork=%d|upstream=%d", len(a), len(b))
	}
	return ""
}

// native tracers of both sides on the same execution
var lastTracerPanic string
var upstreamTracerPanics int

func runTracerPair(c *diffCase, name string, cfgJSON string, gas uint64) string {
	return runTracerPairFrom(c, name, cfgJSON, gas, callerAddr, false)
}

// from: the top-level sender (the target itself for a self-call); create: a top-level creation of the root's code
func runTracerPairFrom(c *diffCase, name string, cfgJSON string, gas uint64, from common.Address, create bool) string {
	ft, err1 := tracers.DefaultDirectory.New(name, &tracers.Context{}, json.RawMessage(cfgJSON))
	ut, err2 := uptracers.DefaultDirectory.New(name, &uptracers.Context{}, json.RawMessage(cfgJSON))
	if err1 != nil || err2 != nil {
		return fmt.Sprintf("cannot_create:%v|%v", err1, err2)
	}
	// fork (a panic inside a tracer callback is an outcome of its own, not a crash of the harness)
	var fr json.RawMessage
	var ferr error
	fpanic := ""
	func() {
		defer func() {
			if x := recover(); x != nil {
				fpanic = fmt.Sprint(x)
			}
		}()
		sdb := setupState(c)
		env := newEnv(c.fork, ft, nil, sdb, nil)
		if env.rules.IsBerlin {
			sdb.AddAddressToAccessList(c.root)
		}
		if c.jpOn {
			env.evm.AspectCall()
		} else {
			env.evm.CloseAspectCall()
		}
		ft.CaptureTxStart(gas)
		var left uint64
		if create {
			_, _, left, _ = env.evm.Create(context.Background(), vm.AccountRef(from), c.codes[c.root], gas, c.value)
		} else {
			_, left, _ = env.evm.Call(context.Background(), vm.AccountRef(from), c.root, c.input, gas, c.value)
		}
		ft.CaptureTxEnd(left)
		fr, ferr = ft.GetResult()
	}()
	if fpanic != "" {
		lastTracerPanic = fpanic
		return "fork_tracer_panics:" + name + ":" + strings.ReplaceAll(fpanic, " ", "_")
	}
	// upstream
	sdb2 := setupState(c)
	cfg, merge := forkConfig(c.fork)
	var random *common.Hash
	if merge {
		h := common.Hash{1}
		random = &h
	}
	bctx := upvm.BlockContext{
		CanTransfer: func(db upvm.StateDB, a common.Address, amt *big.Int) bool { return db.GetBalance(a).Cmp(amt) >= 0 },
		Transfer: func(db upvm.StateDB, s, r common.Address, amt *big.Int) {
			db.SubBalance(s, amt)
			db.AddBalance(r, amt)
		},
		GetHash:  func(n uint64) common.Hash { return common.BigToHash(new(big.Int).SetUint64(n)) },
		Coinbase: common.BytesToAddress([]byte{0xc0}), GasLimit: 30_000_000, BlockNumber: big.NewInt(1), Time: 1, Difficulty: big.NewInt(1),
		BaseFee: big.NewInt(7), Random: random,
	}
	tctx := upvm.TxContext{Origin: common.BytesToAddress([]byte{0xee}), GasPrice: big.NewInt(1)}
	evm := upvm.NewEVM(bctx, tctx, sdb2, cfg, upvm.Config{Tracer: ut})
	rules := cfg.Rules(bctx.BlockNumber, random != nil, bctx.Time)
	if rules.IsBerlin {
		sdb2.Prepare(rules, tctx.Origin, bctx.Coinbase, nil, upvm.ActivePrecompiles(rules), nil)
		sdb2.AddAddressToAccessList(c.root)
	}
	var ur json.RawMessage
	var uerr error
	upanic := ""
	func() {
		defer func() {
			if x := recover(); x != nil {
				upanic = fmt.Sprint(x)
			}
		}()
		ut.CaptureTxStart(gas)
		var left2 uint64
		if create {
			_, _, left2, _ = evm.Create(upvm.AccountRef(from), c.codes[c.root], gas, c.value)
		} else {
			_, left2, _ = evm.Call(upvm.AccountRef(from), c.root, c.input, gas, c.value)
		}
		ut.CaptureTxEnd(left2)
		ur, uerr = ut.GetResult()
	}()
	if upanic != "" {
		// go-ethereum v1.12.0 itself crashes on this execution: it produces no output the fork's could be compared with
		upstreamTracerPanics++
		return "same:upstream_itself_panics"
	}
	if fmt.Sprint(ferr) != fmt.Sprint(uerr) || !bytes.Equal(fr, ur) {
		// show the neighbourhood of the first difference (the outputs can be long; what differs is what identifies the case)
		x, y := strings.ReplaceAll(string(fr), " ", ""), strings.ReplaceAll(string(ur), " ", "")
		k := 0
		for k < len(x) && k < len(y) && x[k] == y[k] {
			k++
		}
		win := func(z string) string {
			lo, hi := k-120, k+180
			if lo < 0 {
				lo = 0
			}
			if hi > len(z) {
				hi = len(z)
			}
			if lo > hi {
				lo = hi
			}
			return z[lo:hi]
		}
		return fmt.Sprintf("differs:%s:at_%d:fork=…%s|upstream=…%s", name, k, win(x), win(y))
	}
	return "same"
}

func runStructLoggerPair(c *diffCase, gas uint64) string {
	fl := logger.NewStructLogger(&logger.Config{EnableMemory: true, EnableReturnData: true})
	ul := uplogger.NewStructLogger(&uplogger.Config{EnableMemory: true, EnableReturnData: true})
	sdb := setupState(c)
	env := newEnv(c.fork, fl, nil, sdb, nil)
	if env.rules.IsBerlin {
		sdb.AddAddressToAccessList(c.root)
	}
	env.evm.CloseAspectCall()
	env.evm.Call(context.Background(), vm.AccountRef(callerAddr), c.root, c.input, gas, c.value)
	sdb2 := setupState(c)
	cfg, merge := forkConfig(c.fork)
	var random *common.Hash
	if merge {
		h := common.Hash{1}
		random = &h
	}
	bctx := upvm.BlockContext{
		CanTransfer: func(db upvm.StateDB, a common.Address, amt *big.Int) bool { return db.GetBalance(a).Cmp(amt) >= 0 },
		Transfer: func(db upvm.StateDB, s, r common.Address, amt *big.Int) {
			db.SubBalance(s, amt)
			db.AddBalance(r, amt)
		},
		GetHash:  func(n uint64) common.Hash { return common.BigToHash(new(big.Int).SetUint64(n)) },
		Coinbase: common.BytesToAddress([]byte{0xc0}), GasLimit: 30_000_000, BlockNumber: big.NewInt(1), Time: 1, Difficulty: big.NewInt(1),
		BaseFee: big.NewInt(7), Random: random,
	}
	evm := upvm.NewEVM(bctx, upvm.TxContext{Origin: common.BytesToAddress([]byte{0xee}), GasPrice: big.NewInt(1)}, sdb2, cfg, upvm.Config{Tracer: ul})
	rules := cfg.Rules(bctx.BlockNumber, random != nil, bctx.Time)
	if rules.IsBerlin {
		sdb2.Prepare(rules, common.BytesToAddress([]byte{0xee}), bctx.Coinbase, nil, upvm.ActivePrecompiles(rules), nil)
		sdb2.AddAddressToAccessList(c.root)
	}
	evm.Call(upvm.AccountRef(callerAddr), c.root, c.input, gas, c.value)
	a, _ := json.Marshal(fl.StructLogs())
	b, _ := json.Marshal(ul.StructLogs())
	if !bytes.Equal(a, b) || !bytes.Equal(fl.Output(), ul.Output()) {
		fs, us := fl.StructLogs(), ul.StructLogs()
		for i := 0; i < len(fs) && i < len(us); i++ {
			x, _ := json.Marshal(fs[i])
			y, _ := json.Marshal(us[i])
			if !bytes.Equal(x, y) {
				// the entry's scalar fields are enough to identify the difference
				return strings.ReplaceAll(fmt.Sprintf("differs:structLogger:entry_%d:fork=pc=%d,op=%s,gas=%d,cost=%d,depth=%d,err=%v|upstream=pc=%d,op=%s,gas=%d,cost=%d,depth=%d,err=%v",
					i, fs[i].Pc, fs[i].Op.String(), fs[i].Gas, fs[i].GasCost, fs[i].Depth, fs[i].Err, us[i].Pc, us[i].Op.String(), us[i].Gas, us[i].GasCost, us[i].Depth, us[i].Err), " ", "_")
			}
		}
		return fmt.Sprintf("differs:structLogger:entries_fork=%d_upstream=%d_output_fork=%x_upstream=%x", len(fs), len(us), fl.Output(), ul.Output())
	}
	return "same"
}

// touchesArtelaPrecompile: some account-access step (BALANCE, EXTCODESIZE/COPY/HASH, SELFDESTRUCT: top of stack; the CALL family:
// second from top) names one of the addresses 0x64-0x66
func touchesArtelaPrecompile(trace []string) bool {
	for _, l := range trace {
		if !strings.HasPrefix(l, "step ") {
			continue
		}
		f := strings.Fields(l)
		if len(f) < 7 {
			continue
		}
		pos := -1
		switch f[2] {
		case "op31", "op3b", "op3c", "op3f", "opff":
			pos = 0
		case "opf1", "opf2", "opf4", "opfa":
			pos = 1
		}
		if pos < 0 {
			continue
		}
		st := f[6] // "<n>:<top>,<next>,…"
		if i := strings.Index(st, ":"); i >= 0 {
			items := strings.Split(st[i+1:], ",")
			if pos < len(items) && (items[pos] == "0x64" || items[pos] == "0x65" || items[pos] == "0x66") {
				return true
			}
		}
	}
	return false
}

// executesJournalByte: some step of the fork's trace has an opcode byte in 0xe0-0xe7
func executesJournalByte(trace []string) bool {
	for _, l := range trace {
		if i := strings.Index(l, " ope"); i >= 0 && i+5 < len(l) && l[i+4] >= '0' && l[i+4] <= '7' && (strings.HasPrefix(l, "step ") || strings.HasPrefix(l, "fault ")) {
			return true
		}
	}
	return false
}

func driveDiff(seed uint64, n int, size int, em *Emitter) {
	r := NewRng(seed)
	initHost()
	frameAspects = map[common.Address]*aspectScript{}
	curProvider = func(ctx context.Context, c common.Address, pc atypes.PointCut) ([]*atypes.AspectCode, error) {
		return nil, nil
	}
	for i := 0; i < n; i++ {
		em.Reset(fmt.Sprintf("diff-%d-%d", seed, i))
		c := &diffCase{fork: forkNames[r.Intn(12)], codes: map[common.Address][]byte{}, jpOn: r.Bool(), value: big.NewInt(int64([]int{0, 0, 9}[r.Intn(3)]))}
		tameGen = r.Chance(50)
		if tameGen && r.Chance(70) {
			// a rule set that knows every instruction the generator emits (on older ones most programs die at the first
			// STATICCALL, CREATE2, shift or RETURNDATASIZE: the fork gate is exercised by the other cases)
			c.fork = []string{"Istanbul", "Berlin", "London", "Merge", "Shanghai"}[r.Intn(5)]
		}
		if r.Chance(12) {
			all := []int{1344, 1884, 2200, 2929, 3198, 3855, 3860}
			c.extraEip = []int{all[r.Intn(len(all))]}
		}
		nC := 1 + r.Intn(4)
		var addrs []common.Address
		for k := 0; k < nC; k++ {
			addrs = append(addrs, common.BytesToAddress([]byte{0xc0, 0, byte(k)}))
		}
		targets := append(append([]common.Address{}, addrs...), common.BytesToAddress([]byte{byte(1 + r.Intn(9))}), common.BytesToAddress([]byte{0xd9}), emptyAcct)
		c.root = addrs[0]
		if r.Chance(60) {
			// a chain of contracts that hand execution on by DELEGATECALL / CALLCODE (what CALLER, ADDRESS and CALLVALUE are in the
			// innermost frame depends on how the kinds stack), reachable from the generated code by any call kind
			h := []common.Address{common.BytesToAddress([]byte{0xc0, 1, 1}), common.BytesToAddress([]byte{0xc0, 1, 2}), common.BytesToAddress([]byte{0xc0, 1, 3})}
			for k := 0; k < 2; k++ {
				a := &Asm{}
				kind := []byte{opDELEGATECALL, opDELEGATECALL, opCALLCODE}[r.Intn(3)]
				a.PushU(0).PushU(0).PushU(0).PushU(0)
				if kind == opCALLCODE {
					a.PushU(uint64(r.Intn(2)))
				}
				a.PushBytes(h[k+1][:]).Op(opGAS, kind, opPOP, 0x33, 0x30, 0x34, opPOP, opPOP, opPOP, opSTOP)
				c.codes[h[k]] = a.Bytes()
			}
			c.codes[h[2]] = []byte{0x33, 0x30, 0x34, 0x32, opPOP, opPOP, opPOP, opPOP, opSTOP} // CALLER ADDRESS CALLVALUE ORIGIN
			targets = append(targets, h[0], h[0])
		}
		for k, a := range addrs {
			pre := &Asm{}
			if k == 0 && r.Chance(30) {
				createThenTouch(r, c, pre)
				em.Count("diff:create-then-touch")
			} else if k == 0 && r.Chance(15) {
				selfdestructSeries(r, c, pre)
				em.Count("diff:selfdestruct-series:" + c.fork)
			}
			steps := 3 + r.Intn(size+10)
			if k == 0 && r.Chance(12) {
				// zero-value calls to the account that exists empty in the pre-state, then a short program (most long ones fail
				// somewhere and are rolled back): whether the account is still there afterwards is part of the state root
				for j := 1 + r.Intn(2); j > 0; j-- {
					kind := []byte{opCALL, opCALL, opCALL, opCALLCODE, opSTATICCALL}[r.Intn(5)]
					pre.PushU(0).PushU(0).PushU(0).PushU(0)
					if kind == opCALL || kind == opCALLCODE {
						pre.PushU(0)
					}
					pre.PushBytes(emptyAcct[:]).Op(opGAS, kind, opPOP)
				}
				steps = r.Intn(4)
				em.Count("diff:touch-empty-account:" + c.fork)
			}
			c.codes[a] = randomCodeFrom(pre, r, steps, targets)
		}
		c.input = r.Bytes([]int{0, 4, 36, 100}[r.Intn(4)])
		for k, x := range c.input {
			if x >= 0xe0 && x <= 0xe7 {
				c.input[k] = 0xfe // calldata may end up executed (CALLDATACOPY + CREATE): keep it over the standard instruction set
			}
		}
		c.create = r.Chance(10)
		gas := uint64(3_000_000)
		f, u := runFork(c, gas, true), runUpstream(c, gas, true)
		if touchesArtelaPrecompile(f.trace) {
			// an account-access instruction named 0x64-0x66: in the fork these are precompiles (warm under EIP-2929, callable),
			// upstream they are ordinary empty accounts - not a program over the standard precompile set
			em.Count("diff:out-of-scope:artela-precompile-address-touched")
			continue
		}
		if executesJournalByte(f.trace) {
			// the execution reached one of the bytes 0xe0-0xe7 as an instruction (data copied to memory and run as init code, a
			// hash output used as code, …): not a program over the standard instruction set, so the property does not speak about it
			em.Count("diff:out-of-scope:journal-byte-executed")
			continue
		}
		verdict := "same"
		if f.summary != u.summary {
			verdict = "differs:result:fork=" + strings.ReplaceAll(f.summary, " ", "_") + "|upstream=" + strings.ReplaceAll(u.summary, " ", "_")
		} else if d := firstDiff(f.trace, u.trace); d != "" {
			verdict = "differs:" + d
		}
		em.Op("C01,C02,C18", fmt.Sprintf("S upstream-same %s jp=%v eips=%v", c.fork, c.jpOn, len(c.extraEip)), verdict)
		em.Count(fmt.Sprintf("diff:steps=%d", min(len(f.trace)/50, 10)*50))
		// how the top-level frame ended (a state difference is only visible when the transaction is not rolled back)
		em.Count(fmt.Sprintf("diff:tame=%v", tameGen))
		switch {
		case strings.Contains(u.summary, "err=<nil>"):
			em.Count("diff:top-level-outcome=success")
		case strings.Contains(u.summary, "err=execution reverted"):
			em.Count("diff:top-level-outcome=revert")
		default:
			em.Count("diff:top-level-outcome=exceptional-halt")
		}
		em.Count("diff:fork=" + c.fork)
		// C02: gas-limit sweep — one short of, exactly on and one above intermediate gas values of the run
		if verdict == "same" && !c.create {
			limits := map[uint64]bool{}
			for k := 0; k < 6 && len(f.trace) > 0; k++ {
				var pc, g, cost uint64
				var op string
				if _, err := fmt.Sscanf(f.trace[r.Intn(len(f.trace))], "step %d %s %d %d", &pc, &op, &g, &cost); err == nil && g <= gas {
					used := gas - g
					for _, l := range []uint64{used - 1, used, used + 1, used + cost - 1, used + cost, used + cost + 1} {
						if l > 0 && l < gas {
							limits[l] = true
						}
					}
				}
			}
			v := "same"
			cnt := 0
			for l := range limits {
				if cnt >= 8 {
					break
				}
				cnt++
				a, b := runFork(c, l, true), runUpstream(c, l, true)
				if a.summary != b.summary {
					v = fmt.Sprintf("differs:gas=%d:fork=%s|upstream=%s", l, strings.ReplaceAll(a.summary, " ", "_"), strings.ReplaceAll(b.summary, " ", "_"))
					break
				} else if d := firstDiff(a.trace, b.trace); d != "" {
					v = fmt.Sprintf("differs:gas=%d:%s", l, d)
					break
				}
			}
			em.Op("C02,C01", "S upstream-same-gas-sweep "+c.fork, v)
		}
		// C18: call trees with logs at every level and failures at every level (what withLog has to filter)
		if i%2 == 0 {
			g := &fgen{r: r, codes: map[common.Address][]byte{}, blobs: map[common.Address][]byte{}, aspects: map[common.Address]*aspectScript{}, standard: true}
			fk := c.fork
			if forkIndex(fk) < forkIndex("Byzantium") {
				fk = "Byzantium"
			}
			body := g.genBody(0)
			rootA := common.BytesToAddress([]byte{0xc0, 0, 0})
			g.codes[rootA] = g.compileBody(body, []byte{opSTOP, opRETURN, opREVERT, opINVALID}[r.Intn(4)], 36, nil, false)
			for a, b := range g.blobs {
				g.codes[a] = b
			}
			tc := &diffCase{fork: fk, codes: g.codes, root: rootA, input: c.input, value: big.NewInt(0), jpOn: c.jpOn}
			cfgs := []struct{ n, cfg string }{{"callTracer", `{"withLog":true}`}, {"callTracer", `{}`}, {"flatCallTracer", `{}`}, {"prestateTracer", `{"diffMode":true}`}}
			t := cfgs[r.Intn(len(cfgs))]
			if r.Chance(40) {
				t = cfgs[0]
			}
			tv := runTracerPair(tc, t.n, t.cfg, 30_000_000)
			if tv == "same:upstream_itself_panics" {
				em.Count("diff:tracer:out-of-scope:upstream-v1.12.0-panics")
				tv = "same"
			}
			em.Op("C18", "S tracer-same-tree "+t.n, tv)
			if strings.HasPrefix(tv, "fork_tracer_panics:") {
				em.Op("C03,C18", "S tracer-no-panic "+t.n, tv)
			} else {
				em.Op("C03,C18", "S tracer-no-panic "+t.n, "ok")
			}
		}
		// C18: a deep call spine with several sibling calls at every level (the flat tracer's trace addresses grow by one per
		// level; siblings share their parent's prefix)
		if i%5 == 0 {
			levels := 4 + r.Intn(7)
			dc := &diffCase{fork: forkNames[4+r.Intn(8)], codes: map[common.Address][]byte{}, value: big.NewInt(0), jpOn: r.Bool()}
			lv := func(k int) common.Address { return common.BytesToAddress([]byte{0xc0, 7, byte(k)}) }
			leaf := common.BytesToAddress([]byte{0xc0, 7, 0xff})
			dc.codes[leaf] = [][]byte{{opSTOP}, {opPUSH1, 0, opPUSH1, 0, opREVERT}, {opPUSH1, 1, opPUSH1, 0, opSSTORE, opSTOP}}[r.Intn(3)]
			for k := 0; k < levels; k++ {
				a := &Asm{}
				m := 1 + r.Intn(3)
				spine := r.Intn(m)
				for j := 0; j < m; j++ {
					t := leaf
					if j == spine && k+1 < levels {
						t = lv(k + 1)
					}
					kind := []byte{opCALL, opCALL, opSTATICCALL, opDELEGATECALL, opCALLCODE}[r.Intn(5)]
					a.PushU(0).PushU(0).PushU(0).PushU(0)
					if kind == opCALL || kind == opCALLCODE {
						a.PushU(0)
					}
					a.PushBytes(t[:]).Op(opGAS, kind, opPOP)
				}
				a.Op([]byte{opSTOP, opSTOP, opINVALID}[r.Intn(3)])
				dc.codes[lv(k)] = a.Bytes()
			}
			dc.root = lv(0)
			cfgs := []struct{ n, cfg string }{{"flatCallTracer", `{}`}, {"flatCallTracer", `{"includePrecompiles":true}`}, {"callTracer", `{}`}, {"callTracer", `{"withLog":true}`}}
			t := cfgs[r.Intn(len(cfgs))]
			tv := runTracerPair(dc, t.n, t.cfg, 30_000_000)
			if tv == "same:upstream_itself_panics" {
				em.Count("diff:tracer:out-of-scope:upstream-v1.12.0-panics")
				tv = "same"
			}
			em.Op("C18", "S tracer-same-spine "+t.n, tv)
			em.Count(fmt.Sprintf("diff:spine:levels=%d", levels))
		}
		// C18: inherited tracers produce upstream's output when no Aspect is involved
		if i%3 == 0 && !c.create && forkIndex(c.fork) >= 1 {
			names := []struct{ n, cfg string }{{"callTracer", `{"withLog":true}`}, {"callTracer", `{"onlyTopCall":true}`}, {"flatCallTracer", `{}`},
				{"flatCallTracer", `{"includePrecompiles":true,"convertParityErrors":true}`}, {"4byteTracer", `{}`}, {"prestateTracer", `{}`}, {"prestateTracer", `{"diffMode":true}`},
				{"muxTracer", `{"callTracer":{"withLog":true},"4byteTracer":{},"prestateTracer":{"diffMode":true}}`}, {"noopTracer", `{}`}}
			t := names[r.Intn(len(names))]
			tracerLine := func(label string, verdict string) {
				if verdict == "same:upstream_itself_panics" {
					em.Count("diff:tracer:out-of-scope:upstream-v1.12.0-panics")
					verdict = "same"
				}
				em.Op("C18", "S tracer-same "+label, verdict)
				np := "ok"
				if strings.HasPrefix(verdict, "fork_tracer_panics:") {
					np = verdict
				}
				em.Op("C03,C18", "S tracer-no-panic "+label, np)
			}
			tracerLine(t.n, runTracerPair(c, t.n, t.cfg, gas))
			// the same tracers when the top-level sender is the target itself (sender and recipient are one account)
			// and when the transaction is a creation: the tracers' start callbacks treat both specially
			t2 := names[r.Intn(len(names))]
			if r.Chance(50) {
				t2 = names[5+r.Intn(2)]
			}
			sc := *c
			sc.value = big.NewInt(int64(1 + r.Intn(5000)))
			tracerLine(t2.n+" self-call", runTracerPairFrom(&sc, t2.n, t2.cfg, gas, c.root, false))
			tracerLine(t2.n+" create", runTracerPairFrom(&sc, t2.n, t2.cfg, gas, callerAddr, true))
			em.Op("C18", "S tracer-same structLogger", runStructLoggerPair(c, gas))
			// the loggers that are constructed directly: access-list tracer with a prior list, JSON logger
			for k := 0; k < 2; k++ {
				ac := *c
				ac.create = k == 1 && r.Chance(50)
				av, mop, mimpl := runAccessListPair(r, &ac, gas)
				tracerLine("accessListTracer", av)
				if !strings.Contains(mop, "overflow") && !strings.HasPrefix(av, "fork_tracer_panics") {
					em.Op("C18", mop, mimpl)
				}
			}
			tracerLine("jsonLogger", runJSONLoggerPair(r, c, gas))
		}
	}
}
