package main

// Differential layer, part 2 (C18): the inherited loggers that are constructed directly rather than through the tracer
// directory: the access-list tracer (with a prior list that names excluded accounts, with and without storage keys) and
// the JSON logger (every configuration switch), fork against go-ethereum v1.12.0 on the same executions.

import (
	"bytes"
	"context"
	"encoding/json"
	"fmt"
	"math/big"
	"sort"
	"strings"

	"github.com/artela-network/artela-evm/tracers/logger"
	"github.com/artela-network/artela-evm/vm"
	"github.com/ethereum/go-ethereum/common"
	"github.com/ethereum/go-ethereum/core/types"
	upvm "github.com/ethereum/go-ethereum/core/vm"
	uplogger "github.com/ethereum/go-ethereum/eth/tracers/logger"
)

// runLoggerPair runs the case once on each implementation with the given loggers attached. Panics are reported per side.
func runLoggerPair(c *diffCase, gas uint64, fl vm.EVMLogger, ul upvm.EVMLogger) (forkPanic, upPanic string) {
	func() {
		defer func() {
			if x := recover(); x != nil {
				forkPanic = fmt.Sprint(x)
			}
		}()
		sdb := setupState(c)
		env := newEnv(c.fork, fl, nil, sdb, nil)
		if env.rules.IsBerlin {
			sdb.AddAddressToAccessList(c.root)
		}
		env.evm.CloseAspectCall()
		if c.create {
			env.evm.Create(context.Background(), vm.AccountRef(callerAddr), c.codes[c.root], gas, c.value)
		} else {
			env.evm.Call(context.Background(), vm.AccountRef(callerAddr), c.root, c.input, gas, c.value)
		}
	}()
	func() {
		defer func() {
			if x := recover(); x != nil {
				upPanic = fmt.Sprint(x)
			}
		}()
		sdb2 := setupState(c)
		cfg, merge := forkConfig(c.fork)
		var random *common.Hash
		if merge {
			h := common.Hash{1}
			random = &h
		}
		bctx := upvm.BlockContext{
			CanTransfer: func(db upvm.StateDB, a common.Address, amt *big.Int) bool { return db.GetBalance(a).Cmp(amt) >= 0 },
			Transfer: func(db upvm.StateDB, s, r common.Address, amt *big.Int) {
				db.SubBalance(s, amt)
				db.AddBalance(r, amt)
			},
			GetHash:  func(n uint64) common.Hash { return common.BigToHash(new(big.Int).SetUint64(n)) },
			Coinbase: common.BytesToAddress([]byte{0xc0}), GasLimit: 30_000_000, BlockNumber: big.NewInt(1), Time: 1, Difficulty: big.NewInt(1),
			BaseFee: big.NewInt(7), Random: random,
		}
		evm := upvm.NewEVM(bctx, upvm.TxContext{Origin: common.BytesToAddress([]byte{0xee}), GasPrice: big.NewInt(1)}, sdb2, cfg, upvm.Config{Tracer: ul})
		rules := cfg.Rules(bctx.BlockNumber, random != nil, bctx.Time)
		if rules.IsBerlin {
			sdb2.Prepare(rules, common.BytesToAddress([]byte{0xee}), bctx.Coinbase, nil, upvm.ActivePrecompiles(rules), nil)
			sdb2.AddAddressToAccessList(c.root)
		}
		if c.create {
			evm.Create(upvm.AccountRef(callerAddr), c.codes[c.root], gas, c.value)
		} else {
			evm.Call(upvm.AccountRef(callerAddr), c.root, c.input, gas, c.value)
		}
	}()
	return
}

func pairVerdict(name, forkPanic, upPanic string, same bool, detail func() string) string {
	switch {
	case upPanic != "":
		return "same:upstream_itself_panics"
	case forkPanic != "":
		return "fork_tracer_panics:" + name + ":" + strings.ReplaceAll(forkPanic, " ", "_")
	case same:
		return "same"
	}
	return "differs:" + name + ":" + strings.ReplaceAll(detail(), " ", "_")
}

func aclString(l types.AccessList) string {
	rows := make([]string, 0, len(l))
	for _, t := range l {
		keys := make([]string, 0, len(t.StorageKeys))
		for _, k := range t.StorageKeys {
			keys = append(keys, new(big.Int).SetBytes(k[:]).Text(16))
		}
		sort.Strings(keys)
		rows = append(rows, fmt.Sprintf("%x:[%s]", t.Address[17:], strings.Join(keys, ",")))
	}
	sort.Strings(rows)
	return strings.Join(rows, ";")
}

// randomPriorList: entries for the sender, the recipient, precompiles, accounts with code and strangers; each with no,
// some touched (slot 1 is in every pre-state) or some never touched storage keys; an account may be listed twice.
func randomPriorList(r *Rng, c *diffCase, from common.Address, precompiles []common.Address) types.AccessList {
	if r.Chance(10) {
		return nil
	}
	pool := []common.Address{from, c.root, common.BytesToAddress([]byte{0xab, 0xcd})}
	for a := range c.codes {
		pool = append(pool, a)
	}
	sort.Slice(pool, func(i, j int) bool { return bytes.Compare(pool[i][:], pool[j][:]) < 0 })
	if len(precompiles) > 0 {
		pool = append(pool, precompiles[r.Intn(len(precompiles))], precompiles[0])
	}
	var l types.AccessList
	for n := r.Intn(6); n > 0; n-- {
		a := pool[r.Intn(len(pool))]
		if r.Chance(45) {
			a = []common.Address{from, c.root}[r.Intn(2)]
		}
		t := types.AccessTuple{Address: a}
		if r.Chance(70) {
			for k := 1 + r.Intn(3); k > 0; k-- {
				t.StorageKeys = append(t.StorageKeys, common.Hash{31: byte(r.Intn(5)), 30: byte(r.Intn(2) * r.Intn(2) * 9)})
			}
		}
		l = append(l, t)
	}
	return l
}

// runAccessListPair: both tracers are built from the same prior list, sender, recipient and precompile list (upstream's
// list for the fork rules, so that the tracer and not the precompile set is what is compared), attached to the same run.
func runAccessListPair(r *Rng, c *diffCase, gas uint64) (verdict string, modelOp string, modelImpl string) {
	cfg, merge := forkConfig(c.fork)
	rules := cfg.Rules(big.NewInt(1), merge, 1)
	pre := upvm.ActivePrecompiles(rules)
	from, to := callerAddr, c.root
	acl := randomPriorList(r, c, from, pre)
	fl := &aclRec{AccessListTracer: logger.NewAccessListTracer(acl, from, to, pre)}
	ul := uplogger.NewAccessListTracer(acl, from, to, pre)
	excl := []string{natHex(from[:]), natHex(to[:])}
	for _, p := range pre {
		excl = append(excl, natHex(p[:]))
	}
	// straight after construction
	if a, b := aclString(fl.AccessList()), aclString(ul.AccessList()); a != b {
		return "differs:accessListTracer:constructed_fork=" + a + "_upstream=" + b, "AL " + strings.Join(excl, ",") + " " + aclCanon(acl, false) + " .", aclCanon(fl.AccessList(), true)
	}
	fp, up := runLoggerPair(c, gas, fl, ul)
	a, b := aclString(fl.AccessList()), aclString(ul.AccessList())
	same := a == b && fl.Equal(fl.AccessListTracer) && ul.Equal(ul)
	evs := "."
	if len(fl.evs) > 0 {
		evs = strings.Join(fl.evs, ";")
	}
	return pairVerdict("accessListTracer", fp, up, same, func() string { return "fork=" + a + "_upstream=" + b }),
		"AL " + strings.Join(excl, ",") + " " + aclCanon(acl, false) + " " + evs, aclCanon(fl.AccessList(), true)
}

func natHex(b []byte) string { return new(big.Int).SetBytes(b).Text(16) }

// aclCanon: the list in the model's notation; sorted numerically when it is an output (a Go map has no order), in the
// given order when it is the prior list (the order and repetitions of its tuples are input)
func aclCanon(l types.AccessList, sorted bool) string {
	if len(l) == 0 {
		return "."
	}
	l2 := append(types.AccessList{}, l...)
	if sorted {
		sort.Slice(l2, func(i, j int) bool { return bytes.Compare(l2[i].Address[:], l2[j].Address[:]) < 0 })
	}
	rows := []string{}
	for _, t := range l2 {
		ks := append([]common.Hash{}, t.StorageKeys...)
		if sorted {
			sort.Slice(ks, func(i, j int) bool { return bytes.Compare(ks[i][:], ks[j][:]) < 0 })
		}
		keys := []string{}
		for _, k := range ks {
			keys = append(keys, natHex(k[:]))
		}
		rows = append(rows, natHex(t.Address[:])+":"+strings.Join(keys, ","))
	}
	return strings.Join(rows, ";")
}

// aclRec records what the fork's access-list tracer is shown at each step (opcode, executing contract, stack height and
// the two top words) and hands the step on: the Lean model of the tracer replays the record.
type aclRec struct {
	*logger.AccessListTracer
	evs []string
}

func (a *aclRec) CaptureState(pc uint64, op vm.OpCode, gas, cost uint64, scope *vm.ScopeContext, rData []byte, depth int, err error) {
	d := scope.Stack.Data()
	relevant := op == vm.SLOAD || op == vm.SSTORE || op == vm.BALANCE || op == vm.SELFDESTRUCT || (op >= vm.EXTCODESIZE && op <= vm.EXTCODEHASH) || (op >= vm.CREATE && op <= vm.STATICCALL)
	if len(a.evs) < 300 && (relevant || pc%5 == 0) {
		top, second := "0", "0"
		if len(d) >= 1 {
			top = d[len(d)-1].Hex()[2:]
		}
		if len(d) >= 2 {
			second = d[len(d)-2].Hex()[2:]
		}
		ca := scope.Contract.Address()
		a.evs = append(a.evs, fmt.Sprintf("%x/%s/%x/%s/%s", byte(op), natHex(ca[:]), len(d), top, second))
		a.AccessListTracer.CaptureState(pc, op, gas, cost, scope, rData, depth, err)
		return
	}
	if relevant { // beyond the record's size: stop the comparison rather than let it drift
		a.evs = append(a.evs[:0], "overflow")
	}
	a.AccessListTracer.CaptureState(pc, op, gas, cost, scope, rData, depth, err)
}

// runJSONLoggerPair: the line-per-step JSON logger with a random configuration.
func runJSONLoggerPair(r *Rng, c *diffCase, gas uint64) string {
	fc := &logger.Config{EnableMemory: r.Chance(50), DisableStack: r.Chance(30), DisableStorage: r.Chance(30), EnableReturnData: r.Chance(50), Debug: r.Chance(30)}
	uc := &uplogger.Config{EnableMemory: fc.EnableMemory, DisableStack: fc.DisableStack, DisableStorage: fc.DisableStorage, EnableReturnData: fc.EnableReturnData, Debug: fc.Debug}
	var fb, ub bytes.Buffer
	fl := logger.NewJSONLogger(fc, &fb)
	ul := uplogger.NewJSONLogger(uc, &ub)
	if r.Chance(10) {
		fl = logger.NewJSONLogger(nil, &fb)
		ul = uplogger.NewJSONLogger(nil, &ub)
	}
	fp, up := runLoggerPair(c, gas, fl, ul)
	return pairVerdict("jsonLogger", fp, up, bytes.Equal(fb.Bytes(), ub.Bytes()), func() string {
		fls, uls := strings.Split(fb.String(), "\n"), strings.Split(ub.String(), "\n")
		for i := 0; i < len(fls) && i < len(uls); i++ {
			if fls[i] != uls[i] {
				// name the fields that differ (a step line can be long: stack and memory come before the opcode name)
				var fm, um map[string]interface{}
				if json.Unmarshal([]byte(fls[i]), &fm) == nil && json.Unmarshal([]byte(uls[i]), &um) == nil {
					keys := []string{}
					for k := range fm {
						keys = append(keys, k)
					}
					for k := range um {
						if _, ok := fm[k]; !ok {
							keys = append(keys, k)
						}
					}
					sort.Strings(keys)
					out := []string{}
					for _, k := range keys {
						if a, b := fmt.Sprint(fm[k]), fmt.Sprint(um[k]); a != b {
							out = append(out, fmt.Sprintf("%s:fork=%.80s|upstream=%.80s", k, a, b))
						}
					}
					return fmt.Sprintf("line_%d:%s", i, strings.Join(out, ","))
				}
				return fmt.Sprintf("line_%d:fork=%.160s|upstream=%.160s", i, fls[i], uls[i])
			}
		}
		return fmt.Sprintf("lines_fork=%d_upstream=%d", len(fls), len(uls))
	})
}
