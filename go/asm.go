package main

import (
	"math/big"

	"github.com/holiman/uint256"
)

// tiny assembler for harness programs
type Asm struct{ b []byte }

func (a *Asm) Op(ops ...byte) *Asm { a.b = append(a.b, ops...); return a }
func (a *Asm) Push(v *uint256.Int) *Asm {
	x := v.Bytes32()
	a.b = append(a.b, 0x7f)
	a.b = append(a.b, x[:]...)
	return a
}
func (a *Asm) PushU(v uint64) *Asm { return a.Push(uint256.NewInt(v)) }
func (a *Asm) PushBig(v *big.Int) *Asm {
	u, _ := uint256.FromBig(v)
	return a.Push(u)
}
func (a *Asm) PushBytes(b []byte) *Asm { return a.Push(new(uint256.Int).SetBytes(b)) }
func (a *Asm) Bytes() []byte           { return a.b }
func (a *Asm) Len() int                { return len(a.b) }

const (
	opSTOP           = 0x00
	opCALLDATASIZE   = 0x36
	opCALLDATACOPY   = 0x37
	opPOP            = 0x50
	opMLOAD          = 0x51
	opMSTORE         = 0x52
	opSLOAD          = 0x54
	opSSTORE         = 0x55
	opJUMP           = 0x56
	opJUMPI          = 0x57
	opMSIZE          = 0x59
	opGAS            = 0x5a
	opADDRESS        = 0x30
	opSUB            = 0x03
	opJUMPDEST       = 0x5b
	opTLOAD          = 0x5c
	opTSTORE         = 0x5d
	opMCOPY          = 0x5e
	opPUSH1          = 0x60
	opDUP1           = 0x80
	opSWAP1          = 0x90
	opLOG0           = 0xa0
	opCREATE         = 0xf0
	opCALL           = 0xf1
	opCALLCODE       = 0xf2
	opRETURN         = 0xf3
	opDELEGATECALL   = 0xf4
	opCREATE2        = 0xf5
	opSTATICCALL     = 0xfa
	opREVERT         = 0xfd
	opINVALID        = 0xfe
	opSELFDESTRUCT   = 0xff
	opRETURNDATASIZE = 0x3d
	opRETURNDATACOPY = 0x3e
)
