package main

// M3 layer: the Artela precompiles 0x64/0x65/0x66, (a) directly through the exported table +
// RunPrecompiledContract (with and without CloneWithCtx) and (b) through real CALL / CALLCODE / DELEGATECALL /
// STATICCALL bytecode from forwarder contracts at depth 1..3, on forks either side of Berlin; host callbacks log
// their arguments.  Compared with Artela/Model/Precompile.lean (P / PB lines) and Spec/Abi.lean (S abipair).

import (
	"context"
	"errors"
	"fmt"
	"math/big"
	"runtime"
	"strings"

	"github.com/artela-network/artela-evm/vm"
	"github.com/ethereum/go-ethereum/common"
	upvm "github.com/ethereum/go-ethereum/core/vm"
	"github.com/holiman/uint256"
)

var abiBoundary = []string{"0", "20", "40", "60", "80", "7fffffffffffffff", "8000000000000000", "ffffffffffffffc0", "ffffffffffffffdf", "ffffffffffffffe0", "ffffffffffffffff",
	"10000000000000000", "ffffffffffffffffffffffffffffffffffffffffffffffffffffffffffffffff"}

func word32(u *uint256.Int) []byte { b := u.Bytes32(); return b[:] }

func abiEncode2(key, value []byte) []byte {
	pad := func(b []byte) []byte { return append(append([]byte{}, b...), make([]byte, (32-len(b)%32)%32)...) }
	out := append([]byte{}, word32(uint256.NewInt(0x40))...)
	out = append(out, word32(uint256.NewInt(uint64(0x40+32+len(pad(key)))))...)
	out = append(out, word32(uint256.NewInt(uint64(len(key))))...)
	out = append(out, pad(key)...)
	out = append(out, word32(uint256.NewInt(uint64(len(value))))...)
	out = append(out, pad(value)...)
	return out
}

func genPayload66(r *Rng) ([]byte, string) {
	key, val := r.Bytes(r.Intn(40)), r.Bytes(r.Intn(70))
	enc := abiEncode2(key, val)
	switch k := r.Intn(100); {
	case k < 27:
		return enc, "wellformed"
	case k < 35:
		// a valid encoding whose byte strings are not padded to whole words (the offsets say where things are; nothing requires
		// alignment), of every length modulo 32 - in particular lengths that look like "selector + arguments"
		if r.Bool() {
			key = r.Bytes([]int{4, 4, 36, 1, 31}[r.Intn(5)])
			val = r.Bytes([]int{0, 0, 32, 5}[r.Intn(4)])
		}
		out := append([]byte{}, word32(uint256.NewInt(0x40))...)
		out = append(out, word32(uint256.NewInt(uint64(0x40+32+len(key))))...)
		out = append(out, word32(uint256.NewInt(uint64(len(key))))...)
		out = append(out, key...)
		out = append(out, word32(uint256.NewInt(uint64(len(val))))...)
		out = append(out, val...)
		return out, "unpadded"
	case k < 40:
		// a few stray bytes in front of a canonical encoding (a function selector, say): the words then read differently
		return append(r.Bytes([]int{4, 4, 4, 1, 8, 32}[r.Intn(6)]), enc...), "prefixed"
	case k < 48: // truncation at a random length
		return enc[:r.Intn(len(enc)+1)], "truncated"
	case k < 54:
		// a LENGTH word just below 2^64, so that start + length wraps to a position at or before the start of the data
		// (start = 96 for the key, 160 + the padded key for the value), or lands just after it
		pos := []int{64, 64 + 32 + (len(key)+31)/32*32}[r.Intn(2)]
		start := uint64(pos + 32)
		kk := uint64(1 + r.Intn(int(start)+8))
		if r.Chance(30) {
			kk = []uint64{1, 32, start, start - 1, start + 1}[r.Intn(5)]
		}
		w := new(uint256.Int).Sub(new(uint256.Int).Lsh(uint256.NewInt(1), 64), uint256.NewInt(kk))
		copy(enc[pos:], word32(w))
		return enc, "length-wrap"
	case k < 75: // a head or length word replaced by a boundary value
		pos := []int{0, 32, 64, 64 + 32 + (len(key)+31)/32*32}[r.Intn(4)]
		var w *uint256.Int
		if r.Chance(45) {
			w, _ = uint256.FromHex("0x" + abiBoundary[r.Intn(len(abiBoundary))])
		} else if r.Chance(40) {
			// 2^64 - k with k up to the payload length: offset+32 or start+length wraps to a position inside the payload
			w = new(uint256.Int).Sub(new(uint256.Int).Lsh(uint256.NewInt(1), 64), uint256.NewInt(uint64(r.Intn(len(enc)+64))))
		} else {
			// relative to the payload length: len-32, len-31, len, len+1
			w = uint256.NewInt(uint64(len(enc) - 32 + r.Intn(35)))
		}
		if pos+32 <= len(enc) {
			copy(enc[pos:], word32(w))
		}
		return enc, "boundary-word"
	case k < 85: // overlapping / non-canonical but valid offsets
		n := 96 + 32*r.Intn(3)
		b := make([]byte, n)
		copy(b[0:], word32(uint256.NewInt(uint64(64+32*r.Intn(2)))))
		copy(b[32:], word32(uint256.NewInt(uint64(64))))
		copy(b[64:], word32(uint256.NewInt(uint64(r.Intn(n-95)))))
		return b, "overlapping"
	case k < 92:
		return r.Bytes(r.Intn(260)), "random"
	default:
		return []byte{}, "empty"
	}
}

func genPayload(r *Rng, addr byte) ([]byte, string) {
	switch addr {
	case 0x64:
		n := []int{0, 1, 19, 20, 21, 52, 20 + r.Intn(80)}[r.Intn(7)]
		return r.Bytes(n), fmt.Sprintf("len%d", min(n, 22))
	case 0x65:
		n := []int{0, 1, 31, 32, 33, 64, r.Intn(70)}[r.Intn(7)]
		if r.Chance(50) {
			n = 32
		}
		return r.Bytes(n), fmt.Sprintf("len%d", min(n, 34))
	}
	return genPayload66(r)
}

func min(a, b int) int {
	if a < b {
		return a
	}
	return b
}

// scriptHost sets the host callbacks' scripted answers and returns the P-line tokens for them.
func scriptHost(r *Rng, addr byte) (string, string) {
	hostCtxLog = nil
	hostCtxFail = map[string]error{}
	hostCtxRet = r.Bytes(r.Intn(40))
	if addr == 0x65 {
		hostCtxRet = r.Bytes(20)
	}
	herr := "-"
	if r.Chance(15) {
		e := errors.New("host refused")
		hostCtxFail["get"], hostCtxFail["set"], hostCtxFail["jit"] = e, e, e
		herr = "host_refused"
	}
	return hexBytes(hostCtxRet), herr
}

func hostLogStr() string {
	if len(hostCtxLog) == 0 {
		return "none"
	}
	return strings.ReplaceAll(strings.Join(hostCtxLog, "+"), " ", "_")
}

// precompileExitLogger records enter/exit of calls whose target is the precompile under test.
type pcLogger struct {
	target common.Address
	stack  []bool
	seen   bool
	out    []byte
	err    error
}

func (l *pcLogger) CaptureTxStart(uint64) {}
func (l *pcLogger) CaptureTxEnd(uint64)   {}
func (l *pcLogger) CaptureStart(*vm.EVM, common.Address, common.Address, bool, []byte, uint64, *big.Int) {
}
func (l *pcLogger) CaptureEnd([]byte, uint64, error) {}
func (l *pcLogger) CaptureEnter(typ vm.OpCode, from, to common.Address, input []byte, gas uint64, value *big.Int) {
	l.stack = append(l.stack, to == l.target)
}
func (l *pcLogger) CaptureExit(output []byte, gasUsed uint64, err error) {
	if n := len(l.stack); n > 0 {
		if l.stack[n-1] {
			l.seen, l.out, l.err = true, append([]byte{}, output...), err
		}
		l.stack = l.stack[:n-1]
	}
}
func (l *pcLogger) CaptureFault(uint64, vm.OpCode, uint64, uint64, *vm.ScopeContext, int, error) {}
func (l *pcLogger) CaptureState(uint64, vm.OpCode, uint64, uint64, *vm.ScopeContext, []byte, int, error) {
}

var callKindNames = map[byte]string{opCALL: "CALL", opCALLCODE: "CALLCODE", opDELEGATECALL: "DELEGATECALL", opSTATICCALL: "STATICCALL"}

// forwarder: copy calldata to memory and <kind> it to `to`, then STOP.
func forwarder(kind byte, to common.Address) []byte {
	a := &Asm{}
	a.Op(opCALLDATASIZE, opPUSH1, 0, opPUSH1, 0, opCALLDATACOPY)
	a.Op(opPUSH1, 0, opPUSH1, 0, opCALLDATASIZE, opPUSH1, 0) // retSize retOff argsSize argsOff
	if kind == opCALL || kind == opCALLCODE {
		a.Op(opPUSH1, 0) // value
	}
	a.PushBytes(to[:])
	a.Op(opGAS, kind, opPOP, opSTOP)
	return a.Bytes()
}

func drivePrecompile(seed uint64, n int, size int, em *Emitter) {
	r := NewRng(seed)
	initHost()
	kinds := []byte{opCALL, opCALLCODE, opDELEGATECALL, opSTATICCALL}
	for i := 0; i < n; i++ {
		addrB := []byte{0x64, 0x65, 0x66, 0x66}[r.Intn(4)]
		addr := common.BytesToAddress([]byte{addrB})
		input, class := genPayload(r, addrB)
		// ---------- (a) direct
		em.Reset(fmt.Sprintf("precompile-direct-%d-%d", seed, i))
		hret, herr := scriptHost(r, addrB)
		p := vm.PrecompiledContractsBerlin[addr]
		ctxTok := "-"
		if cp, ok := p.(vm.ContextfulPrecompiledContract); ok && r.Chance(60) {
			p = cp.CloneWithCtx(&vm.ExecutionContext{})
			ctxTok = "0"
		}
		gas := []uint64{4999, 5000, 100000, 100000}[r.Intn(4)]
		impl := ""
		func() {
			defer func() {
				if x := recover(); x != nil {
					impl = "panic"
				}
			}()
			var in []byte = input
			if len(input) == 0 && r.Bool() {
				in = nil
			}
			ret, left, err := vm.RunPrecompiledContract(context.Background(), p, in, gas)
			if err != nil {
				impl = fmt.Sprintf("host=%s res=err gas=-", hostLogStr())
			} else {
				impl = fmt.Sprintf("host=%s res=ok:%s gas=%s", hostLogStr(), hexBytes(ret), hexU64(left))
			}
		}()
		em.Op("C14,C03,C20", fmt.Sprintf("P %x 1 %s %s %s %s %s", addrB, ctxTok, hret, herr, hexU64(gas), hexBytes(input)), impl)
		em.Count(fmt.Sprintf("direct:%x:%s:%s", addrB, class, strings.SplitN(strings.SplitN(impl, "res=", 2)[len(strings.SplitN(impl, "res=", 2))-1], ":", 2)[0]))
		if addrB == 0x66 && ctxTok != "-" && gas >= 5000 && herr == "-" {
			// specification: the pair handed to the host is the ABI decoding of the payload, or the call is rejected
			pair := "reject"
			if len(hostCtxLog) == 1 && strings.HasPrefix(hostCtxLog[0], "set ") {
				f := strings.Fields(hostCtxLog[0])
				pair = f[2] + "," + f[3]
			} else if impl == "panic" {
				pair = "panic"
			}
			em.Op("C14,C03", "S abipair "+hexBytes(input), pair)
		}

		// ---------- (b) through bytecode
		em.Reset(fmt.Sprintf("precompile-bytecode-%d-%d", seed, i))
		fork := []string{"Istanbul", "Berlin", "London", "Shanghai", "Cancun", "Byzantium"}[r.Intn(6)]
		active := forkIndex(fork) >= forkIndex("Berlin")
		depth := 1 + r.Intn(3)
		hops := make([]byte, depth) // hops[j]: kind used by forwarder j to reach forwarder j+1 (last: the precompile)
		for j := range hops {
			hops[j] = kinds[r.Intn(4)]
			if forkIndex(fork) < forkIndex("Byzantium") && hops[j] == opSTATICCALL {
				hops[j] = opCALL
			}
		}
		sdb := newStateDB()
		lg := &pcLogger{target: addr}
		env := newEnv(fork, lg, nil, sdb, nil)
		env.evm.CloseAspectCall()
		fw := func(j int) common.Address { return common.BytesToAddress([]byte{0xf0, byte(j + 1)}) }
		storage := fw(0)
		for j := 0; j < depth; j++ {
			to := addr
			if j+1 < depth {
				to = fw(j + 1)
			}
			sdb.CreateAccount(fw(j))
			sdb.SetCode(fw(j), forwarder(hops[j], to))
			if j+1 < depth && (hops[j] == opCALL || hops[j] == opSTATICCALL) {
				storage = fw(j + 1)
			}
		}
		ctxTok = "-"
		if hops[depth-1] == opCALL {
			ctxTok = hexAddr(storage)
		}
		hret, herr = scriptHost(r, addrB)
		impl = ""
		func() {
			defer func() {
				if x := recover(); x != nil {
					impl = "panic"
				}
			}()
			_, _, err := env.evm.Call(context.Background(), vm.AccountRef(callerAddr), fw(0), input, 5_000_000, new(big.Int))
			_ = err
			if !lg.seen {
				impl = "not-reached"
			} else if lg.err != nil {
				impl = fmt.Sprintf("host=%s res=err", hostLogStr())
			} else {
				impl = fmt.Sprintf("host=%s res=ok:%s", hostLogStr(), hexBytes(lg.out))
			}
		}()
		act := "0"
		if active {
			act = "1"
		}
		names := make([]string, depth)
		for j, k := range hops {
			names[j] = callKindNames[k]
		}
		em.Op("C14,C03", fmt.Sprintf("PB %x %s %s %s %s %s %s", addrB, act, ctxTok, hret, herr, hexU64(1_000_000), hexBytes(input)), impl)
		em.Count(fmt.Sprintf("bytecode:%x:%s:%s:active=%s", addrB, names[depth-1], class, act))
		if addrB == 0x66 {
			// C14 specification (computed from the scenario, independent of the model): a context write is recorded under
			// the storage address of the frame whose CALL reached the precompile, or not at all
			att := "ok"
			for _, l := range hostCtxLog {
				if f := strings.Fields(l); len(f) >= 2 && f[0] == "set" && (ctxTok == "-" || f[1] != ctxTok) {
					att = "wrong:recorded_under_" + f[1] + "_expected_" + ctxTok
				}
			}
			if impl == "panic" {
				att = "panic"
			}
			em.Op("C14", "S attribution "+strings.Join(names, ">"), att)
		}
		em.Count("bytecode-chain:" + strings.Join(names, ">"))
		// bookkeeping closed
		cur := "-"
		if x := env.evm.Tracer().CallTree().Current(); x != nil {
			cur = hexU64(x.Index)
		}
		if impl != "panic" {
			em.Op("C03", "S cursor-at-rest", cur)
		}
		// ---------- (c) inherited precompiles 1-9: bytes allocated per call against the gas the call must pay (C20, measured)
		stdPrecompileWork(r, em, seed, i)
		stdPrecompileGas(r, em, seed, i)
		stdPrecompileGas(r, em, seed, i)
	}
}

// stdPrecompileGas: what an inherited precompile does for an input is go-ethereum's (identity fact), so its work is bounded by
// go-ethereum's price for that input; the fork must not ask less. Inputs are structured per precompile: for MODEXP the three
// length words with exponents whose leading 32 bytes are zero / all ones / random and whose tail is long; for the hashes and
// the identity function lengths either side of a word; for BLAKE2F the round count.
func stdPrecompileGas(r *Rng, em *Emitter, seed uint64, i int) {
	tables := []struct {
		name string
		fork map[common.Address]vm.PrecompiledContract
		up   map[common.Address]upvm.PrecompiledContract
	}{{"Byzantium", vm.PrecompiledContractsByzantium, upvm.PrecompiledContractsByzantium},
		{"Istanbul", vm.PrecompiledContractsIstanbul, upvm.PrecompiledContractsIstanbul},
		{"Berlin", vm.PrecompiledContractsBerlin, upvm.PrecompiledContractsBerlin}}
	t := tables[r.Intn(len(tables))]
	addrB := byte(1 + r.Intn(9))
	if r.Chance(40) {
		addrB = 5
	}
	addr := common.BytesToAddress([]byte{addrB})
	fp, ok1 := t.fork[addr]
	upc, ok2 := t.up[addr]
	if !ok1 || !ok2 {
		return
	}
	var in []byte
	switch addrB {
	case 5:
		w := func(v uint64) []byte { return word32(uint256.NewInt(v)) }
		bl := []uint64{0, 1, 32, 64, 256}[r.Intn(5)]
		ml := []uint64{0, 1, 32, 64, 256}[r.Intn(5)]
		el := []uint64{0, 1, 31, 32, 33, 40, 64, 300, 4096}[r.Intn(9)]
		exp := r.Bytes(int(el))
		switch r.Intn(5) {
		case 0: // the leading 32 bytes zero, the tail not
			for k := 0; k < len(exp) && k < 32; k++ {
				exp[k] = 0
			}
		case 1:
			for k := range exp {
				exp[k] = 0
			}
		case 2:
			for k := range exp {
				exp[k] = 0xff
			}
		case 3: // a single low bit in the head
			for k := 0; k < len(exp) && k < 32; k++ {
				exp[k] = 0
			}
			if len(exp) >= 32 {
				exp[31] = 1
			}
		}
		baseB, modB := r.Bytes(int(bl)), r.Bytes(int(ml))
		if r.Chance(35) {
			// operands at the edges of the arithmetic: 0, 1, 2, all ones (with their leading zero bytes)
			edge := func(b []byte) {
				v := []byte{0, 1, 2, 0xff}[r.Intn(4)]
				for k := range b {
					b[k] = 0
					if v == 0xff {
						b[k] = 0xff
					}
				}
				if len(b) > 0 && v != 0xff {
					b[len(b)-1] = v
				}
			}
			if r.Chance(70) {
				edge(modB)
			}
			if r.Chance(50) {
				edge(baseB)
			}
			if r.Chance(40) {
				edge(exp)
			}
		}
		in = append(append(append(w(bl), w(el)...), w(ml)...), baseB...)
		in = append(in, exp...)
		in = append(in, modB...)
		if r.Chance(10) && len(in) > 96 {
			in = in[:96+r.Intn(len(in)-96)] // truncated: the missing part reads as zeros
		} else if r.Chance(12) && el > 1 {
			// calldata that ends inside the leading 32 bytes of the exponent (the rest reads as zeros, on the right)
			head := el
			if head > 32 {
				head = 32
			}
			cut := 96 + int(bl) + 1 + r.Intn(int(head)-1)
			if cut < len(in) {
				in = in[:cut]
			}
		}
		if r.Chance(35) {
			// header-only inputs whose PRICE is near a multiple of 2^64 (the price is computed in big integers and cut to 64
			// bits at the end): words^2 * 8*(el-32) / 3 with words = bl/8 a power of two, or solved for el from random lengths
			var blW, elW, mlW *big.Int
			two64 := new(big.Int).Lsh(big.NewInt(1), 64)
			switch r.Intn(3) {
			case 0:
				a := 17 + r.Intn(15)
				b := 61 - 2*a + r.Intn(5) - 1
				if b < 0 {
					b = 0
				}
				blW = new(big.Int).Lsh(big.NewInt(8), uint(a))
				elW = new(big.Int).Add(big.NewInt(32), new(big.Int).Lsh(big.NewInt(3), uint(b)))
				mlW = big.NewInt(int64(1 + r.Intn(8)))
			case 1:
				x := int64(8 * (1 + r.Intn(64)))
				blW, mlW = big.NewInt(x), big.NewInt(x)
				words := big.NewInt(x / 8)
				k := big.NewInt(int64(1 + r.Intn(3)))
				num := new(big.Int).Mul(new(big.Int).Mul(k, two64), big.NewInt(3))
				den := new(big.Int).Mul(new(big.Int).Mul(words, words), big.NewInt(8))
				elW = new(big.Int).Add(big.NewInt(32), new(big.Int).Div(num, den))
			default:
				blW = new(big.Int).Lsh(big.NewInt(int64(1+r.Intn(255))), uint(8+r.Intn(40)))
				elW = new(big.Int).Lsh(big.NewInt(int64(1+r.Intn(255))), uint(r.Intn(50)))
				mlW = new(big.Int).Lsh(big.NewInt(int64(1+r.Intn(255))), uint(r.Intn(40)))
			}
			if r.Chance(50) {
				elW.Add(elW, big.NewInt(int64(r.Intn(5)-2)))
			}
			if elW.Sign() < 0 {
				elW.SetInt64(0)
			}
			in = append(append(common.LeftPadBytes(blW.Bytes(), 32), common.LeftPadBytes(elW.Bytes(), 32)...), common.LeftPadBytes(mlW.Bytes(), 32)...)
			if r.Chance(30) {
				in = append(in, r.Bytes(r.Intn(40))...)
			}
		}
	case 9:
		in = r.Bytes(213)
		rounds := []uint32{0, 1, 12, 1 << 16, 1<<32 - 1}[r.Intn(5)]
		in[0], in[1], in[2], in[3] = byte(rounds>>24), byte(rounds>>16), byte(rounds>>8), byte(rounds)
		in[212] = byte(r.Intn(2))
		if r.Chance(10) {
			in = in[:r.Intn(213)]
		}
	case 2, 3, 4:
		in = r.Bytes([]int{0, 1, 31, 32, 33, 64, 1000, 1 << 16}[r.Intn(8)])
	case 8:
		in = r.Bytes(192 * r.Intn(4))
	default:
		in = r.Bytes([]int{0, 64, 128, 192, 384}[r.Intn(5)])
	}
	em.Reset(fmt.Sprintf("precompile-stdgas-%d-%d", seed, i))
	g1, g2 := fp.RequiredGas(in), upc.RequiredGas(in)
	verdict := "ok"
	if g1 != g2 {
		verdict = fmt.Sprintf("price_differs_from_reference:fork=%d:reference=%d", g1, g2)
	}
	hdr := in
	if len(hdr) > 160 {
		hdr = hdr[:160]
	}
	em.Op("C20,C02", fmt.Sprintf("S stdgas %s %x len=%d head=%s", t.name, addrB, len(in), hexBytes(hdr)), verdict)
	em.Count(fmt.Sprintf("stdgas:%x", addrB))
	if addrB == 5 {
		// MODEXP against its Lean model (M11): the price, and the output whenever the price is at most 3 000 000
		eip := "0"
		if t.name == "Berlin" {
			eip = "1"
		}
		out := "-"
		if g1 <= 3_000_000 {
			func() {
				defer func() {
					if x := recover(); x != nil {
						out = "panic"
					}
				}()
				b, err := fp.Run(context.Background(), append([]byte{}, in...))
				if err != nil {
					out = "err:" + strings.ReplaceAll(err.Error(), " ", "_")
				} else {
					out = hexBytes(b)
				}
			}()
		}
		em.Op("C01,C02,C20", fmt.Sprintf("MX %s %s", eip, hexBytes(in)), fmt.Sprintf("gas=%x out=%s", g1, out))
	}
	// the result of the call too, whenever the reference's price makes it payable: output bytes and error class
	if g2 <= 3_000_000 {
		runSide := func(f func() ([]byte, error)) (out string) {
			defer func() {
				if x := recover(); x != nil {
					out = "panic"
				}
			}()
			b, err := f()
			if err != nil {
				return "err:" + strings.ReplaceAll(err.Error(), " ", "_")
			}
			return hexBytes(b)
		}
		o1 := runSide(func() ([]byte, error) { return fp.Run(context.Background(), append([]byte{}, in...)) })
		o2 := runSide(func() ([]byte, error) { return upc.Run(append([]byte{}, in...)) })
		rv := "same"
		if o1 != o2 {
			rv = fmt.Sprintf("result_differs_from_reference:fork=%.200s:reference=%.200s", o1, o2)
		}
		full := in
		if len(full) > 700 {
			full = full[:700]
		}
		em.Op("C01", fmt.Sprintf("S stdrun %s %x len=%d in=%s", t.name, addrB, len(in), hexBytes(full)), rv)
		em.Count(fmt.Sprintf("stdrun:%x", addrB))
	}
}

// stdPrecompileWork runs one standard precompile on a boundary-driven input that a caller could pay for and compares the bytes
// the call allocates (runtime.MemStats.TotalAlloc, best of two runs) with 64 bytes per unit of gas plus 64 KiB.
func stdPrecompileWork(r *Rng, em *Emitter, seed uint64, i int) {
	addrB := byte(1 + r.Intn(9))
	p := vm.PrecompiledContractsBerlin[common.BytesToAddress([]byte{addrB})]
	var in []byte
	lens := []uint64{0, 0, 1, 32, 64, 1 << 10, 1 << 17, 1 << 20, 1 << 24, 1 << 26}
	switch addrB {
	case 5:
		w := func(v uint64) []byte { return word32(uint256.NewInt(v)) }
		bl, el, ml := lens[r.Intn(5)], lens[r.Intn(len(lens))], lens[r.Intn(5)]
		if r.Chance(30) {
			bl, ml = 0, 0
		}
		in = append(append(append(w(bl), w(el)...), w(ml)...), r.Bytes(r.Intn(100))...)
	case 9:
		in = r.Bytes(213)
		rounds := []uint32{0, 1, 12, 1 << 16}[r.Intn(4)]
		in[0], in[1], in[2], in[3] = byte(rounds>>24), byte(rounds>>16), byte(rounds>>8), byte(rounds)
		in[212] = byte(r.Intn(2))
	case 2, 3, 4:
		in = r.Bytes([]int{0, 1, 32, 1000, 1 << 16}[r.Intn(5)])
	default:
		in = r.Bytes([]int{0, 64, 128, 192, 384}[r.Intn(5)])
	}
	em.Reset(fmt.Sprintf("precompile-std-%d-%d", seed, i))
	gas := p.RequiredGas(in)
	if gas > 30_000_000 {
		em.Count(fmt.Sprintf("std:%x:unpayable", addrB))
		return
	}
	verdict := "ok"
	best := ^uint64(0)
	for k := 0; k < 2; k++ {
		func() {
			defer func() {
				if x := recover(); x != nil {
					verdict = "panic"
				}
			}()
			var m0, m1 runtime.MemStats
			runtime.ReadMemStats(&m0)
			p.Run(context.Background(), in)
			runtime.ReadMemStats(&m1)
			if d := m1.TotalAlloc - m0.TotalAlloc; d < best {
				best = d
			}
		}()
	}
	if verdict == "ok" && best > 64*gas+(1<<16) {
		verdict = fmt.Sprintf("allocates_%d_bytes_for_%d_gas", best, gas)
	}
	hdr := in
	if len(hdr) > 96 {
		hdr = hdr[:96]
	}
	em.Op("C20,C03", fmt.Sprintf("S stdwork %x len=%d head=%s", addrB, len(in), hexBytes(hdr)), verdict)
	em.Count(fmt.Sprintf("std:%x:%s", addrB, strings.SplitN(verdict, "_", 2)[0]))
}
