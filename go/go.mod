module verifharness

go 1.20

require (
	github.com/artela-network/artela-evm v0.0.0
	github.com/artela-network/aspect-core v0.4.8-rc8
	github.com/artela-network/aspect-runtime v0.4.8-rc8
	github.com/ethereum/go-ethereum v1.12.0
	github.com/holiman/uint256 v1.2.2
	google.golang.org/protobuf v1.30.0
)

require (
	github.com/DataDog/zstd v1.5.2 // indirect
	github.com/VictoriaMetrics/fastcache v1.6.0 // indirect
	github.com/beorn7/perks v1.0.1 // indirect
	github.com/bytecodealliance/wasmtime-go/v20 v20.0.0 // indirect
	github.com/cespare/xxhash/v2 v2.2.0 // indirect
	github.com/cockroachdb/errors v1.9.1 // indirect
	github.com/cockroachdb/logtags v0.0.0-20230118201751-21c54148d20b // indirect
	github.com/cockroachdb/pebble v0.0.0-20230209160836-829675f94811 // indirect
	github.com/cockroachdb/redact v1.1.3 // indirect
	github.com/davecgh/go-spew v1.1.1 // indirect
	github.com/deckarep/golang-set/v2 v2.1.0 // indirect
	github.com/fsnotify/fsnotify v1.6.0 // indirect
	github.com/gballet/go-libpcsclite v0.0.0-20190607065134-2772fd86a8ff // indirect
	github.com/getsentry/sentry-go v0.18.0 // indirect
	github.com/go-stack/stack v1.8.1 // indirect
	github.com/gofrs/flock v0.8.1 // indirect
	github.com/gogo/protobuf v1.3.2 // indirect
	github.com/golang/protobuf v1.5.2 // indirect
	github.com/golang/snappy v0.0.5-0.20220116011046-fa5810519dcb // indirect
	github.com/google/uuid v1.3.0 // indirect
	github.com/gorilla/websocket v1.5.0 // indirect
	github.com/holiman/bloomfilter/v2 v2.0.3 // indirect
	github.com/huin/goupnp v1.0.3 // indirect
	github.com/jackpal/go-nat-pmp v1.0.2 // indirect
	github.com/kr/pretty v0.3.1 // indirect
	github.com/kr/text v0.2.0 // indirect
	github.com/mattn/go-runewidth v0.0.9 // indirect
	github.com/matttproud/golang_protobuf_extensions v1.0.4 // indirect
	github.com/olekukonko/tablewriter v0.0.5 // indirect
	github.com/pkg/errors v0.9.1 // indirect
	github.com/prometheus/client_golang v1.14.0 // indirect
	github.com/prometheus/client_model v0.3.0 // indirect
	github.com/prometheus/common v0.39.0 // indirect
	github.com/prometheus/procfs v0.9.0 // indirect
	github.com/rogpeppe/go-internal v1.9.0 // indirect
	github.com/shirou/gopsutil v3.21.4-0.20210419000835-c7a38de76ee5+incompatible // indirect
	github.com/status-im/keycard-go v0.2.0 // indirect
	github.com/syndtr/goleveldb v1.0.1-0.20210819022825-2ae1ddf74ef7 // indirect
	github.com/tklauser/go-sysconf v0.3.5 // indirect
	github.com/tklauser/numcpus v0.2.2 // indirect
	github.com/tyler-smith/go-bip39 v1.1.0 // indirect
	golang.org/x/crypto v0.9.0 // indirect
	golang.org/x/exp v0.0.0-20230206171751-46f607a40771 // indirect
	golang.org/x/sync v0.1.0 // indirect
	golang.org/x/sys v0.8.0 // indirect
	golang.org/x/text v0.9.0 // indirect
)

replace github.com/artela-network/artela-evm => /repo

replace github.com/bytecodealliance/wasmtime-go/v20 => github.com/artela-network/wasmtime-go/v20 v20.0.3
