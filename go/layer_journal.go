package main

// M2 layer: journal instructions 0xe0–0xe7 executed by the real interpreter inside real bytecode,
// compared with Artela/Model/Journal.lean (J lines), with the Solidity-layout specification
// (S solpacked / S solstring), the constant-fee / pure-pop claim (S jeffect) and the work counter (W).

import (
	"bytes"
	"context"
	"errors"
	"fmt"
	"math/big"
	"sort"
	"strings"

	"github.com/artela-network/artela-evm/vm"
	"github.com/ethereum/go-ethereum/common"
	"github.com/ethereum/go-ethereum/core/state"
	"github.com/ethereum/go-ethereum/crypto"
	"github.com/holiman/uint256"
)

var jopNames = []string{"rsv", "vsv", "irvv", "irvr", "ivvv", "ivvr", "vv", "vr"}
var jopArity = []int{3, 4, 6, 5, 6, 5, 4, 2}

// workK: the "fixed multiple" of C20 used by the search (generous: the EVM's own schedule gives 800 gas ≤ 8 warm reads)
const workK = 16

// countingDB counts storage reads (C20) on top of the real StateDB.
type countingDB struct {
	*state.StateDB
	reads int
}

func (c *countingDB) GetState(a common.Address, k common.Hash) common.Hash {
	c.reads++
	return c.StateDB.GetState(a, k)
}

type jstep struct {
	op       byte
	pc       uint64
	cost     uint64
	stackLen int
	memLen   int
	reads0   int
	rdata    string
	depth    int
	mem      []byte // memory at a journal instruction
}

// stepLogger records every executed instruction of interest.
type stepLogger struct {
	steps []jstep
	all   []jstep
	db    *countingDB
}

func (l *stepLogger) CaptureTxStart(uint64) {}
func (l *stepLogger) CaptureTxEnd(uint64)   {}
func (l *stepLogger) CaptureStart(*vm.EVM, common.Address, common.Address, bool, []byte, uint64, *big.Int) {
}
func (l *stepLogger) CaptureEnd([]byte, uint64, error) {}
func (l *stepLogger) CaptureEnter(vm.OpCode, common.Address, common.Address, []byte, uint64, *big.Int) {
}
func (l *stepLogger) CaptureExit([]byte, uint64, error) {}
func (l *stepLogger) CaptureFault(uint64, vm.OpCode, uint64, uint64, *vm.ScopeContext, int, error) {
}
func (l *stepLogger) CaptureState(pc uint64, op vm.OpCode, gas, cost uint64, scope *vm.ScopeContext, rData []byte, depth int, err error) {
	s := jstep{op: byte(op), pc: pc, cost: cost, stackLen: len(scope.Stack.Data()), memLen: scope.Memory.Len(), rdata: hexBytes(rData), depth: depth}
	if l.db != nil {
		s.reads0 = l.db.reads
	}
	if op >= 0xe0 && op <= 0xe7 {
		s.mem = append([]byte{}, scope.Memory.Data()...)
	}
	l.all = append(l.all, s)
}

type jcase struct {
	fork    string
	static  bool
	mem     []byte // calldata copied to memory (padded to 32 by the EVM)
	storage map[common.Hash]common.Hash
	ops     []jinstr
	prefill int // words pushed before the first journal instruction (stack depth at which the instructions run)
}
type jinstr struct {
	op   int
	args []*uint256.Int // in pop order
	// stage: a length-prefixed record the program writes to memory at stagePtr right before this instruction (how a contract
	// stages successive mapping keys in one scratch buffer)
	stage    []byte
	stagePtr uint64
}

// emitStage writes the record (32-byte length word, then the bytes in 32-byte words) with MSTOREs.
func (in jinstr) emitStage(a *Asm) {
	if in.stage == nil {
		return
	}
	a.PushU(uint64(len(in.stage))).PushU(in.stagePtr).Op(opMSTORE)
	for i := 0; i < len(in.stage); i += 32 {
		w := make([]byte, 32)
		copy(w, in.stage[i:])
		a.PushBytes(w).PushU(in.stagePtr + 32 + uint64(i)).Op(opMSTORE)
	}
}

var contractAddr = common.BytesToAddress([]byte{0xc1})
var callerAddr = common.BytesToAddress([]byte{0xca})

func (c *jcase) program() []byte {
	a := &Asm{}
	a.Op(opCALLDATASIZE, opPUSH1, 0, opPUSH1, 0, opCALLDATACOPY)
	for i := 0; i < c.prefill; i++ {
		a.Op(opPUSH1, byte(i))
	}
	for _, in := range c.ops {
		in.emitStage(a)
		for i := len(in.args) - 1; i >= 0; i-- {
			a.Push(in.args[i])
		}
		a.Op(byte(0xe0 + in.op))
	}
	// observable tail: one MSIZE so that the step after the last journal op exists
	a.Op(opMSIZE, opPOP, opSTOP)
	return a.Bytes()
}

// programWithPops: the same program with every journal instruction replaced by one POP per operand
func (c *jcase) programWithPops() []byte {
	a := &Asm{}
	a.Op(opCALLDATASIZE, opPUSH1, 0, opPUSH1, 0, opCALLDATACOPY)
	for i := 0; i < c.prefill; i++ {
		a.Op(opPUSH1, byte(i))
	}
	for _, in := range c.ops {
		in.emitStage(a)
		for i := len(in.args) - 1; i >= 0; i-- {
			a.Push(in.args[i])
		}
		for range in.args {
			a.Op(opPOP)
		}
	}
	a.Op(opMSIZE, opPUSH1, 0, opMSTORE, opPUSH1, 32, opPUSH1, 0, opRETURN)
	return a.Bytes()
}

// runRawJ runs code in the setting of case c without any logger: gas left, memory size reported by the program, return data, error.
// (The journal variant of the program gets the same observable tail as programWithPops.)
func runRawJ(c *jcase, code []byte) (uint64, uint64, string, error) {
	if n := len(code); n >= 3 && code[n-1] == opSTOP && code[n-2] == opPOP && code[n-3] == opMSIZE {
		code = append(append([]byte{}, code[:n-3]...), opMSIZE, opPUSH1, 0, opMSTORE, opPUSH1, 32, opPUSH1, 0, opRETURN)
	}
	sdb := newStateDB()
	env := newEnvDB(c.fork, nil, nil, sdb, sdb)
	sdb.CreateAccount(contractAddr)
	sdb.SetCode(contractAddr, code)
	for k, v := range c.storage {
		sdb.SetState(contractAddr, k, v)
	}
	env.evm.CloseAspectCall()
	var ret []byte
	var left uint64
	var err error
	func() {
		defer func() {
			if x := recover(); x != nil {
				err = fmt.Errorf("panic: %v", x)
			}
		}()
		if c.static {
			ret, left, err = env.evm.StaticCall(context.Background(), vm.AccountRef(callerAddr), contractAddr, c.mem, 10_000_000)
		} else {
			ret, left, err = env.evm.Call(context.Background(), vm.AccountRef(callerAddr), contractAddr, c.mem, 10_000_000, new(big.Int))
		}
	}()
	ms := uint64(0)
	if len(ret) == 32 {
		ms = new(uint256.Int).SetBytes(ret).Uint64()
	}
	return left, ms, hexBytes(ret), err
}

func pad32(b []byte) []byte {
	n := (len(b) + 31) / 32 * 32
	out := make([]byte, n)
	copy(out, b)
	return out
}

func storageLine(m map[common.Hash]common.Hash) string {
	if len(m) == 0 {
		return "."
	}
	keys := make([]string, 0, len(m))
	for k, v := range m {
		keys = append(keys, hexHash(k)+"="+hexHash(v))
	}
	sort.Strings(keys)
	return strings.Join(keys, ",")
}

// runJCase executes the case on the real EVM and emits lines. `tags` = property tags of the J lines.
func runJCase(c *jcase, em *Emitter, tags string, queries func(t *vm.Tracer, q func(tags, op, impl string))) (class string) {
	sdb := newStateDB()
	cdb := &countingDB{StateDB: sdb}
	lg := &stepLogger{db: cdb}
	initHost()
	cfg, merge := forkConfig(c.fork)
	_ = merge
	env := newEnvDB(c.fork, lg, nil, cdb, sdb)
	_ = cfg
	code := c.program()
	sdb.CreateAccount(contractAddr)
	sdb.SetCode(contractAddr, code)
	for k, v := range c.storage {
		sdb.SetState(contractAddr, k, v)
	}
	sdb.AddBalance(callerAddr, big.NewInt(1000))
	env.evm.CloseAspectCall()

	var err error
	var ret []byte
	panicked := ""
	func() {
		defer func() {
			if r := recover(); r != nil {
				panicked = fmt.Sprint(r)
			}
		}()
		if c.static {
			ret, _, err = env.evm.StaticCall(context.Background(), vm.AccountRef(callerAddr), contractAddr, c.mem, 10_000_000)
		} else {
			ret, _, err = env.evm.Call(context.Background(), vm.AccountRef(callerAddr), contractAddr, c.mem, 10_000_000, new(big.Int))
		}
	}()
	// C12: "with malformed operands it halts the frame like any other exceptional instruction" - an exceptional halt hands no data back
	haltData := "ok"
	if err != nil && err != vm.ErrExecutionReverted && len(ret) > 0 {
		haltData = "exceptional_halt_returned_data:" + hexBytes(ret)
	}
	defer func() { em.Op("C12,C03", "S halt-no-data", haltData) }()
	// keccak table the model needs: preimage pad32(slot) for every vr op
	kparts := []string{}
	for _, in := range c.ops {
		if in.op == 7 {
			b := in.args[0].Bytes32()
			kparts = append(kparts, hexBytes(b[:])+"="+hexHash(crypto.Keccak256Hash(b[:])))
		}
	}
	kline := "."
	if len(kparts) > 0 {
		kline = strings.Join(kparts, ",")
	}
	// the enclosing top-level frame as the call tree recorded it (input of the model, not compared here)
	root := env.evm.Tracer().CallTree().FindCall(0)
	if root != nil {
		d := root.Data
		if d == nil {
			d = []byte{}
		}
		em.Op("-", fmt.Sprintf("T call %s %s %s %s %s", hexAddr(root.From), hexAddrP(root.To), hexBytes(d), hexNatU(root.Value), hexNatU(root.Gas)), "ok")
	}
	em.Op("-", fmt.Sprintf("JE %s %s %s %s", hexAddr(contractAddr), hexBytes(pad32(c.mem)), storageLine(c.storage), kline), "ok")
	lastMem := pad32(c.mem)
	// executed journal steps
	var jsteps []int
	for i, s := range lg.all {
		if s.op >= 0xe0 && s.op <= 0xe7 && s.depth == 1 {
			jsteps = append(jsteps, i)
		}
	}
	class = "ok"
	for k, si := range jsteps {
		in := c.ops[k]
		s := lg.all[si]
		args := make([]string, len(in.args))
		for i, a := range in.args {
			args[i] = hexNatU(a)
		}
		res := "ok"
		last := k == len(jsteps)-1
		if last && panicked != "" {
			res = "panic"
		} else if last && err != nil && si == len(lg.all)-1 {
			res = "err"
		}
		class = res
		if s.mem != nil && !bytes.Equal(s.mem, lastMem) {
			// the program wrote to memory since the last journal instruction: the instruction's view of memory is part of its input
			em.Op("-", fmt.Sprintf("JE %s %s %s %s", hexAddr(contractAddr), hexBytes(s.mem), storageLine(c.storage), kline), "ok")
			lastMem = s.mem
		}
		em.Op(tags, fmt.Sprintf("J %s %s", jopNames[in.op], strings.Join(args, ",")), res)
		em.Count("op:" + jopNames[in.op] + ":" + res + ":" + c.fork[:2])
		if res == "ok" && si+1 < len(lg.all) {
			n := lg.all[si+1]
			// C12: the step is pure pops + constant fee: stack shrinks by arity, memory size unchanged, pc advances by 1,
			// return-data buffer unchanged, fee 800
			eff := fmt.Sprintf("pops=%d memdelta=%d cost=%d pcdelta=%d rdata=%v", s.stackLen-n.stackLen, n.memLen-s.memLen, s.cost, n.pc-s.pc, s.rdata == n.rdata)
			em.Op("C12", "S jeffect "+jopNames[in.op], eff)
			em.Op("C20", "W", fmt.Sprintf("reads=%d", n.reads0-s.reads0))
			// C20 specification: the work of one instruction (32 units per storage read, 1 per byte copied into the
			// tracer) stays within workK times the flat fee
			reads := n.reads0 - s.reads0
			copied, allocated := 0, 0
			switch in.op {
			case 0, 1, 2, 3: // name / index key copied from memory
				pi := 0
				if in.op >= 2 {
					pi = 2
				}
				if in.args[pi].IsUint64() {
					pm := pad32(c.mem)
					if p := in.args[pi].Uint64(); p+32 <= uint64(len(pm)) {
						copied = 32 + int(new(uint256.Int).SetBytes(pm[p:p+32]).Uint64())
					}
				}
			case 7:
				if reads > 1 {
					copied = 32 * (reads - 1)
				}
			}
			if n.memLen > s.memLen {
				allocated = n.memLen - s.memLen // memory the instruction made the frame allocate (none of it is paid for by the flat fee)
			}
			units := 32*reads + copied + allocated
			wb := "ok"
			if units > workK*800 {
				// the cause is part of the verdict, so that a recorded finding about one cause does not cover another
				wb = fmt.Sprintf("exceeds:reads=%d:copied=%d:allocated=%d", reads, copied, allocated)
			}
			wbTags := "C20"
			if in.op == 7 {
				// the reference journal's unbounded append is also what C03's "no fatal error" clause is about (known finding D5)
				wbTags = "C20,C03"
			}
			em.Op(wbTags, "S workbound "+jopNames[in.op], wb)
		}
	}
	if panicked != "" && len(jsteps) == 0 {
		em.Op(tags, "J none", "panic:"+strings.ReplaceAll(panicked, " ", "_"))
	}
	// C12 specification: the program consists of pushes and journal instructions only and never exceeds 1024 stack items, so
	// every journal instruction runs unless an earlier one halted the frame on its own operands — at any stack depth
	if panicked == "" {
		v := "ok"
		if len(jsteps) < len(c.ops) && class == "ok" {
			v = fmt.Sprintf("halted_before_journal_instruction_%d_%s_at_stack_depth_%d:%s", len(jsteps), jopNames[c.ops[len(jsteps)].op],
				c.prefill+len(c.ops[len(jsteps)].args), strings.ReplaceAll(fmt.Sprint(err), " ", "_"))
		}
		var so *vm.ErrStackOverflow
		var su *vm.ErrStackUnderflow
		if errors.As(err, &so) || errors.As(err, &su) {
			// a journal instruction only pops operands the program has just pushed: a stack-bound failure is never its own doing
			v = fmt.Sprintf("stack_bound_failure_with_prefill_%d:%s", c.prefill, strings.ReplaceAll(err.Error(), " ", "_"))
		}
		em.Op("C12", "S jran", v)
	}
	if root != nil && panicked == "" {
		em.Op("-", fmt.Sprintf("T exit %s %s %s", hexU64(root.RemainingGas), optBytes(root.Ret), ferr(root.Err)), "ok")
	}
	if queries != nil {
		queries(env.evm.Tracer(), func(tg, op, impl string) { em.Op(tg, "Q "+op, impl) })
	}
	// C03 bookkeeping: cursor back at rest
	cur := "-"
	if x := env.evm.Tracer().CallTree().Current(); x != nil {
		cur = hexU64(x.Index)
	}
	if panicked == "" {
		em.Op("C03", "S cursor-at-rest", cur)
	}
	return class
}

func wordFrom(r *Rng) *uint256.Int {
	switch r.Intn(8) {
	case 0:
		return uint256.NewInt(0)
	case 1:
		return new(uint256.Int).SetAllOne()
	case 2:
		return new(uint256.Int).SetBytes(append(make([]byte, 5), r.Bytes(27)...)) // leading zero bytes
	case 3:
		return new(uint256.Int).SetBytes(append(r.Bytes(20), make([]byte, 12)...)) // trailing zero bytes
	default:
		return new(uint256.Int).SetBytes(r.Bytes(32))
	}
}

var boundaryU = []string{"0", "1", "1f", "20", "21", "3f", "40", "41", "7fffffff", "ffffffff", "100000000", "7fffffffffffffff",
	"8000000000000000", "ffffffffffffffe0", "ffffffffffffffff", "10000000000000000", "8000000000000000000000000000000000000000000000000000000000000000",
	"ffffffffffffffffffffffffffffffffffffffffffffffffffffffffffffffff"}

func boundaryWord(r *Rng) *uint256.Int {
	if r.Chance(30) {
		return wordFrom(r)
	}
	if r.Chance(25) {
		// just below a power the code's arithmetic can wrap at: 2^64-k, 2^63-k, 2^256-k, 2^64+k for small k — so that a sum with
		// another small operand crosses the boundary
		k := uint256.NewInt(uint64(r.Intn(41)))
		base := new(uint256.Int).Lsh(uint256.NewInt(1), uint([]int{64, 64, 64, 63, 0}[r.Intn(5)]))
		if base.Eq(uint256.NewInt(1)) {
			base = uint256.NewInt(0) // 2^256 - k
		}
		if r.Chance(85) {
			return base.Sub(base, k)
		}
		return base.Add(base, k)
	}
	u, _ := uint256.FromHex("0x" + boundaryU[r.Intn(len(boundaryU))])
	return u
}

func smallSlot(r *Rng) *uint256.Int {
	switch r.Intn(6) {
	case 0:
		return uint256.NewInt(0)
	case 1:
		return uint256.NewInt(1)
	case 2:
		return uint256.NewInt(5)
	case 3:
		return new(uint256.Int).Lsh(uint256.NewInt(1), 64)
	case 4:
		return new(uint256.Int).SetBytes(crypto.Keccak256([]byte{byte(r.Intn(4))}))
	default:
		return uint256.NewInt(uint64(r.Intn(300)))
	}
}

// putString writes a Solidity bytes/string value at `slot` following the layout rules (independent of the code under test).
func putString(st map[common.Hash]common.Hash, slot *uint256.Int, content []byte) {
	n := len(content)
	if n < 32 {
		var w [32]byte
		copy(w[:], content)
		w[31] = byte(2 * n)
		st[slot.Bytes32()] = w
		return
	}
	st[slot.Bytes32()] = uint256.NewInt(uint64(2*n + 1)).Bytes32()
	sb := slot.Bytes32()
	k := new(uint256.Int).SetBytes(crypto.Keccak256(sb[:]))
	for i := 0; i*32 < n; i++ {
		var w [32]byte
		copy(w[:], content[i*32:])
		st[k.Bytes32()] = w
		k.AddUint64(k, 1)
	}
}

func stringContent(r *Rng, n int) []byte {
	b := make([]byte, n)
	switch r.Intn(5) {
	case 0: // all zero
	case 1: // leading zeros
		copy(b[n/2:], r.Bytes(n-n/2))
	case 2: // trailing zeros
		copy(b, r.Bytes(n/2))
	case 3:
		for i := range b {
			b[i] = 0xff
		}
	default:
		copy(b, r.Bytes(n))
	}
	return b
}

// memory image holding ABI-like (length, data) records at chosen pointers
func memWithRecord(r *Rng) ([]byte, *uint256.Int) {
	size := []int{0, 32, 64, 96, 160, 4096, 96, 160, 256}[r.Intn(9)]
	mem := r.Bytes(size)
	if size >= 64 && r.Chance(85) {
		// a well-formed record at a random aligned-or-not pointer
		ptr := r.Intn(size - 63)
		maxLen := size - ptr - 32
		l := r.Intn(maxLen + 1)
		if r.Chance(30) {
			l = maxLen // exactly up to the end
		}
		if r.Chance(7) {
			l = maxLen + 1 + r.Intn(40) // overruns memory
		}
		lw := uint256.NewInt(uint64(l)).Bytes32()
		copy(mem[ptr:], lw[:])
		return mem, uint256.NewInt(uint64(ptr))
	}
	if r.Chance(50) {
		// pointer near the end / beyond / huge, with a length word possibly huge
		p := boundaryWord(r)
		if r.Chance(50) && size >= 32 {
			p = uint256.NewInt(uint64(size - 32 + r.Intn(40)))
			if r.Chance(50) {
				lw := boundaryWord(r).Bytes32()
				copy(mem[size-32:], lw[:])
				p = uint256.NewInt(uint64(size - 32))
			}
		}
		return mem, p
	}
	if size >= 32 {
		lw := boundaryWord(r).Bytes32()
		ptr := r.Intn(size - 31)
		copy(mem[ptr:], lw[:])
		return mem, uint256.NewInt(uint64(ptr))
	}
	return mem, boundaryWord(r)
}

func tracerQueriesFor(c *jcase) func(t *vm.Tracer, q func(tags, op, impl string)) {
	return func(t *vm.Tracer, q func(tags, op, impl string)) {
		it := &implTracer{t: t}
		q("C03,C07,C09,C10,C12", "tree", it.qTree())
		sc := t.StateChanges()
		seen := map[string]bool{}
		for _, in := range c.ops {
			var slot, off *uint256.Int
			var typ common.Hash
			switch in.op {
			case 0:
				slot, typ = in.args[1], in.args[2].Bytes32()
			case 1:
				slot, off, typ = in.args[1], in.args[2], in.args[3].Bytes32()
			case 2, 4:
				slot, off, typ = in.args[1], in.args[3], in.args[4].Bytes32()
			case 3, 5:
				slot, typ = in.args[1], in.args[3].Bytes32()
			case 6:
				slot, off, typ = in.args[0], in.args[1], in.args[3].Bytes32()
			case 7:
				slot, typ = in.args[0], in.args[1].Bytes32()
			}
			key := fmt.Sprintf("slot %s %s %s %s", hexAddr(contractAddr), optU(slot), optU(off), hexHash(typ))
			if seen[key] {
				continue
			}
			seen[key] = true
			ch, err := sc.Slot(contractAddr, slot, off, typ)
			ans := "nil-or-nokey"
			if err != nil {
				ans = okErr(err)
			} else if ch != nil {
				ans = showChangeMap(ch.Changes())
			}
			q("C03,C09,C10,C12", key, ans)
		}
	}
}

// genStagedProgram: a mapping registered from a name record, then several members whose index keys are staged one after the other
// in one scratch buffer (or in separate ones), then change journals on some of them; queries list the children in the order returned.
func genStagedProgram(r *Rng) (*jcase, func(t *vm.Tracer, q func(tags, op, impl string))) {
	c := &jcase{fork: forkNames[r.Intn(len(forkNames))], storage: map[common.Hash]common.Hash{}}
	name := stringContent(r, 1+r.Intn(5))
	rec := make([]byte, 64)
	rec[31] = byte(len(name))
	copy(rec[32:], name)
	c.mem = rec
	parentSlot, pType, cType := uint256.NewInt(5), uint256.NewInt(1), uint256.NewInt(2)
	c.ops = append(c.ops, jinstr{op: 0, args: []*uint256.Int{uint256.NewInt(0), parentSlot, pType}})
	n := 2 + r.Intn(5)
	sameBuffer := r.Chance(75)
	var keys [][]byte
	for i := 0; i < n; i++ {
		var k []byte
		switch r.Intn(4) {
		case 0:
			k = []byte{byte('a' + i), byte('a' + i), byte('a' + i)}
		case 1:
			k = append([]byte("key-"), byte('0'+i))
		default:
			k = stringContent(r, 1+r.Intn(40))
		}
		dup := false
		for _, o := range keys {
			if bytes.Equal(o, k) {
				dup = true
			}
		}
		if dup {
			k = append(k, byte(i))
		}
		keys = append(keys, k)
		ptr := uint64(0x40)
		if !sameBuffer {
			ptr = 0x40 + uint64(i)*0x60
		}
		slot := uint256.NewInt(0xa0 + uint64(i))
		c.storage[slot.Bytes32()] = wordFrom(r).Bytes32()
		if r.Bool() {
			c.ops = append(c.ops, jinstr{op: 2, args: []*uint256.Int{parentSlot, slot, uint256.NewInt(ptr), uint256.NewInt(0), cType, pType}, stage: k, stagePtr: ptr})
			if r.Chance(50) {
				c.ops = append(c.ops, jinstr{op: 6, args: []*uint256.Int{slot, uint256.NewInt(0), uint256.NewInt(32), cType}})
			}
		} else {
			c.ops = append(c.ops, jinstr{op: 3, args: []*uint256.Int{parentSlot, slot, uint256.NewInt(ptr), cType, pType}, stage: k, stagePtr: ptr})
		}
	}
	base := tracerQueriesFor(c)
	return c, func(t *vm.Tracer, q func(tags, op, impl string)) {
		base(t, q)
		it := &implTracer{t: t}
		// the parent with its children in the order `Children()` returns them, and every member by its path
		q("C03,C10,C11,C16", fmt.Sprintf("node %s %s .", hexAddr(contractAddr), hexBytes(name)), it.qNode(contractAddr, name, nil, false))
		for _, k := range keys {
			q("C03,C10,C11,C16", fmt.Sprintf("node %s %s %s", hexAddr(contractAddr), hexBytes(name), hexBytes(k)), it.qNode(contractAddr, name, [][]byte{k}, false))
		}
	}
}

// genJournalProgram: random multi-op program (correspondence).
func genJournalProgram(r *Rng) *jcase {
	c := &jcase{fork: forkNames[r.Intn(len(forkNames))], storage: map[common.Hash]common.Hash{}}
	if forkIndex(c.fork) >= 4 && r.Chance(25) {
		c.static = true
	}
	mem, ptr := memWithRecord(r)
	c.mem = mem
	slots := []*uint256.Int{smallSlot(r), smallSlot(r), smallSlot(r)}
	types := []*uint256.Int{uint256.NewInt(1), uint256.NewInt(2)}
	offs := []*uint256.Int{uint256.NewInt(0), uint256.NewInt(0), uint256.NewInt(0), uint256.NewInt(3), uint256.NewInt(16), uint256.NewInt(31), uint256.NewInt(31)}
	if r.Chance(20) {
		offs = append(offs, uint256.NewInt(32), boundaryWord(r))
	}
	for _, s := range slots {
		if r.Chance(75) {
			putString(c.storage, s, stringContent(r, []int{0, 1, 5, 31, 32, 33, 64, 70}[r.Intn(8)]))
		} else {
			c.storage[s.Bytes32()] = wordFrom(r).Bytes32()
		}
	}
	if r.Chance(15) {
		// a long-string header announcing a length at the top of the 64-bit range: (length+31)/32 wraps around in uint64 above
		// 2^64-32 (lengths between 2^20 and 2^64-32 are not generated: reading that many slots does not end, known finding D5)
		ln := new(uint256.Int).SetUint64(^uint64(0) - uint64(r.Intn(31)))
		if r.Chance(25) {
			ln = new(uint256.Int).Add(new(uint256.Int).Lsh(uint256.NewInt(1), 64), uint256.NewInt(uint64(r.Intn(40))))
		}
		hdr := new(uint256.Int).Lsh(ln, 1)
		hdr.Add(hdr, uint256.NewInt(1))
		c.storage[slots[r.Intn(len(slots))].Bytes32()] = hdr.Bytes32()
	}
	pick := func(l []*uint256.Int) *uint256.Int { return l[r.Intn(len(l))] }
	n := 1 + r.Intn(10)
	// keys registered so far: valid parents (offset 0) and valid targets of change journals
	type regd struct {
		slot, off, typ *uint256.Int // off == nil: reference-typed key
	}
	var keys []regd
	parentsOf := func() []regd {
		var ps []regd
		for _, k := range keys {
			if k.off == nil || k.off.IsZero() {
				ps = append(ps, k)
			}
		}
		return ps
	}
	for i := 0; i < n; i++ {
		op := r.Intn(8)
		if len(keys) == 0 && r.Chance(80) {
			op = r.Intn(2) // start with a top-level registration most of the time
		}
		p := ptr
		if r.Chance(5) {
			p = boundaryWord(r)
		} else if r.Chance(4) {
			// a pointer far beyond the frame's memory but small enough to be addressable: 2^14 … 2^24 (must be refused without
			// touching memory; what the instruction may make the frame allocate is part of its work, C20)
			p = new(uint256.Int).Lsh(uint256.NewInt(1), uint(14+r.Intn(11)))
		}
		var args []*uint256.Int
		switch op {
		case 0:
			args = []*uint256.Int{p, pick(slots), pick(types)}
			keys = append(keys, regd{args[1], nil, args[2]})
		case 1:
			args = []*uint256.Int{p, pick(slots), pick(offs), pick(types)}
			keys = append(keys, regd{args[1], args[2], args[3]})
		case 2, 3, 4, 5:
			base, ptyp := pick(slots), pick(types)
			if ps := parentsOf(); len(ps) > 0 && r.Chance(85) {
				g := ps[r.Intn(len(ps))]
				base, ptyp = g.slot, g.typ
			}
			key := p
			if op >= 4 {
				key = wordFrom(r)
			}
			self, typ := pick(slots), pick(types)
			if op == 2 || op == 4 {
				args = []*uint256.Int{base, self, key, pick(offs), typ, ptyp}
				keys = append(keys, regd{self, args[3], typ})
			} else {
				args = []*uint256.Int{base, self, key, typ, ptyp}
				keys = append(keys, regd{self, nil, typ})
			}
		case 6:
			slot, o, typ := pick(slots), pick(offs), pick(types)
			var vals []regd
			for _, k := range keys {
				if k.off != nil {
					vals = append(vals, k)
				}
			}
			if len(vals) > 0 && r.Chance(85) {
				g := vals[r.Intn(len(vals))]
				slot, o, typ = g.slot, g.off, g.typ
			}
			sz := uint256.NewInt(uint64(r.Intn(34)))
			if o.IsUint64() && o.Uint64() <= 31 && r.Chance(85) {
				sz = uint256.NewInt(uint64(r.Intn(int(33 - o.Uint64()))))
			}
			if r.Chance(5) {
				sz = boundaryWord(r)
			}
			args = []*uint256.Int{slot, o, sz, typ}
		case 7:
			slot, typ := pick(slots), pick(types)
			var refs []regd
			for _, k := range keys {
				if k.off == nil {
					refs = append(refs, k)
				}
			}
			if len(refs) > 0 && r.Chance(85) {
				g := refs[r.Intn(len(refs))]
				slot, typ = g.slot, g.typ
			}
			args = []*uint256.Int{slot, typ}
		}
		c.ops = append(c.ops, jinstr{op: op, args: args})
	}
	return c
}

// specValueCase: register a value key then journal it; the recorded bytes are compared with solPacked.
func specValueCase(r *Rng, em *Emitter, w, off, size *uint256.Int, fork string) {
	slot := smallSlot(r)
	typ := uint256.NewInt(7)
	c := &jcase{fork: fork, storage: map[common.Hash]common.Hash{slot.Bytes32(): w.Bytes32()}}
	name := []byte("v")
	lw := uint256.NewInt(uint64(len(name))).Bytes32()
	c.mem = append(lw[:], name...)
	regOff := off
	c.ops = []jinstr{{op: 1, args: []*uint256.Int{uint256.NewInt(0), slot, regOff, typ}}, {op: 6, args: []*uint256.Int{slot, off, size, typ}}}
	recorded := "reject"
	class := runJCase(c, em, "C03,C09,C12", func(t *vm.Tracer, q func(tags, op, impl string)) {
		ch, err := t.StateChanges().Slot(contractAddr, slot, off, typ.Bytes32())
		if err == nil && ch != nil {
			if l := ch.Changes()[0]; len(l) == 1 {
				recorded = hexBytes(l[0])
			} else if len(l) > 1 {
				recorded = "multiple"
			}
		}
		tracerQueriesFor(c)(t, q)
	})
	if class == "panic" {
		recorded = "panic"
	}
	em.Op("C09,C03,C12", fmt.Sprintf("S solpacked %s %s %s", hexNatU(w), hexNatU(off), hexNatU(size)), recorded)
	em.Count("spec-vv:" + map[bool]string{true: "accepted", false: recorded}[strings.HasPrefix(recorded, "x")])
}

// specStringCase: register a reference key then journal it; the recorded bytes are compared with solString.
func specStringCase(r *Rng, em *Emitter, slot *uint256.Int, st map[common.Hash]common.Hash, fork string, label string) {
	typ := uint256.NewInt(9)
	c := &jcase{fork: fork, storage: st}
	name := []byte("s")
	lw := uint256.NewInt(uint64(len(name))).Bytes32()
	c.mem = append(lw[:], name...)
	c.ops = []jinstr{{op: 0, args: []*uint256.Int{uint256.NewInt(0), slot, typ}}, {op: 7, args: []*uint256.Int{slot, typ}}}
	recorded := "reject"
	class := runJCase(c, em, "C03,C09,C12", func(t *vm.Tracer, q func(tags, op, impl string)) {
		ch, err := t.StateChanges().Slot(contractAddr, slot, nil, typ.Bytes32())
		if err == nil && ch != nil {
			if l := ch.Changes()[0]; len(l) == 1 {
				recorded = hexBytes(l[0])
			} else if len(l) > 1 {
				recorded = "multiple"
			}
		}
		tracerQueriesFor(c)(t, q)
	})
	if class == "panic" {
		recorded = "panic"
	}
	sb := slot.Bytes32()
	em.Op("C09,C03,C12", fmt.Sprintf("S solstring %s %s %s", hexNatU(slot), storageLine(st), hexBytes(sb[:])+"="+hexHash(crypto.Keccak256Hash(sb[:]))), recorded)
	em.Count("spec-vr:" + label + ":" + map[bool]string{true: "accepted", false: recorded}[strings.HasPrefix(recorded, "x")])
}

// specStringSequence: several string variables (and the same variable again after its content changed in storage is not possible
// in one frame without SSTORE, so: distinct variables of varying lengths, long ones first) are journaled one after the other in ONE
// frame; afterwards every record must still hold exactly the content its variable had when it was journaled (C09: "at the moment
// of journaling" — a record is a value, not a view of something the next instruction reuses).
func specStringSequence(r *Rng, em *Emitter, fork string) {
	typ := uint256.NewInt(9)
	st := map[common.Hash]common.Hash{}
	k := 2 + r.Intn(3)
	c := &jcase{fork: fork, storage: st}
	var slots []*uint256.Int
	var contents [][]byte
	for i := 0; i < k; i++ {
		slot := uint256.NewInt(uint64(3 + 8*i))
		n := []int{100, 70, 64, 40, 33, 32, 31, 5}[r.Intn(8)]
		if i == 0 {
			n = 64 + r.Intn(60) // the first one is long, later ones fit into whatever it left behind
		}
		content := stringContent(r, n)
		if i > 0 && len(content) > 0 {
			content[0] = byte(0x40 + i) // make the variables distinguishable
		}
		putString(st, slot, content)
		slots, contents = append(slots, slot), append(contents, content)
		// name i at memory i*64: length word 1, then the byte 's'+i
		lw := uint256.NewInt(1).Bytes32()
		c.mem = append(c.mem, pad32(append(lw[:], byte('s'+i)))...)
		c.ops = append(c.ops, jinstr{op: 0, args: []*uint256.Int{uint256.NewInt(uint64(64 * i)), slot, typ}})
	}
	for i := 0; i < k; i++ {
		c.ops = append(c.ops, jinstr{op: 7, args: []*uint256.Int{slots[i], typ}})
	}
	verdict := "ok"
	class := runJCase(c, em, "C03,C09", func(t *vm.Tracer, q func(tags, op, impl string)) {
		for i := 0; i < k; i++ {
			ch, err := t.StateChanges().Slot(contractAddr, slots[i], nil, typ.Bytes32())
			got := "none"
			if err == nil && ch != nil {
				if l := ch.Changes()[0]; len(l) == 1 {
					got = hexBytes(l[0])
				} else {
					got = fmt.Sprintf("%d_entries", len(l))
				}
			}
			if got != hexBytes(contents[i]) && verdict == "ok" {
				verdict = fmt.Sprintf("record_of_variable_%d_(%d_bytes)_is_%s_but_it_was_journaled_as_%s", i, len(contents[i]), got, hexBytes(contents[i]))
			}
		}
		tracerQueriesFor(c)(t, q)
	})
	if class == "panic" {
		verdict = "panic"
	}
	em.Op("C09,C03,C10", "S solstring-sequence", verdict)
}

func driveJournal(seed uint64, n int, size int, em *Emitter, exhaustive bool) {
	r := NewRng(seed)
	// (A) random programs
	for i := 0; i < n; i++ {
		em.Reset(fmt.Sprintf("journal-prog-%d-%d", seed, i))
		c := genJournalProgram(r.Fork())
		var stagedQ func(t *vm.Tracer, q func(tags, op, impl string))
		if r.Chance(22) {
			c, stagedQ = genStagedProgram(r.Fork())
			em.Count("prog:staged-keys")
		}
		if r.Chance(12) && len(c.ops) > 0 {
			// run the instructions just below the stack limit
			mx := 0
			for _, in := range c.ops {
				if len(in.args) > mx {
					mx = len(in.args)
				}
			}
			c.prefill = 1024 - mx - r.Intn(3)
			em.Count("prog:deep-stack")
		}
		queries := tracerQueriesFor(c)
		if stagedQ != nil {
			queries = stagedQ
		}
		ce0, first := captureEmitter()
		runJCase(c, ce0, "C03,C09,C10,C12,C16", queries)
		for _, l := range *first {
			em.Op(l[0], l[1], l[2])
		}
		em.Merge(ce0)
		// C16 specification: the same transaction on equal pre-state in fresh EVMs gives identical lines
		// (results, call tree, journal) - also after unrelated executions in this process
		verdict := "same"
		for rep := 0; rep < 2 && verdict == "same"; rep++ {
			ce, buf := captureEmitter()
			runJCase(c, ce, "C16", queries)
			for k := range *buf {
				if k >= len(*first) || (*buf)[k][1] != (*first)[k][1] || (*buf)[k][2] != (*first)[k][2] {
					verdict = "differs:" + strings.ReplaceAll((*buf)[k][1], " ", "_")
					break
				}
			}
		}
		em.Op("C16", "S det", verdict)
		// C12 specification: the journal instructions behave alike in static and non-static frames
		if forkIndex(c.fork) >= forkIndex("Byzantium") {
			c2 := *c
			c2.static = !c.static
			ce, buf := captureEmitter()
			runJCase(&c2, ce, "C12", nil)
			pick := func(b *[][3]string) []string {
				var o []string
				for _, l := range *b {
					if strings.HasPrefix(l[1], "J ") || strings.HasPrefix(l[1], "S jeffect") {
						o = append(o, l[1]+"=>"+l[2])
					}
				}
				return o
			}
			v := "same"
			x, y := pick(first), pick(buf)
			if len(x) != len(y) {
				v = fmt.Sprintf("differs:executed_%d_vs_%d_journal_steps", len(x), len(y))
			} else {
				for k := range x {
					if x[k] != y[k] {
						v = "differs:" + strings.ReplaceAll(x[k]+"_VS_"+y[k], " ", "_")
						break
					}
				}
			}
			em.Op("C12", "S static-same", v)
		}
		// C12 specification at program level: when every journal instruction of the program ran with well-formed operands, the
		// same program with each of them replaced by as many POPs ends the same way (no error, same memory size, same return
		// data) and differs in gas by exactly (fee - POP cost) per instruction, with one fee for all eight instructions
		allOK, nJ := true, 0
		for _, l := range *first {
			if strings.HasPrefix(l[1], "J ") {
				nJ++
				if l[2] != "ok" {
					allOK = false
				}
			}
		}
		if allOK && nJ == len(c.ops) && nJ > 0 {
			pops := 0
			for _, in := range c.ops {
				pops += len(in.args)
			}
			l1, m1, r1, e1 := runRawJ(c, c.program())
			l2, m2, r2, e2 := runRawJ(c, c.programWithPops())
			v := "same"
			switch {
			case e1 != nil || e2 != nil:
				v = fmt.Sprintf("differs:err_with_journal=%v_with_pops=%v", e1, e2)
			case m1 != m2 || r1 != r2:
				v = fmt.Sprintf("differs:memory_or_return_data:%d/%s_vs_%d/%s", m1, r1, m2, r2)
			case l2-l1 != uint64(nJ)*800-uint64(pops)*2:
				v = fmt.Sprintf("differs:gas_difference_%d_for_%d_instructions_and_%d_operands", l2-l1, nJ, pops)
			}
			em.Op("C12", "S pops-same", strings.ReplaceAll(v, " ", "_"))
		}
	}
	// (B) value journal vs Solidity packed layout
	forks := forkNames
	if exhaustive {
		words := []*uint256.Int{uint256.NewInt(0), new(uint256.Int).SetAllOne(), wordFrom(r), wordFrom(r), new(uint256.Int).SetBytes(append(make([]byte, 9), r.Bytes(23)...))}
		for off := 0; off <= 40; off++ {
			for sz := 0; sz <= 40; sz++ {
				w := words[(off*41+sz)%len(words)]
				em.Reset(fmt.Sprintf("journal-vv-%d-%d", off, sz))
				specValueCase(r, em, w, uint256.NewInt(uint64(off)), uint256.NewInt(uint64(sz)), forks[(off+sz)%len(forks)])
			}
		}
	}
	for i := 0; i < 4*n; i++ { // (one small program each: cheap)
		em.Reset(fmt.Sprintf("journal-vv-%d-%d", seed, i))
		off, sz := uint256.NewInt(uint64(r.Intn(34))), uint256.NewInt(uint64(r.Intn(36)))
		if r.Chance(12) {
			off = boundaryWord(r)
		}
		if r.Chance(12) {
			sz = boundaryWord(r)
		}
		if r.Chance(8) {
			// complementary pair: offset + size crosses 2^64 (or lands just below / above it)
			o := uint64(r.Intn(34))
			off = uint256.NewInt(o)
			sz = new(uint256.Int).Sub(new(uint256.Int).Lsh(uint256.NewInt(1), 64), uint256.NewInt(o+uint64(r.Intn(3))))
			sz.Add(sz, uint256.NewInt(uint64(r.Intn(3))))
		}
		if r.Chance(20) {
			// an operand whose LOW 64 bits are a valid offset / width while the whole word is not (2^64·m + small)
			hi := new(uint256.Int).Lsh(uint256.NewInt(1), uint([]int{64, 64, 65, 128, 200, 255}[r.Intn(6)]))
			if r.Chance(40) {
				hi = new(uint256.Int).Lsh(new(uint256.Int).SetBytes(r.Bytes(1+r.Intn(23))), 64)
			} else if r.Chance(45) {
				// … or whose low BYTE is: 256·m + small below 2^64 (a width narrowed to uint8 before it is bounded)
				hi = new(uint256.Int).Lsh(uint256.NewInt(1), uint([]int{8, 8, 9, 16, 32, 63}[r.Intn(6)]))
				if r.Chance(40) {
					hi = new(uint256.Int).Lsh(uint256.NewInt(uint64(1+r.Intn(1<<20))), 8)
				}
			}
			lowOp := new(uint256.Int).Add(hi, uint256.NewInt(uint64(r.Intn(34))))
			switch r.Intn(3) {
			case 0:
				off, sz = uint256.NewInt(uint64(r.Intn(32))), lowOp
				if r.Chance(50) {
					sz = new(uint256.Int).Add(hi, uint256.NewInt(uint64(r.Intn(int(33-off.Uint64())))))
				}
			case 1:
				off, sz = lowOp, uint256.NewInt(uint64(r.Intn(33)))
			default:
				off, sz = lowOp, new(uint256.Int).Add(hi, uint256.NewInt(uint64(r.Intn(4))))
			}
		}
		specValueCase(r, em, wordFrom(r), off, sz, forks[r.Intn(len(forks))])
	}
	// (C) reference journal vs Solidity string layout
	lens := []int{}
	maxLen := 130
	if exhaustive {
		maxLen = 200
	}
	for l := 0; l <= maxLen; l++ {
		if exhaustive || l <= 40 || l%7 == 0 || (l >= 60 && l <= 70) || (l >= 94 && l <= 98) || l >= 126 {
			lens = append(lens, l)
		}
	}
	for _, l := range lens {
		reps := 1
		if exhaustive {
			reps = 3
		}
		for k := 0; k < reps; k++ {
			em.Reset(fmt.Sprintf("journal-vr-len%d-%d", l, k))
			st := map[common.Hash]common.Hash{}
			slot := smallSlot(r)
			putString(st, slot, stringContent(r, l))
			specStringCase(r, em, slot, st, forks[r.Intn(len(forks))], "valid")
		}
	}
	for i := 0; i < 12+n/10; i++ {
		em.Reset(fmt.Sprintf("journal-vr-sequence-%d-%d", seed, i))
		specStringSequence(r, em, forks[r.Intn(len(forks))])
	}
	// invalid encodings: odd with len<32, even with low byte >= 64, huge (but below the D5 range handled separately)
	for i := 0; i < 24; i++ {
		em.Reset(fmt.Sprintf("journal-vr-invalid-%d", i))
		st := map[common.Hash]common.Hash{}
		slot := smallSlot(r)
		var w *uint256.Int
		switch i % 4 {
		case 0: // odd, decoded length < 32
			w = uint256.NewInt(uint64(2*r.Intn(32) + 1))
		case 1: // even, low byte/2 >= 32
			b := r.Bytes(32)
			b[31] = byte(64 + 2*r.Intn(32))
			w = new(uint256.Int).SetBytes(b)
		case 2: // odd with length >= 2^64
			b := r.Bytes(32)
			b[0] |= 0x80
			b[31] |= 1
			w = new(uint256.Int).SetBytes(b)
		case 3: // even, high garbage, small valid length
			b := r.Bytes(32)
			b[31] = byte(2 * r.Intn(32))
			w = new(uint256.Int).SetBytes(b)
		}
		st[slot.Bytes32()] = w.Bytes32()
		specStringCase(r, em, slot, st, forks[r.Intn(len(forks))], "invalid")
	}
	// (D) C20: length fields far larger than the flat fee pays for
	exps := []uint{10, 12, 14, 16}
	if exhaustive {
		exps = append(exps, 18, 20)
	}
	for _, e := range exps {
		n := uint64(1) << e
		em.Reset(fmt.Sprintf("journal-work-vr-2^%d", e))
		slot, typ := uint256.NewInt(3), uint256.NewInt(9)
		c := &jcase{fork: "London", storage: map[common.Hash]common.Hash{slot.Bytes32(): uint256.NewInt(2*n + 1).Bytes32()}}
		lw := uint256.NewInt(1).Bytes32()
		c.mem = append(lw[:], 's')
		c.ops = []jinstr{{op: 0, args: []*uint256.Int{uint256.NewInt(0), slot, typ}}, {op: 7, args: []*uint256.Int{slot, typ}}}
		runJCase(c, em, "C20,C03", nil)
		em.Count(fmt.Sprintf("work-vr:2^%d", e))

		em.Reset(fmt.Sprintf("journal-work-rsv-2^%d", e))
		c = &jcase{fork: "London", storage: map[common.Hash]common.Hash{}}
		lw = uint256.NewInt(n).Bytes32()
		c.mem = append(lw[:], make([]byte, n)...)
		c.ops = []jinstr{{op: 0, args: []*uint256.Int{uint256.NewInt(0), slot, typ}}}
		runJCase(c, em, "C20,C03", nil)
		em.Count(fmt.Sprintf("work-rsv:2^%d", e))
	}
}
