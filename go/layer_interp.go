package main

// interp layer: whole frames over the frame-local instruction set run on the real interpreter loop, step by step, against the
// Lean model of `EVMInterpreter.Run` (Model/Interp.lean): pc, opcode, gas before, stack height and top, memory size at every
// instruction, and the frame's result (class, leftover gas, return data).  Programs mix arithmetic on boundary words, memory
// and copy instructions with boundary offsets, jumps (valid, invalid, into PUSH data, loops), stack over/underflow, truncated
// PUSHes, undefined bytes, the journal instructions, and every fork's table.

import (
	"context"
	"fmt"
	"math/big"
	"strings"

	"github.com/artela-network/artela-evm/vm"
	"github.com/ethereum/go-ethereum/common"
	"github.com/ethereum/go-ethereum/crypto"
	"github.com/holiman/uint256"
)

const interpMaxSteps = 160

type istep struct {
	pc   uint64
	op   byte
	gas  uint64
	slen int
	top  string
	mem  int
}

type interpLogger struct {
	steps      []istep
	total      int
	unmodelled int // first executed instruction outside the modelled subset (-1: none)
	done       bool
	hashed     [][]byte // what every executed KECCAK256 hashed (the range as it will be after memory expansion: zero-padded)
}

func (l *interpLogger) CaptureTxStart(uint64) {}
func (l *interpLogger) CaptureTxEnd(uint64)   {}
func (l *interpLogger) CaptureStart(*vm.EVM, common.Address, common.Address, bool, []byte, uint64, *big.Int) {
}
func (l *interpLogger) CaptureEnd([]byte, uint64, error) {}
func (l *interpLogger) CaptureEnter(vm.OpCode, common.Address, common.Address, []byte, uint64, *big.Int) {
}
func (l *interpLogger) CaptureExit([]byte, uint64, error) {}
func (l *interpLogger) CaptureFault(uint64, vm.OpCode, uint64, uint64, *vm.ScopeContext, int, error) {
}
func (l *interpLogger) CaptureState(pc uint64, op vm.OpCode, gas, cost uint64, scope *vm.ScopeContext, rData []byte, depth int, err error) {
	l.total++
	if byte(op) == 0x20 && err == nil && l.unmodelled < 0 {
		// an empty range is hashed whatever the offset word is (the memory-size function ignores the offset of an empty range)
		if d := scope.Stack.Data(); len(d) >= 2 && d[len(d)-2].IsZero() {
			l.hashed = append(l.hashed, []byte{})
		} else if len(d) >= 2 && d[len(d)-1].IsUint64() && d[len(d)-2].IsUint64() && d[len(d)-2].Uint64() <= 1<<16 {
			off, size := d[len(d)-1].Uint64(), d[len(d)-2].Uint64()
			l.hashed = append(l.hashed, memSlice(scope.Memory.Data(), off, size))
		}
	}
	if l.unmodelled < 0 && interpUnmodelled[byte(op)] {
		l.unmodelled = int(op)
	}
	if len(l.steps) >= interpMaxSteps || (l.unmodelled >= 0 && int(op) != l.unmodelled) || (l.unmodelled >= 0 && l.done) {
		return
	}
	if l.unmodelled >= 0 {
		l.done = true
	}
	d := scope.Stack.Data()
	top := "-"
	if n := len(d); n > 0 {
		top = d[n-1].ToBig().Text(16)
		if n > 1 {
			top += "," + d[n-2].ToBig().Text(16)
		}
	}
	l.steps = append(l.steps, istep{pc, byte(op), gas, len(d), top, scope.Memory.Len()})
}

// opcodes of the modelled subset (by byte; whether a fork defines them is the table's business)
var interpBin = []byte{0x01, 0x02, 0x03, 0x04, 0x05, 0x06, 0x07, 0x0b, 0x10, 0x11, 0x12, 0x13, 0x14, 0x16, 0x17, 0x18, 0x1a, 0x1b, 0x1c, 0x1d}
var interpEnv = []byte{0x30, 0x32, 0x33, 0x34, 0x36, 0x38, 0x3a, 0x3d, 0x41, 0x42, 0x43, 0x44, 0x45, 0x46, 0x48, 0x58, 0x59, 0x5a}

// bytes no fork defines (plus INVALID)
var interpUndefined = []byte{0x0c, 0x0d, 0x1e, 0x21, 0x2f, 0x49, 0x4f, 0xa5, 0xbb, 0xe8, 0xef, 0xf6, 0xfb, 0xfc, 0xfe}

// defined everywhere but outside the modelled subset: the model must stop with `unmodelled` exactly there
// (only bytes every fork defines: the generator emits no other instruction outside the subset)
var interpUnmodelled = map[byte]bool{0x31: true, 0x3b: true, 0x3c: true, 0x40: true, 0x54: true, 0x55: true,
	0xa0: true, 0xa1: true, 0xa2: true, 0xa3: true, 0xa4: true, 0xf0: true, 0xf1: true, 0xf2: true, 0xff: true}

func interpOperand(r *Rng) *uint256.Int {
	switch k := r.Intn(100); {
	case k < 35:
		return uint256.NewInt(uint64(r.Intn(300)))
	case k < 45:
		return uint256.NewInt(uint64(r.Intn(40)))
	default:
		return boundaryWord(r)
	}
}

func memOffset(r *Rng) *uint256.Int {
	switch k := r.Intn(100); {
	case k < 86:
		return uint256.NewInt(uint64(r.Intn(260)))
	case k < 93:
		return uint256.NewInt(uint64(r.Intn(5000)))
	case k < 96:
		// around the point where the memory fee overflows its check, and where word rounding overflows
		return uint256.NewInt([]uint64{0x1FFFFFFFE0, 0x1FFFFFFFE1, 0x1FFFFFFFC0, 0x1FFFFFFFDF, 1 << 32, 0xffffffffffffffe0, 0xffffffffffffffc0, 0xffffffffffffffdf}[r.Intn(8)])
	default:
		return boundaryWord(r)
	}
}

func copyLen(r *Rng) *uint256.Int {
	switch k := r.Intn(100); {
	case k < 15:
		return uint256.NewInt(0)
	case k < 88:
		return uint256.NewInt(uint64(r.Intn(100)))
	case k < 95:
		return uint256.NewInt(uint64(r.Intn(3000)))
	default:
		return boundaryWord(r)
	}
}

type ilabel struct {
	at   int // position of the PUSH2 operand to patch
	dest int // index into labels
}

// genInterpCode appends n snippets to a.
func genInterpCode(a *Asm, r *Rng, n int, cancun bool) {
	var fix []ilabel
	var labels []int
	pushLabel := func(dest int) {
		a.Op(0x61, 0, 0)
		fix = append(fix, ilabel{a.Len() - 2, dest})
	}
	h := 0 // estimated stack height on the straight-line path (loops and taken jumps keep it)
	for i := 0; i < n; i++ {
		switch k := r.Intn(100); {
		case k < 22:
			op := interpBin[r.Intn(len(interpBin))]
			switch op {
			case 0x0b, 0x1a, 0x1b, 0x1c, 0x1d:
				// SIGNEXTEND, BYTE, SHL, SHR, SAR: a full word under a small index / shift count (both sides of 31/32 and 255/256/257)
				a.Push(wordFrom(r))
				switch r.Intn(4) {
				case 0, 1:
					a.PushU(uint64(r.Intn(34)))
				case 2:
					a.PushU(uint64(240 + r.Intn(20)))
				default:
					a.Push(interpOperand(r))
				}
			case 0x04, 0x05, 0x06, 0x07, 0x12, 0x13:
				// DIV, SDIV, MOD, SMOD, SLT, SGT: signed views matter (negative words, -1, the minimum, zero divisors)
				signed := func() *uint256.Int {
					switch r.Intn(6) {
					case 0:
						return new(uint256.Int).Neg(uint256.NewInt(uint64(1 + r.Intn(300))))
					case 1:
						return new(uint256.Int).Lsh(uint256.NewInt(1), 255)
					case 2:
						return uint256.NewInt(uint64(r.Intn(5)))
					default:
						return interpOperand(r)
					}
				}
				a.Push(signed()).Push(signed())
			default:
				a.Push(interpOperand(r)).Push(interpOperand(r))
			}
			a.Op(op)
			if r.Chance(60) {
				a.Op(opPOP)
			} else {
				h++
			}
		case k < 27:
			a.Push(interpOperand(r)).Push(interpOperand(r)).Push(interpOperand(r)).Op([]byte{0x08, 0x09}[r.Intn(2)])
			h++
		case k < 31:
			a.Push(interpOperand(r)).Push(interpOperand(r)).Op(0x0a)
			h++
		case k < 34:
			a.Push(interpOperand(r)).Op([]byte{0x15, 0x19}[r.Intn(2)])
			h++
		case k < 40:
			a.Op(interpEnv[r.Intn(len(interpEnv))])
			if r.Chance(50) {
				a.Op(opPOP)
			} else {
				h++
			}
		case k < 44:
			a.Push(memOffset(r)).Op(0x35) // CALLDATALOAD
			h++
		case k < 52:
			switch r.Intn(3) {
			case 0:
				a.Push(interpOperand(r)).Push(memOffset(r)).Op(opMSTORE)
			case 1:
				a.Push(interpOperand(r)).Push(memOffset(r)).Op(0x53)
			default:
				a.Push(memOffset(r)).Op(opMLOAD)
				h++
			}
		case k < 53:
			// transient storage (Cancun; undefined bytes before): a store and loads of that and of another key
			key := uint64(r.Intn(3))
			if r.Chance(70) {
				a.Push(interpOperand(r)).PushU(key).Op(opTSTORE)
			}
			a.PushU(uint64(r.Intn(3))).Op(opTLOAD)
			h++
		case k < 54:
			// KECCAK256 over a range inside, across the end of, or beyond the current memory
			a.Push(copyLen(r)).Push(memOffset(r)).Op(0x20)
			h++
		case k < 60:
			op := []byte{opCALLDATACOPY, 0x39, opRETURNDATACOPY, opMCOPY}[r.Intn(4)]
			if op == opMCOPY && !cancun && r.Chance(80) {
				op = 0x39
			}
			if op == opRETURNDATACOPY && r.Chance(60) {
				a.PushU(0).PushU(0).Push(memOffset(r)).Op(op)
			} else {
				a.Push(copyLen(r)).Push(memOffset(r)).Push(memOffset(r)).Op(op)
			}
		case k < 66:
			// stack shuffling, now and then deeper than the stack
			pick := func(limit int) int {
				if limit > 16 {
					limit = 16
				}
				if limit < 1 || r.Chance(6) {
					return r.Intn(16)
				}
				return r.Intn(limit)
			}
			if h == 0 && r.Chance(90) {
				a.Push(interpOperand(r))
				h++
			}
			a.Op(byte(0x80 + pick(h)))
			h++
			if r.Chance(50) {
				a.Op(byte(0x90 + pick(h-1)))
			}
		case k < 70:
			if h > 0 || r.Chance(8) {
				a.Op(opPOP)
				if h > 0 {
					h--
				}
			}
		case k < 76:
			// PUSHn with arbitrary data (may contain JUMPDEST bytes)
			w := 1 + r.Intn(32)
			d := r.Bytes(w)
			if r.Chance(40) {
				d[r.Intn(w)] = opJUMPDEST
			}
			a.Op(byte(0x5f + w))
			a.Op(d...)
			h++
			if r.Chance(12) {
				a.Op(0x5f) // PUSH0 (Shanghai; an undefined byte before)
				h++
			}
		case k < 84:
			// jump to a label placed later / earlier, or somewhere invalid
			switch []int{0, 0, 0, 1, 2, 2, 2, 3, 4}[r.Intn(9)] {
			case 0, 1: // forward jump over a few bytes
				l := len(labels)
				labels = append(labels, -1)
				cond := r.Chance(50)
				if cond {
					a.Push(interpOperand(r))
				}
				pushLabel(l)
				if cond {
					a.Op(opJUMPI)
				} else {
					a.Op(opJUMP)
				}
				for j := r.Intn(3); j > 0; j-- {
					a.Op(interpUndefined[r.Intn(len(interpUndefined))])
				}
				labels[l] = a.Len()
				a.Op(opJUMPDEST)
			case 2: // bounded loop: counter on the stack
				a.PushU(uint64(1 + r.Intn(6)))
				l := len(labels)
				labels = append(labels, a.Len())
				a.Op(opJUMPDEST)
				a.Op(opPUSH1, 1, opSWAP1, opSUB, opDUP1)
				pushLabel(l)
				a.Op(opJUMPI, opPOP)
			case 3: // invalid destinations
				a.Push(interpOperand(r))
				if r.Chance(50) {
					a.Op(opJUMP)
				} else {
					a.Push(interpOperand(r)).Op(opSWAP1, opJUMPI)
				}
			default: // into PUSH data that holds a JUMPDEST byte
				at := a.Len() + 5
				a.Op(0x61, byte(at>>8), byte(at), opJUMP, 0x61, opJUMPDEST, opJUMPDEST)
			}
		case k < 85:
			// unbounded growth of the stack until the limit or the gas ends
			l := len(labels)
			labels = append(labels, a.Len())
			a.Op(opJUMPDEST, opGAS)
			pushLabel(l)
			a.Op(opJUMP)
		case k < 87:
			a.Op(interpUndefined[r.Intn(len(interpUndefined))])
		case k < 88:
			// an instruction outside the modelled subset
			a.PushU(1).PushU(1).Op([]byte{0x31, 0x54, 0x40, 0x3b}[r.Intn(4)])
		case k < 90:
			a.Push(copyLen(r)).Push(memOffset(r)).Op([]byte{opRETURN, opREVERT}[r.Intn(2)])
		case k < 91:
			a.Op(opSTOP)
		default:
			a.Op(opMSIZE, opGAS, 0x58)
			h += 3
		}
	}
	for _, f := range fix {
		d := labels[f.dest]
		if d < 0 {
			d = 0
		}
		a.b[f.at] = byte(d >> 8)
		a.b[f.at+1] = byte(d)
	}
}

func interpErrClass(err error) string {
	if err == nil {
		return "ok"
	}
	s := err.Error()
	for _, k := range []string{"out of gas", "gas uint64 overflow", "stack underflow", "stack limit reached", "invalid jump destination", "invalid opcode",
		"return data out of bounds", "execution reverted", "write protection"} {
		if strings.Contains(s, k) {
			return strings.ReplaceAll(k, " ", "_")
		}
	}
	return "err"
}

func driveInterp(seed uint64, n int, size int, em *Emitter) {
	r := NewRng(seed)
	initHost()
	for i := 0; i < n; i++ {
		em.Reset(fmt.Sprintf("interp-%d-%d", seed, i))
		fork := forkNames[r.Intn(len(forkNames))]
		if r.Chance(35) {
			fork = []string{"Shanghai", "Cancun"}[r.Intn(2)]
		}
		storage := map[common.Hash]common.Hash{}
		var input []byte
		a := &Asm{}
		kline := "."
		kind := "plain"
		if r.Chance(25) {
			// a journal program (registrations and change journals over prepared storage and memory), followed by more code
			kind = "journal"
			c := genJournalProgram(r)
			storage = c.storage
			input = c.mem
			p := c.program()
			a.Op(p[:len(p)-1]...) // without the final STOP
			kparts := []string{}
			for _, in := range c.ops {
				if in.op == 7 {
					b := in.args[0].Bytes32()
					kparts = append(kparts, hexBytes(b[:])+"="+hexHash(crypto.Keccak256Hash(b[:])))
				}
			}
			if len(kparts) > 0 {
				kline = strings.Join(kparts, ",")
			}
			genInterpCode(a, r, r.Intn(size/2+1), fork == "Cancun")
		} else {
			input = r.Bytes([]int{0, 4, 31, 32, 33, 68, 100}[r.Intn(7)])
			if r.Chance(30) {
				a.Op(0x60, 3, opJUMP, opJUMPDEST) // a jump that is taken: the jump-destination analysis of the whole code runs
			}
			genInterpCode(a, r, 1+r.Intn(size), fork == "Cancun")
		}
		code := a.Bytes()
		if r.Chance(10) && len(code) > 2 {
			code = code[:len(code)-1-r.Intn(len(code)/2)] // truncated, possibly in the middle of a PUSH
		} else if r.Chance(20) {
			// the code ends in a PUSH opcode whose operand bytes are all missing, at every length modulo 8 (the analysis
			// marks operand bytes beyond the end of the code; its bitmap has slack for that)
			code = append(append([]byte{}, code...), opSTOP)
			want := r.Intn(8)
			if r.Chance(50) {
				want = 0
			}
			for (len(code)+1)%8 != want {
				code = append(code, opSTOP)
			}
			code = append(code, []byte{0x7f, 0x7f, 0x7e, 0x77, 0x6f, 0x60}[r.Intn(6)])
		}
		gas := uint64([]int{0, 1, 2, 3, 20, 100, 799, 800, 801, 3000, 21000, 50000, 50000, 100000, 100000, 400000}[r.Intn(16)])
		if r.Chance(30) {
			gas = uint64(r.Intn(60000))
		} else if r.Chance(60) {
			gas = uint64(50000 + r.Intn(400000))
		}
		value := big.NewInt(int64(r.Intn(3)))
		sdb := newStateDB()
		lg := &interpLogger{unmodelled: -1}
		env := newEnv(fork, lg, nil, sdb, nil)
		env.evm.CloseAspectCall()
		sdb.CreateAccount(contractAddr)
		sdb.SetCode(contractAddr, code)
		for k, v := range storage {
			sdb.SetState(contractAddr, k, v)
		}
		sdb.AddBalance(callerAddr, big.NewInt(1000))
		var ret []byte
		var left uint64
		var err error
		panicked := ""
		func() {
			defer func() {
				if x := recover(); x != nil {
					panicked = fmt.Sprint(x)
				}
			}()
			ret, left, err = env.evm.Call(context.Background(), vm.AccountRef(callerAddr), contractAddr, input, gas, value)
		}()
		// the enclosing top-level frame as the call tree recorded it (input of the model)
		root := env.evm.Tracer().CallTree().FindCall(0)
		if root != nil {
			d := root.Data
			if d == nil {
				d = []byte{}
			}
			em.Op("-", fmt.Sprintf("T call %s %s %s %s %s", hexAddr(root.From), hexAddrP(root.To), hexBytes(d), hexNatU(root.Value), hexNatU(root.Gas)), "ok")
		}
		if len(lg.hashed) > 0 {
			seen := map[string]bool{}
			parts := []string{}
			if kline != "." {
				parts = append(parts, kline)
			}
			for _, d := range lg.hashed {
				k := hexBytes(d)
				if !seen[k] {
					seen[k] = true
					parts = append(parts, k+"="+hexHash(crypto.Keccak256Hash(d)))
				}
			}
			kline = strings.Join(parts, ",")
		}
		em.Op("-", fmt.Sprintf("JE %s %s %s %s", hexAddr(contractAddr), "x", storageLine(storage), kline), "ok")
		difficulty := big.NewInt(1)
		if forkIndex(fork) >= 10 {
			difficulty = new(big.Int).Lsh(big.NewInt(1), 248)
		}
		vals := []string{hexAddr(contractAddr), "ee", hexAddr(callerAddr), hexNatBig(value), "1", "c0", "1", "1", hexNatBig(difficulty), hexU64(30_000_000), "1", "7"}
		// render the implementation's run; stop at the first instruction outside the modelled subset
		var parts []string
		final := ""
		for _, s := range lg.steps {
			parts = append(parts, fmt.Sprintf("%x.%x.%x.%x.%s.%x", s.pc, s.op, s.gas, s.slen, s.top, s.mem))
		}
		switch {
		case panicked != "":
			final = "panic"
		case lg.unmodelled >= 0:
			final = fmt.Sprintf("unmodelled:%x", lg.unmodelled)
		default:
			final = fmt.Sprintf("halt:%s:%x:%s", interpErrClass(err), left, hexBytes(ret))
		}
		em.Count("interp:kind:" + kind)
		em.Count("interp:fork:" + fork)
		cls := final
		if j := strings.Index(cls, ":"); j >= 0 {
			cls = cls[:j] + ":" + strings.SplitN(final[j+1:], ":", 2)[0]
		}
		em.Count("interp:end:" + cls)
		em.Count(fmt.Sprintf("interp:steps:%s", bucket(lg.total)))
		line := fmt.Sprintf("IX %s %x %s %s %s %d", fork, gas, strings.Join(vals, ","), hexBytes(code), hexBytes(input), interpMaxSteps)
		em.Op("C03,C12,C20,C02", line, strings.Join(parts, ";")+"|"+final)
	}
}

func bucket(n int) string {
	switch {
	case n == 0:
		return "0"
	case n <= 10:
		return "1-10"
	case n <= 50:
		return "11-50"
	case n <= 160:
		return "51-160"
	case n <= 2000:
		return "161-2000"
	default:
		return ">2000"
	}
}
