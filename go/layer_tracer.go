package main

// M1 layer: random operation histories through the exported vm.Tracer API,
// every accessor compared with the Lean model (Artela/Model/{CallTree,StateChanges}.lean).

import (
	"bytes"
	"errors"
	"fmt"
	"math/big"
	"sort"
	"strings"

	"github.com/artela-network/artela-evm/vm"
	"github.com/ethereum/go-ethereum/common"
	"github.com/ethereum/go-ethereum/core/rawdb"
	"github.com/ethereum/go-ethereum/core/state"
	"github.com/holiman/uint256"
)

func newStateDB() *state.StateDB {
	db, err := state.New(common.Hash{}, state.NewDatabase(rawdb.NewMemoryDatabase()), nil)
	if err != nil {
		panic(err)
	}
	return db
}

type tracerAlphabet struct {
	accounts []common.Address
	slots    []*uint256.Int
	offsets  []*uint256.Int // nil allowed
	types    []common.Hash
	names    [][]byte
	idxKeys  [][]byte
	vals     [][]byte
}

func smallAlphabet() *tracerAlphabet {
	big64 := new(uint256.Int).Lsh(uint256.NewInt(1), 64)
	hashed := new(uint256.Int).SetBytes(common.Hex2Bytes("290decd9548b62a8d60345a988386fc84ba6bc95484008f6362f93160ef3e563"))
	return &tracerAlphabet{
		accounts: []common.Address{common.BytesToAddress([]byte{0xa1}), common.BytesToAddress([]byte{0xa2})},
		slots:    []*uint256.Int{uint256.NewInt(0), uint256.NewInt(1), uint256.NewInt(2), uint256.NewInt(5), hashed},
		offsets:  []*uint256.Int{nil, uint256.NewInt(0), uint256.NewInt(1), uint256.NewInt(31), uint256.NewInt(32), big64},
		types:    []common.Hash{common.BytesToHash([]byte{1}), common.BytesToHash([]byte{2}), common.BytesToHash([]byte{3}), {}}, // incl. the zero type id
		// names and index keys whose concatenations coincide: "a"+"b" = "ab", ""+{1} = {1}, "a"+"" = "a"
		names:   [][]byte{[]byte("a"), []byte("b"), []byte("cc"), {}, []byte("ab"), {1}},
		idxKeys: [][]byte{{1}, {2}, common.LeftPadBytes([]byte{7}, 32), {0, 1}, []byte("b"), {}},
		vals:    [][]byte{{}, {0}, {1}, {1, 2, 3}, {0xff}, common.LeftPadBytes([]byte{9}, 32)},
	}
}

type implTracer struct {
	t  *vm.Tracer
	db *state.StateDB
}

func showChangesImpl(key bool, c *vm.StorageChanges) string {
	if !key {
		return "nokey"
	}
	if c == nil {
		return "nil"
	}
	return showChangeMap(c.Changes())
}

func (it *implTracer) qTree() string {
	ct := it.t.CallTree()
	// count is unexported: dense indices are probed through FindCall
	n := uint64(0)
	for ct.FindCall(n) != nil {
		n++
	}
	cur, root := "-", "-"
	if c := ct.Current(); c != nil {
		cur = hexU64(c.Index)
	}
	if r := ct.Root(); r != nil {
		root = hexU64(r.Index)
	}
	s := fmt.Sprintf("count=%s cur=%s root=%s :: ", hexU64(n), cur, root)
	for i := uint64(0); i < n; i++ {
		c := ct.FindCall(i)
		if i > 0 {
			s += " | "
		}
		par := "-"
		if p := ct.ParentOf(i); p != nil {
			par = hexU64(p.Index)
			if c.ParentIndex() != int64(p.Index) {
				par += "!mismatch"
			}
		} else if c.ParentIndex() != -1 {
			par += "!mismatch"
		}
		ch := []string{}
		for _, k := range ct.ChildrenOf(i) {
			ch = append(ch, hexU64(k.Index))
		}
		chi := []string{}
		for _, k := range c.ChildrenIndices() {
			chi = append(chi, hexU64(k))
		}
		if listStr(ch) != listStr(chi) {
			ch = append(ch, "!mismatch")
		}
		data := c.Data
		if data == nil {
			data = []byte{}
		}
		s += fmt.Sprintf("call i=%s from=%s to=%s data=%s value=%s gas=%s parent=%s children=%s ret=%s rem=%s err=%s",
			hexU64(c.Index), hexAddr(c.From), hexAddrP(c.To), hexBytes(data), hexNatU(c.Value), hexNatU(c.Gas), par,
			listStr(ch), optBytes(c.Ret), hexU64(c.RemainingGas), ferr(c.Err))
	}
	return s
}

func nodeTypeStr(n vm.NodeType) string {
	switch n {
	case vm.RootNode:
		return "root"
	case vm.BranchNode:
		return "branch"
	case vm.DataNode:
		return "data"
	}
	return "?"
}

func (it *implTracer) qNode(acct common.Address, name []byte, path [][]byte, sorted bool) string {
	k := it.t.StateChanges().FindKeyIndices(acct, string(name), path...)
	if k == nil {
		return "nokey"
	}
	names := []string{}
	for _, n := range k.ChildrenIndices() {
		names = append(names, hexBytes(n))
	}
	kids := []string{}
	for _, c := range k.Children() {
		kids = append(kids, hexNatU(c.Slot())+"/"+hexU64(uint64(c.Offset())))
	}
	if sorted {
		// order-insensitive view (C11): names sorted; children as a sorted multiset
		names = sortedHex(k.ChildrenIndices())
		sort.Strings(kids)
		return fmt.Sprintf("slot=%s off=%s type=%s idx=%s kidset=%s changes=%s", hexNatU(k.Slot()), hexU64(uint64(k.Offset())),
			nodeTypeStr(k.NodeType()), listStr(names), listStr(kids), showChangesImpl(true, k.Changes()))
	}
	return fmt.Sprintf("slot=%s off=%s type=%s idx=%s kids=%s changes=%s", hexNatU(k.Slot()), hexU64(uint64(k.Offset())),
		nodeTypeStr(k.NodeType()), listStr(names), listStr(kids), showChangesImpl(true, k.Changes()))
}

func sortedHex(l [][]byte) []string {
	c := make([][]byte, len(l))
	copy(c, l)
	sort.Slice(c, func(i, j int) bool { return bytes.Compare(c[i], c[j]) < 0 })
	out := []string{}
	for _, x := range c {
		out = append(out, hexBytes(x))
	}
	return out
}

func optU(u *uint256.Int) string { return hexNatU(u) }

// genTracerCase emits one random history with queries.
func genTracerCase(r *Rng, em *Emitter, length int, al *tracerAlphabet) {
	it := &implTracer{t: vm.NewTracer(), db: newStateDB()}
	for _, a := range al.accounts {
		it.db.AddBalance(a, big.NewInt(int64(1000+r.Intn(5))))
	}
	pick := func(n int) int { return r.Intn(n) }
	acct := func() common.Address { return al.accounts[pick(len(al.accounts))] }
	slot := func() *uint256.Int { return al.slots[pick(len(al.slots))] }
	off := func() *uint256.Int {
		if r.Chance(60) {
			return al.offsets[pick(3)] // nil, 0, 1 most of the time
		}
		return al.offsets[pick(len(al.offsets))]
	}
	typ := func() common.Hash { return al.types[pick(len(al.types))] }
	open := 0
	type reg struct {
		a    common.Address
		s, o *uint256.Int
		t    common.Hash
		path [][]byte // name, then index keys: how the registration is reached from the account's root
	}
	var regs []reg
	probe := 0
	balShadow := map[string][]string{}
	// harness-side bookkeeping of accepted registrations (computed from the history alone): per parent path,
	// which name holds which (slot, offset, type) and which (slot, offset) is taken by which type
	type childRec struct{ slot, off, typ string }
	byName := map[string]childRec{}    // parentKey|name -> record
	clsOf := map[string]string{}       // parentKey|name -> conflict class of that first registration
	bySO := map[string]string{}        // parentKey|slot|off -> type
	firstPath := map[string][][]byte{} // account|slot|0|type -> path of the first such registration (parent lookup)
	offOf := func(o *uint256.Int) string {
		if o == nil {
			return "0"
		}
		return hexNatU(o)
	}
	pathKey := func(a common.Address, path [][]byte) string {
		return hexAddr(a) + "/" + bytesList(path)
	}
	// afterReg emits the C11 specification probe for an accepted registration: a change journaled for the key just
	// registered must be visible through BOTH lookups (name/index path and slot/offset/type).
	fkCls := map[string]string{} // account|slot|off|type -> class of the first registration of that key
	anyConflict := false         // some accepted registration of this history is in a conflict class of known finding D14
	afterReg := func(g reg, parentKey string, parentFk string, name []byte) {
		rec := childRec{hexNatU(g.s), offOf(g.o), hexHash(g.t)}
		fk := hexAddr(g.a) + "|" + rec.slot + "|" + rec.off + "|" + rec.typ
		cls := "clean"
		if old, ok := byName[parentKey+"|"+string(name)]; ok {
			if old == rec {
				cls = clsOf[parentKey+"|"+string(name)] // a re-registration inherits the class of the original
				if cls == "clean" {
					cls = "re-registration"
				}
			} else {
				cls = "same-name-other-key"
			}
		} else if oldT, ok := bySO[parentKey+"|"+rec.slot+"|"+rec.off]; ok && oldT != rec.typ {
			cls = "shared-slot-offset-other-type"
		} else if fp, ok := firstPath[fk]; ok && bytesList(fp) != bytesList(g.path) {
			cls = "same-key-other-path"
		}
		// a key under a parent that is itself in a conflict class shares the parent's fate; so does its re-registration (the class
		// remembered for the name is the adjusted one)
		if pc, ok := fkCls[parentFk]; ok && (cls == "clean" || cls == "re-registration") && pc != "clean" && pc != "re-registration" {
			cls = "under-conflicted-parent"
		}
		if _, ok := byName[parentKey+"|"+string(name)]; !ok {
			byName[parentKey+"|"+string(name)] = rec
			clsOf[parentKey+"|"+string(name)] = cls
		}
		if _, ok := bySO[parentKey+"|"+rec.slot+"|"+rec.off]; !ok {
			bySO[parentKey+"|"+rec.slot+"|"+rec.off] = rec.typ
		}
		if cls != "clean" && cls != "re-registration" {
			anyConflict = true
		}
		if _, ok := firstPath[fk]; !ok {
			firstPath[fk] = g.path
			fkCls[fk] = cls
		}
		if !r.Chance(60) {
			return
		}
		probe++
		v := []byte{0xee, byte(probe >> 8), byte(probe)}
		err := it.t.SaveStateChange(g.a, g.s, g.o, g.t, v)
		em.Op("C11,C10", fmt.Sprintf("T change %s %s %s %s %s", hexAddr(g.a), optU(g.s), optU(g.o), hexHash(g.t), hexBytes(v)), okErr(err))
		has := func(c *vm.StorageChanges) bool {
			if c == nil {
				return false
			}
			for _, l := range c.Changes() {
				for _, x := range l {
					if bytes.Equal(x, v) {
						return true
					}
				}
			}
			return false
		}
		sc := it.t.StateChanges()
		viaPath := has(sc.Variable(g.a, string(g.path[0]), g.path[1:]...))
		bySlot, _ := sc.Slot(g.a, g.s, g.o, g.t)
		viaSlot := has(bySlot)
		verdict := "both"
		switch {
		case err != nil:
			verdict = "refused"
		case viaPath && !viaSlot:
			verdict = "path-only"
		case !viaPath && viaSlot:
			verdict = "slot-only"
		case !viaPath && !viaSlot:
			verdict = "neither"
		}
		em.Op("C11", "S both-see "+cls, verdict)
		em.Count("probe:" + cls + ":" + verdict)
	}

	query := func(full bool) {
		q := func(tags, op, impl string) { em.Op(tags, "Q "+op, impl) }
		sc := it.t.StateChanges()
		doVar := func(a common.Address, n []byte, p [][]byte) {
			k := sc.FindKeyIndices(a, string(n), p...)
			// C11 specification (from the history alone): a name/index path resolves only if a registration with that path
			// was accepted — children are keyed by name, first registration wins, nothing is ever removed
			full := append([][]byte{n}, p...)
			wasReg := false
			for _, g := range regs {
				if g.a == a && bytesList(g.path) == bytesList(full) {
					wasReg = true
					break
				}
			}
			pv := "ok"
			if k != nil && !wasReg && !anyConflict {
				// (once a registration of the history is in one of D14's conflict classes, the flat index and the name tree
				// disagree about parents, and this bookkeeping of paths is no longer what the code does)
				pv = "resolves_a_path_that_was_never_registered"
			}
			// (the converse fails inside the conflict classes of known finding D14 and is left to S both-see)
			em.Op("C11", fmt.Sprintf("S path-resolves %s %s %s", hexAddr(a), hexBytes(n), bytesList(p)), pv)
			q("C10,C11", fmt.Sprintf("var %s %s %s", hexAddr(a), hexBytes(n), bytesList(p)), showChangesImpl(k != nil, sc.Variable(a, string(n), p...)))
			idx := sc.IndicesOfChanges(a, string(n), p...)
			is := "nokey"
			if k != nil {
				ss := []string{}
				for _, x := range idx {
					ss = append(ss, hexBytes(x))
				}
				is = listStr(ss)
			}
			q("C16", fmt.Sprintf("idx %s %s %s", hexAddr(a), hexBytes(n), bytesList(p)), is)
			q("C16", fmt.Sprintf("node %s %s %s", hexAddr(a), hexBytes(n), bytesList(p)), it.qNode(a, n, p, false))
			if k != nil {
				is = listStr(sortedHex(idx))
			}
			q("C11", fmt.Sprintf("idxs %s %s %s", hexAddr(a), hexBytes(n), bytesList(p)), is)
			q("C11,C10", fmt.Sprintf("nodes %s %s %s", hexAddr(a), hexBytes(n), bytesList(p)), it.qNode(a, n, p, true))
		}
		doSlot := func(a common.Address, s, o *uint256.Int, t common.Hash) {
			c, err := sc.Slot(a, s, o, t)
			ans := ""
			if err != nil {
				ans = okErr(err)
			} else {
				// a nil *StorageChanges from Slot means either no key or a key without changes:
				// distinguish through the model-independent fact that Slot returns (nil,nil) for both;
				// the model prints nokey/nil, so map both to the same token on both sides.
				if c == nil {
					ans = "nil-or-nokey"
				} else {
					ans = showChangeMap(c.Changes())
				}
			}
			q("C10,C11", fmt.Sprintf("slot %s %s %s %s", hexAddr(a), optU(s), optU(o), hexHash(t)), ans)
		}
		if full {
			q("C07,C08,C16", "tree", it.qTree())
			for _, a := range al.accounts {
				q("C13,C16", "bal "+hexAddr(a), func() string {
					// Balance returns nil both for an unknown account and for a root without changes
					b := sc.Balance(a)
					if b == nil {
						return "nil-or-nokey"
					}
					return showChangeMap(b.Changes())
				}())
				for _, n := range al.names {
					doVar(a, n, nil)
					for _, k := range al.idxKeys {
						doVar(a, n, [][]byte{k})
					}
					doVar(a, n, [][]byte{al.idxKeys[0], al.idxKeys[1]})
				}
				for _, s := range al.slots {
					for _, o := range al.offsets[:5] {
						for _, t := range al.types {
							doSlot(a, s, o, t)
						}
					}
				}
			}
		} else {
			switch pick(4) {
			case 0:
				q("C07,C08,C16", "tree", it.qTree())
			case 1:
				p := [][]byte{}
				for i := pick(3); i > 0; i-- {
					p = append(p, al.idxKeys[pick(len(al.idxKeys))])
				}
				doVar(acct(), al.names[pick(len(al.names))], p)
			case 2:
				doSlot(acct(), slot(), off(), typ())
			case 3:
				a := acct()
				b := sc.Balance(a)
				ans := "nil-or-nokey"
				if b != nil {
					ans = showChangeMap(b.Changes())
				}
				q("C13,C16", "bal "+hexAddr(a), ans)
			}
		}
	}

	// one history in seven is call-heavy: many more calls than any initial capacity of the tree's containers, opened and closed at
	// all depths, with the other operations in between
	callHeavy := r.Chance(14)
	if callHeavy {
		length += 40
		em.Count("case:call-heavy")
	}
	for i := 0; i < length; i++ {
		k0 := pick(100)
		if callHeavy {
			if x := pick(100); x < 45 {
				k0 = 75 // enter call
			} else if x < 70 {
				k0 = 85 // exit call
			}
		}
		switch k := k0; {
		case k < 22: // register top-level
			a, s, o, t, n := acct(), slot(), off(), typ(), al.names[pick(len(al.names))]
			err := it.t.SaveStateKey(a, nil, s, o, t, common.Hash{}, n)
			em.Op("C11", fmt.Sprintf("T key %s - %s %s %s 0 %s", hexAddr(a), optU(s), optU(o), hexHash(t), hexBytes(n)), okErr(err))
			em.Count("regTop:" + okErr(err))
			if err == nil {
				g := reg{a, s, o, t, [][]byte{n}}
				regs = append(regs, g)
				afterReg(g, pathKey(a, nil), "", n)
			}
		case k < 44: // register nested
			a, p, s, o, t, pt, n := acct(), slot(), slot(), off(), typ(), typ(), al.idxKeys[pick(len(al.idxKeys))]
			if len(regs) > 0 && r.Chance(75) { // mostly-valid: a registered parent
				g := regs[pick(len(regs))]
				a, p, pt = g.a, g.s, g.t
			}
			err := it.t.SaveStateKey(a, p, s, o, t, pt, n)
			em.Op("C11", fmt.Sprintf("T key %s %s %s %s %s %s %s", hexAddr(a), optU(p), optU(s), optU(o), hexHash(t), hexHash(pt), hexBytes(n)), okErr(err))
			em.Count("regNested:" + okErr(err))
			if err == nil {
				// the parent is the first registration of (account, parent slot, offset 0, parent type)
				if pp, ok := firstPath[hexAddr(a)+"|"+hexNatU(p)+"|0|"+hexHash(pt)]; ok {
					g := reg{a, s, o, t, append(append([][]byte{}, pp...), n)}
					regs = append(regs, g)
					afterReg(g, pathKey(a, pp), hexAddr(a)+"|"+hexNatU(p)+"|0|"+hexHash(pt), n)
				} else {
					em.Op("C11", "S parent-known", "accepted-under-unregistered-parent")
				}
			}
		case k < 72: // journal a change
			a, s, o, t, v := acct(), slot(), off(), typ(), al.vals[pick(len(al.vals))]
			if len(regs) > 0 && r.Chance(75) {
				g := regs[pick(len(regs))]
				a, s, o, t = g.a, g.s, g.o, g.t
			}
			// C10 specification, stated on the implementation alone (it is theorem c10_list_law for the model): an accepted change
			// under call index i appends v to the list of i unless that list ends with v; every other list stays as it was
			snap := func() map[uint64][]string {
				c, e := it.t.StateChanges().Slot(a, s, o, t)
				if e != nil || c == nil {
					return nil
				}
				m := map[uint64][]string{}
				for i, l := range c.Changes() {
					for _, x := range l {
						m[i] = append(m[i], hexBytes(x))
					}
				}
				return m
			}
			// … and the views of the same (slot, offset, type) under the OTHER accounts stay as they were: entries of different
			// accounts never mix
			snapOthers := func() string {
				var parts []string
				for _, a2 := range al.accounts {
					if a2 == a {
						continue
					}
					c, e := it.t.StateChanges().Slot(a2, s, o, t)
					v := "none"
					if e == nil && c != nil {
						v = showChangeMap(c.Changes())
					}
					parts = append(parts, hexAddr(a2)+"="+v)
				}
				return strings.Join(parts, ";")
			}
			othersBefore := snapOthers()
			before, idx := snap(), it.t.CurrentCallIndex()
			err := it.t.SaveStateChange(a, s, o, t, v)
			em.Op("C11,C10", fmt.Sprintf("T change %s %s %s %s %s", hexAddr(a), optU(s), optU(o), hexHash(t), hexBytes(v)), okErr(err))
			em.Count("change:" + okErr(err))
			if err == nil {
				after, verdict := snap(), "ok"
				want := append([]string{}, before[idx]...)
				if len(want) == 0 || want[len(want)-1] != hexBytes(v) {
					want = append(want, hexBytes(v))
				}
				if after == nil {
					verdict = "accepted_change_not_visible_by_slot"
				} else if strings.Join(after[idx], ",") != strings.Join(want, ",") {
					verdict = fmt.Sprintf("call_%d_has_%s_want_%s", idx, listStr(after[idx]), listStr(want))
				} else {
					for i, l := range before {
						if i != idx && strings.Join(after[i], ",") != strings.Join(l, ",") {
							verdict = fmt.Sprintf("list_of_other_call_%d_changed", i)
						}
					}
					for i := range after {
						if _, ok := before[i]; !ok && i != idx {
							verdict = fmt.Sprintf("list_of_other_call_%d_appeared", i)
						}
					}
				}
				if oa := snapOthers(); oa != othersBefore && verdict == "ok" {
					verdict = "record_of_another_account_changed:" + strings.ReplaceAll(othersBefore+"->"+oa, " ", "_")
				}
				em.Op("C10", "S attributed", verdict)
			}
		case k < 82: // enter call
			from, to := acct(), acct()
			var top *common.Address
			if r.Chance(80) {
				top = &to
			}
			data := al.vals[pick(len(al.vals))]
			val, gas := uint256.NewInt(uint64(pick(3))), uint256.NewInt(uint64(pick(1000)))
			it.t.SaveCall(from, top, data, val, gas)
			em.Op("-", fmt.Sprintf("T call %s %s %s %s %s", hexAddr(from), hexAddrP(top), hexBytes(data), hexNatU(val), hexNatU(gas)), "ok")
			open++
			em.Count("call")
		case k < 91: // exit call (possibly unbalanced)
			g := uint64(pick(1000))
			var ret []byte
			if r.Bool() {
				ret = al.vals[pick(len(al.vals))]
			}
			var err error
			if r.Chance(40) {
				err = errors.New([]string{"out of gas", "execution reverted", "x"}[pick(3)])
			}
			it.t.ExitCall(g, ret, err)
			em.Op("-", fmt.Sprintf("T exit %s %s %s", hexU64(g), optBytes(ret), ferr(err)), "ok")
			if open > 0 {
				open--
				em.Count("exit")
			} else {
				em.Count("exit-at-rest")
			}
		case k < 97: // value transfer with record
			from, to := acct(), acct()
			amt := big.NewInt(int64(pick(3)))
			bf, bt := it.db.GetBalance(from), it.db.GetBalance(to)
			bf, bt = new(big.Int).Set(bf), new(big.Int).Set(bt)
			it.t.TransferWithRecord(it.db, from, to, amt, func(db vm.StateDB, s, rcp common.Address, a *big.Int) {
				db.SubBalance(s, a)
				db.AddBalance(rcp, a)
			})
			af, at := it.db.GetBalance(from), it.db.GetBalance(to)
			em.Op("-", fmt.Sprintf("T transfer %s %s %s %s %s %s", hexAddr(from), hexAddr(to), hexNatBig(bf), hexNatBig(bt), hexNatBig(af), hexNatBig(at)), "ok")
			// C13 specification (independent of the Lean model): the harness' own shadow of the balance journal, built
			// from the balances it observed itself, with the append-unless-repeat rule
			idx := it.t.CurrentCallIndex()
			for _, ob := range []struct {
				a common.Address
				b *big.Int
			}{{from, bf}, {to, bt}, {from, af}, {to, at}} {
				k := fmt.Sprintf("%s/%d", hexAddr(ob.a), idx)
				v := hexBytes(ob.b.Bytes())
				if l := balShadow[k]; len(l) == 0 || l[len(l)-1] != v {
					balShadow[k] = append(balShadow[k], v)
				}
			}
			verdict := "match"
			for _, a := range []common.Address{from, to} {
				got := []string{}
				if b := it.t.StateChanges().Balance(a); b != nil {
					for _, x := range b.Changes()[idx] {
						got = append(got, hexBytes(x))
					}
				}
				if listStr(got) != listStr(balShadow[fmt.Sprintf("%s/%d", hexAddr(a), idx)]) {
					verdict = "differs:" + hexAddr(a) + ":recorded=" + listStr(got) + ":observed=" + listStr(balShadow[fmt.Sprintf("%s/%d", hexAddr(a), idx)])
				}
			}
			em.Op("C13", "S balshadow", verdict)
			if from == to {
				em.Count("transfer-self")
			} else {
				em.Count("transfer")
			}
		default:
			a, s, v := acct(), slot(), typ()
			it.t.SaveRawStateChange(a, *s, v)
			em.Op("-", fmt.Sprintf("T raw %s %s %s", hexAddr(a), optU(s), hexHash(v)), "ok")
			em.Count("raw")
		}
		query(false)
		if i%8 == 7 {
			query(true)
		}
	}
	query(true)
	// C07 on the real structure after an arbitrary (also unbalanced) history: dense indices, lookup = index, unique smaller parent
	// listing each child once in increasing order (the cursor may be anywhere, so "no call left open" is not asked here)
	em.Op("C07", "S wf-any-history", checkTreeWF(it.t, -1, true))
}

func driveTracer(seed uint64, n int, maxLen int, em *Emitter) {
	r := NewRng(seed)
	al := smallAlphabet()
	for c := 0; c < n; c++ {
		em.Reset(fmt.Sprintf("tracer-%d-%d", seed, c))
		cs, ln := r.Next(), 1+r.Intn(maxLen)
		genTracerCase(NewRng(cs), em, ln, al)
		// C16 specification side: the same history on fresh tracers must give identical answers,
		// including the order of every returned list.
		var first *[][3]string
		verdict := "same"
		for rep := 0; rep < 6 && verdict == "same"; rep++ {
			ce, buf := captureEmitter()
			genTracerCase(NewRng(cs), ce, ln, al)
			if first == nil {
				first = buf
				continue
			}
			for i := range *buf {
				if (*buf)[i] != (*first)[i] {
					verdict = "differs:" + strings.ReplaceAll((*buf)[i][1], " ", "_") + ":" + (*first)[i][2] + "_VS_" + (*buf)[i][2]
					break
				}
			}
		}
		em.Op("C16", "S det", strings.ReplaceAll(verdict, " ", "_"))
	}
}
