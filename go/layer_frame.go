package main

// M5 layer: call-tree programs on the real EVM. The harness' EVMLogger turns what the inherited interpreter does
// (steps, faults, frame enters and exits) into the event stream of Artela/Model/Frame.lean (F lines); mock Aspects
// bound through aspect-core's runtime pool script the join points; a wrapping Transfer records the true balances.
// The model then predicts call tree, debug-tracer callbacks, join-point invocations, gas at interpreter start,
// surviving state effects, balance journal and journal attribution, which are compared with what really happened.

import (
	"bytes"
	"context"
	"encoding/json"
	"errors"
	"fmt"
	"math/big"
	"reflect"
	"sort"
	"strings"

	"github.com/artela-network/artela-evm/tracers"
	"github.com/artela-network/artela-evm/vm"
	"github.com/artela-network/aspect-core/djpm/run"
	atypes "github.com/artela-network/aspect-core/types"
	"github.com/ethereum/go-ethereum/common"
	"github.com/ethereum/go-ethereum/core/state"
	"github.com/ethereum/go-ethereum/crypto"
	"github.com/holiman/uint256"
	"google.golang.org/protobuf/proto"
)

// ---------------------------------------------------------------- canonical errors

func ferr(e error) string {
	if e == nil {
		return "-"
	}
	t := e.Error()
	if t == vm.ErrExecutionReverted.Error() && e != vm.ErrExecutionReverted {
		// an error that merely prints like the EVM's revert sentinel is not the sentinel (Go compares identities)
		t = "aspect:" + t
	}
	return strings.ReplaceAll(t, " ", "_")
}

func xbytes(b []byte) string { // nil and empty are one observation
	return hexBytes(b)
}

// ---------------------------------------------------------------- mock Aspects

type jpOutcome struct {
	burn uint64 // gas burned (saturating)
	err  string // "", "revert", "oog", "generic", "aspectrevert"
	ret  []byte
}
type aspectScript struct{ pre, post jpOutcome }

type jpRec struct {
	point string
	to    common.Address
	gasIn int64
	line  string // canonical record of the request as the Aspect saw it
	ret   []byte
	left  uint64
	err   error
}

var (
	frameAspects map[common.Address]*aspectScript
	frameJPLog   []jpRec
)

func outcomeErr(k string) error {
	switch k {
	case "revert":
		return vm.ErrExecutionReverted
	case "oog":
		return errors.New("out of gas")
	case "generic":
		return errors.New("aspect refused")
	case "aspectrevert":
		return run.ErrExecutionReverted
	}
	return nil
}

func frameAspectHandler(code []byte, pointcut string, gas int64, req []byte) (interface{}, int64, error) {
	rec := jpRec{point: pointcut, gasIn: gas}
	var sc *aspectScript
	var o jpOutcome
	u := func(p *uint64) uint64 {
		if p == nil {
			return 0
		}
		return *p
	}
	if pointcut == string(atypes.PRE_CONTRACT_CALL_METHOD) {
		in := &atypes.PreContractCallInput{}
		if err := proto.Unmarshal(req, in); err == nil && in.Call != nil {
			rec.to = common.BytesToAddress(in.Call.To)
			rec.line = fmt.Sprintf("pre(%s,%s,%s,%s,%s,%s)", hexAddr(common.BytesToAddress(in.Call.From)), hexAddr(rec.to), xbytes(in.Call.Data),
				new(big.Int).SetBytes(in.Call.Value).Text(16), hexU64(u(in.Call.Gas)), hexU64(u(in.Call.Index)))
		}
		sc = frameAspects[rec.to]
		if sc != nil {
			o = sc.pre
		}
	} else {
		in := &atypes.PostContractCallInput{}
		if err := proto.Unmarshal(req, in); err == nil && in.Call != nil {
			rec.to = common.BytesToAddress(in.Call.To)
			em := "-"
			if in.Call.Error != nil && *in.Call.Error != "" {
				em = strings.ReplaceAll(*in.Call.Error, " ", "_")
			}
			rec.line = fmt.Sprintf("post(%s,%s,%s,%s,%s,%s,%s,%s)", hexAddr(common.BytesToAddress(in.Call.From)), hexAddr(rec.to), xbytes(in.Call.Data),
				new(big.Int).SetBytes(in.Call.Value).Text(16), hexU64(u(in.Call.Gas)), hexU64(u(in.Call.Index)), xbytes(in.Call.Ret), em)
		}
		sc = frameAspects[rec.to]
		if sc != nil {
			o = sc.post
		}
	}
	left := uint64(0)
	if uint64(gas) > o.burn {
		left = uint64(gas) - o.burn
	}
	rec.left, rec.err, rec.ret = left, outcomeErr(o.err), o.ret
	if int64(rec.gasIn) != gas || rec.line == "" {
		rec.line = "undecodable"
	}
	if rec.err != nil {
		rec.ret = nil // the runner drops the output of a failing Aspect
	}
	frameJPLog = append(frameJPLog, rec)
	if rec.err != nil {
		return nil, int64(left), rec.err
	}
	if o.ret == nil {
		return nil, int64(left), nil
	}
	return o.ret, int64(left), nil
}

// ---------------------------------------------------------------- transfers

const transferEffectBase = uint64(1) << 40

type transferRec struct {
	from, to         common.Address
	amount           *big.Int
	bf, bt, bfa, bta *big.Int
	idx              uint64 // call-tree index current when the transfer was made
}

// ---------------------------------------------------------------- the logger

type attempt struct {
	kind   string
	caller common.Address
	to     common.Address
	value  *big.Int
	input  []byte
	facts  map[string]string
	gas    uint64
	// what the issuing frame saw of this attempt in its own gas: gas before the CALL/CREATE step, the step's cost, and - once the
	// frame's next step is known - the frame's gas after it minus (gas before - cost)
	stepGas, stepCost uint64
	netKnown          bool
	netGas            int64
}

type frec struct {
	att         *attempt
	entered     bool
	steps       int
	lastOp      byte
	lastGas     uint64
	lastRet     []byte
	fault       error
	faultGas    uint64
	pendEffect  *uint64
	pendJournal []string
	pendJAttr   *jattr // the change a pending VVJNAL will record, with the call index it must be filed under
	pendCall    *attempt
	lastAttempt *attempt // the attempt made by this frame's previous step, if that step was a CALL-family or CREATE instruction
	jpMark      int
	effects     []uint64         // program effects performed by this frame itself
	touches     []common.Address // accounts addressed by frames below this one that succeeded (they share this frame's fate)
	nonceBumps  []common.Address // creators whose nonce a CREATE issued by this frame (or by a frame below that succeeded) incremented
	failedErr   error
	// specification material (C05 C06 C08)
	nodeIdx     int // call-tree index of the node this frame pushed (-1: none)
	parentNode  int // index of the nearest enclosing frame that pushed a node (-1: none)
	jpFirst     int // len(frameJPLog) at the first step (-1: no step)
	jpLast      int // … at the last step
	jpExit      int // … at the exit callback
	firstGas    uint64
	accepted    bool
	exitOut     []byte
	exitUsed    uint64
	exitErr     error
	suppliedGas uint64
}

// jattr: one journaled change as the property files it (C10): account whose storage the code operates on, key, value, and the
// call-tree index of the innermost CALL/CREATE frame executing at that moment
type jattr struct {
	acct common.Address
	key  string // "slot off typ"
	val  []byte
	idx  int
}

type frameLogger struct {
	expAttr    map[string]map[uint64][][]byte // acct+" "+key -> call index -> chronological values, immediate repeats collapsed
	lines      [][2]string                    // tag, op (F lines and refused-attempt lines), in order
	stack      []*frec
	topAttempt *attempt
	events     []string
	started    []string
	db         *state.StateDB
	evm        *vm.EVM
	rules      map[string]string
	transfers  []transferRec
	tIdx       int
	allEffects []uint64
	failedEffs map[uint64]bool           // effects performed inside a frame that later failed (or inside its descendants)
	keptEffs   map[uint64]bool           // effects of frames that succeeded all the way up
	jpIgnored  []string                  // frames whose post join point failed while the frame reported success
	keptTouch  map[common.Address]bool   // accounts addressed by a frame that succeeded all the way up
	keptNonce  map[common.Address]uint64 // nonce increments made by creations whose issuing frame succeeded all the way up (or had none)
	desync     string
	journaled  map[string]bool
	accounts   map[common.Address]bool
	treeCount  int
	done       []*frec // every attempt, accepted or refused, in the order the frame functions were invoked
	jpOn       bool
}

func (l *frameLogger) f(op string) { l.lines = append(l.lines, [2]string{"-", "F " + op}) }

func factsStr(m map[string]string) string {
	keys := make([]string, 0, len(m))
	for k := range m {
		keys = append(keys, k)
	}
	sort.Strings(keys)
	parts := make([]string, len(keys))
	for i, k := range keys {
		parts[i] = k + "=" + m[k]
	}
	return strings.Join(parts, ",")
}

func b01(b bool) string {
	if b {
		return "1"
	}
	return "0"
}

// factsFor computes what the environment will answer for an attempt made now.
func (l *frameLogger) factsFor(a *attempt) {
	m := map[string]string{}
	for k, v := range l.rules {
		m[k] = v
	}
	val := a.value
	if val == nil {
		val = new(big.Int)
	}
	m["ct"] = b01(l.db.GetBalance(a.caller).Cmp(val) >= 0)
	m["dbg"] = "1"
	if a.kind == "create" || a.kind == "create2" {
		n := l.db.GetNonce(a.caller)
		m["no"] = b01(n+1 < n)
		ch := l.db.GetCodeHash(a.to)
		m["co"] = b01(l.db.GetNonce(a.to) != 0 || (ch != (common.Hash{}) && ch != crypto.Keccak256Hash(nil)))
	} else {
		m["ex"] = b01(l.db.Exist(a.to))
		m["ce"] = b01(len(l.db.GetCode(a.to)) == 0)
	}
	a.facts = m
	l.accounts[a.caller] = true
	l.accounts[a.to] = true
}

func (l *frameLogger) emitEnter(a *attempt, gas uint64, accepted bool, fr *frec, exitOut []byte, exitGasUsed uint64, exitErr error) {
	m := a.facts
	if a.kind == "create" || a.kind == "create2" {
		// the creator's nonce is incremented once the depth, balance and nonce-overflow checks have passed - before the collision
		// check and before the snapshot: it belongs to the frame that issued the creation, not to the creation
		var issuing *frec
		open := len(l.stack)
		if fr != nil {
			open-- // fr itself is the creation's frame
			if len(l.stack) >= 2 {
				issuing = l.stack[len(l.stack)-2]
			}
		} else {
			issuing = l.top()
		}
		if (accepted || (m["ct"] == "1" && m["no"] == "0" && open <= 1024)) && m["no"] != "1" {
			if issuing == nil {
				l.keptNonce[a.caller]++
			} else {
				issuing.nonceBumps = append(issuing.nonceBumps, a.caller)
			}
		}
	}
	if accepted {
		// value transfer observed by the wrapping Transfer
		if (a.kind == "call" || a.kind == "create" || a.kind == "create2") && l.tIdx < len(l.transfers) {
			t := l.transfers[l.tIdx]
			val := a.value
			if val == nil {
				val = new(big.Int)
			}
			if t.from == a.caller && t.to == a.to && t.amount.Cmp(val) == 0 {
				if fr != nil {
					fr.effects = append(fr.effects, transferEffectBase+uint64(l.tIdx)) // the entry transfer shares the frame's fate
				}
				l.tIdx++
				m["bf"], m["bt"], m["bfa"], m["bta"] = t.bf.Text(16), t.bt.Text(16), t.bfa.Text(16), t.bta.Text(16)
			}
		}
		// pre join point, if the Aspect runtime was invoked for this frame
		if fr != nil && a.kind == "call" {
			for i := fr.jpMark; i < len(frameJPLog); i++ {
				r := frameJPLog[i]
				if r.point == string(atypes.PRE_CONTRACT_CALL_METHOD) && r.to == a.to {
					m["jp"] = "1"
					m["pre"] = fmt.Sprintf("%s/%s/%s", optBytes(r.ret), hexU64(r.left), ferr(r.err))
					break
				}
			}
		}
		if fr != nil && fr.steps == 0 && a.kind != "create" && a.kind != "create2" {
			if isActivePrecompile(l.evm, a.to) {
				g := uint64(0)
				if exitErr == nil {
					g = gas - exitGasUsed
				}
				m["pc"] = fmt.Sprintf("%s/%s/%s", optBytes(exitOut), hexU64(g), ferr(exitErr))
			}
		}
	}
	v := "0"
	if a.value != nil {
		v = a.value.Text(16)
	}
	l.f(fmt.Sprintf("enter %s %s %s %s %s %s %s", a.kind, hexAddr(a.caller), hexAddr(a.to), v, hexBytes(a.input), hexU64(gas), factsStr(m)))
	rec := fr
	if rec == nil {
		rec = &frec{att: a, jpFirst: -1}
	}
	rec.accepted, rec.suppliedGas, rec.nodeIdx, rec.parentNode = accepted, gas, -1, -1
	for i := len(l.stack) - 1; i >= 0; i-- {
		if l.stack[i] != rec && l.stack[i].nodeIdx >= 0 {
			rec.parentNode = l.stack[i].nodeIdx
			break
		}
	}
	if a.kind == "call" || a.kind == "create" || a.kind == "create2" {
		rec.nodeIdx = l.treeCount
		l.treeCount++
	}
	l.done = append(l.done, rec)
}

func isActivePrecompile(evm *vm.EVM, a common.Address) bool {
	for _, p := range vm.ActivePrecompiles(evm.ChainConfig().Rules(evm.Context.BlockNumber, evm.Context.Random != nil, evm.Context.Time)) {
		if p == a {
			return true
		}
	}
	return false
}

// refusedGas: the gas a refused Call/create was supplied with is only visible in the call tree node it left
func (l *frameLogger) refusedGas(a *attempt) uint64 {
	if a.kind == "call" || a.kind == "create" || a.kind == "create2" {
		if n := l.evm.Tracer().CallTree().FindCall(uint64(l.treeCount)); n != nil && n.Gas != nil {
			return n.Gas.Uint64()
		}
	}
	return a.gas
}

func (l *frameLogger) top() *frec {
	if len(l.stack) == 0 {
		return nil
	}
	return l.stack[len(l.stack)-1]
}

func (l *frameLogger) flushPending(fr *frec, failed bool) {
	if fr.pendEffect != nil {
		if !failed {
			l.f(fmt.Sprintf("effect %x", *fr.pendEffect))
			fr.effects = append(fr.effects, *fr.pendEffect)
			l.allEffects = append(l.allEffects, *fr.pendEffect)
		}
		fr.pendEffect = nil
	}
	if fr.pendJournal != nil {
		if !failed {
			for _, j := range fr.pendJournal {
				l.f(j)
			}
			if a := fr.pendJAttr; a != nil && a.idx >= 0 {
				k := hexAddr(a.acct) + " " + a.key
				if l.expAttr[k] == nil {
					l.expAttr[k] = map[uint64][][]byte{}
				}
				cur := l.expAttr[k][uint64(a.idx)]
				if len(cur) == 0 || !bytes.Equal(cur[len(cur)-1], a.val) {
					l.expAttr[k][uint64(a.idx)] = append(cur, a.val)
				}
			}
		}
		fr.pendJournal = nil
	}
	fr.pendJAttr = nil
}

func (l *frameLogger) onStepBoundary(depth int) *frec {
	if depth != len(l.stack) {
		if l.desync == "" {
			l.desync = fmt.Sprintf("step at depth %d with %d open frames", depth, len(l.stack))
		}
		return nil
	}
	fr := l.top()
	if !fr.entered {
		l.emitEnter(fr.att, fr.att.gas, true, fr, nil, 0, nil)
		fr.entered = true
	}
	if fr.pendCall != nil {
		// no frame was entered for the attempt: it was refused up front
		l.emitEnter(fr.pendCall, l.refusedGas(fr.pendCall), false, nil, nil, 0, nil)
		fr.pendCall = nil
	}
	return fr
}

func memSlice(mem []byte, off, size uint64) []byte {
	if size == 0 {
		return nil
	}
	out := make([]byte, size)
	if off < uint64(len(mem)) {
		copy(out, mem[off:])
	}
	return out
}

func (l *frameLogger) CaptureTxStart(uint64) {}
func (l *frameLogger) CaptureTxEnd(uint64)   {}

func (l *frameLogger) enterFrame(kind string, from, to common.Address, input []byte, gas uint64, value *big.Int) {
	var a *attempt
	if p := l.top(); p != nil && p.pendCall != nil {
		a = p.pendCall
		p.pendCall = nil
	} else if l.topAttempt != nil {
		a = l.topAttempt
		l.topAttempt = nil
	} else {
		a = &attempt{kind: kind, caller: from, to: to, value: value, input: input}
		l.factsFor(a)
		if l.desync == "" {
			l.desync = "enter without a recorded attempt: " + kind
		}
	}
	// what the callback reports is authoritative for the accepted frame
	a.to, a.gas, a.input = to, gas, append([]byte{}, input...)
	if kind == "delegatecall" {
		a.value = value
	}
	l.accounts[to] = true
	l.stack = append(l.stack, &frec{att: a, jpMark: len(frameJPLog), jpFirst: -1, nodeIdx: -1, parentNode: -1})
}

func kindOfOp(op vm.OpCode) string {
	switch op {
	case vm.CALL:
		return "call"
	case vm.CALLCODE:
		return "callcode"
	case vm.DELEGATECALL:
		return "delegatecall"
	case vm.STATICCALL:
		return "staticcall"
	case vm.CREATE:
		return "create"
	case vm.CREATE2:
		return "create2"
	}
	return "?"
}

func optBig(v *big.Int) string {
	if v == nil {
		return "-"
	}
	return v.Text(16)
}

func (l *frameLogger) CaptureStart(evm *vm.EVM, from, to common.Address, create bool, input []byte, gas uint64, value *big.Int) {
	k := "call"
	if create {
		k = "create"
		if l.topAttempt != nil {
			k = l.topAttempt.kind
		}
	}
	l.enterFrame(k, from, to, input, gas, value)
	c := "call"
	if create {
		c = "create"
	}
	l.events = append(l.events, fmt.Sprintf("start(%s,%s,%s,%s,%s,%s)", hexAddr(from), hexAddr(to), c, hexBytes(input), hexU64(gas), optBig(value)))
}
func (l *frameLogger) CaptureEnter(typ vm.OpCode, from, to common.Address, input []byte, gas uint64, value *big.Int) {
	l.enterFrame(kindOfOp(typ), from, to, input, gas, value)
	l.events = append(l.events, fmt.Sprintf("enter(%s,%s,%s,%s,%s,%s)", kindOfOp(typ), hexAddr(from), hexAddr(to), hexBytes(input), hexU64(gas), optBig(value)))
}

func (l *frameLogger) exitFrame(output []byte, gasUsed uint64, err error) {
	fr := l.top()
	if fr == nil {
		l.desync = "exit without open frame"
		return
	}
	fr.jpExit, fr.exitOut, fr.exitUsed, fr.exitErr = len(frameJPLog), append([]byte{}, output...), gasUsed, err
	if !fr.entered {
		l.emitEnter(fr.att, fr.att.gas, true, fr, output, gasUsed, err)
		fr.entered = true
	}
	l.stack = l.stack[:len(l.stack)-1]
	if fr.pendCall != nil {
		l.emitEnter(fr.pendCall, l.refusedGas(fr.pendCall), false, nil, nil, 0, nil)
		fr.pendCall = nil
	}
	l.flushPending(fr, fr.fault != nil)
	if fr.steps > 0 {
		var ret []byte
		e := "-"
		gasLeft := fr.lastGas
		switch {
		case fr.fault == vm.ErrExecutionReverted:
			ret, e, gasLeft = fr.lastRet, ferr(fr.fault), fr.faultGas
		case fr.fault != nil:
			e, gasLeft = ferr(fr.fault), fr.faultGas
		case fr.lastOp == byte(vm.RETURN):
			ret = fr.lastRet
		}
		post := "-/0/-"
		if fr.att.kind == "call" {
			for i := fr.jpMark; i < len(frameJPLog); i++ {
				r := frameJPLog[i]
				if r.point == string(atypes.POST_CONTRACT_CALL_METHOD) && r.to == fr.att.to {
					post = fmt.Sprintf("%s/%s/%s", optBytes(r.ret), hexU64(r.left), ferr(r.err))
					if r.err != nil && err == nil {
						// C04: a failure reported by the post-call join point is a failure of the frame
						l.jpIgnored = append(l.jpIgnored, fmt.Sprintf("post_join_point_of_%s_failed_(%s)_but_the_frame_ended_without_error", hexAddr(fr.att.to), ferr(r.err)))
						err = r.err
					}
				}
			}
		}
		l.f(fmt.Sprintf("halt %s %s %s %s", optBytes(ret), e, hexU64(gasLeft), post))
	} else if fr.att.kind == "create" || fr.att.kind == "create2" {
		// interpreter.Run was entered with empty code and returned (nil, nil) at once, all gas left
		l.f(fmt.Sprintf("halt - - %s -/0/-", hexU64(fr.att.gas)))
	}
	// bookkeeping for the C04 specification: effects of a failed frame (and of everything below it) must vanish
	if err != nil {
		for _, id := range fr.effects {
			l.failedEffs[id] = true
		}
	} else if p := l.top(); p != nil {
		p.effects = append(p.effects, fr.effects...) // they now share the parent's fate
		p.touches = append(append(p.touches, fr.touches...), fr.att.to)
		p.nonceBumps = append(p.nonceBumps, fr.nonceBumps...)
	} else {
		for _, a := range fr.nonceBumps {
			l.keptNonce[a]++
		}
		for _, id := range fr.effects {
			l.keptEffs[id] = true
		}
		for _, a := range append(fr.touches, fr.att.to) {
			l.keptTouch[a] = true
		}
	}
}

func (l *frameLogger) CaptureEnd(output []byte, gasUsed uint64, err error) {
	l.exitFrame(output, gasUsed, err)
	l.events = append(l.events, fmt.Sprintf("end(%s,%s,%s)", xbytes(output), hexU64(gasUsed), ferr(err)))
}
func (l *frameLogger) CaptureExit(output []byte, gasUsed uint64, err error) {
	l.exitFrame(output, gasUsed, err)
	l.events = append(l.events, fmt.Sprintf("exit(%s,%s,%s)", xbytes(output), hexU64(gasUsed), ferr(err)))
}

func (l *frameLogger) CaptureFault(pc uint64, op vm.OpCode, gas, cost uint64, scope *vm.ScopeContext, depth int, err error) {
	if depth != len(l.stack) {
		return
	}
	fr := l.top()
	if !fr.entered {
		l.emitEnter(fr.att, fr.att.gas, true, fr, nil, 0, nil)
		fr.entered = true
	}
	fr.steps++
	fr.jpLast = len(frameJPLog)
	fr.fault, fr.faultGas = err, scope.Contract.Gas
	if err != vm.ErrExecutionReverted {
		// the faulting instruction had no effect
		fr.pendEffect, fr.pendJournal, fr.pendCall, fr.pendJAttr = nil, nil, nil, nil
	}
}

func (l *frameLogger) CaptureState(pc uint64, op vm.OpCode, gas, cost uint64, scope *vm.ScopeContext, rData []byte, depth int, err error) {
	fr := l.onStepBoundary(depth)
	if fr == nil {
		return
	}
	l.flushPending(fr, false)
	if fr.steps == 0 {
		l.started = append(l.started, fmt.Sprintf("%s:%s", hexAddr(fr.att.to), hexU64(gas)))
		fr.jpFirst, fr.firstGas = len(frameJPLog), gas
	}
	fr.jpLast = len(frameJPLog)
	fr.steps++
	if err != nil {
		// logged from the error path without a preceding CaptureState: the instruction faulted before executing
		fr.fault, fr.faultGas = err, scope.Contract.Gas
		fr.lastAttempt = nil
		return
	}
	if a := fr.lastAttempt; a != nil {
		a.netKnown, a.netGas = true, int64(gas)-int64(a.stepGas-a.stepCost)
		fr.lastAttempt = nil
	}
	st := scope.Stack.Data()
	arg := func(i int) *uint256.Int { // i-th from the top
		if len(st) > i {
			return &st[len(st)-1-i]
		}
		return new(uint256.Int)
	}
	mem := scope.Memory.Data()
	self := scope.Contract.Address()
	fr.lastOp, fr.lastGas = byte(op), scope.Contract.Gas
	switch {
	case op == vm.SSTORE:
		id := arg(0).Uint64()
		if id <= 3 {
			break // a write to one of the journaled variables: not one of the tracked effects
		}
		fr.pendEffect = &id
	case op == vm.RETURN || op == vm.REVERT:
		fr.lastRet = memSlice(mem, arg(0).Uint64(), arg(1).Uint64())
	case op == vm.VSVJNAL:
		ptr := arg(0).Uint64()
		n := new(uint256.Int).SetBytes(memSlice(mem, ptr, 32)).Uint64()
		name := memSlice(mem, ptr+32, n)
		fr.pendJournal = []string{fmt.Sprintf("jkey - %s %s %s 0 %s", hexNatU(arg(1)), hexNatU(arg(2)), hexNatU(arg(3)), hexBytes(name))}
		l.journaled[fmt.Sprintf("%s %s %s", hexNatU(arg(1)), hexNatU(arg(2)), hexNatU(arg(3)))] = true
	case op == vm.VVJNAL:
		off, size := arg(1).Uint64(), arg(2).Uint64()
		w := l.db.GetState(self, arg(0).Bytes32())
		if off <= 31 && size <= 32-off {
			fr.pendJournal = []string{fmt.Sprintf("jchange %s %s %s %s", hexNatU(arg(0)), hexNatU(arg(1)), hexNatU(arg(3)), hexBytes(w[32-off-size:32-off]))}
			idx := -1
			for i := len(l.stack) - 1; i >= 0; i-- {
				if l.stack[i].nodeIdx >= 0 {
					idx = l.stack[i].nodeIdx
					break
				}
			}
			fr.pendJAttr = &jattr{acct: self, key: fmt.Sprintf("%s %s %s", hexNatU(arg(0)), hexNatU(arg(1)), hexNatU(arg(3))),
				val: append([]byte{}, w[32-off-size:32-off]...), idx: idx}
		}
	case op == vm.CALL || op == vm.CALLCODE:
		a := &attempt{kind: kindOfOp(op), caller: self, to: common.Address(arg(1).Bytes20()), value: arg(2).ToBig(),
			input: memSlice(mem, arg(3).Uint64(), arg(4).Uint64())}
		if a.input == nil {
			a.input = []byte{}
		}
		l.factsFor(a)
		a.stepGas, a.stepCost = gas, cost
		fr.pendCall, fr.lastAttempt = a, a
	case op == vm.DELEGATECALL || op == vm.STATICCALL:
		a := &attempt{kind: kindOfOp(op), caller: self, to: common.Address(arg(1).Bytes20()), value: new(big.Int),
			input: memSlice(mem, arg(2).Uint64(), arg(3).Uint64())}
		if a.input == nil {
			a.input = []byte{}
		}
		l.factsFor(a)
		a.stepGas, a.stepCost = gas, cost
		fr.pendCall, fr.lastAttempt = a, a
	case op == vm.CREATE || op == vm.CREATE2:
		init := memSlice(mem, arg(1).Uint64(), arg(2).Uint64())
		if init == nil {
			init = []byte{}
		}
		a := &attempt{kind: kindOfOp(op), caller: self, value: arg(0).ToBig(), input: init}
		if op == vm.CREATE {
			a.to = crypto.CreateAddress(self, l.db.GetNonce(self))
		} else {
			a.to = crypto.CreateAddress2(self, arg(3).Bytes32(), crypto.Keccak256(init))
		}
		l.factsFor(a)
		a.stepGas, a.stepCost = gas, cost
		fr.pendCall, fr.lastAttempt = a, a
	}
}

// ---------------------------------------------------------------- program generator

type fact struct {
	kind string // "sstore", "journal", "sub", "create"
	id   uint64
	slot uint64
	sub  *fsub
}

type fsub struct {
	op               byte
	target           string // "code", "eoa", "none", "precompile"
	addr             common.Address
	value            int // 0, 1, -1 = more than the balance
	argsOff, argsLen int
	retOff, retLen   int
	gas              uint64 // 0 = all
	body             []fact
	end              byte
	endLen           int
	overwrite        bool // store over the argument area after the call returned
	salt             uint64
	runtime          []byte // creates: what the init code returns
	emptyInit        bool   // creates: no init code at all (the interpreter returns at once; the account is created with no code)
	aspect           *aspectScript
}

type fgen struct {
	r        *Rng
	nextID   uint64
	nextAcc  int
	codes    map[common.Address][]byte
	blobs    map[common.Address][]byte
	eoas     []common.Address
	aspects  map[common.Address]*aspectScript
	creates  int
	standard bool // standard opcodes only: LOGs instead of journal instructions, no Aspects
	efCodes  bool // London rules apply: make creations that succeed up to returning 0xEF-prefixed code frequent (EIP-3541)
}

func (g *fgen) newAddr(prefix byte) common.Address {
	g.nextAcc++
	return common.BytesToAddress([]byte{prefix, byte(g.nextAcc >> 8), byte(g.nextAcc)})
}

func (g *fgen) outcome() jpOutcome {
	o := jpOutcome{}
	switch g.r.Intn(10) {
	case 0, 1, 2, 3:
		o.burn = []uint64{0, 1, 777, 5000}[g.r.Intn(4)]
	case 4:
		o.burn = 1 << 40 // more than available
	case 5:
		o.err, o.burn = "revert", uint64(g.r.Intn(500))
		o.ret = []byte{0xde, 0xad}
	case 6:
		o.err, o.burn = "oog", uint64(g.r.Intn(500))
	case 7:
		o.err, o.burn = "generic", uint64(g.r.Intn(500))
	case 8:
		o.err, o.burn = "aspectrevert", uint64(g.r.Intn(500))
	default:
		o.ret = []byte{1, 2, 3}
	}
	return o
}

func (g *fgen) genBody(depth int) []fact {
	n := 1 + g.r.Intn(5)
	var out []fact
	for i := 0; i < n; i++ {
		switch k := g.r.Intn(100); {
		case k < 25:
			g.nextID++
			out = append(out, fact{kind: "sstore", id: 0x10000 + g.nextID})
		case k < 45:
			if g.standard {
				g.nextID++
				out = append(out, fact{kind: "log", id: g.nextID})
			} else {
				f := fact{kind: "journal", slot: uint64(1 + g.r.Intn(3))}
				if g.r.Chance(60) {
					// write the variable first, so that what is journaled is what storage holds now - also after a nested frame
					// wrote it and was rolled back
					g.nextID++
					f.id = 1 + g.nextID%250
				}
				out = append(out, f)
			}
		case k < 88 && depth < 4:
			out = append(out, fact{kind: "sub", sub: g.genSub(depth+1, false)})
		case k < 97 && depth < 3 && g.creates < 3:
			g.creates++
			cs := g.genSub(depth+1, true)
			out = append(out, fact{kind: "create", sub: cs})
			if cs.emptyInit && !g.standard && g.r.Chance(70) {
				// a journaled change of the creating frame right after a creation whose interpreter run ended at once
				g.nextID++
				out = append(out, fact{kind: "journal", slot: uint64(1 + g.r.Intn(3)), id: 1 + g.nextID%250})
			}
		default:
			g.nextID++
			out = append(out, fact{kind: "sstore", id: 0x10000 + g.nextID})
		}
	}
	return out
}

func (g *fgen) genSub(depth int, create bool) *fsub {
	s := &fsub{}
	s.value = []int{0, 0, 0, 1, 1, -1}[g.r.Intn(6)]
	s.end = []byte{opSTOP, opSTOP, opRETURN, opRETURN, opREVERT, opINVALID}[g.r.Intn(6)]
	s.endLen = []int{0, 4, 32, 40}[g.r.Intn(4)]
	s.gas = []uint64{0, 3_000_000, 400_000, 60_000, 8_000}[depth]
	if g.r.Chance(15) {
		s.gas = 0
	}
	if create {
		s.op = []byte{opCREATE, opCREATE2}[g.r.Intn(2)]
		s.salt = uint64(g.r.Intn(2))  // few salts: CREATE2 collisions happen
		s.body = g.genBody(depth + 2) // shallow init code
		// runtime code returned by the init code: empty, tiny, 0xEF-prefixed, or large enough (600 / 20000 zero bytes = 120k / 4M gas of
		// code deposit) that a creation inside a gas-limited frame fails at the deposit, after the init code ran
		s.runtime = [][]byte{{}, {0x00}, {0x60, 0x00}, {0xef, 0x00}, make([]byte, 600), make([]byte, 20000), make([]byte, 24577), make([]byte, 600), make([]byte, 20000)}[g.r.Intn(9)] // 24577 exceeds MaxCodeSize
		s.end = []byte{opRETURN, opRETURN, opRETURN, opREVERT, opINVALID, opSTOP}[g.r.Intn(6)]
		if g.efCodes && g.r.Chance(30) {
			// the init code runs to its end, with whatever it did and the endowment it got, and only then is the creation
			// rejected for the first byte of what it returned: everything of that frame has to be undone like any other failure
			s.runtime, s.end = [][]byte{{0xef}, {0xef, 0x00}, {0xef, 0x01, 0x02}}[g.r.Intn(3)], opRETURN
			s.value = []int{0, 1, 1}[g.r.Intn(3)]
		}
		if g.r.Chance(20) {
			s.emptyInit, s.body, s.end, s.runtime = true, nil, opSTOP, nil
		}
		s.addr = g.newAddr(0xb0) // blob holding the init code
		return s
	}
	s.op = []byte{opCALL, opCALL, opCALL, opCALLCODE, opDELEGATECALL, opSTATICCALL}[g.r.Intn(6)]
	s.target = []string{"code", "code", "code", "code", "code", "eoa", "none", "precompile", "precompile"}[g.r.Intn(9)]
	s.argsOff, s.argsLen = []int{0, 0, 32, 64}[g.r.Intn(4)], []int{0, 4, 32, 36, 64}[g.r.Intn(5)]
	s.retOff, s.retLen = []int{0, 0, 32, 96}[g.r.Intn(4)], []int{0, 32, 64}[g.r.Intn(3)]
	s.overwrite = g.r.Chance(50)
	switch s.target {
	case "code":
		s.addr = g.newAddr(0xc0)
		s.body = g.genBody(depth)
		if s.op == opCALL && !g.standard && g.r.Chance(55) {
			s.aspect = &aspectScript{pre: g.outcome(), post: g.outcome()}
			g.aspects[s.addr] = s.aspect
		}
	case "eoa":
		s.addr = g.newAddr(0xe0)
		g.eoas = append(g.eoas, s.addr)
	case "none":
		s.addr = g.newAddr(0xd0)
	case "precompile":
		s.addr = common.BytesToAddress([]byte{4})
		if g.r.Chance(30) {
			s.addr = common.BytesToAddress([]byte{2})
		} else if g.r.Chance(55) {
			// precompiles that FAIL on the argument pattern (point not on the curve, bad input length): a failing precompile
			// frame - half of the time reached by a CALL that carries value, so that there is something to roll back
			s.addr = common.BytesToAddress([]byte{[]byte{6, 7, 9, 9}[g.r.Intn(4)]})
			if s.argsLen == 0 {
				s.argsLen = 36
			}
			if g.r.Bool() {
				s.op, s.value = opCALL, 1
			}
		}
		if g.r.Chance(30) {
			// a precompile frame that fails for want of gas, whatever the call kind: its touch of the precompile's account (a
			// zero-value transfer, or STATICCALL's explicit touch) has to be undone with the rest of the frame
			s.gas = 1
		}
	}
	return s
}

var hugeValue = new(big.Int).Lsh(big.NewInt(1), 100)

func (g *fgen) compileBody(body []fact, end byte, endLen int, runtime []byte, isInit bool) []byte {
	a := &Asm{}
	for _, f := range body {
		switch f.kind {
		case "sstore":
			a.Op(opPUSH1, 1).PushU(f.id).Op(opSSTORE)
		case "log":
			a.PushU(f.id).PushU(0).PushU(0).Op(0xa1) // LOG1 with the id as topic
		case "journal":
			// (a store to the variable,) name "v" at 0x400, then VSVJNAL(ptr, slot, offset 0, type 7) and VVJNAL(slot, 0, 32, 7)
			if f.id != 0 {
				a.PushU(f.id).PushU(f.slot).Op(opSSTORE)
			}
			a.PushU(1).PushU(0x400).Op(opMSTORE)
			a.Op(opPUSH1, 'v').PushU(0x420).Op(0x53) // MSTORE8
			a.PushU(7).PushU(0).PushU(f.slot).PushU(0x400).Op(0xe1)
			a.PushU(7).PushU(32).PushU(0).PushU(f.slot).Op(0xe6)
		case "sub":
			s := f.sub
			if s.target == "code" {
				g.codes[s.addr] = g.compileBody(s.body, s.end, s.endLen, nil, false)
			}
			// arguments: a recognisable pattern in the argument area
			pat := make([]byte, 32)
			for i := range pat {
				pat[i] = byte(s.addr[19]) ^ byte(i*7+1)
			}
			a.PushBytes(pat).PushU(uint64(s.argsOff)).Op(opMSTORE)
			a.PushU(uint64(s.retLen)).PushU(uint64(s.retOff)).PushU(uint64(s.argsLen)).PushU(uint64(s.argsOff))
			if s.op == opCALL || s.op == opCALLCODE {
				switch s.value {
				case 0:
					a.PushU(0)
				case 1:
					a.PushU(1)
				default:
					a.PushBig(hugeValue)
				}
			}
			a.PushBytes(s.addr[:])
			if s.gas == 0 {
				a.Op(opGAS)
			} else {
				a.PushU(s.gas)
			}
			a.Op(s.op, opPOP)
			if s.overwrite {
				a.Push(new(uint256.Int).SetAllOne()).PushU(uint64(s.argsOff)).Op(opMSTORE)
			}
		case "create":
			s := f.sub
			init := g.compileBody(s.body, s.end, s.endLen, s.runtime, true)
			if s.emptyInit {
				init = []byte{}
			}
			g.blobs[s.addr] = init
			// EXTCODECOPY(blob, 0x600, 0, len)
			a.PushU(uint64(len(init))).PushU(0).PushU(0x600).PushBytes(s.addr[:]).Op(0x3c)
			if s.op == opCREATE2 {
				a.PushU(s.salt)
			}
			a.PushU(uint64(len(init))).PushU(0x600)
			switch s.value {
			case 0:
				a.PushU(0)
			case 1:
				a.PushU(1)
			default:
				a.PushBig(hugeValue)
			}
			a.Op(s.op, opPOP)
		}
	}
	switch end {
	case opSTOP:
		a.Op(opSTOP)
	case opRETURN, opREVERT:
		if isInit && end == opRETURN {
			// return the runtime code: store its bytes at 0x700
			for i, b := range runtime {
				if b != 0 || len(runtime) <= 2 {
					a.Op(opPUSH1, b).PushU(uint64(0x700 + i)).Op(0x53)
				}
			}
			a.PushU(uint64(len(runtime))).PushU(0x700).Op(opRETURN)
		} else {
			a.PushU(uint64(endLen)).PushU(0).Op(end)
		}
	default:
		a.Op(opINVALID)
	}
	return a.Bytes()
}

// ---------------------------------------------------------------- the real call tracers on real executions

// teeLogger hands every debug callback to the frame logger and to a real call tracer (tracers/native), and every Aspect callback
// — emitted by aspect-core's join-point manager around the mock Aspects — to that tracer; each callback is also written down as
// an `E` line, so that the Lean call-tracer machine runs on the very stream the real tracer saw.
type teeLogger struct {
	lg    *frameLogger
	tr    tracers.Tracer
	al    atypes.AspectLogger
	lines []string
}

func (t *teeLogger) CaptureTxStart(g uint64) { t.lg.CaptureTxStart(g); t.tr.CaptureTxStart(g) }
func (t *teeLogger) CaptureTxEnd(g uint64)   { t.lg.CaptureTxEnd(g); t.tr.CaptureTxEnd(g) }
func (t *teeLogger) CaptureStart(env *vm.EVM, from, to common.Address, create bool, input []byte, gas uint64, value *big.Int) {
	t.lines = append(t.lines, fmt.Sprintf("E start %s %s %s %s %s %s", hexAddr(from), hexAddr(to), b01(create), hexBytes(input), hexU64(gas), optBig(value)))
	t.tr.CaptureStart(env, from, to, create, input, gas, value)
	t.lg.CaptureStart(env, from, to, create, input, gas, value)
}
func (t *teeLogger) CaptureEnd(output []byte, gasUsed uint64, err error) {
	t.lines = append(t.lines, fmt.Sprintf("E end %s %s %s", hexBytes(output), hexU64(gasUsed), terr(err)))
	t.tr.CaptureEnd(output, gasUsed, err)
	t.lg.CaptureEnd(output, gasUsed, err)
}
func (t *teeLogger) CaptureEnter(typ vm.OpCode, from, to common.Address, input []byte, gas uint64, value *big.Int) {
	t.lines = append(t.lines, fmt.Sprintf("E enter %s %s %s %s %s %s", typ.String(), hexAddr(from), hexAddr(to), hexBytes(input), hexU64(gas), optBig(value)))
	t.tr.CaptureEnter(typ, from, to, input, gas, value)
	t.lg.CaptureEnter(typ, from, to, input, gas, value)
}
func (t *teeLogger) CaptureExit(output []byte, gasUsed uint64, err error) {
	t.lines = append(t.lines, fmt.Sprintf("E exit %s %s %s", hexBytes(output), hexU64(gasUsed), terr(err)))
	t.tr.CaptureExit(output, gasUsed, err)
	t.lg.CaptureExit(output, gasUsed, err)
}
func (t *teeLogger) CaptureState(pc uint64, op vm.OpCode, gas, cost uint64, scope *vm.ScopeContext, rData []byte, depth int, err error) {
	t.tr.CaptureState(pc, op, gas, cost, scope, rData, depth, err)
	t.lg.CaptureState(pc, op, gas, cost, scope, rData, depth, err)
}
func (t *teeLogger) CaptureFault(pc uint64, op vm.OpCode, gas, cost uint64, scope *vm.ScopeContext, depth int, err error) {
	t.tr.CaptureFault(pc, op, gas, cost, scope, depth, err)
	t.lg.CaptureFault(pc, op, gas, cost, scope, depth, err)
}
func (t *teeLogger) CaptureAspectEnter(jp atypes.JoinPointRunType, from, to, aspect common.Address, input []byte, gas uint64, value *big.Int, req proto.Message) {
	t.lines = append(t.lines, fmt.Sprintf("E aenter %x %s %s %s %s %s %s", int(jp), hexAddr(from), hexAddr(to), hexAddr(aspect), hexBytes(input), hexU64(gas), optBig(value)))
	t.al.CaptureAspectEnter(jp, from, to, aspect, input, gas, value, req)
}
func (t *teeLogger) CaptureAspectExit(jp atypes.JoinPointRunType, res *atypes.AspectExecutionResult) {
	t.lines = append(t.lines, fmt.Sprintf("E aexit %x %s %s %s", int(jp), hexU64(res.Gas), hexBytes(res.Ret), terr(res.Err)))
	t.al.CaptureAspectExit(jp, res)
}

// ---------------------------------------------------------------- one case

// deepCases: whether this case may be the depth-limit case (a self-calling contract down to the 1025th invocation: ~50 000 lines for
// the model to replay; a run of thousands of cases keeps them to its first 150)
var deepCases = true

func runFrameCase(r *Rng, em *Emitter, label string, tags string) {
	g := &fgen{r: r, codes: map[common.Address][]byte{}, blobs: map[common.Address][]byte{}, aspects: map[common.Address]*aspectScript{}}
	fork := []string{"Byzantium", "Istanbul", "Berlin", "London", "Shanghai", "Cancun", "Homestead"}[r.Intn(7)]
	if forkIndex(fork) < forkIndex("Byzantium") {
		fork = "Byzantium" // the generated programs use STATICCALL / REVERT
	}
	g.efCodes = forkIndex(fork) >= forkIndex("London")
	rootBody := g.genBody(0)
	rootEnd := []byte{opSTOP, opRETURN, opRETURN, opREVERT, opINVALID}[r.Intn(5)]
	root := common.BytesToAddress([]byte{0xc0, 0, 0})
	g.codes[root] = g.compileBody(rootBody, rootEnd, 36, nil, false)
	if r.Chance(50) {
		g.aspects[root] = &aspectScript{pre: g.outcome(), post: g.outcome()}
	}
	if r.Chance(3) && deepCases {
		// the depth limit: under Homestead rules (all gas may be forwarded) a contract that calls itself until the 1025th
		// invocation is refused; every level then makes one more call of another kind, which is refused as well
		fork = "Homestead"
		for k := range g.codes {
			delete(g.codes, k)
		}
		for k := range g.aspects {
			delete(g.aspects, k)
		}
		g.blobs, g.eoas = map[common.Address][]byte{}, nil
		a := &Asm{}
		a.Op(opPUSH1, 0, opPUSH1, 0, opPUSH1, 0, opPUSH1, 0, opPUSH1, 0, opADDRESS)
		a.PushU(2000).Op(opGAS, opSUB) // GAS - 2000
		a.Op(opCALL, opPOP)
		second := []byte{opCALLCODE, opDELEGATECALL, opCREATE}[r.Intn(3)]
		switch second {
		case opCREATE:
			a.Op(opPUSH1, 0, opPUSH1, 0, opPUSH1, 0, opCREATE, opPOP)
		case opDELEGATECALL:
			a.Op(opPUSH1, 0, opPUSH1, 0, opPUSH1, 0, opPUSH1, 0, opADDRESS).PushU(1000).Op(opDELEGATECALL, opPOP)
		default:
			a.Op(opPUSH1, 0, opPUSH1, 0, opPUSH1, 0, opPUSH1, 0, opPUSH1, 0, opADDRESS).PushU(1000).Op(opCALLCODE, opPOP)
		}
		a.Op(opSTOP)
		g.codes[root] = a.Bytes()
		em.Count("frame:depth-limit")
	}

	sdb := newStateDB()
	lg := &frameLogger{db: sdb, failedEffs: map[uint64]bool{}, keptEffs: map[uint64]bool{}, keptTouch: map[common.Address]bool{}, keptNonce: map[common.Address]uint64{}, journaled: map[string]bool{}, accounts: map[common.Address]bool{}, expAttr: map[string]map[uint64][][]byte{}}
	transfer := func(db vm.StateDB, from, to common.Address, amount *big.Int) {
		t := transferRec{from: from, to: to, amount: new(big.Int).Set(amount), bf: new(big.Int).Set(db.GetBalance(from)), bt: new(big.Int).Set(db.GetBalance(to))}
		doTransfer(db, from, to, amount)
		t.bfa, t.bta = new(big.Int).Set(db.GetBalance(from)), new(big.Int).Set(db.GetBalance(to))
		t.idx = lg.evm.Tracer().CurrentCallIndex()
		lg.transfers = append(lg.transfers, t)
	}
	// a real call tracer rides along (C19/C18 on real streams: the Aspect callbacks come from aspect-core, not from a generator)
	ctFlat, ctOnlyTop, ctIncl, ctParity := r.Chance(40), false, false, false
	ctName, ctCfg := "callTracer", `{}`
	if ctFlat {
		ctIncl, ctParity = r.Bool(), r.Chance(40)
		ctName, ctCfg = "flatCallTracer", fmt.Sprintf(`{"includePrecompiles":%v,"convertParityErrors":%v}`, ctIncl, ctParity)
	} else if r.Chance(20) {
		ctOnlyTop = true
		ctCfg = `{"onlyTopCall":true}`
	}
	realTr, terrNew := tracers.DefaultDirectory.New(ctName, &tracers.Context{}, json.RawMessage(ctCfg))
	if terrNew != nil {
		panic(terrNew)
	}
	realAl, _ := realTr.(atypes.AspectLogger)
	tee := &teeLogger{lg: lg, tr: realTr, al: realAl}
	env := newEnv(fork, tee, nil, sdb, transfer)
	lg.evm = env.evm
	fi := forkIndex(fork)
	lg.rules = map[string]string{"e158": b01(fi >= 3), "hs": b01(fi >= 1), "ber": b01(fi >= 8), "lon": b01(fi >= 9)}
	initialBal := map[common.Address]*big.Int{callerAddr: big.NewInt(1_000_000)}
	initialNonce := map[common.Address]uint64{}
	codeAddrs := make([]common.Address, 0, len(g.codes))
	for a := range g.codes {
		codeAddrs = append(codeAddrs, a)
	}
	sort.Slice(codeAddrs, func(i, j int) bool { return hexAddr(codeAddrs[i]) < hexAddr(codeAddrs[j]) }) // random choices below: fixed order
	for _, a := range codeAddrs {
		c := g.codes[a]
		sdb.CreateAccount(a)
		sdb.SetCode(a, c)
		sdb.AddBalance(a, big.NewInt(1000))
		initialBal[a] = big.NewInt(1000)
		if r.Chance(4) {
			sdb.SetNonce(a, ^uint64(0)) // a creator whose nonce cannot be incremented: its CREATEs are refused up front
			initialNonce[a] = ^uint64(0)
		}
	}
	for _, a := range g.eoas {
		initialBal[a] = big.NewInt(5)
	}
	for a, c := range g.blobs {
		sdb.CreateAccount(a)
		sdb.SetCode(a, c)
	}
	for _, a := range g.eoas {
		sdb.AddBalance(a, big.NewInt(5))
	}
	sdb.AddBalance(callerAddr, big.NewInt(1_000_000))
	// accounts that exist but are empty (no balance, nonce or code) at the precompile addresses the programs call: the end-of-
	// transaction clean-up removes an empty account only if the transaction touched it, and a touch made by a failed frame is undone
	var emptyPre []common.Address
	if r.Chance(60) {
		for _, b := range []byte{2, 4, 6, 7, 9} {
			a := common.BytesToAddress([]byte{b})
			sdb.CreateAccount(a)
			emptyPre = append(emptyPre, a)
		}
	}
	sdb.Finalise(false) // the pre-state is what a previous block left: nothing of it counts as touched by this transaction
	if env.rules.IsBerlin {
		sdb.AddAddressToAccessList(root)
	}
	frameAspects = g.aspects
	frameJPLog = nil
	curHandler = frameAspectHandler
	curProvider = func(ctx context.Context, c common.Address, pc atypes.PointCut) ([]*atypes.AspectCode, error) {
		if _, ok := frameAspects[c]; ok {
			return []*atypes.AspectCode{{AspectId: "0x" + hexAddr(c), Version: 1, Code: aspectCodeFor(byte(c[19]))}}, nil
		}
		return nil, nil
	}
	jpOn := r.Chance(85)
	lg.jpOn = jpOn
	if jpOn {
		env.evm.AspectCall()
	} else {
		env.evm.CloseAspectCall()
	}
	em.Reset(label)
	rounds := 1
	if r.Chance(25) {
		rounds = 2 // repeated top-level invocations on one EVM
	}
	panicked := ""
	for round := 0; round < rounds; round++ {
		input := r.Bytes([]int{0, 4, 36}[r.Intn(3)])
		value := big.NewInt(int64([]int{0, 0, 3}[r.Intn(3)]))
		gas := uint64(30_000_000)
		if r.Chance(12) {
			// gas limits around and above 2^63 (the Aspect runtime meters in int64; vm/runtime's default limit is MaxUint64)
			gas = []uint64{1<<63 - 1, 1 << 63, 1<<63 + 12345, ^uint64(0), ^uint64(0) - 7}[r.Intn(5)]
		}
		a := &attempt{kind: "call", caller: callerAddr, to: root, value: value, input: input, gas: gas}
		lg.factsFor(a)
		lg.topAttempt = a
		func() {
			defer func() {
				if x := recover(); x != nil {
					panicked = fmt.Sprint(x)
				}
			}()
			env.evm.Call(context.Background(), vm.AccountRef(callerAddr), root, input, gas, value)
		}()
		if lg.topAttempt != nil {
			lg.emitEnter(a, gas, false, nil, nil, 0, nil)
			lg.topAttempt = nil
		}
		if panicked != "" {
			break
		}
	}
	for _, ln := range lg.lines {
		em.Op(ln[0], ln[1], "ok")
	}
	if panicked != "" {
		em.Op(tags, "Q depth", "panic:"+strings.ReplaceAll(panicked, " ", "_"))
		em.Count("frame:panic")
		return
	}
	if lg.desync != "" {
		// the step callbacks' depth and the frames the harness saw opened disagree: before blaming the harness, look at the EVM's
		// own depth counter, which must be back at rest after the transaction (C03)
		em.Op("C03", "S depth-at-rest", fmt.Sprint(reflect.ValueOf(env.evm).Elem().FieldByName("depth").Int()))
		em.Op("*", "Q depth", "harness-desync:"+strings.ReplaceAll(lg.desync, " ", "_"))
		return
	}
	// the real call tracer's result against the call-tracer machine run on the same callbacks (a tracer instance serves one
	// transaction: cases with a second top-level invocation on the same EVM are left out)
	if rounds == 1 {
		// the flat tracer filters calls to the precompiles active under the block's rules
		var pcs []string
		for _, a := range vm.ActivePrecompiles(env.rules) {
			pcs = append(pcs, hexAddr(a))
		}
		pl := "."
		if len(pcs) > 0 {
			pl = strings.Join(pcs, ",")
		}
		em.Op("-", fmt.Sprintf("EC %s %s %s %s %s", b01(ctFlat), b01(ctOnlyTop), b01(ctIncl), b01(ctParity), pl), "ok")
		for _, ln := range tee.lines {
			em.Op("-", ln, "ok")
		}
	}
	func() {
		if rounds != 1 {
			return
		}
		impl, inv := "", "ok"
		defer func() {
			if x := recover(); x != nil {
				impl = "panic"
			}
			if ctFlat {
				em.Op("C19,C03", "Q ctflat", impl)
				em.Op("C19", "S ctflatinv", inv)
			} else {
				em.Op("C19,C03,C18", "Q ctnested", impl)
			}
		}()
		raw, err := realTr.GetResult()
		if err != nil {
			impl = "err:" + strings.ReplaceAll(err.Error(), " ", "_")
			return
		}
		if ctFlat {
			var l []interface{}
			json.Unmarshal(raw, &l)
			impl, inv = canonFlat(l)
		} else {
			var m map[string]interface{}
			json.Unmarshal(raw, &m)
			impl = canonNested(m)
		}
	}()
	em.Count("frame:realtracer:" + ctName)
	it := &implTracer{t: env.evm.Tracer()}
	em.Op("C07,C08,C04,C06,C03", "Q tree", it.qTree())
	em.Op("C18,C06,C04,C03", "Q events", listStr(lg.events))
	jl := make([]string, len(frameJPLog))
	for i, r := range frameJPLog {
		jl[i] = r.line
	}
	em.Op("C05,C06", "Q jps", listStr(jl))
	em.Op("C06,C05", "Q started", listStr(lg.started))
	// surviving program effects: a key survives iff some account still holds it
	var alive []string
	ids := append([]uint64{}, lg.allEffects...)
	sort.Slice(ids, func(i, j int) bool { return ids[i] < ids[j] })
	seen := map[uint64]bool{}
	accts := make([]common.Address, 0, len(lg.accounts))
	for a := range lg.accounts {
		accts = append(accts, a)
	}
	sort.Slice(accts, func(i, j int) bool { return hexAddr(accts[i]) < hexAddr(accts[j]) })
	isAlive := func(id uint64) bool {
		for _, a := range accts {
			if sdb.GetState(a, common.BigToHash(new(big.Int).SetUint64(id))) != (common.Hash{}) {
				return true
			}
		}
		return false
	}
	for _, id := range ids {
		if !seen[id] && isAlive(id) {
			alive = append(alive, hexU64(id))
		}
		seen[id] = true
	}
	em.Op("C04", "Q world", listStr(alive))
	em.Op("C03,C07", "Q depth", hexU64(uint64(reflect.ValueOf(env.evm).Elem().FieldByName("depth").Int())))
	sc := env.evm.Tracer().StateChanges()
	// C13 specification (independent of the Lean model): the balance journal is exactly what the harness' own Transfer wrapper saw —
	// the true balances immediately before and after every transfer, under the call index current at that moment, repeats collapsed
	{
		shadow := map[common.Address]map[uint64][][]byte{}
		put := func(a common.Address, i uint64, v *big.Int) {
			if shadow[a] == nil {
				shadow[a] = map[uint64][][]byte{}
			}
			l := shadow[a][i]
			if len(l) == 0 || !bytes.Equal(l[len(l)-1], v.Bytes()) {
				shadow[a][i] = append(l, v.Bytes())
			}
		}
		for _, t := range lg.transfers {
			put(t.from, t.idx, t.bf)
			put(t.to, t.idx, t.bt)
			put(t.from, t.idx, t.bfa)
			put(t.to, t.idx, t.bta)
		}
		verdict := "match"
		for _, a := range accts {
			got, want := "none", "none"
			if b := sc.Balance(a); b != nil {
				got = showChangeMap(b.Changes())
			}
			if shadow[a] != nil {
				want = showChangeMap(shadow[a])
			}
			if got != want && verdict == "match" {
				verdict = fmt.Sprintf("differs:%s:journal=%s:observed=%s", hexAddr(a), got, want)
			}
		}
		em.Op("C13", "S balshadow", verdict)
	}
	for _, a := range accts {
		b := sc.Balance(a)
		ans := "nil-or-nokey"
		if b != nil {
			ans = showChangeMap(b.Changes())
		}
		em.Op("C13", "Q bal "+hexAddr(a), ans)
		jkeys := make([]string, 0, len(lg.journaled))
		for k := range lg.journaled {
			jkeys = append(jkeys, k)
		}
		sort.Strings(jkeys) // the harness itself must be deterministic: S det compares two runs line for line
		for _, k := range jkeys {
			f := strings.Fields(k)
			slot, _ := uint256.FromHex("0x" + f[0])
			off, _ := uint256.FromHex("0x" + f[1])
			typ, _ := uint256.FromHex("0x" + f[2])
			ch, err := sc.Slot(a, slot, off, typ.Bytes32())
			ans := "nil-or-nokey"
			if err != nil {
				ans = okErr(err)
			} else if ch != nil {
				ans = showChangeMap(ch.Changes())
			}
			em.Op("C10", fmt.Sprintf("Q slot %s %s %s %s", hexAddr(a), f[0], f[1], f[2]), ans)
		}
	}
	// ---- specification lines (independent of the Lean model)
	// C10: every journaled change is filed under the account whose storage the code operates on and under the index of the innermost
	// CALL/CREATE frame executing at that moment, in chronological order with immediate repeats collapsed; nothing else is filed there
	{
		keys := make([]string, 0, len(lg.expAttr))
		for k := range lg.expAttr {
			keys = append(keys, k)
		}
		sort.Strings(keys)
		verdict := "ok"
		sc := env.evm.Tracer().StateChanges()
		for _, k := range keys {
			f := strings.Fields(k)
			ab, _ := new(big.Int).SetString(f[0], 16)
			acct := common.BigToAddress(ab)
			slot, _ := uint256.FromHex("0x" + f[1])
			off, _ := uint256.FromHex("0x" + f[2])
			typ, _ := uint256.FromHex("0x" + f[3])
			ch, err := sc.Slot(acct, slot, off, typ.Bytes32())
			got := "none"
			if err == nil && ch != nil {
				got = showChangeMap(ch.Changes())
			}
			if want := showChangeMap(lg.expAttr[k]); got != want {
				verdict = fmt.Sprintf("misfiled:%s:recorded=%s:expected=%s", strings.ReplaceAll(k, " ", "/"), got, want)
				break
			}
		}
		em.Op("C10,C09", "S jattr", verdict)
		if len(keys) > 0 {
			em.Count("frame:journaled-variables-checked-for-attribution")
		}
	}
	// C04: nothing a failed frame (or anything below it) did survives; what succeeded all the way up does
	leaked, lost := []string{}, []string{}
	for id := range lg.failedEffs {
		if id < transferEffectBase && isAlive(id) && !lg.keptEffs[id] {
			leaked = append(leaked, hexU64(id))
		}
	}
	expBal := map[common.Address]*big.Int{}
	for a, b0 := range initialBal {
		expBal[a] = new(big.Int).Set(b0)
	}
	for id := range lg.keptEffs {
		if id >= transferEffectBase {
			t := lg.transfers[id-transferEffectBase]
			for _, a := range []common.Address{t.from, t.to} {
				if expBal[a] == nil {
					expBal[a] = new(big.Int)
				}
			}
			expBal[t.from].Sub(expBal[t.from], t.amount)
			expBal[t.to].Add(expBal[t.to], t.amount)
		} else if !isAlive(id) {
			lost = append(lost, hexU64(id))
		}
	}
	for _, a := range accts {
		want := expBal[a]
		if want == nil {
			want = new(big.Int)
		}
		if sdb.GetBalance(a).Cmp(want) != 0 {
			leaked = append(leaked, fmt.Sprintf("balance_of_%s_is_%s_expected_%s", hexAddr(a), sdb.GetBalance(a).Text(16), want.Text(16)))
		}
	}
	sort.Strings(leaked)
	sort.Strings(lost)
	v := "ok"
	if len(lg.jpIgnored) > 0 {
		v = lg.jpIgnored[0]
	} else if len(leaked)+len(lost) > 0 {
		v = "leaked=" + listStr(leaked) + "_lost=" + listStr(lost)
	}
	em.Op("C04", "S atomic", v)
	// C04 at the end of the transaction: an account that existed empty before, and to which no frame that succeeded all the way
	// up was ever addressed, was touched by failed frames at most and must survive the clean-up of touched empty accounts
	{
		keptTo := lg.keptTouch
		sdb.Finalise(true)
		gone := []string{}
		for _, a := range emptyPre {
			if !keptTo[a] && !sdb.Exist(a) {
				gone = append(gone, hexAddr(a))
			}
		}
		va := "ok"
		if len(gone) > 0 {
			va = "existed_empty_before_the_transaction_and_is_gone_although_no_frame_addressed_to_it_succeeded:" + listStr(gone)
		}
		em.Op("C04", "S atomic-accounts", va)
		// the nonce of an account that issues a creation is spent whatever becomes of the creation (an effect of the issuing
		// frame, made before the creation's frame exists), and is restored only with the issuing frame
		vn := "ok"
		for _, a := range append(append([]common.Address{}, codeAddrs...), callerAddr) {
			want := initialNonce[a] + lg.keptNonce[a]
			if got := sdb.GetNonce(a); got != want {
				vn = fmt.Sprintf("nonce_of_%s_is_%d_expected_%d_(%d_creations_issued_by_frames_that_succeeded)", hexAddr(a), got, want, lg.keptNonce[a])
				break
			}
		}
		em.Op("C04", "S atomic-nonces", vn)
	}
	em.Op("C07,C03", "S wf", checkTreeWF(env.evm.Tracer(), rounds, false))
	em.Op("C05", "S jp", lg.specJoinPoints())
	em.Op("C06", "S gas", lg.specGas())
	em.Op("C08", "S node", lg.specNodes())
	em.Op("C18", "S balanced", specBalancedEvents(lg.events))
	em.Count(fmt.Sprintf("frame:frames=%d", min(len(lg.started), 12)))
	em.Count(fmt.Sprintf("frame:jps=%d", min(len(frameJPLog), 8)))
	em.Count("frame:fork=" + fork)
}

// checkTreeWF evaluates C07's statement on the implementation's call tree through its exported accessors.
// checkTreeWF: the property's tree conditions on the real structure; topLevel is the number of invocations the host made
// (every one of them, and nothing else, is a node without parent)
func checkTreeWF(t *vm.Tracer, topLevel int, allowOpen bool) string {
	ct := t.CallTree()
	n := uint64(0)
	for ct.FindCall(n) != nil {
		n++
	}
	roots := 0
	for i := uint64(0); i < n; i++ {
		if ct.FindCall(i).Parent == nil {
			roots++
		}
	}
	if topLevel >= 0 && roots != topLevel {
		return fmt.Sprintf("%d_nodes_without_parent_for_%d_top_level_invocations", roots, topLevel)
	}
	if ct.Current() != nil && !allowOpen {
		return fmt.Sprintf("call_%d_left_open", ct.Current().Index)
	}
	for i := uint64(0); i < n; i++ {
		c := ct.FindCall(i)
		if c.Index != i {
			return fmt.Sprintf("lookup_%d_returns_index_%d", i, c.Index)
		}
		if c.Parent != nil {
			if c.Parent.Index >= i {
				return fmt.Sprintf("node_%d_parent_%d_not_smaller", i, c.Parent.Index)
			}
			cnt := 0
			for _, k := range c.Parent.Children {
				if k == c {
					cnt++
				}
			}
			if cnt != 1 {
				return fmt.Sprintf("node_%d_listed_%d_times", i, cnt)
			}
		}
		last := int64(-1)
		for _, k := range c.Children {
			if int64(k.Index) <= last {
				return fmt.Sprintf("children_of_%d_not_increasing", i)
			}
			last = int64(k.Index)
			if k.Parent != c {
				return fmt.Sprintf("child_%d_of_%d_has_other_parent", k.Index, i)
			}
		}
	}
	return "ok"
}

func driveFrame(seed uint64, n int, size int, em *Emitter) {
	r := NewRng(seed)
	initHost()
	for i := 0; i < n; i++ {
		cr := r.Fork()
		replay := *cr
		deepCases = i < 150
		ce, first := captureEmitter()
		runFrameCase(cr, ce, fmt.Sprintf("frame-%d-%d", seed, i), "*")
		for _, l := range *first {
			em.Op(l[0], l[1], l[2])
		}
		em.Merge(ce)
		// C16 at the level of whole call trees: the same transaction(s) on equal pre-state in a fresh EVM - results, call tree,
		// journal, balances, join-point log, callbacks, tracer output - line for line
		if i%5 == 0 {
			ce2, second := captureEmitter()
			runFrameCase(&replay, ce2, fmt.Sprintf("frame-%d-%d", seed, i), "*")
			v := "same"
			if len(*first) != len(*second) {
				v = fmt.Sprintf("differs:%d_lines_vs_%d", len(*first), len(*second))
				for k := 0; k < len(*first) && k < len(*second); k++ {
					if (*first)[k] != (*second)[k] {
						v += ":first_at_" + strings.ReplaceAll((*first)[k][1]+"=>"+(*first)[k][2]+"_VS_"+(*second)[k][1]+"=>"+(*second)[k][2], " ", "_")
						if len(v) > 400 {
							v = v[:400]
						}
						break
					}
				}
			} else {
				for k := range *first {
					if (*first)[k] != (*second)[k] {
						v = "differs:" + strings.ReplaceAll((*first)[k][1], " ", "_")
						if len(v) > 200 {
							v = v[:200]
						}
						break
					}
				}
			}
			em.Op("C16", "S det", v)
		}
	}
}

// ---------------------------------------------------------------- specification checkers (independent of the Lean model)

// interpResult: what interpreter.Run handed back for a frame that executed steps
func (fr *frec) interpResult() (ret []byte, err error, gasLeft uint64) {
	switch {
	case fr.fault == vm.ErrExecutionReverted:
		return fr.lastRet, fr.fault, fr.faultGas
	case fr.fault != nil:
		return nil, fr.fault, fr.faultGas
	case fr.lastOp == byte(vm.RETURN):
		return fr.lastRet, nil, fr.lastGas
	}
	return nil, nil, fr.lastGas
}

func (l *frameLogger) preOf(fr *frec) *jpRec {
	if fr.jpMark < len(frameJPLog) && fr.jpMark < fr.jpExit {
		if r := &frameJPLog[fr.jpMark]; r.point == string(atypes.PRE_CONTRACT_CALL_METHOD) && r.to == fr.att.to {
			return r
		}
	}
	return nil
}

func (l *frameLogger) eligible(fr *frec) bool {
	if !l.jpOn || !fr.accepted || fr.att.kind != "call" {
		return false
	}
	_, bound := frameAspects[fr.att.to]
	return bound && fr.att.facts["ce"] == "0" && !isActivePrecompile(l.evm, fr.att.to)
}

// C05: exactly one pre join point before the first instruction and one post join point after the last, with this
// call's data; none if the pre join point fails; none at all for frames that are not contract calls with a bound Aspect
func (l *frameLogger) specJoinPoints() string {
	for _, fr := range l.done {
		if !fr.accepted {
			continue
		}
		val := fr.att.value
		if val == nil {
			val = new(big.Int)
		}
		before := frameJPLog[fr.jpMark:fr.jpExit]
		if fr.jpFirst >= 0 {
			before = frameJPLog[fr.jpMark:fr.jpFirst]
		}
		var after []jpRec
		if fr.jpFirst >= 0 {
			after = frameJPLog[fr.jpLast:fr.jpExit]
		}
		if !l.eligible(fr) {
			for _, r := range append(append([]jpRec{}, before...), after...) {
				if r.to == fr.att.to {
					return fmt.Sprintf("join_point_fired_for_ineligible_%s_frame_to_%s", fr.att.kind, hexAddr(fr.att.to))
				}
			}
			continue
		}
		wantPre := fmt.Sprintf("pre(%s,%s,%s,%s,%s,%s)", hexAddr(fr.att.caller), hexAddr(fr.att.to), xbytes(fr.att.input), val.Text(16), hexU64(fr.suppliedGas), hexU64(uint64(fr.nodeIdx)))
		if len(before) != 1 || before[0].line != wantPre {
			got := []string{}
			for _, r := range before {
				got = append(got, r.line)
			}
			return fmt.Sprintf("pre_of_node_%d:want_%s_got_%s", fr.nodeIdx, wantPre, listStr(got))
		}
		if before[0].err != nil {
			if fr.steps != 0 || len(after) != 0 {
				return fmt.Sprintf("node_%d:code_or_post_ran_after_failed_pre", fr.nodeIdx)
			}
			continue
		}
		if fr.steps == 0 {
			return fmt.Sprintf("node_%d:code_did_not_run_after_successful_pre", fr.nodeIdx)
		}
		ret, ierr, gasLeft := fr.interpResult()
		em := "-"
		if ierr != nil {
			em = strings.ReplaceAll(ierr.Error(), " ", "_")
		}
		wantPost := fmt.Sprintf("post(%s,%s,%s,%s,%s,%s,%s,%s)", hexAddr(fr.att.caller), hexAddr(fr.att.to), xbytes(fr.att.input), val.Text(16), hexU64(gasLeft), hexU64(uint64(fr.nodeIdx)), xbytes(ret), em)
		if len(after) != 1 || after[0].line != wantPost {
			got := []string{}
			for _, r := range after {
				got = append(got, r.line)
			}
			return fmt.Sprintf("post_of_node_%d:want_%s_got_%s", fr.nodeIdx, wantPost, listStr(got))
		}
	}
	return "ok"
}

// expectedReturn: what the frame must hand back to its caller by C06's rules, from the join-point outcomes and the
// interpreter's own result
func (l *frameLogger) expectedReturn(fr *frec) (left uint64, err error, known bool) {
	if fr.steps == 0 && !l.eligible(fr) {
		return 0, nil, false // refused / precompile / no code: not a join-point matter
	}
	var final error
	gas := fr.suppliedGas
	if l.eligible(fr) {
		pre := l.preOf(fr)
		if pre == nil {
			return 0, nil, false
		}
		gas = pre.left
		if pre.err != nil {
			final = pre.err
			if final.Error() == vm.ErrOutOfGas.Error() {
				final = vm.ErrOutOfGas
			}
			if final == vm.ErrExecutionReverted {
				return gas, final, true
			}
			return 0, final, true
		}
	}
	if fr.steps == 0 {
		return 0, nil, false
	}
	_, ierr, gasLeft := fr.interpResult()
	final, gas = ierr, gasLeft
	if l.eligible(fr) && fr.jpExit > fr.jpLast {
		post := frameJPLog[fr.jpExit-1]
		gas = post.left
		if post.err != nil {
			final = post.err
			if final.Error() == vm.ErrOutOfGas.Error() {
				final = vm.ErrOutOfGas
			}
		}
	}
	if fr.att.kind == "create" || fr.att.kind == "create2" {
		return 0, nil, false // code-deposit rules are not C06's
	}
	if final != nil && final != vm.ErrExecutionReverted {
		gas = 0
	}
	return gas, final, true
}

// C06: the callee starts with what the pre join point left, the caller gets back what the post join point left,
// out-of-gas is normalised, other non-revert failures forfeit the gas, and no frame returns more than it was given
func (l *frameLogger) specGas() string {
	for _, fr := range l.done {
		if !fr.accepted {
			continue
		}
		if l.eligible(fr) && l.preOf(fr) == nil {
			return fmt.Sprintf("node_%d:pre_join_point_did_not_reach_the_bound_Aspect_(frame_error_%s)", fr.nodeIdx, ferr(fr.exitErr))
		}
		if l.eligible(fr) && fr.steps > 0 && fr.firstGas != l.preOf(fr).left {
			return fmt.Sprintf("node_%d:callee_started_with_%x_but_pre_join_point_left_%x", fr.nodeIdx, fr.firstGas, l.preOf(fr).left)
		}
		if !l.eligible(fr) && fr.steps > 0 && fr.firstGas != fr.suppliedGas {
			return fmt.Sprintf("%s_frame_to_%s_started_with_%x_of_%x", fr.att.kind, hexAddr(fr.att.to), fr.firstGas, fr.suppliedGas)
		}
		if fr.exitUsed > fr.suppliedGas {
			return fmt.Sprintf("frame_to_%s_returned_more_gas_than_supplied", hexAddr(fr.att.to))
		}
		if left, err, ok := l.expectedReturn(fr); ok {
			if fr.suppliedGas-fr.exitUsed != left {
				return fmt.Sprintf("frame_to_%s:returned_%x_expected_%x_(err_%s)", hexAddr(fr.att.to), fr.suppliedGas-fr.exitUsed, left, ferr(err))
			}
			if ferr(err) != ferr(fr.exitErr) {
				return fmt.Sprintf("frame_to_%s:error_%s_expected_%s", hexAddr(fr.att.to), ferr(fr.exitErr), ferr(err))
			}
			if err == vm.ErrOutOfGas && fr.exitErr != vm.ErrOutOfGas {
				// "surfaces as the EVM's own out-of-gas error": callers compare error values, not texts
				return fmt.Sprintf("frame_to_%s:out_of_gas_reported_with_a_foreign_error_value_instead_of_the_EVM's_own", hexAddr(fr.att.to))
			}
		}
	}
	return "ok"
}

// C08: every CALL / CREATE attempt appears once, in program order under the frame that issued it, with the inputs as
// made (bytes captured at the moment of the call) and the outcome as handed back
func (l *frameLogger) specNodes() string {
	ct := l.evm.Tracer().CallTree()
	n := 0
	for _, fr := range l.done {
		if fr.nodeIdx < 0 {
			continue
		}
		if fr.nodeIdx != n {
			return fmt.Sprintf("attempt_%d_recorded_as_node_%d", n, fr.nodeIdx)
		}
		n++
		c := ct.FindCall(uint64(fr.nodeIdx))
		if c == nil {
			return fmt.Sprintf("attempt_%d_(%s_to_%s)_has_no_node", fr.nodeIdx, fr.att.kind, hexAddr(fr.att.to))
		}
		val := fr.att.value
		if val == nil {
			val = new(big.Int)
		}
		isCreate := fr.att.kind != "call"
		switch {
		case c.From != fr.att.caller:
			return fmt.Sprintf("node_%d:from", fr.nodeIdx)
		case isCreate != (c.To == nil) || (!isCreate && *c.To != fr.att.to):
			return fmt.Sprintf("node_%d:to", fr.nodeIdx)
		case c.Value.ToBig().Cmp(val) != 0:
			return fmt.Sprintf("node_%d:value", fr.nodeIdx)
		case hexBytes(c.Data) != hexBytes(fr.att.input):
			return fmt.Sprintf("node_%d:data_recorded_%s_but_call_was_made_with_%s", fr.nodeIdx, hexBytes(c.Data), hexBytes(fr.att.input))
		case int(c.ParentIndex()) != fr.parentNode:
			return fmt.Sprintf("node_%d:parent_%d_expected_%d", fr.nodeIdx, c.ParentIndex(), fr.parentNode)
		}
		// leftover gas exactly as handed back to the caller - read off the ISSUING frame's own gas around the instruction, for
		// every attempt made by an instruction, accepted or refused up front
		if fr.att.netKnown {
			got := int64(c.RemainingGas)
			if isCreate && c.Gas != nil {
				got -= int64(c.Gas.Uint64()) // CREATE takes the supplied gas out of the frame inside the instruction
			}
			if got != fr.att.netGas {
				return fmt.Sprintf("node_%d:leftover_gas_recorded_%x_but_the_issuing_frame_got_%d_net_(%s)", fr.nodeIdx, c.RemainingGas, fr.att.netGas, ferr(c.Err))
			}
		}
		if fr.accepted {
			switch {
			case c.Gas.Uint64() != fr.suppliedGas:
				return fmt.Sprintf("node_%d:gas", fr.nodeIdx)
			case hexBytes(c.Ret) != hexBytes(fr.exitOut) || ferr(c.Err) != ferr(fr.exitErr) || c.RemainingGas != fr.suppliedGas-fr.exitUsed:
				return fmt.Sprintf("node_%d:outcome_recorded_(%s,%x,%s)_handed_back_(%s,%x,%s)", fr.nodeIdx, hexBytes(c.Ret), c.RemainingGas, ferr(c.Err),
					hexBytes(fr.exitOut), fr.suppliedGas-fr.exitUsed, ferr(fr.exitErr))
			}
		} else if c.Err == nil {
			return fmt.Sprintf("node_%d:refused_attempt_recorded_without_error", fr.nodeIdx)
		}
	}
	if ct.FindCall(uint64(n)) != nil {
		return fmt.Sprintf("node_%d_corresponds_to_no_attempt", n)
	}
	return "ok"
}

// C18: start/end and enter/exit stay balanced and properly nested
func specBalancedEvents(ev []string) string {
	var st []byte
	for _, e := range ev {
		switch {
		case strings.HasPrefix(e, "start("):
			if len(st) != 0 {
				return "start_inside_an_open_frame"
			}
			st = append(st, 's')
		case strings.HasPrefix(e, "enter("):
			if len(st) == 0 {
				return "enter_outside_a_transaction_frame"
			}
			st = append(st, 'e')
		case strings.HasPrefix(e, "end("):
			if len(st) != 1 || st[0] != 's' {
				return "end_does_not_close_the_outermost_frame"
			}
			st = st[:0]
		case strings.HasPrefix(e, "exit("):
			if len(st) < 2 || st[len(st)-1] != 'e' {
				return "exit_without_matching_enter"
			}
			st = st[:len(st)-1]
		}
	}
	if len(st) != 0 {
		return fmt.Sprintf("%d_frames_left_open", len(st))
	}
	return "ok"
}
