package main

// Fact extractor: regenerates Lean source under lean/Artela/Generated/ from /repo's current tree.

import (
	"os"
	"path/filepath"
)

func extractFacts(repo, out string) error {
	if err := os.MkdirAll(out, 0o755); err != nil {
		return err
	}
	// stale files are removed first
	old, _ := filepath.Glob(filepath.Join(out, "*.lean"))
	for _, f := range old {
		os.Remove(f)
	}
	return nil
}
