package main

import (
	"encoding/json"
	"flag"
	"fmt"
	"os"
)

func main() {
	if len(os.Args) < 2 {
		fmt.Fprintln(os.Stderr, "usage: harness <drive|extract> ...")
		os.Exit(2)
	}
	switch os.Args[1] {
	case "drive":
		fs := flag.NewFlagSet("drive", flag.ExitOnError)
		layer := fs.String("layer", "", "layer to drive")
		seed := fs.Uint64("seed", 1, "PRNG seed")
		n := fs.Int("n", 100, "number of cases")
		size := fs.Int("size", 40, "size parameter (history length, depth, …)")
		out := fs.String("out", "", "output file (op<TAB>impl per line)")
		stats := fs.String("stats", "", "stats json output")
		fs.Parse(os.Args[2:])
		em := NewEmitter(*out)
		switch *layer {
		case "tracer":
			driveTracer(*seed, *n, *size, em)
		case "conc":
			driveConc(*seed, *n, *size, em)
		case "diff":
			driveDiff(*seed, *n, *size, em)
		case "calltracer":
			driveCallTracer(*seed, *n, *size, em)
		case "frame":
			driveFrame(*seed, *n, *size, em)
		case "cancun":
			driveCancun(*seed, *n, *size, em)
		case "precompile":
			drivePrecompile(*seed, *n, *size, em)
		case "interp":
			driveInterp(*seed, *n, *size, em)
		case "journal":
			driveJournal(*seed, *n, *size, em, *size >= 100)
		default:
			fmt.Fprintln(os.Stderr, "unknown layer", *layer)
			os.Exit(2)
		}
		em.Close()
		if *stats != "" {
			b, _ := json.MarshalIndent(map[string]interface{}{"lines": em.Lines, "cases": em.Cases, "dist": em.Stats}, "", " ")
			os.WriteFile(*stats, b, 0o644)
		}
	case "extract":
		fs := flag.NewFlagSet("extract", flag.ExitOnError)
		repo := fs.String("repo", "/repo", "repository root")
		out := fs.String("out", "", "output directory for generated Lean files")
		fs.Parse(os.Args[2:])
		if err := extractFacts(*repo, *out); err != nil {
			fmt.Fprintln(os.Stderr, "extract:", err)
			os.Exit(1)
		}
	default:
		fmt.Fprintln(os.Stderr, "unknown command", os.Args[1])
		os.Exit(2)
	}
}
