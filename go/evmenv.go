package main

// Host wiring for driving the real EVM in-process: chain configs per fork, state, mock Aspect
// provider/runtime seeded into aspect-core's runtime pool (no WASM), host context callbacks.

import (
	"context"
	"crypto/sha1"
	"encoding/hex"
	"fmt"
	"math/big"
	"strings"
	"sync"

	"github.com/artela-network/artela-evm/vm"
	"github.com/artela-network/aspect-core/djpm"
	atypes "github.com/artela-network/aspect-core/types"
	rtypes "github.com/artela-network/aspect-runtime/types"
	"github.com/ethereum/go-ethereum/common"
	"github.com/ethereum/go-ethereum/core/state"
	"github.com/ethereum/go-ethereum/params"
)

var forkNames = []string{"Frontier", "Homestead", "TangerineWhistle", "SpuriousDragon", "Byzantium", "Constantinople",
	"Petersburg", "Istanbul", "Berlin", "London", "Merge", "Shanghai", "Cancun"}

func forkIndex(name string) int {
	for i, n := range forkNames {
		if n == name {
			return i
		}
	}
	panic("unknown fork " + name)
}

// forkConfig returns a chain config in which exactly the forks up to `name` are active at block 0 / time 0.
func forkConfig(name string) (*params.ChainConfig, bool) {
	i := forkIndex(name)
	z := func(k int) *big.Int {
		if i >= k {
			return new(big.Int)
		}
		return nil
	}
	c := &params.ChainConfig{ChainID: big.NewInt(1)}
	c.HomesteadBlock = z(1)
	c.EIP150Block = z(2)
	c.EIP155Block = z(3)
	c.EIP158Block = z(3)
	c.ByzantiumBlock = z(4)
	c.ConstantinopleBlock = z(5)
	c.PetersburgBlock = z(6)
	c.IstanbulBlock = z(7)
	c.MuirGlacierBlock = z(7)
	c.BerlinBlock = z(8)
	c.LondonBlock = z(9)
	merge := i >= 10
	if merge {
		c.TerminalTotalDifficulty = new(big.Int)
		c.TerminalTotalDifficultyPassed = true
	}
	if i >= 11 {
		t := uint64(0)
		c.ShanghaiTime = &t
	}
	if i >= 12 {
		t := uint64(0)
		c.CancunTime = &t
	}
	return c, merge
}

// ---- logger for aspect-core / aspect-runtime ----
type quietLogger struct{}

func (quietLogger) Debug(string, ...interface{})        {}
func (quietLogger) Info(string, ...interface{})         {}
func (quietLogger) Error(string, ...interface{})        {}
func (l quietLogger) With(...interface{}) rtypes.Logger { return l }

// ---- mock Aspect runtime ----

// aspectHandler is what a bound mock Aspect does at a join point.
type aspectHandler func(code []byte, pointcut string, gas int64, req []byte) (ret interface{}, leftover int64, err error)

var (
	hostMu       sync.Mutex
	hostInitDone bool
	curHandler   aspectHandler // set per case
	curProvider  func(ctx context.Context, contract common.Address, pc atypes.PointCut) ([]*atypes.AspectCode, error)
	hostCtxLog   []string         // log of host context callback invocations
	hostCtxFail  map[string]error // scripted failures of host callbacks, by callback name
	hostCtxRet   []byte
)

type mockRuntime struct{ code []byte }

func (m *mockRuntime) Call(method string, gas int64, args ...interface{}) (interface{}, int64, error) {
	pc, _ := args[0].(string)
	req, _ := args[1].([]byte)
	return curHandler(m.code, pc, gas, req)
}
func (m *mockRuntime) Destroy()                                                  {}
func (m *mockRuntime) Reset()                                                    {}
func (m *mockRuntime) ResetStore(context.Context, *rtypes.HostAPIRegistry) error { return nil }
func (m *mockRuntime) Context() context.Context                                  { return context.Background() }
func (m *mockRuntime) Logger() rtypes.Logger                                     { return quietLogger{} }

type mockProvider struct{}

func (mockProvider) GetTxBondAspects(ctx context.Context, c common.Address, pc atypes.PointCut) ([]*atypes.AspectCode, error) {
	if curProvider == nil {
		return nil, nil
	}
	return curProvider(ctx, c, pc)
}
func (mockProvider) GetAccountVerifiers(context.Context, common.Address) ([]*atypes.AspectCode, error) {
	return nil, nil
}
func (mockProvider) GetLatestBlock() int64 { return 1 }

var seededCodes = map[string]bool{}

// aspectCodeFor returns a (fake) Aspect code blob for an id and makes sure enough mock runtimes
// for it sit in aspect-core's runtime pool (so nested join points find one too).
func aspectCodeFor(id byte) []byte {
	code := []byte{0xA5, id}
	k := string(code)
	if !seededCodes[k] {
		seededCodes[k] = true
		h := sha1.New()
		h.Write([]byte{0}) // runtime.WASM
		h.Write(code)
		hash := hex.EncodeToString(h.Sum(nil))
		for i := 0; i < 40; i++ {
			key := fmt.Sprintf("mock%d-%d:%s", id, i, hash)
			atypes.RunnerPool(true).Return(key, &mockRuntime{code: code})
		}
	}
	return code
}

// hostRec: the host's scripted answers and its log for ONE execution, carried by that execution's context.Context, so that
// executions running at the same time do not share them (the package-level script/log serve the sequential layers)
type hostRec struct {
	log  []string
	ret  []byte
	fail map[string]error
}
type hostRecKey struct{}

func recOf(ctx context.Context) *hostRec {
	if ctx == nil {
		return nil
	}
	r, _ := ctx.Value(hostRecKey{}).(*hostRec)
	return r
}

func (h *hostRec) logStr() string {
	if len(h.log) == 0 {
		return "none"
	}
	return strings.ReplaceAll(strings.Join(h.log, "+"), " ", "_")
}

func initHost() {
	hostMu.Lock()
	defer hostMu.Unlock()
	if hostInitDone {
		return
	}
	hostInitDone = true
	djpm.NewAspect(mockProvider{}, quietLogger{})
	atypes.IsCommit = func(context.Context) bool { return true }
	atypes.InitRuntimePool(context.Background(), quietLogger{}, 4096, 16)
	atypes.GetAspectContext = func(ctx context.Context, id common.Address, key string) ([]byte, error) {
		if rec := recOf(ctx); rec != nil {
			rec.log = append(rec.log, "get "+hexAddr(id)+" "+hexBytes([]byte(key)))
			if e := rec.fail["get"]; e != nil {
				return nil, e
			}
			return rec.ret, nil
		}
		hostCtxLog = append(hostCtxLog, "get "+hexAddr(id)+" "+hexBytes([]byte(key)))
		if e := hostCtxFail["get"]; e != nil {
			return nil, e
		}
		return hostCtxRet, nil
	}
	atypes.SetAspectContext = func(ctx context.Context, id common.Address, key string, value []byte) error {
		if rec := recOf(ctx); rec != nil {
			rec.log = append(rec.log, "set "+hexAddr(id)+" "+hexBytes([]byte(key))+" "+hexBytes(value))
			return rec.fail["set"]
		}
		hostCtxLog = append(hostCtxLog, "set "+hexAddr(id)+" "+hexBytes([]byte(key))+" "+hexBytes(value))
		return hostCtxFail["set"]
	}
	atypes.JITSenderAspectByContext = func(ctx context.Context, h common.Hash) (common.Address, error) {
		if rec := recOf(ctx); rec != nil {
			rec.log = append(rec.log, "jit "+hexBytes(h[:]))
			if e := rec.fail["jit"]; e != nil {
				return common.Address{}, e
			}
			return common.BytesToAddress(rec.ret), nil
		}
		hostCtxLog = append(hostCtxLog, "jit "+hexBytes(h[:]))
		if e := hostCtxFail["jit"]; e != nil {
			return common.Address{}, e
		}
		return common.BytesToAddress(hostCtxRet), nil
	}
}

// ---- EVM environment ----

type Env struct {
	fork  string
	cfg   *params.ChainConfig
	db    *state.StateDB
	evm   *vm.EVM
	rules params.Rules
}

type transferHook func(db vm.StateDB, from, to common.Address, amount *big.Int)

func canTransfer(db vm.StateDB, addr common.Address, amount *big.Int) bool {
	return db.GetBalance(addr).Cmp(amount) >= 0
}
func doTransfer(db vm.StateDB, sender, recipient common.Address, amount *big.Int) {
	db.SubBalance(sender, amount)
	db.AddBalance(recipient, amount)
}

func newEnvDB(fork string, tracer vm.EVMLogger, extraEips []int, vdb vm.StateDB, db *state.StateDB) *Env {
	return newEnvFull(fork, tracer, extraEips, vdb, db, nil)
}

func newEnv(fork string, tracer vm.EVMLogger, extraEips []int, db *state.StateDB, transfer transferHook) *Env {
	if db == nil {
		db = newStateDB()
	}
	return newEnvFull(fork, tracer, extraEips, db, db, transfer)
}

func newEnvFull(fork string, tracer vm.EVMLogger, extraEips []int, vdb vm.StateDB, db *state.StateDB, transfer transferHook) *Env {
	initHost()
	cfg, merge := forkConfig(fork)
	if transfer == nil {
		transfer = doTransfer
	}
	var random *common.Hash
	if merge {
		h := common.Hash{1}
		random = &h
	}
	bctx := vm.BlockContext{
		CanTransfer: canTransfer,
		Transfer:    vm.TransferFunc(transfer),
		GetHash:     func(n uint64) common.Hash { return common.BigToHash(new(big.Int).SetUint64(n)) },
		Coinbase:    common.BytesToAddress([]byte{0xc0}),
		GasLimit:    30_000_000,
		BlockNumber: big.NewInt(1),
		Time:        1,
		Difficulty:  big.NewInt(1),
		BaseFee:     big.NewInt(7),
		Random:      random,
	}
	tctx := vm.TxContext{Origin: common.BytesToAddress([]byte{0xee}), GasPrice: big.NewInt(1)}
	e := vm.NewEVM(bctx, tctx, vdb, cfg, vm.Config{Tracer: tracer, ExtraEips: extraEips})
	rules := cfg.Rules(bctx.BlockNumber, random != nil, bctx.Time)
	if rules.IsBerlin {
		db.Prepare(rules, tctx.Origin, bctx.Coinbase, nil, vm.ActivePrecompiles(rules), nil)
	}
	return &Env{fork: fork, cfg: cfg, db: db, evm: e, rules: rules}
}
